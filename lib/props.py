"""Per-property configuration of the checks: runs (mode, profile, cases, extra harness args),
cone (function / op kinds whose correspondence matters for the property), projection
(state components compared), theorem names (for the evidence)."""

ALLOWED_AXIOMS = set()  # target: every property theorem is closed under the global context

CURSOR_FNS = ["Bs", "Cbt", "Cha", "Cht", "Cnl", "Cpl", "Cr", "Cub", "Cud", "Cuf", "Cup", "Cuu", "Ht",
              "Vpa", "Vpr", "Lf", "Nel", "Ri", "Decstbm", "Decset", "Decrst"]
SCROLL_FNS = ["Lf", "Nel", "Ri", "Su", "Sd", "Il", "Dl", "Decstbm", "Print", "Decset", "Decrst", "R"]
EDIT_FNS = ["Ed", "El", "Ech", "Ich", "Dch", "Decaln"]
PRINT_FNS = ["Print", "Rep", "So", "Si", "Gzd4", "G1d4"]
SAVE_FNS = ["Decsc", "Decrc", "Scosc", "Scorc", "Decset", "Decrst", "Decstr", "R"]
TAB_FNS = ["Ht", "Cht", "Cbt", "Hts", "Ctc", "Tbc", "R"]

PARSER_PROJ = ["parser.", "fn", "sweep."]
VIEW_PROJ = ["buf.view", "buf.wrap", "buf.nlines", "buf.scrollback", "buf.geom", "cursor", "panic."]


def runs(quick, thorough):
    return {"quick": quick, "thorough": thorough}



Q = ["--queries"]
ALLP = "ALL"


def T(profile, n, extra=()):
    return ("trace", profile, n, list(extra))


PROPS = {
    "C01": {
        "runs": runs(
            [T("exhaust2", 23232), T("general", 1500, Q), T("resize", 1200), T("alt", 900), T("parser", 900), T("scrollback", 600),
             ("chunk", "general", 450, []), ("stream", "scrollback", 450, []), ("dump", "general", 300, []),
             ("text", "general", 600, []), ("stress", "stress", 192, []), ("vsweep", "vsweep", 0, [])],
            [T("exhaust3", 1022208), T("general", 20000, Q), T("resize", 12000), T("alt", 8000), T("parser", 8000), T("scrollback", 4000),
             T("edit", 4000), T("scroll", 4000), T("save", 3000), T("tabs", 3000),
             ("chunk", "general", 4000, []), ("stream", "scrollback", 4000, []), ("dump", "general", 3000, []),
             ("text", "general", 5000, []), ("stress", "stress", 2000, []), ("vsweep", "vsweep", 0, [])]),
        "cone": ALLP, "proj": ["panic.", "hang."],
    },
    "C02": {
        "runs": runs([T("exhaust2", 23232), T("general", 1500, Q), T("resize", 1500), T("alt", 1500), T("save", 1500), T("print", 900)],
                     [T("exhaust3", 1022208), T("general", 20000, Q), T("resize", 15000), T("alt", 10000), T("scrollback", 5000), T("save", 8000),
                      T("print", 5000)]),
        "cone": ALLP, "proj": ["size", "buf.geom", "buf.nlines", "other.geom", "other.nlines", "cursor", "dirty_len",
                               "out.lines", "panic.", "public"],
    },
    "C03": {
        "runs": runs(
            [("sweep", "sweep", 0, []), ("vsweep", "vsweep", 0, []), T("parser", 3000), T("sgr", 1200)],
            [("sweep", "sweep", 0, []), ("vsweep", "vsweep", 0, []), T("parser", 30000), T("sgr", 10000), T("inert", 10000), T("general", 10000)]),
        "cone": ALLP,
        "proj": PARSER_PROJ,
        "exhaustive_sweep": True,
        "rule": "exhaustive sweep: 14 states x all 1,112,064 scalar values x 2-8 parameter backgrounds on the "
                "implementation, run-length encoded and compared with the regenerated table at every breakpoint; "
                "plus step-wise correspondence of Parser::feed (state, parameters, intermediate, emitted function) "
                "on generated streams; memorylessness and SGR decoding checked on the implementation",
    },
    "C04": {
        "runs": runs([T("exhaust2", 23232), T("print", 2700), T("general", 900), ("vsweep", "vsweep", 0, [])], [T("exhaust3", 1022208), T("print", 40000), T("general", 15000), T("resize", 8000), ("vsweep", "vsweep", 0, [])]),
        "cone": PRINT_FNS, "proj": VIEW_PROJ + ["charset", "modes", "pen"],
    },
    "C05": {
        "runs": runs([T("exhaust2", 23232), T("cursor", 2700), T("tabs", 900), T("alt", 600)], [T("exhaust3", 1022208), T("cursor", 40000), T("tabs", 12000), T("general", 12000)]),
        "cone": CURSOR_FNS, "proj": ["cursor", "margins", "modes", "buf.", "panic."],
    },
    "C06": {
        "runs": runs([T("exhaust2", 23232), T("scroll", 2700), T("scrollback", 900), T("alt", 900)], [T("exhaust3", 1022208), T("scroll", 40000), T("scrollback", 15000), T("general", 12000)]),
        "cone": SCROLL_FNS, "proj": VIEW_PROJ + ["margins"],
    },
    "C07": {
        "runs": runs([T("exhaust2", 23232), T("edit", 3000), T("general", 600)], [T("exhaust3", 1022208), T("edit", 40000), T("general", 12000)]),
        "cone": EDIT_FNS, "proj": VIEW_PROJ,
    },
    "C08": {
        "runs": runs([T("sgr", 3000), T("edit", 600), T("alt", 600)], [T("sgr", 40000), T("edit", 8000), T("general", 8000), T("alt", 8000)]),
        "cone": ["Sgr", "Print", "Decset", "Decrst", "Ris", "Decstr"] + EDIT_FNS + ["Su", "Sd", "Il", "Dl", "Lf", "Nel", "Ri"],
        "proj": ["pen", "fn", "buf.view", "panic."],
    },
    "C09": {
        "runs": runs([("text", "general", 4500, []), T("print", 900, Q)],
                     [("text", "general", 80000, []), T("print", 15000, Q), ("vsweep", "vsweep", 0, [])]),
        "cone": ["Print", "Cr", "Lf", "L", "Q", "text"], "proj": VIEW_PROJ + ["text", "out."],
    },
    "C10": {
        "runs": runs([T("resize", 4500)], [T("resize", 80000), T("alt", 15000)]),
        "cone": ["R"], "proj": ["buf.", "cursor", "size", "panic.", "out."],
    },
    "C11": {
        "runs": runs([("dump", "general", 1200, []), ("dump", "alt", 600, []), ("dump", "save", 600, []),
                      ("dump", "parser", 600, []), ("dump", "tabs", 300, []), T("general", 900, Q)],
                     [("dump", "general", 15000, []), ("dump", "alt", 8000, []), ("dump", "save", 8000, []),
                      ("dump", "tabs", 4000, []), ("dump", "parser", 6000, []), ("dump", "sgr", 3000, []), T("general", 12000, Q)]),
        "cone": ["dump", "Q"], "proj": ["dump", "panic."],
    },
    "C12": {
        "runs": runs([("chunk", "general", 1800, []), ("chunk", "parser", 900, []), ("chunk", "alt", 1200, []),
                      ("chunk", "scroll", 2700, []), ("chunk", "scrollback", 1500, []), ("vsweep", "vsweep", 0, [])],
                     [("chunk", "general", 25000, []), ("chunk", "parser", 12000, []), ("chunk", "alt", 12000, []),
                      ("chunk", "scroll", 25000, []), ("chunk", "scrollback", 12000, []), ("vsweep", "vsweep", 0, [])]),
        "cone": ["L"], "proj": ALLP,
    },
    "C13": {
        "runs": runs([T("scrollback", 2700), T("resize", 1200), T("alt", 600)],
                     [T("scrollback", 40000), T("resize", 20000), T("alt", 10000)]),
        "cone": ["L", "R"] + SCROLL_FNS, "proj": ["buf.nlines", "buf.trim", "buf.scrollback", "buf.limit", "out.", "panic."],
    },
    "C14": {
        "runs": runs([("stream", "scrollback", 2400, []), ("stream", "general", 1200, []), ("stream", "alt", 600, []),
                      T("scrollback", 900)],
                     [("stream", "scrollback", 40000, []), ("stream", "general", 20000, []), ("stream", "alt", 12000, []),
                      T("scrollback", 12000)]),
        "cone": ["L"] + SCROLL_FNS, "proj": ["out.drained", "buf.scrollback", "buf.nlines", "buf.trim", "panic."],
    },
    "C15": {
        "runs": runs([T("exhaust2", 23232), T("dirty", 2700), T("general", 900), T("resize", 600)],
                     [T("exhaust3", 1022208), T("dirty", 40000), T("general", 12000), T("resize", 10000), T("alt", 6000)]),
        "cone": ALLP, "proj": ["dirty_under", "dirty_len", "out.lines", "buf.view", "panic."],
    },
    "C16": {
        "runs": runs([T("exhaust2", 23232), T("alt", 3600)], [T("exhaust3", 1022208), T("alt", 50000), T("save", 10000), T("general", 10000)]),
        "cone": ALLP, "proj": ["other.", "buf.", "active", "sctx", "asctx", "cursor", "panic."],
    },
    "C17": {
        "runs": runs([T("exhaust2", 23232), T("save", 3600)], [T("exhaust3", 1022208), T("save", 50000), T("alt", 12000)]),
        "cone": SAVE_FNS, "proj": ["sctx", "asctx", "cursor", "pen", "modes", "active", "panic."],
    },
    "C18": {
        "runs": runs([T("tabs", 3600)], [T("tabs", 50000), T("resize", 10000)]),
        "cone": TAB_FNS, "proj": ["tabs", "cursor", "panic."],
    },
    "C19": {
        "runs": runs([T("reset", 3600)], [T("reset", 50000), T("general", 10000)]),
        "cone": ["Ris"], "proj": ALLP,
    },
    "C20": {
        "runs": runs([("sweep", "sweep", 0, []), T("inert", 3600), T("parser", 1200)],
                     [("sweep", "sweep", 0, []), ("vsweep", "vsweep", 0, []), T("inert", 50000), T("parser", 20000)]),
        "cone": ALLP, "proj": PARSER_PROJ + ["panic."],
        "exhaustive_sweep": True,
    },
}
