"""Per-property configuration of the checks: runs (mode, profile, cases, extra harness args),
cone (function / op kinds whose correspondence matters for the property), projection
(state components compared), theorem names (for the evidence)."""

ALLOWED_AXIOMS = set()  # target: every property theorem is closed under the global context

CURSOR_FNS = ["Bs", "Cbt", "Cha", "Cht", "Cnl", "Cpl", "Cr", "Cub", "Cud", "Cuf", "Cup", "Cuu", "Ht",
              "Vpa", "Vpr", "Lf", "Nel", "Ri", "Decstbm", "Decset", "Decrst"]
SCROLL_FNS = ["Lf", "Nel", "Ri", "Su", "Sd", "Il", "Dl", "Decstbm", "Print"]
EDIT_FNS = ["Ed", "El", "Ech", "Ich", "Dch", "Decaln"]
PRINT_FNS = ["Print", "Rep", "So", "Si", "Gzd4", "G1d4"]
SAVE_FNS = ["Decsc", "Decrc", "Scosc", "Scorc", "Decset", "Decrst", "Decstr", "R"]
TAB_FNS = ["Ht", "Cht", "Cbt", "Hts", "Ctc", "Tbc", "R"]

PARSER_PROJ = ["parser.", "fn", "sweep."]
VIEW_PROJ = ["buf.view", "buf.wrap", "buf.nlines", "buf.scrollback", "buf.geom", "cursor", "panic."]


def runs(quick, thorough):
    return {"quick": quick, "thorough": thorough}


PROPS = {
    "C03": {
        "runs": runs(
            [("sweep", "sweep", 0, []), ("trace", "parser", 1200, []), ("trace", "sgr", 300, [])],
            [("sweep", "sweep", 0, []), ("trace", "parser", 20000, []), ("trace", "sgr", 5000, []),
             ("trace", "inert", 5000, []), ("trace", "general", 5000, [])]),
        "cone": "ALL",
        "proj": PARSER_PROJ,
        "exhaustive_sweep": True,
        "theorems": ["C03_table", "C03_arms_wf"],
        "rule": "exhaustive sweep: 14 states x all 1,112,064 scalar values x 2-8 parameter backgrounds on the "
                "implementation, run-length encoded and compared with the regenerated table at every breakpoint; "
                "plus step-wise correspondence of Parser::feed (state, parameters, intermediate, emitted function) "
                "on generated streams",
    },
}
