"""Per-property configuration of the checks: runs (mode, profile, cases, extra harness args),
cone (function / op kinds whose correspondence matters for the property), projection
(state components compared), theorem names (for the evidence)."""

ALLOWED_AXIOMS = set()  # target: every property theorem is closed under the global context

CURSOR_FNS = ["Bs", "Cbt", "Cha", "Cht", "Cnl", "Cpl", "Cr", "Cub", "Cud", "Cuf", "Cup", "Cuu", "Ht",
              "Vpa", "Vpr", "Lf", "Nel", "Ri", "Decstbm", "Decset", "Decrst"]
SCROLL_FNS = ["Lf", "Nel", "Ri", "Su", "Sd", "Il", "Dl", "Decstbm", "Print"]
EDIT_FNS = ["Ed", "El", "Ech", "Ich", "Dch", "Decaln"]
PRINT_FNS = ["Print", "Rep", "So", "Si", "Gzd4", "G1d4"]
SAVE_FNS = ["Decsc", "Decrc", "Scosc", "Scorc", "Decset", "Decrst", "Decstr", "R"]
TAB_FNS = ["Ht", "Cht", "Cbt", "Hts", "Ctc", "Tbc", "R"]

PARSER_PROJ = ["parser.", "fn", "sweep."]
VIEW_PROJ = ["buf.view", "buf.wrap", "buf.nlines", "buf.scrollback", "buf.geom", "cursor", "panic."]


def runs(quick, thorough):
    return {"quick": quick, "thorough": thorough}



Q = ["--queries"]
ALLP = "ALL"


def T(profile, n, extra=()):
    return ("trace", profile, n, list(extra))


PROPS = {
    "C01": {
        "runs": runs(
            [T("general", 500, Q), T("resize", 400), T("alt", 300), T("parser", 300), T("scrollback", 200),
             ("chunk", "general", 150, []), ("stream", "scrollback", 150, []), ("dump", "general", 100, []),
             ("text", "general", 200, []), ("stress", "stress", 64, [])],
            [T("general", 20000, Q), T("resize", 12000), T("alt", 8000), T("parser", 8000), T("scrollback", 4000),
             T("edit", 4000), T("scroll", 4000), T("save", 3000), T("tabs", 3000),
             ("chunk", "general", 4000, []), ("stream", "scrollback", 4000, []), ("dump", "general", 3000, []),
             ("text", "general", 5000, []), ("stress", "stress", 2000, [])]),
        "cone": ALLP, "proj": ["panic.", "hang."],
        "theorems": [],
    },
    "C02": {
        "runs": runs([T("general", 500, Q), T("resize", 500), T("alt", 500), T("save", 500), T("print", 300)],
                     [T("general", 20000, Q), T("resize", 15000), T("alt", 10000), T("scrollback", 5000), T("save", 3000)]),
        "cone": ALLP, "proj": ["size", "buf.geom", "buf.nlines", "other.geom", "other.nlines", "cursor", "dirty_len",
                               "out.lines", "panic.", "public"],
    },
    "C03": {
        "runs": runs(
            [("sweep", "sweep", 0, []), T("parser", 1200), T("sgr", 300)],
            [("sweep", "sweep", 0, []), T("parser", 20000), T("sgr", 5000), T("inert", 5000), T("general", 5000)]),
        "cone": ALLP,
        "proj": PARSER_PROJ,
        "exhaustive_sweep": True,
        "rule": "exhaustive sweep: 14 states x all 1,112,064 scalar values x 2-8 parameter backgrounds on the "
                "implementation, run-length encoded and compared with the regenerated table at every breakpoint; "
                "plus step-wise correspondence of Parser::feed (state, parameters, intermediate, emitted function) "
                "on generated streams",
    },
    "C04": {
        "runs": runs([T("print", 900), T("general", 300)], [T("print", 30000), T("general", 10000), T("resize", 5000)]),
        "cone": PRINT_FNS, "proj": VIEW_PROJ + ["charset", "modes", "pen"],
    },
    "C05": {
        "runs": runs([T("cursor", 900), T("tabs", 300)], [T("cursor", 30000), T("tabs", 8000), T("general", 8000)]),
        "cone": CURSOR_FNS, "proj": ["cursor", "margins", "modes", "buf.", "panic."],
    },
    "C06": {
        "runs": runs([T("scroll", 900), T("scrollback", 300)], [T("scroll", 30000), T("scrollback", 10000), T("general", 8000)]),
        "cone": SCROLL_FNS, "proj": VIEW_PROJ + ["margins"],
    },
    "C07": {
        "runs": runs([T("edit", 1000), T("general", 200)], [T("edit", 30000), T("general", 8000)]),
        "cone": EDIT_FNS, "proj": VIEW_PROJ,
    },
    "C08": {
        "runs": runs([T("sgr", 1000), T("edit", 200)], [T("sgr", 30000), T("edit", 5000), T("general", 5000)]),
        "cone": ["Sgr", "Print"] + EDIT_FNS + ["Su", "Sd", "Il", "Dl"], "proj": ["pen", "fn", "buf.view", "panic."],
    },
    "C09": {
        "runs": runs([("text", "general", 1500, []), T("print", 300, Q)],
                     [("text", "general", 60000, []), T("print", 10000, Q)]),
        "cone": ["Print", "Cr", "Lf", "L", "Q", "text"], "proj": VIEW_PROJ + ["text", "out."],
    },
    "C10": {
        "runs": runs([T("resize", 1500)], [T("resize", 60000), T("alt", 10000)]),
        "cone": ["R"], "proj": ["buf.", "cursor", "size", "panic.", "out."],
    },
    "C11": {
        "runs": runs([("dump", "general", 400, []), ("dump", "alt", 200, []), ("dump", "save", 200, []), T("general", 300, Q)],
                     [("dump", "general", 12000, []), ("dump", "alt", 6000, []), ("dump", "save", 6000, []),
                      ("dump", "tabs", 3000, []), ("dump", "parser", 4000, []), T("general", 10000, Q)]),
        "cone": ["dump", "Q"], "proj": ["dump", "panic."],
    },
    "C12": {
        "runs": runs([("chunk", "general", 600, []), ("chunk", "parser", 300, []), ("chunk", "alt", 400, []),
                      ("chunk", "scroll", 900, []), ("chunk", "scrollback", 500, [])],
                     [("chunk", "general", 20000, []), ("chunk", "parser", 10000, []), ("chunk", "alt", 10000, []),
                      ("chunk", "scrollback", 10000, [])]),
        "cone": ["L"], "proj": ALLP,
    },
    "C13": {
        "runs": runs([T("scrollback", 900), T("resize", 400)], [T("scrollback", 30000), T("resize", 15000), T("alt", 8000)]),
        "cone": ["L", "R"] + SCROLL_FNS, "proj": ["buf.nlines", "buf.trim", "buf.scrollback", "buf.limit", "out.", "panic."],
    },
    "C14": {
        "runs": runs([("stream", "scrollback", 800, []), ("stream", "general", 400, []), T("scrollback", 300)],
                     [("stream", "scrollback", 30000, []), ("stream", "general", 15000, []), ("stream", "alt", 10000, []),
                      T("scrollback", 10000)]),
        "cone": ["L"] + SCROLL_FNS, "proj": ["out.drained", "buf.scrollback", "buf.nlines", "buf.trim", "panic."],
    },
    "C15": {
        "runs": runs([T("dirty", 900), T("general", 300)], [T("dirty", 30000), T("general", 10000), T("resize", 8000), T("alt", 5000)]),
        "cone": ALLP, "proj": ["dirty_under", "dirty_len", "out.lines", "buf.view", "panic."],
    },
    "C16": {
        "runs": runs([T("alt", 1200)], [T("alt", 40000), T("save", 8000), T("general", 8000)]),
        "cone": ALLP, "proj": ["other.", "buf.", "active", "sctx", "asctx", "cursor", "panic."],
    },
    "C17": {
        "runs": runs([T("save", 1200)], [T("save", 40000), T("alt", 10000)]),
        "cone": SAVE_FNS, "proj": ["sctx", "asctx", "cursor", "pen", "modes", "active", "panic."],
    },
    "C18": {
        "runs": runs([T("tabs", 1200)], [T("tabs", 40000), T("resize", 8000)]),
        "cone": TAB_FNS, "proj": ["tabs", "cursor", "panic."],
    },
    "C19": {
        "runs": runs([T("reset", 1200)], [T("reset", 40000), T("general", 8000)]),
        "cone": ["Ris"], "proj": ALLP,
    },
    "C20": {
        "runs": runs([("sweep", "sweep", 0, []), T("inert", 1200), T("parser", 400)],
                     [("sweep", "sweep", 0, []), T("inert", 40000), T("parser", 15000)]),
        "cone": ALLP, "proj": PARSER_PROJ + ["panic."],
        "exhaustive_sweep": True,
    },
}
