"""Check driver for the avt verification framework (see ../DESIGN.md section 8)."""
import fcntl
import hashlib
import json
import os
import re
import shutil
import subprocess
import sys
import time

ROOT = os.path.dirname(os.path.dirname(os.path.abspath(__file__)))
REPO = os.environ.get("AVT_REPO", "/repo")
COQ = os.path.join(ROOT, "coq")
WORK = os.path.join(ROOT, "work")
CACHE = os.path.join(ROOT, ".cache")
HARNESS = os.path.join(CACHE, "cargo-target", "release", "avt-harness")
DRIVER = os.path.join(ROOT, "driver", "avt-driver")
NPROC = min(16, os.cpu_count() or 4)

sys.path.insert(0, os.path.dirname(os.path.abspath(__file__)))
from props import PROPS, ALLOWED_AXIOMS  # noqa: E402


def log(*a):
    print("[check]", *a, file=sys.stderr, flush=True)


def run(cmd, timeout=None, cwd=None, env=None, stdin=None):
    e = dict(os.environ)
    e.update({"CARGO_NET_OFFLINE": "true"})
    if env:
        e.update(env)
    try:
        p = subprocess.run(cmd, cwd=cwd, env=e, stdout=subprocess.PIPE, stderr=subprocess.STDOUT,
                           timeout=timeout, input=stdin, text=True, errors="replace")
        return p.returncode, p.stdout
    except subprocess.TimeoutExpired as ex:
        out = ex.stdout or ""
        if isinstance(out, bytes):
            out = out.decode("utf-8", "replace")
        return 124, out + "\n[timeout after %ss]" % timeout


class Lock:
    def __enter__(self):
        os.makedirs(WORK, exist_ok=True)
        self.f = open(os.path.join(WORK, ".lock"), "w")
        fcntl.flock(self.f, fcntl.LOCK_EX)
        return self

    def __exit__(self, *a):
        fcntl.flock(self.f, fcntl.LOCK_UN)
        self.f.close()


# --------------------------------------------------------------------------------------
# stage 1: translate /repo/src -> coq/Gen
# --------------------------------------------------------------------------------------
def stage_translate(st, prop=None):
    """returns True when every generated file the property's theorems depend on was regenerated from the source"""
    gen = os.path.join(COQ, "Gen")
    code, out = run([sys.executable, os.path.join(ROOT, "translate", "avt2coq.py"),
                     os.path.join(REPO, "src"), gen], timeout=120)
    st["translate_output"] = out.strip()[-2000:]
    pinned = os.path.join(COQ, "GenPinned")
    failed = []
    if code == 3:
        # some translator units did not understand the source: only their files fall back to the pinned copies
        for l in out.splitlines():
            if l.startswith("FAILED-FILES:"):
                failed = l.split(":", 1)[1].split()
    elif code != 0:
        failed = [n for n in os.listdir(pinned) if n.endswith(".v")]
    for n in failed:
        # fall back to the pinned file so that the model still builds and the search for a
        # failing input can run against the implementation
        src, dst = os.path.join(pinned, n), os.path.join(gen, n)
        if os.path.exists(src) and (not os.path.exists(dst) or open(src).read() != open(dst).read()):
            shutil.copyfile(src, dst)
    st["translate_failed_files"] = failed
    relevant = failed
    if failed and prop and os.path.exists(os.path.join(COQ, "Properties/%s.v" % prop)):
        ensure_makefile()
        cone = set(dep_cone("Properties/%s.v" % prop))
        relevant = [n for n in failed if "Gen/" + n in cone]
    st["translate_failed_relevant"] = relevant
    st["translate_ok"] = not relevant
    # is the generated table set identical to the pinned one? (informational)
    diff = []
    pinned = os.path.join(COQ, "GenPinned")
    if os.path.isdir(pinned):
        for n in sorted(os.listdir(pinned)):
            a, b = os.path.join(pinned, n), os.path.join(gen, n)
            if n.endswith(".v") and (not os.path.exists(b) or open(a).read() != open(b).read()):
                diff.append(n)
    st["gen_differs_from_pinned"] = diff
    return not relevant


# --------------------------------------------------------------------------------------
# stage 2: proofs
# --------------------------------------------------------------------------------------
STATIC_BAD = re.compile(r"\b(Admitted|admit|Axiom|Axioms|Parameter|Parameters|Conjecture|Abort All|"
                        r"Unset Guard Checking|Unset Positivity Checking|Unset Universe Checking|"
                        r"bypass_check|Admit Obligations|type-in-type|impredicative-set)\b")


def strip_coq_comments(s):
    out, d, i = [], 0, 0
    while i < len(s):
        if s.startswith("(*", i):
            d += 1
            i += 2
        elif s.startswith("*)", i) and d > 0:
            d -= 1
            i += 2
        else:
            if d == 0:
                out.append(s[i])
            i += 1
    return "".join(out)


def coq_sources():
    res = []
    for l in open(os.path.join(COQ, "_CoqProject")):
        l = l.strip()
        if l.endswith(".v"):
            res.append(l)
    return res


def static_scan():
    bad = []
    for f in coq_sources():
        p = os.path.join(COQ, f)
        if not os.path.exists(p):
            continue
        txt = strip_coq_comments(open(p, encoding="utf-8").read())
        for m in STATIC_BAD.finditer(txt):
            bad.append("%s: %s" % (f, m.group(1)))
        # Variable / Hypothesis outside a section
        depth = 0
        for line in txt.splitlines():
            t = line.strip()
            if re.match(r"Section\s", t):
                depth += 1
            elif re.match(r"End\s", t) and depth > 0:
                depth -= 1
            elif depth == 0 and re.match(r"(Variable|Variables|Hypothesis|Hypotheses|Context)\b", t):
                bad.append("%s: %s outside a section" % (f, t.split()[0]))
    cp = open(os.path.join(COQ, "_CoqProject")).read()
    for flag in ("-type-in-type", "-impredicative-set", "-vos", "-vok"):
        if flag in cp:
            bad.append("_CoqProject: " + flag)
    return bad


def ensure_makefile():
    mk = os.path.join(COQ, "Makefile")
    cp = os.path.join(COQ, "_CoqProject")
    if not os.path.exists(mk) or os.path.getmtime(mk) < os.path.getmtime(cp):
        run(["coq_makefile", "-f", "_CoqProject", "-o", "Makefile"], cwd=COQ, timeout=120)


def dep_cone(target_v):
    """transitive dependencies (our own .v files) of a .v file, from coqdep"""
    code, out = run(["coqdep", "-Q", ".", "Avt"] + coq_sources(), cwd=COQ, timeout=120)
    deps = {}
    for line in out.splitlines():
        if ":" not in line:
            continue
        lhs, rhs = line.split(":", 1)
        tg = [x for x in lhs.split() if x.endswith(".vo")]
        if not tg:
            continue
        v = tg[0][:-1]
        deps[v] = [x[:-1] for x in rhs.split() if x.endswith(".vo") and not x.startswith("/")]
    seen, todo = set(), [target_v]
    while todo:
        v = todo.pop()
        if v in seen:
            continue
        seen.add(v)
        todo.extend(deps.get(v, []))
    return sorted(seen)


OBL = re.compile(r"^\s*(?:#\[[^\]]*\]\s*)?(?:Local\s+|Global\s+)?(Lemma|Theorem|Corollary|Example|Fact|Proposition|Remark)\s+([A-Za-z0-9_']+)", re.M)


def count_obligations(files):
    n, names = 0, []
    for f in files:
        p = os.path.join(COQ, f)
        if os.path.exists(p):
            txt = strip_coq_comments(open(p, encoding="utf-8").read())
            for m in OBL.finditer(txt):
                n += 1
                names.append(f + ":" + m.group(2))
    return n, names


def stage_proofs(prop, st, thorough=False):
    """build Properties/<prop>.vo (full .vo), re-run coqc on it capturing Check/Print Assumptions"""
    ensure_makefile()
    if not os.path.exists(os.path.join(COQ, "Properties/%s.v" % prop)):
        # no theorem file yet for this property: only the model build is needed (the check
        # then reports at level "exploration")
        code, out = run(["make", "-j%d" % NPROC, "Extract.vo"], cwd=COQ, timeout=3000)
        st["make_ok"] = code == 0
        st["no_theorems"] = True
        st["obligations"] = 0
        st["discharged"] = 0
        if code != 0:
            st["proof_error"] = out[-800:]
        return code == 0
    target = "Properties/%s.vo" % prop
    t0 = time.time()
    # the executable model first (so that the search for a failing input has the CURRENT tables even
    # when a proof breaks), then the property's theorems
    code0, out0 = run(["make", "-j%d" % NPROC, "Extract.vo"], cwd=COQ, timeout=3000)
    st["model_build_ok"] = code0 == 0
    code, out = run(["make", "-j%d" % NPROC, target], cwd=COQ, timeout=3000)
    if code0 != 0:
        code, out = code0, out0 + out
    st["make_s"] = round(time.time() - t0, 1)
    st["make_ok"] = code == 0
    st["make_tail"] = out[-3000:]
    cone = dep_cone("Properties/%s.v" % prop)
    nob, names = count_obligations(cone)
    st["obligations"] = nob
    st["cone_files"] = cone
    if code != 0:
        # which files compiled?
        okf = [f for f in cone if os.path.exists(os.path.join(COQ, f + "o"))
               and os.path.getmtime(os.path.join(COQ, f + "o")) >= os.path.getmtime(os.path.join(COQ, f))]
        st["discharged"] = count_obligations(okf)[0]
        m = re.search(r'File "([^"]+)", line (\d+)[^\n]*\n(?:.*\n)*?Error:?\s*([^\n]*(?:\n[^\n]+){0,3})', out)
        st["proof_error"] = ("%s line %s: %s" % (m.group(1), m.group(2), m.group(3).strip())) if m else out[-600:]
        return False
    st["discharged"] = nob
    # re-check the property file alone, capture its output
    os.makedirs(os.path.join(WORK, "recheck"), exist_ok=True)
    tmpo = os.path.join(WORK, "recheck", "%s.vo" % prop)
    code, out = run(["coqc", "-q", "-Q", ".", "Avt", "-w", "-notation-overridden,-ambiguous-paths,-deprecated-instance-without-locality",
                     "-o", tmpo, "Properties/%s.v" % prop], cwd=COQ, timeout=1200)
    for fn in os.listdir(os.path.join(WORK, "recheck")):
        if fn.startswith(prop + ".") or fn.startswith("." + prop + "."):
            try:
                os.remove(os.path.join(WORK, "recheck", fn))
            except OSError:
                pass
    st["recheck_ok"] = code == 0
    closed = out.count("Closed under the global context")
    axioms = []
    for m in re.finditer(r"Axioms:\n((?:.+\n?)+?)(?:\n|$)", out):
        for l in m.group(1).splitlines():
            mm = re.match(r"^([A-Za-z0-9_.']+)\s*:", l)
            if mm:
                axioms.append(mm.group(1))
    nprint = len(re.findall(r"^\s*Print Assumptions", open(os.path.join(COQ, "Properties/%s.v" % prop)).read(), re.M))
    st["print_assumptions"] = nprint
    st["theorem_names"] = re.findall(r"^Theorem\s+([A-Za-z0-9_']+)", open(os.path.join(COQ, "Properties/%s.v" % prop)).read(), re.M)
    st["closed"] = closed
    st["axioms"] = sorted(set(axioms))
    bad_ax = [a for a in set(axioms) if a not in ALLOWED_AXIOMS]
    st["bad_axioms"] = bad_ax
    ok = code == 0 and not bad_ax and nprint >= 1 and (closed + len(re.findall(r"Axioms:", out))) >= nprint
    if not ok:
        st["proof_error"] = "re-check of Properties/%s.v: rc=%s closed=%s/%s bad axioms=%s\n%s" % (
            prop, code, closed, nprint, bad_ax, out[-800:])
    scan = static_scan()
    st["static_scan"] = scan
    if scan:
        st["proof_error"] = "static scan: " + "; ".join(scan[:5])
        ok = False
    if thorough and ok:
        t0 = time.time()
        code, out = run(["coqchk", "-silent", "-o", "-Q", ".", "Avt", "Avt.Properties.%s" % prop], cwd=COQ, timeout=3000)
        st["coqchk_s"] = round(time.time() - t0, 1)
        st["coqchk_ok"] = code == 0
        st["coqchk_tail"] = out[-1500:]
        if code != 0:
            st["proof_error"] = "coqchk failed: " + out[-600:]
            ok = False
    return ok


# --------------------------------------------------------------------------------------
# stage 3: build extraction driver and the Rust harness against /repo's working tree
# --------------------------------------------------------------------------------------
def file_hash(p):
    return hashlib.sha256(open(p, "rb").read()).hexdigest() if os.path.exists(p) else ""


def stage_build(st):
    ok = True
    # extracted model -> driver
    changed = False
    for n in ("model.ml", "model.mli"):
        src, dst = os.path.join(COQ, n), os.path.join(ROOT, "driver", n)
        if os.path.exists(src) and file_hash(src) != file_hash(dst):
            shutil.copyfile(src, dst)
            changed = True
    srcs = ["model.mli", "model.ml", "conv.ml", "oracles_glue.ml", "main.ml"]
    ddir = os.path.join(ROOT, "driver")
    need = changed or not os.path.exists(DRIVER) or any(
        os.path.getmtime(os.path.join(ddir, s)) > os.path.getmtime(DRIVER) for s in srcs if os.path.exists(os.path.join(ddir, s)))
    if need:
        t0 = time.time()
        code, out = run(["ocamlfind", "ocamlopt", "-package", "unix", "-linkpkg", "-O2", "-w", "-a"] + srcs + ["-o", "avt-driver"], cwd=ddir, timeout=900)
        st["driver_build_s"] = round(time.time() - t0, 1)
        if code != 0:
            st["driver_error"] = out[-2000:]
            ok = False
    # harness (cargo decides what to rebuild from /repo's working tree)
    lock_src = os.path.join(REPO, "Cargo.lock")
    t0 = time.time()
    code, out = run(["cargo", "build", "--release", "--offline"], cwd=os.path.join(ROOT, "harness"), timeout=1800)
    st["harness_build_s"] = round(time.time() - t0, 1)
    if code != 0:
        st["harness_error"] = out[-3000:]
        ok = False
    return ok


# --------------------------------------------------------------------------------------
# stage 4: traces through the driver
# --------------------------------------------------------------------------------------
def shard_cmds(mode_args, seed, cases, outdir, tag):
    """split [cases] over NPROC shards; each shard pipes harness | driver"""
    per = max(1, (cases + NPROC - 1) // NPROC)
    cmds = []
    first = 0
    i = 0
    while first < cases:
        n = min(per, cases - first)
        out = os.path.join(outdir, "%s.%d.out" % (tag, i))
        cmd = "%s %s --seed %d --first %d --cases %d | %s /dev/stdin > %s" % (
            HARNESS, " ".join(mode_args), seed, first, n, DRIVER, out)
        cmds.append((cmd, out))
        first += n
        i += 1
    return cmds


def run_parallel(cmds, timeout):
    procs = []
    for cmd, out in cmds:
        procs.append((subprocess.Popen(["bash", "-c", "set -o pipefail; " + cmd], stderr=subprocess.PIPE, text=True), out, cmd))
    res = []
    deadline = time.time() + timeout
    for p, out, cmd in procs:
        try:
            _, err = p.communicate(timeout=max(1, deadline - time.time()))
            res.append((p.returncode, out, err, cmd))
        except subprocess.TimeoutExpired:
            p.kill()
            res.append((124, out, "timeout", cmd))
    return res


class Results:
    def __init__(self):
        self.divs = []      # dict(profile, seed, case, step, op, fn, comps, raw)
        self.oras = []      # dict(prop, profile, seed, case, step, fn, what)
        self.kfs = []       # dict(prop, id, profile, seed, case, step)
        self.stats = {}     # merged counters
        self.errors = []
        self.samples = []

    def merge_stat(self, d):
        for k, v in d.items():
            if isinstance(v, dict):
                tgt = self.stats.setdefault(k, {})
                for kk, vv in v.items():
                    tgt[kk] = tgt.get(kk, 0) + vv
            elif isinstance(v, (int, float)):
                self.stats[k] = self.stats.get(k, 0) + v


KV = re.compile(r"(\w+)=(\[[^\]]*\]|\S+)")


def parse_driver_output(path, profile, seed, res):
    if not os.path.exists(path):
        res.errors.append("missing driver output " + path)
        return
    got_stat = False
    with open(path, errors="replace") as f:
        for line in f:
            line = line.rstrip("\n")
            if line.startswith("DIV "):
                d = dict(KV.findall(line))
                d.update(profile=profile, seed=seed, raw=line)
                d["comps"] = d.get("comps", "").split(",")
                res.divs.append(d)
            elif line.startswith("ORA "):
                d = dict(KV.findall(line))
                d.update(profile=profile, seed=seed, raw=line)
                res.oras.append(d)
            elif line.startswith("KF "):
                d = dict(KV.findall(line))
                d.update(profile=profile, seed=seed, raw=line)
                res.kfs.append(d)
            elif line.startswith("SAMPLE "):
                if len(res.samples) < 40:
                    res.samples.append({"profile": profile, "seed": seed, "case": line[7:300]})
            elif line.startswith("STAT "):
                got_stat = True
                try:
                    res.merge_stat(json.loads(line[5:]))
                except ValueError:
                    res.errors.append("bad STAT line in " + path)
    if not got_stat:
        res.errors.append("driver did not finish: " + path)


def escalation(prop, st):
    """fingerprint-directed effort: if a source file this property depends on differs from the pinned
    tree, the quick tier runs 4x the cases (never a verdict by itself)"""
    sys.path.insert(0, os.path.join(ROOT, "tools"))
    try:
        import fingerprints
        ch = fingerprints.changed(os.path.join(REPO, "src"))
    except Exception as e:  # noqa: BLE001
        st["fingerprint_error"] = str(e)
        return 1
    st["fingerprints_changed"] = ch
    hit = [f for f in ch if prop in fingerprints.DEPENDS.get(f, [])]
    st["fingerprints_relevant"] = hit
    return 4 if hit else 1


def stage_run(prop, tier, seed, st, res):
    cfg = PROPS[prop]
    wdir = os.path.join(WORK, prop)
    shutil.rmtree(wdir, ignore_errors=True)
    os.makedirs(wdir, exist_ok=True)
    plan = cfg["runs"][tier]
    dist = {}
    t0 = time.time()
    run_corpus(prop, st, res)
    factor = escalation(prop, st) if tier == "quick" else 1
    st["escalation_factor"] = factor
    for k, (mode, profile, cases, extra) in enumerate(plan):
        cases = cases * factor
        tag = "r%d" % k
        if mode in ("sweep", "vsweep"):
            out = os.path.join(wdir, tag + ".out")
            cmds = [("%s %s | %s /dev/stdin > %s" % (HARNESS, mode, DRIVER, out), out)]
        else:
            args = [mode, "--profile", profile] + list(extra)
            cmds = shard_cmds(args, seed, cases, wdir, tag)
        rr = run_parallel(cmds, timeout=cfg.get("run_timeout", {}).get(tier, 1500))
        for code, out, err, cmd in rr:
            if code != 0:
                res.errors.append("run failed rc=%s: %s :: %s" % (code, cmd, (err or "")[-300:]))
            for l in (err or "").splitlines():
                if l.startswith("harness:"):
                    dist.setdefault("%s/%s" % (mode, profile), []).append(l[9:])
            parse_driver_output(out, profile if mode not in ("sweep", "vsweep") else mode, seed, res)
            try:
                os.remove(out)
            except OSError:
                pass
    st["run_s"] = round(time.time() - t0, 1)
    st["distribution"] = {k: v[:2] for k, v in dist.items()}


def run_corpus(prop, st, res):
    """minimised regression cases and finding witnesses run first"""
    idx_p = os.path.join(ROOT, "corpus", "index.json")
    if not os.path.exists(idx_p):
        return
    n = 0
    st["corpus"] = []
    for e in json.load(open(idx_p)):
        if e["property"] != prop:
            continue
        path = os.path.join(ROOT, "corpus", e["file"])
        code, out = run(["bash", "-c", "set -o pipefail; %s replay %s --mode %s | %s /dev/stdin" % (HARNESS, path, e["mode"], DRIVER)], timeout=300)
        tmp = os.path.join(WORK, prop, "corpus.%d.out" % n)
        with open(tmp, "w") as f:
            f.write(out)
        before = len(res.kfs), len(res.oras), len(res.divs)
        parse_driver_output(tmp, "corpus:" + e["file"], 0, res)
        os.remove(tmp)
        got_kf = [k.get("id") for k in res.kfs[before[0]:]]
        st["corpus"].append({"file": e["file"], "expect": e["expect"], "kf": got_kf,
                             "ora": len(res.oras) - before[1], "div": len(res.divs) - before[2]})
        n += 1
    if prop == "C11":
        code, out = run([HARNESS, "kf3"], timeout=300)
        st["kf3"] = out.strip()[:300]
        if "KF3 fails" in out:
            res.kfs.append({"prop": "C11", "id": "KF-C11-3", "profile": "corpus:kf3", "seed": 0, "raw": out.strip()[:300]})
        elif "KF3 passes" not in out:
            res.errors.append("kf3 witness did not run: " + out[-300:])


# --------------------------------------------------------------------------------------
# replay / shrinking
# --------------------------------------------------------------------------------------
def fetch_case(mode, profile, seed, index):
    if str(profile).startswith("corpus:"):
        p = os.path.join(ROOT, "corpus", profile[7:])
        return open(p).read() if os.path.exists(p) else None
    code, out = run([HARNESS, "case", "--mode", mode, "--profile", profile, "--seed", str(seed), "--index", str(index)], timeout=60)
    return out if code == 0 else None


def run_case_text(case_text, mode="trace"):
    """run one replay-format case through harness + driver; returns driver output lines"""
    os.makedirs(WORK, exist_ok=True)
    p = os.path.join(WORK, "replay.%d.case" % os.getpid())
    with open(p, "w") as f:
        f.write(case_text)
    code, out = run(["bash", "-c", "set -o pipefail; %s replay %s --mode %s | %s /dev/stdin" % (HARNESS, p, mode, DRIVER)], timeout=120)
    os.remove(p)
    return code, out.splitlines()


def case_fails(case_text, pred, mode):
    code, lines = run_case_text(case_text, mode)
    return any(pred(l) for l in lines)


def shrink_case(case_text, pred, mode, budget_s=40):
    """delta-debug the op list (and then each string) while [pred] still matches a driver line"""
    lines = case_text.strip().split("\n")
    hdr, ops = lines[0], lines[1:]
    t_end = time.time() + budget_s

    def fails(o):
        return case_fails("\n".join([hdr] + o) + "\n", pred, mode)

    n = 2
    while len(ops) >= 2 and time.time() < t_end:
        chunk = max(1, len(ops) // n)
        reduced = False
        for i in range(0, len(ops), chunk):
            cand = ops[:i] + ops[i + chunk:]
            if cand and fails(cand):
                ops = cand
                n = max(n - 1, 2)
                reduced = True
                break
            if time.time() > t_end:
                break
        if not reduced:
            if chunk == 1:
                break
            n = min(len(ops), n * 2)
    # shrink characters inside the string ops
    for idx in range(len(ops)):
        if time.time() > t_end:
            break
        t = ops[idx].split()
        if t[0] != "S":
            continue
        cps = t[2:]
        i = 0
        while i < len(cps) and time.time() < t_end:
            cand = cps[:i] + cps[i + 1:]
            if cand:
                trial = ops[:idx] + ["S %d %s" % (len(cand), " ".join(cand))] + ops[idx + 1:]
                if fails(trial):
                    cps = cand
                    ops = trial
                    continue
            i += 1
    return "\n".join([hdr] + ops) + "\n"


def printable_case(case_text):
    out = []
    for l in case_text.strip().split("\n"):
        t = l.split()
        if t and t[0] == "S":
            s = "".join(chr(int(x)) for x in t[2:])
            out.append("feed " + json.dumps(s))
        elif t and t[0] == "L":
            out.append("flush")
        elif t and t[0] == "R":
            out.append("resize %s %s" % (t[1], t[2]))
        else:
            out.append("size/limit " + l)
    return out


def write_replay(prop, kind, detail, case_text=None, extra=None):
    os.makedirs(os.path.join(ROOT, "replays"), exist_ok=True)
    body = {"property": prop, "kind": kind, "detail": detail}
    if case_text:
        body["case"] = case_text
        body["case_readable"] = printable_case(case_text)
    if extra:
        body.update(extra)
    h = hashlib.sha256(json.dumps(body, sort_keys=True).encode()).hexdigest()[:12]
    path = os.path.join(ROOT, "replays", "%s-%s.json" % (prop, h))
    with open(path, "w") as f:
        json.dump(body, f, indent=1)
    return path


# --------------------------------------------------------------------------------------
# known findings
# --------------------------------------------------------------------------------------
def load_known():
    p = os.path.join(ROOT, "KNOWN_FINDINGS.json")
    if not os.path.exists(p):
        return []
    return json.load(open(p))["findings"]


# --------------------------------------------------------------------------------------
# verdict
# --------------------------------------------------------------------------------------
def div_relevant(prop, d):
    cfg = PROPS[prop]
    cone = cfg["cone"]
    proj = cfg["proj"]
    fn = d.get("fn", "")
    op = d.get("op", "")
    key = fn if op == "C" else op
    if cone != "ALL" and key not in cone and fn not in cone:
        return False
    comps = d.get("comps", [])
    if proj == "ALL":
        return any(c != "dirty_over" for c in comps)
    for c in comps:
        for pr in proj:
            if c == pr or c.startswith(pr):
                return True
    return False


def main(argv):
    import argparse
    ap = argparse.ArgumentParser()
    ap.add_argument("prop")
    ap.add_argument("--tier", default=os.environ.get("VERIF_TIER", "quick"))
    ap.add_argument("--replay")
    ap.add_argument("--no-shrink", action="store_true")
    a = ap.parse_args(argv)
    prop = a.prop
    tier = a.tier if a.tier in ("quick", "thorough") else "quick"
    if prop not in PROPS:
        print("unknown property", prop)
        return 2
    try:
        seed = int(os.environ.get("VERIF_SEED", "1"))
    except ValueError:
        seed = 1
    t_start = time.time()
    st = {"property": prop, "tier": tier, "seed": seed}
    res = Results()
    with Lock():
        tr_ok = stage_translate(st, prop)
        pr_ok = stage_proofs(prop, st, thorough=(tier == "thorough"))
        b_ok = stage_build(st)
    if not b_ok:
        # cannot run anything: the harness or the model does not build against this tree
        detail = st.get("harness_error") or st.get("driver_error") or "build failed"
        path = write_replay(prop, "build-failure", detail[-1500:])
        write_evidence(prop, tier, seed, st, res, t_start, violations=1, known=[])
        print("VIOLATION property=%s replay=%s no-failing-input-found" % (prop, path))
        return 1

    if a.replay:
        body = json.load(open(a.replay))
        if "case" not in body:
            print("replay file names a broken proof/tie, no input to replay:", body.get("detail", "")[:300])
            return 1 if not (tr_ok and pr_ok) else 0
        mode = body.get("mode", "trace")
        code, lines = run_case_text(body["case"], mode)
        bad = [l for l in lines if (l.startswith("ORA prop=%s " % prop)) or (l.startswith("DIV ") and div_relevant(prop, dict(KV.findall(l), comps=dict(KV.findall(l)).get("comps", "").split(","))))]
        for l in bad[:10]:
            print(l)
        if bad:
            print("VIOLATION property=%s replay=%s" % (prop, a.replay))
            return 1
        print("replay passes on the current tree")
        return 0

    stage_run(prop, tier, seed, st, res)
    return verdict(prop, tier, seed, st, res, t_start, tr_ok, pr_ok, shrink=not a.no_shrink)


def line_pred_ora(prop):
    if prop == "C01":
        return lambda l: l.startswith("ORA prop=C01 ") or (l.startswith("DIV ") and ("panic.impl" in l or "hang.impl" in l))
    return lambda l: l.startswith("ORA prop=%s " % prop)


def line_pred_div(prop):
    def f(l):
        if not l.startswith("DIV "):
            return False
        d = dict(KV.findall(l))
        d["comps"] = d.get("comps", "").split(",")
        return div_relevant(prop, d)
    return f


def mode_of_profile(prop, profile):
    if str(profile).startswith("corpus:"):
        for e in json.load(open(os.path.join(ROOT, "corpus", "index.json"))):
            if e["file"] == profile[7:]:
                return e["mode"]
    for tier in ("quick", "thorough"):
        for (mode, pr, cases, extra) in PROPS[prop]["runs"][tier]:
            if pr == profile:
                return mode
    return "trace"


def verdict(prop, tier, seed, st, res, t_start, tr_ok, pr_ok, shrink=True):
    known = [k for k in load_known() if k["property"] == prop and k["status"] == "known"]
    known_ids = {k["id"] for k in known}
    my_oras = [o for o in res.oras if o.get("prop") == prop]
    my_divs = [d for d in res.divs if div_relevant(prop, d)]
    if prop == "C01":
        # an implementation panic / hang is itself the failing input
        for d in res.divs:
            if any(c in ("panic.impl", "hang.impl") for c in d.get("comps", [])):
                o = dict(d)
                o["prop"] = "C01"
                my_oras.append(o)
    my_kfs = [k for k in res.kfs if k.get("prop") == prop]
    unknown_kfs = [k for k in my_kfs if k.get("id") not in known_ids]
    violations = []

    def replay_for(item, pred, kind):
        case_text = None
        mode = "trace"
        if item.get("profile") not in (None, "sweep") and "case" in item:
            mode = mode_of_profile(prop, item["profile"])
            case_text = fetch_case(mode, item["profile"], item["seed"], int(item["case"]))
            if not str(item["profile"]).startswith("corpus:"):
                mode = "%s --profile %s" % (mode, item["profile"])
            if case_text and shrink:
                try:
                    if case_fails(case_text, pred, mode):
                        case_text = shrink_case(case_text, pred, mode)
                except Exception as e:  # noqa: BLE001
                    log("shrink failed:", e)
        return write_replay(prop, kind, item.get("raw", ""), case_text, {"mode": mode, "seed": item.get("seed"), "profile": item.get("profile")})

    if my_oras or unknown_kfs:
        item = (my_oras or unknown_kfs)[0]
        path = replay_for(item, line_pred_ora(prop) if my_oras else (lambda l: l.startswith("KF prop=%s " % prop)), "statement-fails-on-implementation")
        violations.append("VIOLATION property=%s replay=%s" % (prop, path))
    elif res.errors:
        path = write_replay(prop, "run-error", "; ".join(res.errors)[:2000])
        violations.append("VIOLATION property=%s replay=%s no-failing-input-found" % (prop, path))
    elif my_divs:
        # the tie is broken and the statement itself still holds on everything explored
        item = my_divs[0]
        path = replay_for(item, line_pred_div(prop), "correspondence-broken")
        violations.append("VIOLATION property=%s replay=%s no-failing-input-found" % (prop, path))
    elif not tr_ok:
        path = write_replay(prop, "translator-failed", st.get("translate_output", ""))
        violations.append("VIOLATION property=%s replay=%s no-failing-input-found" % (prop, path))
    elif not pr_ok:
        path = write_replay(prop, "proof-broken", st.get("proof_error", "proof stage failed"),
                            extra={"theorem_file": "coq/Properties/%s.v" % prop})
        violations.append("VIOLATION property=%s replay=%s no-failing-input-found" % (prop, path))

    printed_known = []
    for k in known:
        hits = [x for x in my_kfs if x.get("id") == k["id"]]
        if hits:
            print("KNOWN-FINDING: property=%s %s %s (seen %d times this run)" % (prop, k["id"], k["what"], len(hits)))
            printed_known.append(k["id"])
        else:
            print("KNOWN-FINDING: property=%s %s %s (class not hit by this run's cases)" % (prop, k["id"], k["what"]))
            printed_known.append(k["id"])
    write_evidence(prop, tier, seed, st, res, t_start, violations=len(violations), known=printed_known,
                   n_oras=len(my_oras), n_divs=len(my_divs))
    for v in violations:
        print(v)
    if violations:
        for o in my_oras[:5]:
            print("  " + o["raw"][:400])
        for d in my_divs[:5]:
            print("  " + d["raw"][:400])
        if not pr_ok:
            print("  proof: " + st.get("proof_error", "")[:600])
        return 1
    print("OK property=%s tier=%s steps=%s oracle_evals=%s obligations=%s/%s wall=%.1fs" % (
        prop, tier, res.stats.get("steps", 0), sum(res.stats.get("oracle_evals", {}).values()),
        st.get("discharged"), st.get("obligations"), time.time() - t_start))
    return 0


def write_evidence(prop, tier, seed, st, res, t_start, violations, known, n_oras=0, n_divs=0):
    cfg = PROPS[prop]
    os.makedirs(os.path.join(ROOT, "evidence"), exist_ok=True)
    oe = res.stats.get("oracle_evals", {})
    my_oe = {k: v for k, v in oe.items() if k.startswith(prop)}
    samples = res.samples[:6]
    if not samples:
        samples = [{"note": "no sample recorded"}]
    steps = int(res.stats.get("steps", 0)) + int(res.stats.get("sweep_points", 0))
    cov = {
        "obligations": int(st.get("obligations", 0)),
        "discharged": int(st.get("discharged", 0)),
        "checker_cmd": "make -C coq Properties/%s.vo && coqc Properties/%s.v (Check pins + Print Assumptions)%s" % (
            prop, prop, " && coqchk -o Avt.Properties.%s" % prop if tier == "thorough" else ""),
        "trusted_base": cfg.get("trusted_base", []) + [
            "Coq 8.16.1 kernel + vm_compute (no native_compute)",
            "axioms reported by Print Assumptions: %s" % (", ".join(st.get("axioms", [])) or "none (Closed under the global context)"),
            "translator translate/avt2coq.py (validated by the exhaustive parser sweep and the step-wise correspondence)",
            "extraction: ExtrOcamlBasic only, no Extract Constant; OCaml 4.13",
            "correspondence harness (Rust) + cfg(avt_verif) state export hook + OCaml state parser",
            "regenerated from the source on every run and tied by PROOF (Gen/*.v + Proofs/ParserTable, DispatchTable, TermTie, TermTieW, TermTieX, BufTie, SgrTie, VtTie, ParserFnsTie, RestTie, DumpTie, AccTie): Parser::feed / dispatch / mode tables, constants, reset lists, Parser::param / clear / collect and the Param methods, all of Terminal::execute (42 scalar control functions; print, rep, ich, dch, ech, ed, el, decaln, ctc, tbc, tab moves, sm, rm, decset, decrst, the two screen switches, Terminal::reflow / resize, save / restore cursor as recorded primitive calls), 39 functions of line.rs / buffer.rs / tabs.rs / dirty_lines.rs, Buffer::resize with Reflow::next / reflow / logical_position / relative_position, Buffer::text, Charset::translate, TextUnwrapper, TextCollector::flush, the 13 dump functions (Vt / Terminal / Buffer / Pen / Parser dump, Color::sgr_params, Param Display, is_default), SgrOps::next, Terminal::sgr, Pen methods, Vt call skeletons, the 45 public constructors and accessors (Vt::new, Builder, view / lines / line / text / cursor, Terminal::new, Line / Cell accessors, TextCollector::new / feed_str / resize)",
            "hand-modelled and tied by step-wise correspondence (testing) only: the iterator Chunks::next behind Line::chunks (pinned as text), the iterator plumbing of Changes",
        ],
        "theorems": st.get("theorem_names", []),
        "proof_status": cfg.get("proof_status", ""),
        "evaluations": steps,
        "distinct_nontrivial": int(res.stats.get("distinct_nontrivial", 0)),
        "rule": cfg.get("rule", "step-wise correspondence: every checkpoint (pre-state, op, post-state) of the implementation is re-run on the extracted model from the implementation's pre-state; distinct = distinct (pre,post) state-line hashes with post != pre"),
        "samples": samples,
        "traces_validated_against_impl": int(res.stats.get("counts", {}).get("cases", 0)),
        "correspondence_steps": int(res.stats.get("steps", 0)),
        "oracle_evaluations": my_oe,
        "oracle_failures": n_oras,
        "correspondence_divergences_in_cone": n_divs,
        "op_distribution": res.stats.get("counts", {}),
        "generator_distribution": st.get("distribution", {}),
        "sweep_cells": int(res.stats.get("sweep_cells", 0)),
        "vsweep": ({"feeds": int(res.stats.get("counts", {}).get("vsweep_feeds", 0)),
                    "runs": int(res.stats.get("counts", {}).get("vsweep_runs", 0)),
                    "trace_cases": int(res.stats.get("counts", {}).get("vsweep_trace_cases", 0)),
                    "rule": "every Unicode scalar value after each of 10 prefixes, fed three ways (one feed_str / two feed_str calls / feed() per "
                            "character) into a fresh 4x2 terminal: the ways must agree and none may panic (decided on the implementation); the "
                            "signature (dump + text + line count) is run-length encoded over the scalars and every value below U+0100 plus both "
                            "ends of every run above is re-run as a trace case (step-wise correspondence + all statements) and, where printable, "
                            "as a C09 text case"}
                   if res.stats.get("counts", {}).get("vsweep_feeds") else None),
        "exhaustive": bool(res.stats.get("sweep_cells", 0)) and cfg.get("exhaustive_sweep", False),
        "translate_ok": st.get("translate_ok"),
        "fingerprints_changed": st.get("fingerprints_changed"),
        "escalation_factor": st.get("escalation_factor"),
        "gen_differs_from_pinned": st.get("gen_differs_from_pinned"),
        "print_assumptions": {"count": st.get("print_assumptions"), "closed": st.get("closed"), "axioms": st.get("axioms")},
        "static_scan": st.get("static_scan"),
        "known_findings_printed": known,
        "timings_s": {k: st[k] for k in ("make_s", "harness_build_s", "run_s", "coqchk_s", "driver_build_s") if k in st},
    }
    ev = {
        "property_id": prop,
        "tier": tier,
        "seed": seed,
        "level": "exploration" if st.get("no_theorems") else cfg.get("level", "proof"),
        "coverage": cov,
        "assumptions": cfg.get("assumptions", []) + [
            "usize additions do not overflow; allocation succeeds (DESIGN.md section 10)",
            "Rust std semantics of Vec/slice operations as modelled in coq/Model/Base.v",
        ],
        "wall_s": round(time.time() - t_start, 1),
        "violations": violations,
    }
    with open(os.path.join(ROOT, "evidence", "%s.json" % prop), "w") as f:
        json.dump(ev, f, indent=1)
