(** Paul Williams' DEC-compatible parser (vt100.net/emu/dec_ansi_parser), written by hand
    from the diagram, with the four deliberate deviations of asciinema/avt named
    separately.  This file does not mention the generated tables: it is the formal reading
    of property C03's "that table". *)

From Avt Require Export Model.Types.
Local Open Scope N_scope.

(** kind of action taken on one character *)
Inductive akind :=
| KIgnore | KPrint | KExecute | KCollect | KParam | KEscDispatch | KCsiDispatch
| KPut | KOscPut.

Definition akind_eqb (a b : akind) : bool :=
  match a, b with
  | KIgnore, KIgnore | KPrint, KPrint | KExecute, KExecute | KCollect, KCollect
  | KParam, KParam | KEscDispatch, KEscDispatch | KCsiDispatch, KCsiDispatch
  | KPut, KPut | KOscPut, KOscPut => true
  | _, _ => false
  end.

(** observable class of an action, as in the property text *)
Inductive aclass := ClsIgnore | ClsPrint | ClsExecute | ClsDispatch.
Definition class_of (k : akind) : aclass :=
  match k with
  | KPrint => ClsPrint
  | KExecute => ClsExecute
  | KEscDispatch | KCsiDispatch => ClsDispatch
  | _ => ClsIgnore
  end.

Record trans := mkTrans { t_next : pstate; t_kind : akind; t_clear : bool }.

Definition trans_eqb (a b : trans) : bool :=
  pstate_eqb (t_next a) (t_next b) && akind_eqb (t_kind a) (t_kind b)
  && Bool.eqb (t_clear a) (t_clear b).

Definition inr (lo hi c : N) : bool := (lo <=? c) && (c <=? hi).

(** C0 controls that are executed (everything below 0x20 except CAN, SUB, ESC) *)
Definition c0_exec (c : N) : bool := inr 0 23 c || (c =? 25) || inr 28 31 c.

(** entering one of these states runs the entry action [clear] *)
Definition entry_clears (s : pstate) : bool :=
  match s with Escape | CsiEntry | DcsEntry => true | _ => false end.

Definition goto (s : pstate) (k : akind) : trans := mkTrans s k (entry_clears s).
Definition stay (s : pstate) (k : akind) : trans := mkTrans s k false.

(** ** Deviation 3: the C1 controls are the code points U+0080..U+009F.
    "anywhere" transitions of the diagram (they re-enter the target state). *)
Definition anywhere (c : N) : option trans :=
  if (c =? 24) || (c =? 26) then Some (goto Ground KExecute) else
  if c =? 27 then Some (goto Escape KIgnore) else
  if inr 128 143 c || inr 145 151 c || (c =? 153) || (c =? 154) then Some (goto Ground KExecute) else
  if c =? 156 then Some (goto Ground KIgnore) else
  if (c =? 152) || (c =? 158) || (c =? 159) then Some (goto SosPmApcString KIgnore) else
  if c =? 144 then Some (goto DcsEntry KIgnore) else
  if c =? 157 then Some (goto OscString KIgnore) else
  if c =? 155 then Some (goto CsiEntry KIgnore) else
  None.

(** ** Deviation 1: ':' (0x3A) is a parameter character inside CSI parameters. *)
Definition csi_param_char (c : N) : bool := inr 48 57 c || (c =? 59) || (c =? 58).

(** ** Deviation 2: BEL also terminates an OSC string. *)
Definition osc_bel_terminates : bool := true.

(** per-state rows of the diagram, for [c < 0xA0] not handled by [anywhere] *)
Definition state_row (s : pstate) (c : N) : trans :=
  match s with
  | Ground =>
    if c0_exec c then stay Ground KExecute else
    if inr 32 127 c then stay Ground KPrint else stay Ground KIgnore
  | Escape =>
    if c0_exec c then stay Escape KExecute else
    if inr 32 47 c then goto EscapeIntermediate KCollect else
    if c =? 91 then goto CsiEntry KIgnore else
    if c =? 93 then goto OscString KIgnore else
    if c =? 80 then goto DcsEntry KIgnore else
    if (c =? 88) || (c =? 94) || (c =? 95) then goto SosPmApcString KIgnore else
    if inr 48 126 c then goto Ground KEscDispatch else
    stay Escape KIgnore
  | EscapeIntermediate =>
    if c0_exec c then stay EscapeIntermediate KExecute else
    if inr 32 47 c then stay EscapeIntermediate KCollect else
    if inr 48 126 c then goto Ground KEscDispatch else
    stay EscapeIntermediate KIgnore
  | CsiEntry =>
    if c0_exec c then stay CsiEntry KExecute else
    if inr 32 47 c then goto CsiIntermediate KCollect else
    if c =? 58 then goto CsiIgnore KIgnore else
    if inr 48 57 c || (c =? 59) then goto CsiParam KParam else
    if inr 60 63 c then goto CsiParam KCollect else
    if inr 64 126 c then goto Ground KCsiDispatch else
    stay CsiEntry KIgnore
  | CsiParam =>
    if c0_exec c then stay CsiParam KExecute else
    if csi_param_char c then stay CsiParam KParam else
    if inr 60 63 c then goto CsiIgnore KIgnore else
    if inr 32 47 c then goto CsiIntermediate KCollect else
    if inr 64 126 c then goto Ground KCsiDispatch else
    stay CsiParam KIgnore
  | CsiIntermediate =>
    if c0_exec c then stay CsiIntermediate KExecute else
    if inr 32 47 c then stay CsiIntermediate KCollect else
    if inr 48 63 c then goto CsiIgnore KIgnore else
    if inr 64 126 c then goto Ground KCsiDispatch else
    stay CsiIntermediate KIgnore
  | CsiIgnore =>
    if c0_exec c then stay CsiIgnore KExecute else
    if inr 64 126 c then goto Ground KIgnore else
    stay CsiIgnore KIgnore
  | DcsEntry =>
    if inr 32 47 c then goto DcsIntermediate KCollect else
    if c =? 58 then goto DcsIgnore KIgnore else
    if inr 48 57 c || (c =? 59) then goto DcsParam KParam else
    if inr 60 63 c then goto DcsParam KCollect else
    if inr 64 126 c then goto DcsPassthrough KIgnore else
    stay DcsEntry KIgnore
  | DcsParam =>
    if inr 48 57 c || (c =? 59) then stay DcsParam KParam else
    if (c =? 58) || inr 60 63 c then goto DcsIgnore KIgnore else
    if inr 32 47 c then goto DcsIntermediate KCollect else
    if inr 64 126 c then goto DcsPassthrough KIgnore else
    stay DcsParam KIgnore
  | DcsIntermediate =>
    if inr 32 47 c then stay DcsIntermediate KCollect else
    if inr 48 63 c then goto DcsIgnore KIgnore else
    if inr 64 126 c then goto DcsPassthrough KIgnore else
    stay DcsIntermediate KIgnore
  | DcsPassthrough =>
    if c0_exec c || inr 32 126 c then stay DcsPassthrough KPut else
    stay DcsPassthrough KIgnore
  | DcsIgnore => stay DcsIgnore KIgnore
  | OscString =>
    if osc_bel_terminates && (c =? 7) then goto Ground KIgnore else
    if inr 32 127 c then stay OscString KOscPut else
    stay OscString KIgnore
  | SosPmApcString => stay SosPmApcString KIgnore
  end.

(** ** Deviation 4: every code point >= U+00A0 is handled like an ordinary final-class
    printable ('A', 0x41) for the purpose of the transition. *)
Definition fold_high (c : N) : N := if 160 <=? c then 65 else c.

Definition williams (s : pstate) (c : N) : trans :=
  let c := fold_high c in
  match anywhere c with
  | Some t => t
  | None => state_row s c
  end.

(** which string kind a state belongs to (for C20) *)
Definition is_string_state (s : pstate) : bool :=
  match s with
  | DcsEntry | DcsParam | DcsIntermediate | DcsPassthrough | DcsIgnore | OscString
  | SosPmApcString => true
  | _ => false
  end.
