(** View-level specifications of the control functions, written from the property texts
    (C04-C08, C13, C15-C19).  They talk about the visible rows ([tview]), the scrollback
    ([tsb]) and a handful of scalars; they never mention [rotate], buffer offsets or the
    order of effects in the Rust code. *)

From Avt Require Export Spec.Eqb.
From Avt Require Import Gen.Consts.

(** * the screen seen from outside *)

Definition tview (t : term) : list line := view (buf t).
Definition tsb (t : term) : list line := firstn (sb_len (buf t)) (lines (buf t)).

(** replace scrollback and view of the active buffer *)
Definition set_screen (t : term) (sb v : list line) : term :=
  t <| buf := (buf t) <| lines := sb ++ v |> |>.

Definition set_view (t : term) (v : list line) : term := set_screen t (tsb t) v.

Definition set_cursor (t : term) (c r : nat) (p : bool) : term :=
  t <| cur_col := c |> <| cur_row := r |> <| pend := p |>.

(** equality of everything a user or a later command can observe: all scalars, both
    buffers' lines and geometry; not the dirty flags, not the lazy-trim flag *)
Definition buffer_vis_eqb (a b : buffer) : bool :=
  lines_eqb (lines a) (lines b) && Nat.eqb (bcols a) (bcols b) && Nat.eqb (brows a) (brows b)
  && limit_eqb (blimit a) (blimit b).

Definition visible_eqb (a b : term) : bool :=
  term_scalars_eqb a b && buffer_vis_eqb (buf a) (buf b) && buffer_vis_eqb (other a) (other b).

Definition viscol (t : term) : nat := Nat.min (cur_col t) (cols t - 1).

Definition n1 (n : N) : nat := if N.eqb n 0 then 1 else N.to_nat n.

Definition row_at (v : list line) (r : nat) : line := nth r v (mkLine [] false).

Definition upd_row (r : nat) (f : line -> line) (v : list line) : list line := upd r f v.

Definition unwrap (l : line) : line := l <| wrapped := false |>.
Definition mark_wrapped (l : line) : line := l <| wrapped := true |>.

Definition blanks (n : nat) (p : pen) : list cell := repeat (blank_cell p) n.

(** * C06: scrolling a range [a, z) of the view *)

Definition spec_scroll_up (a z n : nat) (p : pen) (ncols : nat) (v : list line)
  : list line * list line :=
  let k := Nat.min n (z - a) in
  let v1 := if z <? length v then upd_row (z - 1) unwrap v else v in
  let v2 := if 0 <? a then upd_row (a - 1) unwrap v1 else v1 in
  (firstn a v2 ++ firstn (z - a - k) (skipn (a + k) v2) ++ repeat (blank_line ncols p) k ++ skipn z v2,
   if a =? 0 then firstn k v2 else []).

Definition spec_scroll_down (a z n : nat) (p : pen) (ncols : nat) (v : list line) : list line :=
  let k := Nat.min n (z - a) in
  let v1 := firstn a v ++ repeat (blank_line ncols p) k ++ firstn (z - a - k) (skipn a v) ++ skipn z v in
  let v2 := if 0 <? a then upd_row (a - 1) unwrap v1 else v1 in
  upd_row (z - 1) unwrap v2.

Definition apply_scroll_up (t : term) (a z n : nat) : term :=
  let '(v', pushed) := spec_scroll_up a z n (tpen t) (cols t) (tview t) in
  set_screen t (tsb t ++ pushed) v'.

Definition apply_scroll_down (t : term) (a z n : nat) : term :=
  set_view t (spec_scroll_down a z n (tpen t) (cols t) (tview t)).

(** * C04: printing *)

(** the VT100 special graphics set, 0x60..0x7E (from the VT100 user guide, table 3-9) *)
Definition vt100_glyphs : list N :=
  [9830; 9618; 9225; 9228; 9229; 9226; 176; 177; 9252; 9227; 9496; 9488; 9484; 9492; 9532;
   9146; 9147; 9472; 9148; 9149; 9500; 9508; 9524; 9516; 9474; 8804; 8805; 960; 8800; 163;
   8901]%N.

Definition spec_translate (cs : charset) (c : N) : N :=
  match cs with
  | CsAscii => c
  | CsDrawing =>
    if (96 <=? c)%N && (c <=? 126)%N then nth (N.to_nat (c - 96)) vt100_glyphs c else c
  end.

Definition spec_active_cs (t : term) : charset := if acs t =? 0 then cs0 t else cs1 t.

Definition set_cell (col : nat) (c : cell) (l : line) : line :=
  l <| cells := upd col (fun _ => c) (cells l) |>.

(** insert one cell at [col], shifting the rest right and dropping the last cell *)
Definition insert_cell (col : nat) (c : cell) (l : line) : line :=
  l <| cells := firstn col (cells l) ++ c :: firstn (length (cells l) - col - 1) (skipn col (cells l)) |>.

Definition spec_print_glyph (t : term) (g : N) : term :=
  let cl := mkCell g (tpen t) in
  let row := cur_row t in
  (* 1. the deferred wrap *)
  let t1 :=
    if awm t && pend t then
      if row =? bot t then
        set_cursor (apply_scroll_up (set_view t (upd_row row mark_wrapped (tview t)))
                                    (top t) (bot t + 1) 1) 0 row false
      else if row <? rows t - 1 then
        set_cursor (set_view t (upd_row row mark_wrapped (tview t))) 0 (row + 1) false
      else set_cursor t 0 row false
    else t in
  (* 2. write and advance *)
  let col := cur_col t1 in
  let row := cur_row t1 in
  if cols t <=? col + 1 then
    let t2 := set_view t1 (upd_row row (set_cell (cols t - 1) cl) (tview t1)) in
    if awm t then set_cursor t2 (cols t) row true else t2
  else
    let t2 := set_view t1 (upd_row row ((if ins t then insert_cell else set_cell) col cl) (tview t1)) in
    set_cursor t2 (col + 1) row false.

Definition spec_print (t : term) (c : N) : term :=
  spec_print_glyph t (spec_translate (spec_active_cs t) c).

Definition spec_rep (t : term) (n : N) : term :=
  if 0 <? cur_col t then
    let c := ch (nth (cur_col t - 1) (cells (row_at (tview t) (cur_row t))) default_cell) in
    Nat.iter (n1 n) (fun t' => spec_print t' c) t
  else t.

(** * C05: cursor movement *)

Definition spec_up (t : term) (n : nat) : nat :=
  if cur_row t <? top t then cur_row t - n else Nat.max (cur_row t - n) (top t).

Definition spec_down (t : term) (n : nat) : nat :=
  if bot t <? cur_row t then Nat.min (rows t - 1) (cur_row t + n) else Nat.min (bot t) (cur_row t + n).

Definition spec_abs_row (t : term) (r : nat) : nat :=
  let tp := if org t then top t else 0 in
  let bt := if org t then bot t else rows t - 1 in
  Nat.min (Nat.max (tp + r) tp) bt.

Definition stops_after (l : list nat) (pos : nat) : list nat := filter (fun s => pos <? s) l.
Definition stops_before (l : list nat) (pos : nat) : list nat := rev (filter (fun s => s <? pos) l).

Definition spec_next_tab (t : term) (n : nat) : nat :=
  Nat.min (nth (n - 1) (stops_after (tabs t) (cur_col t)) (cols t - 1)) (cols t - 1).

Definition spec_prev_tab (t : term) (n : nat) : nat :=
  Nat.min (nth (n - 1) (stops_before (tabs t) (cur_col t)) 0) (cols t - 1).

Definition spec_home (t : term) : term := set_cursor t 0 (if org t then top t else 0) false.

(** the cursor commands of C05; [None] = not a C05 case (e.g. LF on the bottom margin) *)
Definition spec_cursor (t : term) (f : func) : option term :=
  let vc := viscol t in
  let row := cur_row t in
  match f with
  | Cuu n => Some (set_cursor t vc (spec_up t (n1 n)) false)
  | Cud n | Vpr n => Some (set_cursor t vc (spec_down t (n1 n)) false)
  | Cuf n => Some (set_cursor t (Nat.min (cols t - 1) (vc + n1 n)) row false)
  | Cub n => Some (set_cursor t (vc - n1 n) row false)
  | Bs => Some (set_cursor t (vc - 1) row false)
  | Cnl n => Some (set_cursor t 0 (spec_down t (n1 n)) false)
  | Cpl n => Some (set_cursor t 0 (spec_up t (n1 n)) false)
  | Cr => Some (set_cursor t 0 row false)
  | Cha n => Some (set_cursor t (Nat.min (n1 n - 1) (cols t - 1)) row false)
  | Vpa n => Some (set_cursor t vc (spec_abs_row t (n1 n - 1)) false)
  | Cup r c => Some (set_cursor t (Nat.min (n1 c - 1) (cols t - 1)) (spec_abs_row t (n1 r - 1)) false)
  | Ht => Some (set_cursor t (spec_next_tab t 1) row false)
  | Cht n => Some (set_cursor t (spec_next_tab t (n1 n)) row false)
  | Cbt n => Some (set_cursor t (spec_prev_tab t (n1 n)) row false)
  | Lf =>
    if row =? bot t then None
    else let t1 := if row <? rows t - 1 then set_cursor t vc (row + 1) false else t in
         Some (if nlm t then set_cursor t1 0 (cur_row t1) false else t1)
  | Nel =>
    if row =? bot t then None
    else let t1 := if row <? rows t - 1 then set_cursor t vc (row + 1) false else t in
         Some (set_cursor t1 0 (cur_row t1) false)
  | Ri =>
    if row =? top t then None
    else Some (if 0 <? row then set_cursor t vc (row - 1) false else t)
  | Decstbm tp bt =>
    let tp' := n1 tp - 1 in
    let bt' := (if N.eqb bt 0 then rows t else N.to_nat bt) - 1 in
    let t1 := if (tp' <? bt') && (bt' <? rows t) then t <| top := tp' |> <| bot := bt' |> else t in
    Some (spec_home t1)
  | Decset [Origin] => Some (spec_home (t <| org := true |>))
  | Decrst [Origin] => Some (spec_home (t <| org := false |>))
  | _ => None
  end.

(** * C06: the scrolling commands *)

Definition spec_ildl_range (t : term) : nat * nat :=
  if cur_row t <=? bot t then (cur_row t, bot t + 1) else (cur_row t, rows t).

Definition spec_scroll (t : term) (f : func) : option term :=
  let row := cur_row t in
  match f with
  | Lf =>
    if row =? bot t then
      let t1 := apply_scroll_up t (top t) (bot t + 1) 1 in
      Some (if nlm t then set_cursor t1 0 row false else t1)
    else None
  | Nel =>
    if row =? bot t then Some (set_cursor (apply_scroll_up t (top t) (bot t + 1) 1) 0 row false)
    else None
  | Ri => if row =? top t then Some (apply_scroll_down t (top t) (bot t + 1) 1) else None
  | Su n => Some (apply_scroll_up t (top t) (bot t + 1) (n1 n))
  | Sd n => Some (apply_scroll_down t (top t) (bot t + 1) (n1 n))
  | Il n => let '(a, z) := spec_ildl_range t in Some (apply_scroll_down t a z (n1 n))
  | Dl n => let '(a, z) := spec_ildl_range t in Some (apply_scroll_up t a z (n1 n))
  | _ => None
  end.

(** functions that may legitimately change the scrollback of some buffer *)
Definition may_touch_scrollback (f : func) : bool :=
  match f with
  | Lf | Nel | Su _ | Dl _ | Print _ | Rep _ | Ris | Decset _ | Decrst _ | Xtwinops _ => true
  | _ => false
  end.

(** * C07: erase / insert / delete *)

Definition clear_cells (a z : nat) (p : pen) (l : line) : line :=
  l <| cells := firstn a (cells l) ++ blanks (z - a) p ++ skipn z (cells l) |>.

Definition spec_edit (t : term) (f : func) : option term :=
  let col := cur_col t in
  let row := cur_row t in
  let p := tpen t in
  let nc := cols t in
  let v := tview t in
  match f with
  | Ed EdBelow =>
    let v1 := upd_row row (fun l => unwrap (clear_cells col nc p l)) v in
    Some (set_view t (firstn (row + 1) v1 ++ repeat (blank_line nc p) (rows t - row - 1)))
  | Ed EdAbove =>
    let v1 := upd_row row (clear_cells 0 (Nat.min (col + 1) nc) p) v in
    Some (set_view t (repeat (blank_line nc p) row ++ skipn row v1))
  | Ed EdAll => Some (set_view t (repeat (blank_line nc p) (rows t)))
  | Ed EdSavedLines => Some t
  | El ElToRight => Some (set_view t (upd_row row (fun l => unwrap (clear_cells col nc p l)) v))
  | El ElToLeft => Some (set_view t (upd_row row (clear_cells 0 (Nat.min (col + 1) nc) p) v))
  | El ElAll => Some (set_view t (upd_row row (fun l => unwrap (clear_cells 0 nc p l)) v))
  | Ech n =>
    let k := Nat.min (n1 n) (nc - col) in
    Some (set_view t (upd_row row (fun l => let l' := clear_cells col (col + k) p l in
                                            if col + k =? nc then unwrap l' else l') v))
  | Ich n =>
    let k := Nat.min (n1 n) (nc - col) in
    Some (set_view t (upd_row row (fun l =>
      l <| cells := firstn col (cells l) ++ blanks k p ++ firstn (nc - col - k) (skipn col (cells l)) |>) v))
  | Dch n =>
    let col' := Nat.min col (nc - 1) in
    let k := Nat.min (n1 n) (nc - col') in
    let t1 := if nc <=? col then set_cursor t col' row false else t in
    Some (set_view t1 (upd_row row (fun l =>
      unwrap (l <| cells := firstn col' (cells l) ++ skipn (col' + k) (cells l) ++ blanks k p |>)) v))
  | Decaln =>
    Some (set_view t (map (fun l => l <| cells := repeat (mkCell 69 default_pen) nc |>) v))
  | _ => None
  end.

(** * C08: the pen as a fold of SGR operations, stated on the public observations *)

Definition is_italic (p : pen) : bool := pen_has ITALIC_MASK p.
Definition is_underline (p : pen) : bool := pen_has UNDERLINE_MASK p.
Definition is_strikethrough (p : pen) : bool := pen_has STRIKETHROUGH_MASK p.
Definition is_blink (p : pen) : bool := pen_has BLINK_MASK p.
Definition is_inverse (p : pen) : bool := pen_has INVERSE_MASK p.

Record pen_obs := mkObs {
  o_fg : option color; o_bg : option color; o_int : inten;
  o_italic : bool; o_underline : bool; o_blink : bool; o_inverse : bool; o_strike : bool }.

Definition observe (p : pen) : pen_obs :=
  mkObs (foreground p) (background p) (intensity p) (is_italic p) (is_underline p) (is_blink p)
        (is_inverse p) (is_strikethrough p).

Definition default_obs : pen_obs := mkObs None None Normal false false false false false.

Definition spec_sgr_one (o : pen_obs) (op : sgr_op) : pen_obs :=
  let '(mkObs fg bg i it un bl inv st) := o in
  match op with
  | Reset => default_obs
  | SetBoldIntensity => mkObs fg bg Bold it un bl inv st
  | SetFaintIntensity => mkObs fg bg Faint it un bl inv st
  | ResetIntensity => mkObs fg bg Normal it un bl inv st
  | SetItalic => mkObs fg bg i true un bl inv st
  | ResetItalic => mkObs fg bg i false un bl inv st
  | SetUnderline => mkObs fg bg i it true bl inv st
  | ResetUnderline => mkObs fg bg i it false bl inv st
  | SetBlink => mkObs fg bg i it un true inv st
  | ResetBlink => mkObs fg bg i it un false inv st
  | SetInverse => mkObs fg bg i it un bl true st
  | ResetInverse => mkObs fg bg i it un bl false st
  | SetStrikethrough => mkObs fg bg i it un bl inv true
  | ResetStrikethrough => mkObs fg bg i it un bl inv false
  | SetForegroundColor c => mkObs (Some c) bg i it un bl inv st
  | ResetForegroundColor => mkObs None bg i it un bl inv st
  | SetBackgroundColor c => mkObs fg (Some c) i it un bl inv st
  | ResetBackgroundColor => mkObs fg None i it un bl inv st
  end.

Definition obs_eqb (a b : pen_obs) : bool :=
  opt_eqb color_eqb (o_fg a) (o_fg b) && opt_eqb color_eqb (o_bg a) (o_bg b)
  && inten_eqb (o_int a) (o_int b) && Bool.eqb (o_italic a) (o_italic b)
  && Bool.eqb (o_underline a) (o_underline b) && Bool.eqb (o_blink a) (o_blink b)
  && Bool.eqb (o_inverse a) (o_inverse b) && Bool.eqb (o_strike a) (o_strike b).

(** the SGR parameter grammar of the property text, over the parts of each parameter *)
Local Open Scope N_scope.

Definition spec_sgr_code (v : N) : option sgr_op :=
  match v with
  | 0 => Some Reset | 1 => Some SetBoldIntensity | 2 => Some SetFaintIntensity
  | 3 => Some SetItalic | 4 => Some SetUnderline | 5 => Some SetBlink | 7 => Some SetInverse
  | 9 => Some SetStrikethrough | 21 | 22 => Some ResetIntensity | 23 => Some ResetItalic
  | 24 => Some ResetUnderline | 25 => Some ResetBlink | 27 => Some ResetInverse
  | 29 => Some ResetStrikethrough | 39 => Some ResetForegroundColor
  | 49 => Some ResetBackgroundColor
  | _ =>
    if (30 <=? v) && (v <=? 37) then Some (SetForegroundColor (Indexed (v - 30))) else
    if (40 <=? v) && (v <=? 47) then Some (SetBackgroundColor (Indexed (v - 40))) else
    if (90 <=? v) && (v <=? 97) then Some (SetForegroundColor (Indexed (v - 90 + 8))) else
    if (100 <=? v) && (v <=? 107) then Some (SetBackgroundColor (Indexed (v - 100 + 8))) else
    None
  end.

Definition byte (n : N) : N := n mod 256.
Definition first_part (l : list N) : N := hd 0 l.

(** [ps]: the parameters, each given by its list of ':'-separated parts *)
Fixpoint spec_sgr (fuel : nat) (ps : list (list N)) : list sgr_op :=
  match fuel with
  | O => []
  | S fuel =>
    let cons_opt o r := match o with Some x => x :: r | None => r end in
    match ps with
    | [] => []
    | [v] :: rest =>
      if (v =? 38) || (v =? 48) then
        let mk c := if v =? 38 then SetForegroundColor c else SetBackgroundColor c in
        match rest with
        | [5] :: i :: rest' => mk (Indexed (byte (first_part i))) :: spec_sgr fuel rest'
        | [2] :: r :: g :: b :: rest' =>
          mk (RGB (byte (first_part r)) (byte (first_part g)) (byte (first_part b))) :: spec_sgr fuel rest'
        | [5] :: rest' | [2] :: rest' => spec_sgr fuel rest'   (* truncated colour: dropped *)
        | _ => spec_sgr fuel rest
        end
      else cons_opt (spec_sgr_code v) (spec_sgr fuel rest)
    | [v; 5; i] :: rest =>
      if v =? 38 then SetForegroundColor (Indexed (byte i)) :: spec_sgr fuel rest else
      if v =? 48 then SetBackgroundColor (Indexed (byte i)) :: spec_sgr fuel rest else
      spec_sgr fuel rest
    | [v; 2; r; g; b] :: rest | [v; 2; _; r; g; b] :: rest =>
      if v =? 38 then SetForegroundColor (RGB (byte r) (byte g) (byte b)) :: spec_sgr fuel rest else
      if v =? 48 then SetBackgroundColor (RGB (byte r) (byte g) (byte b)) :: spec_sgr fuel rest else
      spec_sgr fuel rest
    | _ :: rest => spec_sgr fuel rest
    end
  end.

Local Close Scope N_scope.

Definition spec_sgr_params (ps : list param) : list sgr_op :=
  spec_sgr (S (length ps)) (map pparts ps).

(** * C18: tab stops as a set of columns *)

Definition is_stop (l : list nat) (k : nat) : bool := existsb (Nat.eqb k) l.

Definition default_stop (c k : nat) : bool := (0 <? k) && (k <? c) && (k mod 8 =? 0).

(** * C17: the saved contexts, per screen *)

Definition saved_of (t : term) (s : btype) : saved_ctx :=
  if btype_eqb (active t) s then sctx t else asctx t.

Definition spec_saved_now (t : term) : saved_ctx :=
  mkCtx (viscol t) (cur_row t) (tpen t) (org t) (awm t).

Definition spec_restore (t : term) : term :=
  let c := sctx t in
  t <| cur_col := sc_col c |> <| cur_row := sc_row c |> <| tpen := sc_pen c |>
    <| org := sc_origin c |> <| awm := sc_awm c |> <| pend := false |>.

(** * C02: geometry *)

Definition line_ok (c : nat) (l : line) : bool := length (cells l) =? c.

Definition last_unwrapped (ls : list line) : bool :=
  match last_opt ls with Some l => negb (wrapped l) | None => false end.

Definition buffer_geom_ok (b : buffer) : bool :=
  (1 <=? bcols b) && (1 <=? brows b) && (brows b <=? length (lines b))
  && forallb (line_ok (bcols b)) (lines b) && last_unwrapped (lines b).

Definition geom_ok (t : term) : bool :=
  (1 <=? cols t) && (1 <=? rows t)
  && (bcols (buf t) =? cols t) && (brows (buf t) =? rows t) && buffer_geom_ok (buf t)
  && (cur_row t <? rows t) && (cur_col t <=? cols t)
  && Bool.eqb (pend t) (cur_col t =? cols t)
  && (length (dirty t) =? rows t).

Fixpoint strictly_increasing_below (bound : nat) (prev : option nat) (l : list nat) : bool :=
  match l with
  | [] => true
  | x :: r => (x <? bound) && (match prev with Some p => p <? x | None => true end)
              && strictly_increasing_below bound (Some x) r
  end.
