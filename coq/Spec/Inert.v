(** C20: which character sequences are control strings / unimplemented sequences.
    A recogniser written from the property text and ECMA-48's sequence grammar; it does not
    use the parser tables. *)

From Avt Require Export Model.Types.
Local Open Scope N_scope.

Definition inrng (lo hi c : N) : bool := (lo <=? c) && (c <=? hi).

Inductive strkind := KOsc | KDcs | KSos.

(** payload characters that cannot end or abort a string *)
Definition payload_ok (k : strkind) (c : N) : bool :=
  (inrng 32 127 c || (160 <=? c)
   || (inrng 0 31 c && negb ((c =? 24) || (c =? 26) || (c =? 27))))
  && negb (match k with KOsc => c =? 7 | _ => false end).

(** consume a payload and its terminator; [None] if the string is cut short or aborted *)
Fixpoint skip_string (k : strkind) (s : list N) : option (list N) :=
  match s with
  | [] => None
  | c :: r =>
    if c =? 156 then Some r                       (* ST, 8-bit *)
    else if (match k with KOsc => c =? 7 | _ => false end) then Some r   (* BEL ends OSC *)
    else if c =? 27 then match r with 92 :: r' => Some r' | _ => None end  (* ESC \ *)
    else if payload_ok k c then skip_string k r
    else None
  end.

(** implemented CSI sequences: (private marker, intermediates, final) *)
Definition csi_finals_plain : list N :=
  [64; 65; 66; 67; 68; 69; 70; 71; 72; 73; 74; 75; 76; 77; 80; 83; 84; 87; 88; 90; 96; 97; 98;
   100; 101; 102; 103; 104; 108; 109; 114; 115; 116; 117].

Definition mem_N (x : N) (l : list N) : bool := existsb (N.eqb x) l.

Definition csi_implemented (marker : option N) (inters : list N) (final : N) : bool :=
  match marker, inters with
  | None, [] => mem_N final csi_finals_plain
  | None, [33] => final =? 112                       (* CSI ! p  DECSTR *)
  | Some 63, [] => (final =? 104) || (final =? 108)  (* CSI ? h / l *)
  | _, _ => false
  end.

(** implemented ESC sequences: (intermediates, final); string introducers and CSI count as
    implemented here (they are not "unimplemented ESC sequences") *)
Definition esc_implemented (inters : list N) (final : N) : bool :=
  match inters with
  | [] => mem_N final [68; 69; 72; 77; 55; 56; 99; 80; 88; 91; 93; 94; 95]
  | [35] => final =? 56
  | [40] | [41] => true
  | _ => false
  end.

Definition split_while (f : N -> bool) (s : list N) : list N * list N :=
  (take_while f s, skip_while f s).

(** a CSI body after the introducer: parameter bytes, intermediate bytes, one final.
    Returns (marker, intermediates, final, rest); [None] if malformed / cut short.
    C0 controls inside the sequence are not part of this grammar. *)
Definition parse_csi (s : list N) : option (option N * list N * N * list N) :=
  let '(ps, r1) := split_while (inrng 48 63) s in
  let '(is, r2) := split_while (inrng 32 47) r1 in
  match r2 with
  | f :: rest =>
    if inrng 64 126 f then
      let marker := match ps with m :: _ => if inrng 60 63 m then Some m else None | [] => None end in
      (* a private marker anywhere else, or ':' first, is not a well-formed parameter string *)
      let tail := match marker with Some _ => tl ps | None => ps end in
      if forallb (fun c => inrng 48 59 c) tail && negb (match ps with 58 :: _ => true | _ => false end)
      then Some (marker, is, f, rest) else None
    else None
  | [] => None
  end.

Definition parse_esc (s : list N) : option (list N * N * list N) :=
  let '(is, r) := split_while (inrng 32 47) s in
  match r with
  | f :: rest => if inrng 48 126 f then Some (is, f, rest) else None
  | [] => None
  end.

Definition c0_unassigned (c : N) : bool := inrng 0 7 c || inrng 16 23 c || (c =? 25) || inrng 28 31 c.
Definition c1_unassigned (c : N) : bool :=
  inrng 128 131 c || (c =? 134) || (c =? 135) || inrng 137 140 c || (c =? 142) || (c =? 143)
  || inrng 145 151 c || (c =? 153) || (c =? 154) || (c =? 156).

(** one inert item at the head of [s]; returns the rest *)
Definition inert_item (s : list N) : option (list N) :=
  match s with
  | [] => None
  | c :: r =>
    if c0_unassigned c || c1_unassigned c then Some r else
    if c =? 157 then skip_string KOsc r else
    if c =? 144 then skip_string KDcs r else
    if (c =? 152) || (c =? 158) || (c =? 159) then skip_string KSos r else
    if c =? 155 then
      match parse_csi r with
      | Some (m, is, f, rest) => if csi_implemented m is f then None else Some rest
      | None => None
      end
    else if c =? 27 then
      match r with
      | 93 :: r' => skip_string KOsc r'
      | 80 :: r' => skip_string KDcs r'
      | 88 :: r' | 94 :: r' | 95 :: r' => skip_string KSos r'
      | 91 :: r' =>
        match parse_csi r' with
        | Some (m, is, f, rest) => if csi_implemented m is f then None else Some rest
        | None => None
        end
      | _ =>
        match parse_esc r with
        | Some (is, f, rest) => if esc_implemented is f then None else Some rest
        | None => None
        end
      end
    else None
  end.

Fixpoint inert_go (fuel : nat) (s : list N) : bool :=
  match s with
  | [] => true
  | _ =>
    match fuel with
    | O => false
    | S fuel => match inert_item s with Some r => inert_go fuel r | None => false end
    end
  end.

(** [s] is a concatenation of control strings, unimplemented sequences and unassigned
    controls *)
Definition inert_spec (s : list N) : bool :=
  match s with [] => false | _ => inert_go (length s) s end.

(** KF-C20-1: the parser remembers only the last private-marker / intermediate byte, so an
    unimplemented sequence with two or more prefix bytes whose last prefix byte together
    with the final is implemented gets executed. *)
Definition last_N (l : list N) : option N := last_opt l.

Definition kf_c20_csi (marker : option N) (inters : list N) (final : N) : bool :=
  let prefix := (match marker with Some m => [m] | None => [] end) ++ inters in
  (2 <=? length prefix)%nat
  && match last_N prefix with
     | Some 33 => final =? 112
     | Some 63 => (final =? 104) || (final =? 108)
     | _ => false
     end.

Definition kf_c20_esc (inters : list N) (final : N) : bool :=
  (2 <=? length inters)%nat
  && match last_N inters with
     | Some 35 => final =? 56
     | Some 40 | Some 41 => true
     | _ => false
     end.

(** does [s] contain an item of the known-finding class? (scan item by item) *)
Fixpoint kf_c20_go (fuel : nat) (s : list N) : bool :=
  match fuel with
  | O => false
  | S fuel =>
    match s with
    | [] => false
    | c :: r =>
      let here :=
        if c =? 155 then
          match parse_csi r with Some (m, is, f, _) => kf_c20_csi m is f | None => false end
        else if c =? 27 then
          match r with
          | 91 :: r' => match parse_csi r' with Some (m, is, f, _) => kf_c20_csi m is f | None => false end
          | _ => match parse_esc r with Some (is, f, _) => kf_c20_esc is f | None => false end
          end
        else false in
      here || match inert_item s with Some r' => kf_c20_go fuel r' | None => false end
    end
  end.

Definition kf_c20 (s : list N) : bool := kf_c20_go (length s) s.
