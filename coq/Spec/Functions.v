(** The implemented control functions, written by hand from ECMA-48 / DEC / xterm
    documentation: which (private marker or intermediate, final byte) yields which function,
    with the parameters as written.  Independent of the generated dispatch tables: property
    C03 ("each implemented final byte yields its function") is the equality of the two. *)

From Avt Require Export Model.ParserBase.
Local Open Scope N_scope.

(** C0 and C1 controls with a function *)
Definition c0c1_table : list (N * func) :=
  [ (8, Bs);      (* BS  *)
    (9, Ht);      (* HT  *)
    (10, Lf);     (* LF  *)
    (11, Lf);     (* VT  acts as LF *)
    (12, Lf);     (* FF  acts as LF *)
    (13, Cr);     (* CR  *)
    (14, So);     (* SO: invoke G1 *)
    (15, Si);     (* SI: invoke G0 *)
    (132, Lf);    (* IND *)
    (133, Nel);   (* NEL *)
    (136, Hts);   (* HTS *)
    (141, Ri) ].  (* RI  *)

Fixpoint assoc_N {A} (k : N) (l : list (N * A)) : option A :=
  match l with
  | [] => None
  | (k', v) :: r => if N.eqb k k' then Some v else assoc_N k r
  end.

Definition execute_spec (c : N) : option func := assoc_N c c0c1_table.

(** ANSI and DEC private modes *)
Definition ansi_mode_spec (v : N) : option ansi_mode :=
  assoc_N v [ (4, Insert) (* IRM *); (20, NewLine) (* LNM *) ].

Definition dec_mode_spec (v : N) : option dec_mode :=
  assoc_N v [ (1, CursorKeys)            (* DECCKM *)
            ; (6, Origin)                (* DECOM  *)
            ; (7, AutoWrap)              (* DECAWM *)
            ; (25, TextCursorEnable)     (* DECTCEM *)
            ; (47, AltScreenBuffer)
            ; (1047, AltScreenBuffer)
            ; (1048, SaveCursor)
            ; (1049, SaveCursorAltScreenBuffer) ].

(** the argument conventions: [p k] is parameter k as written (0 when absent) *)
Section Csi.
  Variable ps : list param.
  Variable cp : nat.
  Let p (k : nat) : N := pu16 ps k.
  Let all : list param := firstn (S cp) ps.

  Definition ed_spec : option func :=
    assoc_N (p 0) [ (0, Ed EdBelow); (1, Ed EdAbove); (2, Ed EdAll); (3, Ed EdSavedLines) ].
  Definition el_spec : option func :=
    assoc_N (p 0) [ (0, El ElToRight); (1, El ElToLeft); (2, El ElAll) ].
  Definition ctc_spec : option func :=
    assoc_N (p 0) [ (0, Ctc CtcSet); (2, Ctc CtcClearCurrentColumn); (5, Ctc CtcClearAll) ].
  Definition tbc_spec : option func :=
    assoc_N (p 0) [ (0, Tbc TbcCurrentColumn); (3, Tbc TbcAll) ].
  Definition xtwinops_spec : option func :=
    if p 0 =? 8 then Some (Xtwinops (XtwinopsResize (p 2) (p 1))) else None.

  (** CSI sequences without private marker or intermediate, by final byte *)
  Definition csi_plain : list (N * option func) :=
    [ (64,  Some (Ich (p 0)))          (* @  ICH *)
    ; (65,  Some (Cuu (p 0)))          (* A  CUU *)
    ; (66,  Some (Cud (p 0)))          (* B  CUD *)
    ; (67,  Some (Cuf (p 0)))          (* C  CUF *)
    ; (68,  Some (Cub (p 0)))          (* D  CUB *)
    ; (69,  Some (Cnl (p 0)))          (* E  CNL *)
    ; (70,  Some (Cpl (p 0)))          (* F  CPL *)
    ; (71,  Some (Cha (p 0)))          (* G  CHA *)
    ; (72,  Some (Cup (p 0) (p 1)))    (* H  CUP *)
    ; (73,  Some (Cht (p 0)))          (* I  CHT *)
    ; (74,  ed_spec)                   (* J  ED  *)
    ; (75,  el_spec)                   (* K  EL  *)
    ; (76,  Some (Il (p 0)))           (* L  IL  *)
    ; (77,  Some (Dl (p 0)))           (* M  DL  *)
    ; (80,  Some (Dch (p 0)))          (* P  DCH *)
    ; (83,  Some (Su (p 0)))           (* S  SU  *)
    ; (84,  Some (Sd (p 0)))           (* T  SD  *)
    ; (87,  ctc_spec)                  (* W  CTC *)
    ; (88,  Some (Ech (p 0)))          (* X  ECH *)
    ; (90,  Some (Cbt (p 0)))          (* Z  CBT *)
    ; (96,  Some (Cha (p 0)))          (* `  HPA *)
    ; (97,  Some (Cuf (p 0)))          (* a  HPR *)
    ; (98,  Some (Rep (p 0)))          (* b  REP *)
    ; (100, Some (Vpa (p 0)))          (* d  VPA *)
    ; (101, Some (Vpr (p 0)))          (* e  VPR *)
    ; (102, Some (Cup (p 0) (p 1)))    (* f  HVP *)
    ; (103, tbc_spec)                  (* g  TBC *)
    ; (104, Some (Sm (filter_map (fun q => ansi_mode_spec (as_u16 q)) all)))   (* h  SM *)
    ; (108, Some (Rm (filter_map (fun q => ansi_mode_spec (as_u16 q)) all)))   (* l  RM *)
    ; (109, Some (Sgr (sgr_ops all)))  (* m  SGR (decoding: property C08) *)
    ; (114, Some (Decstbm (p 0) (p 1))) (* r  DECSTBM *)
    ; (115, Some Scosc)                (* s  SCOSC *)
    ; (116, xtwinops_spec)             (* t  XTWINOPS *)
    ; (117, Some Scorc) ].             (* u  SCORC *)

  Definition csi_spec (inter : option N) (fin : N) : option func :=
    match inter with
    | None => match assoc_N fin csi_plain with Some f => f | None => None end
    | Some i =>
      if (i =? 33) && (fin =? 112) then Some Decstr                                  (* CSI ! p  DECSTR *)
      else if (i =? 63) && (fin =? 104)
        then Some (Decset (filter_map (fun q => dec_mode_spec (as_u16 q)) all))      (* CSI ? h  DECSET *)
      else if (i =? 63) && (fin =? 108)
        then Some (Decrst (filter_map (fun q => dec_mode_spec (as_u16 q)) all))      (* CSI ? l  DECRST *)
      else None
    end.
End Csi.

(** ESC sequences: (intermediate, final) -> function; the second component tells whether
    the parser state is forced to Ground (RIS) *)
Definition esc_spec (inter : option N) (fin : N) : option func :=
  match inter with
  | None =>
    if (64 <=? fin) && (fin <=? 95) then execute_spec (fin + 64)     (* ESC Fe = C1 *)
    else if fin =? 55 then Some Decsc                                (* ESC 7 *)
    else if fin =? 56 then Some Decrc                                (* ESC 8 *)
    else if fin =? 99 then Some Ris                                  (* ESC c *)
    else None
  | Some i =>
    if (i =? 35) && (fin =? 56) then Some Decaln                     (* ESC # 8 *)
    else if i =? 40 then Some (Gzd4 (if fin =? 48 then CsDrawing else CsAscii))   (* ESC ( F *)
    else if i =? 41 then Some (G1d4 (if fin =? 48 then CsDrawing else CsAscii))   (* ESC ) F *)
    else None
  end.
