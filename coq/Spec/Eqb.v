(** Boolean equality on the model's state types (used by the executable statements
    [holds_Cxx]) with the reflexivity lemmas the theorems need. *)

From Avt Require Export Model.Vt.

Definition charset_eqb (a b : charset) : bool :=
  match a, b with CsAscii, CsAscii | CsDrawing, CsDrawing => true | _, _ => false end.

Definition btype_eqb (a b : btype) : bool :=
  match a, b with Primary, Primary | Alternate, Alternate => true | _, _ => false end.

Definition ctx_eqb (a b : saved_ctx) : bool :=
  Nat.eqb (sc_col a) (sc_col b) && Nat.eqb (sc_row a) (sc_row b) && pen_eqb (sc_pen a) (sc_pen b)
  && Bool.eqb (sc_origin a) (sc_origin b) && Bool.eqb (sc_awm a) (sc_awm b).

Definition lines_eqb := list_eqb line_eqb.

Definition limit_eqb (a b : option (N * N)) : bool :=
  opt_eqb (fun x y => N.eqb (fst x) (fst y) && N.eqb (snd x) (snd y)) a b.

Definition buffer_eqb (a b : buffer) : bool :=
  lines_eqb (lines a) (lines b) && Nat.eqb (bcols a) (bcols b) && Nat.eqb (brows a) (brows b)
  && limit_eqb (blimit a) (blimit b) && Bool.eqb (trim_needed a) (trim_needed b).

(** every field of [term] except the two buffers and the dirty flags *)
Definition term_scalars_eqb (a b : term) : bool :=
  Nat.eqb (cols a) (cols b) && Nat.eqb (rows a) (rows b) && btype_eqb (active a) (active b)
  && opt_eqb N.eqb (sb_limit a) (sb_limit b)
  && Nat.eqb (cur_col a) (cur_col b) && Nat.eqb (cur_row a) (cur_row b)
  && Bool.eqb (cur_vis a) (cur_vis b) && pen_eqb (tpen a) (tpen b)
  && charset_eqb (cs0 a) (cs0 b) && charset_eqb (cs1 a) (cs1 b) && Nat.eqb (acs a) (acs b)
  && list_eqb Nat.eqb (tabs a) (tabs b)
  && Bool.eqb (ins a) (ins b) && Bool.eqb (org a) (org b) && Bool.eqb (awm a) (awm b)
  && Bool.eqb (nlm a) (nlm b) && Bool.eqb (ckm a) (ckm b) && Bool.eqb (pend a) (pend b)
  && Nat.eqb (top a) (top b) && Nat.eqb (bot a) (bot b)
  && ctx_eqb (sctx a) (sctx b) && ctx_eqb (asctx a) (asctx b) && Bool.eqb (xtw a) (xtw b).

Definition term_eqb (a b : term) : bool :=
  term_scalars_eqb a b && buffer_eqb (buf a) (buf b) && buffer_eqb (other a) (other b)
  && list_eqb Bool.eqb (dirty a) (dirty b).

(** like [term_eqb] but the dirty flags of [b] may over-approximate those of [a] *)
Fixpoint dirty_sub (a b : list bool) : bool :=
  match a, b with
  | [], [] => true
  | x :: a', y :: b' => (negb x || y) && dirty_sub a' b'
  | _, _ => false
  end.

Definition param_eqb (a b : param) : bool :=
  Nat.eqb (cur_part a) (cur_part b) && list_eqb N.eqb (parts a) (parts b).

Definition parser_eqb (a b : parser) : bool :=
  pstate_eqb (pst a) (pst b) && list_eqb param_eqb (params a) (params b)
  && Nat.eqb (cur_param a) (cur_param b) && opt_eqb N.eqb (inter a) (inter b).

Definition vt_eqb (a b : vt) : bool :=
  parser_eqb (vparser a) (vparser b) && term_eqb (vterm a) (vterm b).

(** * reflexivity *)

Lemma list_eqb_refl {A} (e : A -> A -> bool) :
  (forall x, e x x = true) -> forall l, list_eqb e l l = true.
Proof. intros H l; induction l as [|x l IH]; cbn; [reflexivity|]. now rewrite H, IH. Qed.

Lemma opt_eqb_refl {A} (e : A -> A -> bool) :
  (forall x, e x x = true) -> forall o, opt_eqb e o o = true.
Proof. intros H [x|]; cbn; auto. Qed.

Lemma color_eqb_refl c : color_eqb c c = true.
Proof. destruct c; cbn; rewrite ?N.eqb_refl; reflexivity. Qed.

Lemma inten_eqb_refl i : inten_eqb i i = true.
Proof. now destruct i. Qed.

Lemma pen_eqb_refl p : pen_eqb p p = true.
Proof.
  unfold pen_eqb. rewrite !(opt_eqb_refl _ color_eqb_refl), inten_eqb_refl, N.eqb_refl. reflexivity.
Qed.

Lemma cell_eqb_refl c : cell_eqb c c = true.
Proof. unfold cell_eqb. now rewrite N.eqb_refl, pen_eqb_refl. Qed.

Lemma line_eqb_refl l : line_eqb l l = true.
Proof. unfold line_eqb. now rewrite (list_eqb_refl _ cell_eqb_refl), Bool.eqb_reflx. Qed.

Lemma lines_eqb_refl l : lines_eqb l l = true.
Proof. apply list_eqb_refl, line_eqb_refl. Qed.

Lemma charset_eqb_refl c : charset_eqb c c = true.
Proof. now destruct c. Qed.

Lemma btype_eqb_refl c : btype_eqb c c = true.
Proof. now destruct c. Qed.

Lemma ctx_eqb_refl c : ctx_eqb c c = true.
Proof. unfold ctx_eqb. now rewrite !Nat.eqb_refl, pen_eqb_refl, !Bool.eqb_reflx. Qed.

Lemma limit_eqb_refl l : limit_eqb l l = true.
Proof. destruct l as [[a b]|]; cbn; rewrite ?N.eqb_refl; reflexivity. Qed.

Lemma buffer_eqb_refl b : buffer_eqb b b = true.
Proof.
  unfold buffer_eqb.
  now rewrite lines_eqb_refl, !Nat.eqb_refl, limit_eqb_refl, Bool.eqb_reflx.
Qed.

Lemma term_scalars_eqb_refl t : term_scalars_eqb t t = true.
Proof.
  unfold term_scalars_eqb.
  rewrite !Nat.eqb_refl, !Bool.eqb_reflx, btype_eqb_refl, pen_eqb_refl, !charset_eqb_refl,
    !ctx_eqb_refl, (opt_eqb_refl _ N.eqb_refl), (list_eqb_refl _ Nat.eqb_refl).
  reflexivity.
Qed.

Lemma term_eqb_refl t : term_eqb t t = true.
Proof.
  unfold term_eqb.
  now rewrite term_scalars_eqb_refl, !buffer_eqb_refl, (list_eqb_refl _ Bool.eqb_reflx).
Qed.

Lemma pstate_eqb_refl s : pstate_eqb s s = true.
Proof. now destruct s. Qed.

Lemma param_eqb_refl p : param_eqb p p = true.
Proof. unfold param_eqb. now rewrite Nat.eqb_refl, (list_eqb_refl _ N.eqb_refl). Qed.

Lemma parser_eqb_refl p : parser_eqb p p = true.
Proof.
  unfold parser_eqb.
  now rewrite pstate_eqb_refl, (list_eqb_refl _ param_eqb_refl), Nat.eqb_refl,
    (opt_eqb_refl _ N.eqb_refl).
Qed.

Lemma vt_eqb_refl v : vt_eqb v v = true.
Proof. unfold vt_eqb. now rewrite parser_eqb_refl, term_eqb_refl. Qed.

(** * soundness (eqb = true -> equal), for the directions the proofs use *)

Lemma list_eqb_eq {A} (e : A -> A -> bool) :
  (forall x y, e x y = true -> x = y) -> forall a b, list_eqb e a b = true -> a = b.
Proof.
  intros H a; induction a as [|x a IH]; intros [|y b]; cbn; try discriminate; auto.
  intros E. apply andb_prop in E as [E1 E2]. f_equal; auto.
Qed.

Lemma pstate_eqb_eq a b : pstate_eqb a b = true -> a = b.
Proof. destruct a, b; cbn; congruence. Qed.
