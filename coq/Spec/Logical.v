(** Logical lines (rows joined across soft-wrap marks) and the cursor's place in them:
    the vocabulary of C09, C10 and C16 (resized excursion). *)

From Avt Require Export Spec.Screen.

Fixpoint logical_go (ls : list line) (cur : list cell) : list (list cell) :=
  match ls with
  | [] => match cur with [] => [] | _ => [cur] end
  | l :: r =>
    let cur' := cur ++ cells l in
    if wrapped l then logical_go r cur' else cur' :: logical_go r []
  end.

Definition logical (ls : list line) : list (list cell) := logical_go ls [].

(** drop trailing default cells (blank, default pen): the only thing reflow ever trims *)
Definition trimd (l : list cell) : list cell := rev (skip_while cell_is_default (rev l)).

Definition logical_t (ls : list line) : list (list cell) := map trimd (logical ls).

(** logical line index and cell offset of absolute row [R], column [c] *)
Fixpoint curs_go (ls : list line) (R k off ncols : nat) : nat * nat :=
  match R, ls with
  | S R', l :: r => if wrapped l then curs_go r R' k (off + ncols) ncols else curs_go r R' (S k) 0 ncols
  | _, _ => (k, off)
  end.

Definition curs (b : buffer) (c r : nat) : nat * nat :=
  let '(k, off) := curs_go (lines b) (sb_len b + r) 0 0 (bcols b) in (k, off + c).

Definition cells_eqb := list_eqb cell_eqb.

Fixpoint is_prefix (a b : list cell) : bool :=
  match a, b with
  | [], _ => true
  | x :: a', y :: b' => cell_eqb x y && is_prefix a' b'
  | _ :: _, [] => false
  end.

Definition all_empty (l : list (list cell)) : bool :=
  forallb (fun x => match x with [] => true | _ => false end) l.

(** lines after the cursor's line: equal up to some point, then one line possibly cut
    short, then nothing but blank lines *)
Fixpoint tail_ok (new old : list (list cell)) : bool :=
  match new, old with
  | [], _ => true
  | _, [] => all_empty new
  | x :: new', y :: old' =>
    if cells_eqb x y then tail_ok new' old'
    else is_prefix x y && all_empty new'
  end.

(** [a] equals [b] up to trailing default cells of [b] *)
Definition eq_upto_blank (a b : list cell) : bool :=
  is_prefix a b && forallb cell_is_default (skipn (length a) b).

(** C10 for one resize of one buffer: [b], cursor [(c, r)] before; [b'], [(c', r')] after *)
Definition resize_preserves (b : buffer) (c r : nat) (b' : buffer) (c' r' : nat) : bool :=
  let L := logical_t (lines b) in
  let L' := logical_t (lines b') in
  let '(k, o) := curs b c r in
  let '(k', o') := curs b' c' r' in
  let old_k := nth k L [] in
  let new_k := nth k L' [] in
  let m := length old_k in
  (k' =? k)
  && list_eqb cells_eqb (firstn k L') (firstn k L)
  && eq_upto_blank (firstn (Nat.min o m) new_k) (firstn (Nat.min o m) old_k)
  && is_prefix new_k old_k
  && (if o <? m then o' =? o else true)
  && tail_ok (skipn (S k) L') (skipn (S k) L).
