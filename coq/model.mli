
val negb : bool -> bool

type nat =
| O
| S of nat

val fst : ('a1 * 'a2) -> 'a1

val snd : ('a1 * 'a2) -> 'a2

val length : 'a1 list -> nat

val app : 'a1 list -> 'a1 list -> 'a1 list

type comparison =
| Eq
| Lt
| Gt

val compOpp : comparison -> comparison

val add : nat -> nat -> nat

val mul : nat -> nat -> nat

val sub : nat -> nat -> nat

val eqb : bool -> bool -> bool

module Nat :
 sig
  val sub : nat -> nat -> nat

  val eqb : nat -> nat -> bool

  val leb : nat -> nat -> bool

  val ltb : nat -> nat -> bool

  val compare : nat -> nat -> comparison

  val max : nat -> nat -> nat

  val min : nat -> nat -> nat

  val divmod : nat -> nat -> nat -> nat -> nat * nat

  val div : nat -> nat -> nat

  val modulo : nat -> nat -> nat

  val iter : nat -> ('a1 -> 'a1) -> 'a1 -> 'a1
 end

type positive =
| XI of positive
| XO of positive
| XH

type n =
| N0
| Npos of positive

type z =
| Z0
| Zpos of positive
| Zneg of positive

module Pos :
 sig
  type mask =
  | IsNul
  | IsPos of positive
  | IsNeg
 end

module Coq_Pos :
 sig
  val succ : positive -> positive

  val add : positive -> positive -> positive

  val add_carry : positive -> positive -> positive

  val pred_double : positive -> positive

  type mask = Pos.mask =
  | IsNul
  | IsPos of positive
  | IsNeg

  val succ_double_mask : mask -> mask

  val double_mask : mask -> mask

  val double_pred_mask : positive -> mask

  val sub_mask : positive -> positive -> mask

  val sub_mask_carry : positive -> positive -> mask

  val mul : positive -> positive -> positive

  val compare_cont : comparison -> positive -> positive -> comparison

  val compare : positive -> positive -> comparison

  val eqb : positive -> positive -> bool

  val coq_Nsucc_double : n -> n

  val coq_Ndouble : n -> n

  val coq_lor : positive -> positive -> positive

  val coq_land : positive -> positive -> n

  val coq_lxor : positive -> positive -> n

  val iter_op : ('a1 -> 'a1 -> 'a1) -> positive -> 'a1 -> 'a1

  val to_nat : positive -> nat

  val of_succ_nat : nat -> positive
 end

module N :
 sig
  val succ_double : n -> n

  val double : n -> n

  val add : n -> n -> n

  val sub : n -> n -> n

  val mul : n -> n -> n

  val compare : n -> n -> comparison

  val eqb : n -> n -> bool

  val leb : n -> n -> bool

  val ltb : n -> n -> bool

  val pos_div_eucl : positive -> n -> n * n

  val div_eucl : n -> n -> n * n

  val div : n -> n -> n

  val modulo : n -> n -> n

  val coq_lor : n -> n -> n

  val coq_land : n -> n -> n

  val coq_lxor : n -> n -> n

  val to_nat : n -> nat

  val of_nat : nat -> n
 end

val hd : 'a1 -> 'a1 list -> 'a1

val tl : 'a1 list -> 'a1 list

val nth : nat -> 'a1 list -> 'a1 -> 'a1

val nth_error : 'a1 list -> nat -> 'a1 option

val rev : 'a1 list -> 'a1 list

val map : ('a1 -> 'a2) -> 'a1 list -> 'a2 list

val flat_map : ('a1 -> 'a2 list) -> 'a1 list -> 'a2 list

val fold_left : ('a1 -> 'a2 -> 'a1) -> 'a2 list -> 'a1 -> 'a1

val fold_right : ('a2 -> 'a1 -> 'a1) -> 'a1 -> 'a2 list -> 'a1

val existsb : ('a1 -> bool) -> 'a1 list -> bool

val forallb : ('a1 -> bool) -> 'a1 list -> bool

val filter : ('a1 -> bool) -> 'a1 list -> 'a1 list

val firstn : nat -> 'a1 list -> 'a1 list

val skipn : nat -> 'a1 list -> 'a1 list

val seq : nat -> nat -> nat list

val repeat : 'a1 -> nat -> 'a1 list

module Z :
 sig
  val double : z -> z

  val succ_double : z -> z

  val pred_double : z -> z

  val pos_sub : positive -> positive -> z

  val add : z -> z -> z

  val opp : z -> z

  val sub : z -> z -> z

  val compare : z -> z -> comparison

  val leb : z -> z -> bool

  val ltb : z -> z -> bool

  val to_nat : z -> nat

  val of_nat : nat -> z
 end

type ascii =
| Ascii of bool * bool * bool * bool * bool * bool * bool * bool

val n_of_digits : bool list -> n

val n_of_ascii : ascii -> n

type string =
| EmptyString
| String of ascii * string

type 'a res =
| Ok of 'a
| Panic of nat

val bind : 'a1 res -> ('a1 -> 'a2 res) -> 'a2 res

val guard : bool -> nat -> unit res

val site_fuel : nat

val rotl : nat -> 'a1 list -> 'a1 list

val rotr : nat -> 'a1 list -> 'a1 list

val fill_range : nat -> nat -> 'a1 -> 'a1 list -> 'a1 list

val upd : nat -> ('a1 -> 'a1) -> 'a1 list -> 'a1 list

val on_range : nat -> nat -> ('a1 list -> 'a1 list) -> 'a1 list -> 'a1 list

val insert_n : nat -> nat -> 'a1 -> 'a1 list -> 'a1 list

val last_opt : 'a1 list -> 'a1 option

val take_while : ('a1 -> bool) -> 'a1 list -> 'a1 list

val skip_while : ('a1 -> bool) -> 'a1 list -> 'a1 list

val filter_map : ('a1 -> 'a2 option) -> 'a1 list -> 'a2 list

val opt_eqb : ('a1 -> 'a1 -> bool) -> 'a1 option -> 'a1 option -> bool

val list_eqb : ('a1 -> 'a1 -> bool) -> 'a1 list -> 'a1 list -> bool

type ('r, 't) setter = ('t -> 't) -> 'r -> 'r

val set : ('a1 -> 'a2) -> ('a1, 'a2) setter -> ('a2 -> 'a2) -> 'a1 -> 'a1

type color =
| Indexed of n
| RGB of n * n * n

type inten =
| Normal
| Bold
| Faint

type pen = { foreground : color option; background : color option;
             intensity : inten; attrs : n }

val default_pen : pen

type cell = { ch : n; cpen : pen }

type line = { cells : cell list; wrapped : bool }

val color_eqb : color -> color -> bool

val inten_eqb : inten -> inten -> bool

val pen_eqb : pen -> pen -> bool

val cell_eqb : cell -> cell -> bool

val line_eqb : line -> line -> bool

type pstate =
| Ground
| Escape
| EscapeIntermediate
| CsiEntry
| CsiParam
| CsiIntermediate
| CsiIgnore
| DcsEntry
| DcsParam
| DcsIntermediate
| DcsPassthrough
| DcsIgnore
| OscString
| SosPmApcString

val pstate_eqb : pstate -> pstate -> bool

type param = { cur_part : nat; parts : n list }

type parser0 = { pst : pstate; params : param list; cur_param : nat;
                 inter : n option }

type charset =
| CsAscii
| CsDrawing

type ansi_mode =
| Insert
| NewLine

type ctc_op =
| CtcSet
| CtcClearCurrentColumn
| CtcClearAll

type dec_mode =
| CursorKeys
| Origin
| AutoWrap
| TextCursorEnable
| AltScreenBuffer
| SaveCursor
| SaveCursorAltScreenBuffer

type ed_scope =
| EdBelow
| EdAbove
| EdAll
| EdSavedLines

type el_scope =
| ElToRight
| ElToLeft
| ElAll

type tbc_scope =
| TbcCurrentColumn
| TbcAll

type xtwinops_op =
| XtwinopsResize of n * n

type sgr_op =
| Reset
| SetBoldIntensity
| SetFaintIntensity
| SetItalic
| SetUnderline
| SetBlink
| SetInverse
| SetStrikethrough
| ResetIntensity
| ResetItalic
| ResetUnderline
| ResetBlink
| ResetInverse
| ResetStrikethrough
| SetForegroundColor of color
| ResetForegroundColor
| SetBackgroundColor of color
| ResetBackgroundColor

type func =
| Bs
| Cbt of n
| Cha of n
| Cht of n
| Cnl of n
| Cpl of n
| Cr
| Ctc of ctc_op
| Cub of n
| Cud of n
| Cuf of n
| Cup of n * n
| Cuu of n
| Dch of n
| Decaln
| Decrc
| Decrst of dec_mode list
| Decsc
| Decset of dec_mode list
| Decstbm of n * n
| Decstr
| Dl of n
| Ech of n
| Ed of ed_scope
| El of el_scope
| G1d4 of charset
| Gzd4 of charset
| Ht
| Hts
| Ich of n
| Il of n
| Lf
| Nel
| Print of n
| Rep of n
| Ri
| Ris
| Rm of ansi_mode list
| Scorc
| Scosc
| Sd of n
| Sgr of sgr_op list
| Si
| Sm of ansi_mode list
| So
| Su of n
| Tbc of tbc_scope
| Vpa of n
| Vpr of n
| Xtwinops of xtwinops_op

type spat =
| AnyState
| St of pstate

type act =
| ASetState of pstate
| AClear
| ACollect
| AParam
| APut
| AOscPut
| ARetExecute
| ARetCsi
| ARetEsc
| ARetPrint

type arm = ((spat * n) * n) list * act list

type buffer = { lines : line list; bcols : nat; brows : nat;
                blimit : (n * n) option; trim_needed : bool }

type saved_ctx = { sc_col : nat; sc_row : nat; sc_pen : pen;
                   sc_origin : bool; sc_awm : bool }

type btype =
| Primary
| Alternate

type term = { cols : nat; rows : nat; buf : buffer; other : buffer;
              active : btype; sb_limit : n option; cur_col : nat;
              cur_row : nat; cur_vis : bool; tpen : pen; cs0 : charset;
              cs1 : charset; acs : nat; tabs : nat list; ins : bool;
              org : bool; awm : bool; nlm : bool; ckm : bool; pend : 
              bool; top : nat; bot : nat; sctx : saved_ctx;
              asctx : saved_ctx; dirty : bool list; xtw : bool }

type vt = { vparser : parser0; vterm : term }

val pARAMS_LEN : nat

val mAX_PARAM_LEN : nat

val aDD_PART_CAP : nat

val add_digit_gen : n -> n -> n

val pARAM_SEP : n

val pART_SEP : n

val dIGIT_BASE : n

val iTALIC_MASK : n

val uNDERLINE_MASK : n

val sTRIKETHROUGH_MASK : n

val bLINK_MASK : n

val iNVERSE_MASK : n

val sPECIAL_GFX_CHARS : n list

val gFX_LO : n

val gFX_HI_EXCL : n

val gFX_OFF : n

val hard_of : n -> n

val tAB_START : nat

val tAB_STEP : nat

val as_usize_gen : n -> nat -> nat

val sGRP_T1 : n

val sGRP_T2 : n

val sGRP_O2 : n

val sGRP_O3 : n

val sGRP_O4 : n

val blank_cell : pen -> cell

val default_cell : cell

val pen_is_default : pen -> bool

val cell_is_default : cell -> bool

val blank_line : nat -> pen -> line

val llen : line -> nat

val line_clear_ok : nat -> nat -> line -> bool

val line_clear : nat -> nat -> pen -> line -> line

val line_clearM : nat -> nat -> pen -> line -> line res

val line_print_ok : nat -> line -> bool

val line_print : nat -> cell -> line -> line

val line_printM : nat -> cell -> line -> line res

val line_insert_ok : nat -> nat -> line -> bool

val line_insert : nat -> nat -> cell -> line -> line

val line_insertM : nat -> nat -> cell -> line -> line res

val line_delete_ok : nat -> nat -> line -> bool

val line_delete : nat -> nat -> pen -> line -> line

val line_deleteM : nat -> nat -> pen -> line -> line res

val trailers : line -> nat

val line_trim : line -> line

val line_expand_ok : nat -> line -> bool

val line_expand : nat -> pen -> line -> line

val line_expandM : nat -> pen -> line -> line res

val line_is_blank : line -> bool

val line_contract : nat -> line -> line * line option

val line_extend : line -> line -> nat -> (line * (bool * line option)) res

val reflow_go :
  nat -> nat -> line option -> line list -> line list -> line list res

val total_cells : line list -> nat

val reflow_fuel : line list -> nat

val reflowM : line list -> nat -> line list res

val limit_of : n option -> (n * n) option

val buffer_new : nat -> nat -> n option -> pen option -> buffer

val sb_len : buffer -> nat

val view_ok : buffer -> bool

val view : buffer -> line list

val viewM : buffer -> line list res

val with_row : buffer -> nat -> (line -> line res) -> buffer res

val get_row : buffer -> nat -> line res

val set_wrapped : bool -> line -> line res

val with_view : buffer -> bool -> (line list -> line list) -> buffer res

val buf_clear : buffer -> nat -> nat -> pen -> buffer res

val buf_extend : buffer -> nat -> nat -> pen -> buffer

val buf_print : buffer -> nat -> nat -> cell -> buffer res

val buf_wrap : buffer -> nat -> buffer res

val buf_insert : buffer -> nat -> nat -> nat -> cell -> buffer res

val buf_delete : buffer -> nat -> nat -> nat -> pen -> buffer res

type erase_mode =
| NextChars of nat
| FromCursorToEndOfView
| FromStartOfViewToCursor
| WholeView
| FromCursorToEndOfLine
| FromStartOfLineToCursor
| WholeLine

val buf_erase : buffer -> nat -> nat -> erase_mode -> pen -> buffer res

val buf_scroll_up : buffer -> nat -> nat -> nat -> pen -> buffer res

val buf_scroll_down : buffer -> nat -> nat -> nat -> pen -> buffer res

val logpos_go : line list -> nat -> nat -> nat -> nat * nat

val logical_position : buffer -> nat -> nat -> nat -> nat -> (nat * nat) res

val relpos1 : nat -> line list -> nat -> nat -> nat -> nat -> nat res

val relpos2 : nat -> line list -> nat -> nat -> nat -> (nat * nat) res

val relative_position : line list -> nat -> nat -> nat -> nat -> (nat * z) res

val buf_resize :
  buffer -> nat -> nat -> nat -> nat -> (buffer * (nat * nat)) res

val buf_gc : buffer -> (buffer * line list) res

val tabs_range : nat -> nat -> nat list

val tabs_new : nat -> nat list

val tabs_set : nat -> nat list -> nat list

val tabs_unset : nat -> nat list -> nat list

val tabs_expand : nat -> nat -> nat list -> nat list

val tabs_contract : nat -> nat list -> nat list

val tabs_before : nat list -> nat -> nat -> nat option res

val tabs_after : nat list -> nat -> nat -> nat option res

val dirty_new : nat -> bool list

val dirty_add : bool list -> nat -> bool list res

val dirty_extend : bool list -> nat -> nat -> bool list res

val dirty_resize : bool list -> nat -> bool list

val dirty_clear : bool list -> bool list

val dirty_to_vec : bool list -> nat -> nat list

val opt_is_none : n option -> bool

val opt_is : n option -> n -> bool

val as_u16 : param -> n

val pu16 : param list -> nat -> n

val pparts : param -> n list

val default_param : param

val rgb : n -> n -> n -> color

val sgr_single : n -> sgr_op option

val sgr_ext : (color -> sgr_op) -> param list -> sgr_op option * nat

val sgr_step : param -> param list -> sgr_op option * nat

val sgr_go : nat -> param list -> sgr_op list

val sgr_ops : param list -> sgr_op list

val hi_threshold : n

val hi_subst : n

val feed_arms : arm list

val execute_gen : n -> func option

val ansi_mode_gen : n -> ansi_mode option

val dec_mode_gen : n -> dec_mode option

val esc_dispatch_gen : n option -> n -> pstate option * func option

val csi_dispatch_gen : n option -> n -> param list -> nat -> func option

val init_parser : parser0

val param_clear_ok : param -> bool

val param_clear : param -> param

val param_add_part : param -> param

val param_add_digit_ok : param -> bool

val param_add_digit : n -> param -> param

val clear_ok : parser0 -> bool

val clear : parser0 -> parser0

val clearM : parser0 -> parser0 res

val collect : parser0 -> n -> parser0

val param_ok : parser0 -> n -> bool

val param_step : parser0 -> n -> parser0

val paramM : parser0 -> n -> parser0 res

val csi_dispatchM : parser0 -> n -> func option res

val esc_dispatch : parser0 -> n -> parser0 * func option

val spat_matches : spat -> pstate -> bool

val pat_matches : pstate -> n -> ((spat * n) * n) -> bool

val find_arm : pstate -> n -> arm list -> act list

val run_acts : act list -> parser0 -> n -> (parser0 * func option) res

val input2 : n -> n

val feedM : parser0 -> n -> (parser0 * func option) res

val digits_fuel : nat -> n -> n list -> n list

val show_N : n -> n list

val show_nat : nat -> n list

val join_with : n list -> n list list -> n list

val param_show : param -> n list

val inter_str : parser0 -> n list

val params_str : parser0 -> n list

val parser_dump : parser0 -> n list

val parser_dumpM : parser0 -> n list res

val default_ctx : saved_ctx

val term_new_gen : nat -> nat -> n option -> term

val hard_reset_gen : term -> term

val soft_reset_gen : term -> term

val save_cursor_gen : term -> term

val restore_cursor_gen : term -> term

val as_usize : n -> nat -> nat

val translate : charset -> n -> n res

val active_cs : term -> charset res

val on_buf : term -> (buffer -> buffer res) -> term res

val mark : term -> nat -> term res

val mark_range : term -> nat -> nat -> term res

val save_cursor : term -> term

val restore_cursor : term -> term

val do_move_cursor_to_col : term -> nat -> term

val move_cursor_to_col : term -> nat -> term

val do_move_cursor_to_row : term -> nat -> term

val actual_top_margin : term -> nat

val actual_bottom_margin : term -> nat

val move_cursor_to_row : term -> nat -> term

val move_cursor_to_rel_col : term -> z -> term

val move_cursor_home : term -> term

val move_cursor_to_next_tab : term -> nat -> term res

val move_cursor_to_prev_tab : term -> nat -> term res

val scroll_up_in_region : term -> nat -> term res

val scroll_down_in_region : term -> nat -> term res

val move_cursor_down_with_scroll : term -> term res

val cursor_down : term -> nat -> term

val cursor_up : term -> nat -> term

val set_tab : term -> term

val clear_tab : term -> term

val clear_all_tabs : term -> term

val switch_to_alternate_buffer : term -> term res

val switch_to_primary_buffer : term -> term res

val reflow : term -> term res

val term_resize : term -> nat -> nat -> term res

val print : term -> n -> term res

val print_n : nat -> term -> n -> term res

val bs : term -> term

val lf : term -> term res

val nel : term -> term res

val ri : term -> term res

val decaln_cols : buffer -> nat -> nat -> nat -> buffer res

val decaln_rows : term -> nat -> nat -> term res

val decaln : term -> term res

val ich : term -> n -> term res

val cub : term -> n -> term

val cup : term -> n -> n -> term

val ed : term -> ed_scope -> term res

val el : term -> el_scope -> term res

val il_dl_range : term -> nat * nat

val il : term -> n -> term res

val dl : term -> n -> term res

val dch : term -> n -> term res

val ech : term -> n -> term res

val rep : term -> n -> term res

val ctc : term -> ctc_op -> term

val tbc : term -> tbc_scope -> term

val sm_one : term -> ansi_mode -> term

val rm_one : term -> ansi_mode -> term

val pen_set : n -> pen -> pen

val pen_unset : n -> pen -> pen

val pen_has : n -> pen -> bool

val sgr_one : pen -> sgr_op -> pen

val sgr : term -> sgr_op list -> term

val decstbm : term -> n -> n -> term

val xtwinops : term -> xtwinops_op -> term res

val decset_one : term -> dec_mode -> term res

val decrst_one : term -> dec_mode -> term res

val foldM : ('a1 -> 'a2 -> 'a1 res) -> 'a2 list -> 'a1 -> 'a1 res

val execute : term -> func -> term res

val changes : term -> term * nat list

val term_gc : term -> (term * line list) res

val primary_buffer : term -> buffer

val alternate_buffer : term -> buffer

val str : string -> n list

val cSI : n

val eSC : n

val sgr_params : color -> n -> n list

val pen_dump : pen -> n list

val chunks_go : cell list -> cell list -> cell list list

val chunks : line -> cell list list

val rep_flush : n -> nat -> n list

val rep_go : n -> nat -> cell list -> n list

val rep_encode : cell list -> n list res

val dump_cutoff : line list -> nat -> bool -> nat -> nat

val dump_chunks : cell list list -> pen -> (n list * pen) res

val dump_rows : line list -> nat -> nat -> pen -> n list res

val buf_dump : buffer -> n list res

val ctx_is_default : saved_ctx -> bool

val dump_ctx : saved_ctx -> n list

val is_alt : term -> bool

val list_nat_eqb : nat list -> nat list -> bool

val term_dump : term -> n list res

val is_whitespace : n -> bool

val trim_end : n list -> n list

val line_text : line -> n list

val text_go : line list -> n list -> n list list

val buf_text : buffer -> n list list

val term_text : term -> n list list

val unwrap_push : n list -> line -> n list * n list option

val unwrap_all : n list -> line list -> n list * n list list

val strip_empty_tail : n list list -> n list list

val collector_flush : n list -> line list -> n list list

type op =
| Feed of n
| Flush
| Resize of nat * nat

type out = { o_lines : nat list; o_drained : line list }

val no_out : out

val vt_new : nat -> nat -> n option -> vt

val vt_feed : vt -> n -> vt res

val vt_flush : vt -> (vt * out) res

val stepM : vt -> op -> (vt * out) res

val feed_chars : vt -> n list -> vt res

val feed_str : vt -> n list -> (vt * out) res

val vt_size : vt -> nat * nat

val vt_view : vt -> line list res

val vt_lines : vt -> line list

val vt_text : vt -> n list list

val vt_cursor : vt -> (nat * nat) * bool

val vt_ckm : vt -> bool

val vt_dump : vt -> n list res

val charset_eqb : charset -> charset -> bool

val btype_eqb : btype -> btype -> bool

val ctx_eqb : saved_ctx -> saved_ctx -> bool

val lines_eqb : line list -> line list -> bool

val limit_eqb : (n * n) option -> (n * n) option -> bool

val buffer_eqb : buffer -> buffer -> bool

val term_scalars_eqb : term -> term -> bool

val term_eqb : term -> term -> bool

val param_eqb : param -> param -> bool

val parser_eqb : parser0 -> parser0 -> bool

val vt_eqb : vt -> vt -> bool

val tview : term -> line list

val tsb : term -> line list

val set_screen : term -> line list -> line list -> term

val set_view : term -> line list -> term

val set_cursor : term -> nat -> nat -> bool -> term

val buffer_vis_eqb : buffer -> buffer -> bool

val visible_eqb : term -> term -> bool

val viscol : term -> nat

val n1 : n -> nat

val row_at : line list -> nat -> line

val upd_row : nat -> (line -> line) -> line list -> line list

val unwrap : line -> line

val mark_wrapped : line -> line

val blanks : nat -> pen -> cell list

val spec_scroll_up :
  nat -> nat -> nat -> pen -> nat -> line list -> line list * line list

val spec_scroll_down :
  nat -> nat -> nat -> pen -> nat -> line list -> line list

val apply_scroll_up : term -> nat -> nat -> nat -> term

val apply_scroll_down : term -> nat -> nat -> nat -> term

val vt100_glyphs : n list

val spec_translate : charset -> n -> n

val spec_active_cs : term -> charset

val set_cell : nat -> cell -> line -> line

val insert_cell : nat -> cell -> line -> line

val spec_print_glyph : term -> n -> term

val spec_print : term -> n -> term

val spec_rep : term -> n -> term

val spec_up : term -> nat -> nat

val spec_down : term -> nat -> nat

val spec_abs_row : term -> nat -> nat

val stops_after : nat list -> nat -> nat list

val stops_before : nat list -> nat -> nat list

val spec_next_tab : term -> nat -> nat

val spec_prev_tab : term -> nat -> nat

val spec_home : term -> term

val spec_cursor : term -> func -> term option

val spec_ildl_range : term -> nat * nat

val spec_scroll : term -> func -> term option

val may_touch_scrollback : func -> bool

val clear_cells : nat -> nat -> pen -> line -> line

val spec_edit : term -> func -> term option

val is_italic : pen -> bool

val is_underline : pen -> bool

val is_strikethrough : pen -> bool

val is_blink : pen -> bool

val is_inverse : pen -> bool

type pen_obs = { o_fg : color option; o_bg : color option; o_int : inten;
                 o_italic : bool; o_underline : bool; o_blink : bool;
                 o_inverse : bool; o_strike : bool }

val observe : pen -> pen_obs

val default_obs : pen_obs

val spec_sgr_one : pen_obs -> sgr_op -> pen_obs

val obs_eqb : pen_obs -> pen_obs -> bool

val spec_sgr_code : n -> sgr_op option

val byte : n -> n

val first_part : n list -> n

val spec_sgr : nat -> n list list -> sgr_op list

val spec_sgr_params : param list -> sgr_op list

val is_stop : nat list -> nat -> bool

val default_stop : nat -> nat -> bool

val saved_of : term -> btype -> saved_ctx

val spec_saved_now : term -> saved_ctx

val spec_restore : term -> term

val line_ok : nat -> line -> bool

val last_unwrapped : line list -> bool

val buffer_geom_ok : buffer -> bool

val geom_ok : term -> bool

val strictly_increasing_below : nat -> nat option -> nat list -> bool

val inrng : n -> n -> n -> bool

type strkind =
| KOsc
| KDcs
| KSos

val payload_ok : strkind -> n -> bool

val skip_string : strkind -> n list -> n list option

val csi_finals_plain : n list

val mem_N : n -> n list -> bool

val csi_implemented : n option -> n list -> n -> bool

val esc_implemented : n list -> n -> bool

val split_while : (n -> bool) -> n list -> n list * n list

val parse_csi : n list -> (((n option * n list) * n) * n list) option

val parse_esc : n list -> ((n list * n) * n list) option

val c0_unassigned : n -> bool

val c1_unassigned : n -> bool

val inert_item : n list -> n list option

val inert_go : nat -> n list -> bool

val inert_spec : n list -> bool

val last_N : n list -> n option

val kf_c20_csi : n option -> n list -> n -> bool

val kf_c20_esc : n list -> n -> bool

val kf_c20_go : nat -> n list -> bool

val kf_c20 : n list -> bool

type akind =
| KIgnore
| KPrint
| KExecute
| KCollect
| KParam
| KEscDispatch
| KCsiDispatch
| KPut
| KOscPut

type trans = { t_next : pstate; t_kind : akind; t_clear : bool }

val inr : n -> n -> n -> bool

val c0_exec : n -> bool

val entry_clears : pstate -> bool

val goto : pstate -> akind -> trans

val stay : pstate -> akind -> trans

val anywhere : n -> trans option

val csi_param_char : n -> bool

val osc_bel_terminates : bool

val state_row : pstate -> n -> trans

val fold_high : n -> n

val williams : pstate -> n -> trans

val c0c1_table : (n * func) list

val assoc_N : n -> (n * 'a1) list -> 'a1 option

val execute_spec : n -> func option

val ansi_mode_spec : n -> ansi_mode option

val dec_mode_spec : n -> dec_mode option

val ed_spec : param list -> func option

val el_spec : param list -> func option

val ctc_spec : param list -> func option

val tbc_spec : param list -> func option

val xtwinops_spec : param list -> func option

val csi_plain : param list -> nat -> (n * func option) list

val csi_spec : param list -> nat -> n option -> n -> func option

val esc_spec : n option -> n -> func option

val holds_C02_state : vt -> bool

val holds_C02_call : op -> vt -> nat list -> bool

val holds_C04 : vt -> func -> vt -> bool

val holds_C05 : vt -> func -> vt -> bool

val holds_C06 : vt -> func -> vt -> bool

val holds_C07 : vt -> func -> vt -> bool

val sgr_op_eqb : sgr_op -> sgr_op -> bool

val sgr_decode_ok : sgr_op list -> parser0 -> bool

val holds_C03_sgr : func -> vt -> bool

val spec_emit : parser0 -> n -> func option

val spec_feed : parser0 -> n -> parser0 * func option

val spec_run : parser0 -> n list -> parser0 * func list

val holds_C08 : vt -> func -> vt -> bool

val holds_C13 : vt -> bool

val holds_C15 : line list -> vt -> nat list -> bool

val is_alt_b : term -> bool

val holds_C16 : vt -> func -> vt -> bool

val clamp_ctx : saved_ctx -> nat -> nat -> saved_ctx

val other_screen : btype -> btype

val holds_C17 : vt -> func -> vt -> bool

val no_save_modes : dec_mode list -> bool

val holds_C17_switch : vt -> func -> vt -> bool

val holds_C17_resize : vt -> vt -> bool

val strictly_sorted : nat list -> bool

val stops_agree : nat -> nat list -> (nat -> bool) -> bool

val holds_C18 : vt -> func -> vt -> bool

val holds_C18_resize : vt -> vt -> bool

val tabs_are_default : term -> bool

val holds_C19 : vt -> func -> vt -> bool

val holds_C20 : vt -> n list -> vt -> bool

val claims_inert : vt -> n list -> bool

val known_C20 : n list -> bool

val holds_C06_modes : vt -> func -> vt -> bool

val holds_C06_resize : vt -> vt -> bool

val logical_go : line list -> cell list -> cell list list

val logical : line list -> cell list list

val trimd : cell list -> cell list

val logical_t : line list -> cell list list

val curs_go : line list -> nat -> nat -> nat -> nat -> nat * nat

val curs : buffer -> nat -> nat -> nat * nat

val cells_eqb : cell list -> cell list -> bool

val is_prefix : cell list -> cell list -> bool

val all_empty : cell list list -> bool

val tail_ok : cell list list -> cell list list -> bool

val eq_upto_blank : cell list -> cell list -> bool

val resize_preserves : buffer -> nat -> nat -> buffer -> nat -> nat -> bool

val split_crlf : n list -> n list -> n list list

val printable_c09 : n -> bool

val text_eqb : n list list -> n list list -> bool

val holds_C09 : n list -> n list list -> n list list -> bool

val holds_C10 : vt -> vt -> bool

val holds_C16_resized : vt -> func -> vt -> bool

val obs_buffer_eqb : buffer -> buffer -> bool

val obs_eqb_term : term -> term -> bool

val obs_params : parser0 -> n list list

val obs_eqb_parser : parser0 -> parser0 -> bool

val holds_C12 : vt -> vt -> bool

val known_C12 : vt -> bool

val holds_C12_lines : vt -> vt -> bool

val dumpable : term -> bool

val kf1_C11 : term -> bool

val kf2_C11 : term -> bool

val kf3_C11 : term -> bool

val norm_C11 : term -> term

val holds_C11 : vt -> vt -> bool

val holds_C14 : line list -> line list -> line list -> bool

type left_loc =
| InView of nat
| InScrollback
| Discarded
| Stays

val wrap_left : term -> left_loc

val line_at : term -> left_loc -> line option

val wrap_due : term -> func -> bool

val kf1_C04 : vt -> func -> bool

val holds_C04_wrapmark : vt -> func -> vt -> bool

val wrapmark_lost : vt -> func -> vt -> bool

val text_at : cell list list -> cell list list -> nat -> bool

val text_upto : cell list list -> cell list list -> nat -> nat -> bool

val return_text_ok : cell list list -> cell list list -> bool

val holds_C16_return_text : vt -> func -> vt -> bool

val switches : dec_mode -> bool

val holds_C16_return_list : vt -> func -> vt -> bool

val split_switch :
  dec_mode list -> ((dec_mode list * dec_mode) * dec_mode list) option

val holds_C16_return_list_any : vt -> func -> vt -> bool

val kf1_restorable : term -> bool

val kf1_C11_narrow : term -> bool

val kf3b_C11 : term -> bool

type row_claim =
| Unwrapped
| Keeps
| NoClaim

val extent_claim : nat -> nat -> nat -> row_claim

val is_edit : func -> bool

val claim_at : term -> func -> nat -> row_claim

val row_ok : row_claim -> line -> line -> bool

val holds_C07_wrapmark : vt -> func -> vt -> bool

val kf1_C07 : vt -> func -> bool

val wrapmark_kept : vt -> func -> vt -> bool

val kf1_C17 : vt -> func -> bool
