(** Extraction of the executable model (and, later, the oracles) to OCaml.
    Only ExtrOcamlBasic: bool/option/list/prod/unit/sumbool map to OCaml's own;
    nat, N, positive, Z stay as extracted inductives. No Extract Constant. *)
From Coq Require Extraction ExtrOcamlBasic.
From Avt Require Import Model.Vt.

Extraction Language OCaml.
Extraction "model.ml" stepM vt_new feed_str vt_feed vt_flush vt_dump vt_text vt_view vt_lines vt_cursor
  vt_size vt_ckm collector_flush unwrap_all feedM execute input2 find_arm feed_arms
  buf_text trim_end is_whitespace parser_dump term_dump.
