(** Extraction of the executable model and the executable statements (oracles) to OCaml.
    Only ExtrOcamlBasic: bool/option/list/prod/unit/sumbool map to OCaml's own;
    nat, N, positive, Z stay as extracted inductives. No Extract Constant. *)
From Coq Require Extraction ExtrOcamlBasic.
From Avt Require Import Model.Vt Oracles.Step Oracles.Rel Oracles.C04Wrap Oracles.C16Text Oracles.C16List Oracles.C11Narrow Oracles.C07Wrap Oracles.KFClasses.

Extraction Language OCaml.
Extraction "model.ml" stepM vt_new feed_str vt_feed vt_flush vt_dump vt_text vt_view vt_lines vt_cursor
  vt_size vt_ckm collector_flush unwrap_all feedM execute input2 find_arm feed_arms
  buf_text trim_end is_whitespace parser_dump term_dump init_parser hi_threshold
  holds_C02_state holds_C02_call holds_C04 holds_C05 holds_C06 holds_C06_modes holds_C06_resize holds_C07 holds_C08 holds_C13
  holds_C15 holds_C16 holds_C16_resized holds_C17 holds_C17_switch holds_C17_resize holds_C18 holds_C18_resize
  tabs_are_default holds_C19 holds_C03_sgr spec_emit spec_feed spec_run parser_eqb holds_C20 claims_inert known_C20
  holds_C09 holds_C10 holds_C11 holds_C12 holds_C12_lines known_C12 kf1_C11 kf2_C11 kf3_C11 holds_C14
  tview vt_eqb visible_eqb logical_t curs
  kf1_C04 holds_C04_wrapmark wrapmark_lost holds_C16_return_text holds_C16_return_list holds_C16_return_list_any kf1_C11_narrow kf3b_C11 kf1_C07 holds_C07_wrapmark wrapmark_kept kf1_C17.
