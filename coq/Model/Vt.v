(** vt.rs: the public machine. One [op] per public mutating call. *)

From Avt Require Export Model.Dump.

Inductive op :=
| Feed (c : N)            (* Vt::feed(c) *)
| Flush                   (* Vt::feed_str("") : changes(); gc() *)
| Resize (c r : nat).     (* Vt::resize(c, r) : resize; changes(); gc() *)

(** what a call hands back: changed rows and the lines drained from the scrollback *)
Record out := mkOut { o_lines : list nat; o_drained : list line }.

Definition no_out : out := mkOut [] [].

Definition vt_new (c r : nat) (limit : option N) : vt :=
  mkVt init_parser (term_new_gen c r limit).

(** [Vt::feed] *)
Definition vt_feed (v : vt) (c : N) : res vt :=
  '(p, f) <- feedM (vparser v) c ;;
  match f with
  | Some f => t <- execute (vterm v) f ;; Ok (mkVt p t)
  | None => Ok (mkVt p (vterm v))
  end.

(** the tail of [Vt::feed_str] / [Vt::resize]: [changes(); gc()] *)
Definition vt_flush (v : vt) : res (vt * out) :=
  let '(t, ls) := changes (vterm v) in
  '(t, dr) <- term_gc t ;;
  Ok (v <| vterm := t |>, mkOut ls dr).

Definition stepM (v : vt) (o : op) : res (vt * out) :=
  match o with
  | Feed c => v' <- vt_feed v c ;; Ok (v', no_out)
  | Flush => vt_flush v
  | Resize c r => t <- term_resize (vterm v) c r ;; vt_flush (v <| vterm := t |>)
  end.

Fixpoint feed_chars (v : vt) (s : list N) : res vt :=
  match s with
  | [] => Ok v
  | c :: r => v' <- vt_feed v c ;; feed_chars v' r
  end.

(** [Vt::feed_str] *)
Definition feed_str (v : vt) (s : list N) : res (vt * out) :=
  v' <- feed_chars v s ;; vt_flush v'.

Fixpoint runM (v : vt) (ops : list op) : res vt :=
  match ops with
  | [] => Ok v
  | o :: r => x <- stepM v o ;; runM (fst x) r
  end.

(** ** queries *)

Definition vt_size (v : vt) : nat * nat := (cols (vterm v), rows (vterm v)).
Definition vt_view (v : vt) : res (list line) := viewM (buf (vterm v)).
Definition vt_lines (v : vt) : list line := lines (buf (vterm v)).
Definition vt_line (v : vt) (n : nat) : res line := get_row (buf (vterm v)) n.
Definition vt_text (v : vt) : list (list N) := term_text (vterm v).
Definition vt_cursor (v : vt) : nat * nat * bool :=
  (cur_col (vterm v), cur_row (vterm v), cur_vis (vterm v)).
Definition vt_ckm (v : vt) : bool := ckm (vterm v).

(** [Vt::dump] *)
Definition vt_dump (v : vt) : res (list N) :=
  a <- term_dump (vterm v) ;;
  b <- parser_dumpM (vparser v) ;;
  Ok (a ++ b).
