(** terminal.rs: the control functions, mirrored one Rust method per definition.
    [save_cursor], [restore_cursor], [soft_reset], [hard_reset], [Terminal::new] and
    [SavedCtx::default] are regenerated from the source (Gen/Resets.v). *)

From Avt Require Export Model.Prims Model.Parser.
From Avt Require Export Gen.Consts Gen.Resets.

Definition as_usize := as_usize_gen.

(** charset.rs: [Charset::translate] *)
Definition translate (cs : charset) (c : N) : res N :=
  match cs with
  | CsAscii => Ok c
  | CsDrawing =>
    if (GFX_LO <=? c)%N && (c <? GFX_HI_EXCL)%N then
      _ <- guard (GFX_OFF <=? c)%N 70 ;;
      match nth_error SPECIAL_GFX_CHARS (N.to_nat (c - GFX_OFF)) with
      | Some g => Ok g
      | None => Panic 70
      end
    else Ok c
  end.

Definition active_cs (t : term) : res charset :=
  match acs t with
  | 0 => Ok (cs0 t)
  | 1 => Ok (cs1 t)
  | _ => Panic 71
  end.

Definition on_buf (t : term) (f : buffer -> res buffer) : res term :=
  b <- f (buf t) ;; Ok (t <| buf := b |>).

Definition mark (t : term) (n : nat) : res term :=
  d <- dirty_add (dirty t) n ;; Ok (t <| dirty := d |>).

Definition mark_range (t : term) (a z : nat) : res term :=
  d <- dirty_extend (dirty t) a z ;; Ok (t <| dirty := d |>).

(** ** cursor *)

Definition save_cursor := save_cursor_gen.
Definition restore_cursor := restore_cursor_gen.

Definition do_move_cursor_to_col (t : term) (c : nat) : term :=
  t <| cur_col := c |> <| pend := false |>.

Definition move_cursor_to_col (t : term) (c : nat) : term :=
  if cols t <=? c then do_move_cursor_to_col t (cols t - 1) else do_move_cursor_to_col t c.

Definition do_move_cursor_to_row (t : term) (r : nat) : term :=
  t <| cur_col := Nat.min (cur_col t) (cols t - 1) |> <| cur_row := r |> <| pend := false |>.

Definition actual_top_margin (t : term) : nat := if org t then top t else 0.
Definition actual_bottom_margin (t : term) : nat := if org t then bot t else rows t - 1.

Definition move_cursor_to_row (t : term) (r : nat) : term :=
  let tp := actual_top_margin t in
  let bt := actual_bottom_margin t in
  do_move_cursor_to_row t (Nat.min (Nat.max (tp + r) tp) bt).

Definition move_cursor_to_rel_col (t : term) (rel : Z) : term :=
  let new_col := (Z.of_nat (cur_col t) + rel)%Z in
  if (new_col <? 0)%Z then do_move_cursor_to_col t 0
  else if cols t <=? Z.to_nat new_col then do_move_cursor_to_col t (cols t - 1)
  else do_move_cursor_to_col t (Z.to_nat new_col).

Definition move_cursor_home (t : term) : term :=
  let t := do_move_cursor_to_col t 0 in
  do_move_cursor_to_row t (actual_top_margin t).

Definition move_cursor_to_next_tab (t : term) (n : nat) : res term :=
  o <- tabs_after (tabs t) (cur_col t) n ;;
  Ok (move_cursor_to_col t (match o with Some c => c | None => cols t - 1 end)).

Definition move_cursor_to_prev_tab (t : term) (n : nat) : res term :=
  o <- tabs_before (tabs t) (cur_col t) n ;;
  Ok (move_cursor_to_col t (match o with Some c => c | None => 0 end)).

Definition scroll_up_in_region (t : term) (n : nat) : res term :=
  t1 <- on_buf t (fun b => buf_scroll_up b (top t) (bot t + 1) n (tpen t)) ;;
  mark_range t1 (top t) (bot t + 1).

Definition scroll_down_in_region (t : term) (n : nat) : res term :=
  t1 <- on_buf t (fun b => buf_scroll_down b (top t) (bot t + 1) n (tpen t)) ;;
  mark_range t1 (top t) (bot t + 1).

Definition move_cursor_down_with_scroll (t : term) : res term :=
  if cur_row t =? bot t then scroll_up_in_region t 1
  else if cur_row t <? rows t - 1 then Ok (do_move_cursor_to_row t (cur_row t + 1))
  else Ok t.

Definition cursor_down (t : term) (n : nat) : term :=
  let new_y := if bot t <? cur_row t then Nat.min (rows t - 1) (cur_row t + n)
               else Nat.min (bot t) (cur_row t + n) in
  do_move_cursor_to_row t new_y.

Definition cursor_up (t : term) (n : nat) : term :=
  let new_y := if cur_row t <? top t then cur_row t - n (* max 0, truncated *)
               else Nat.max (cur_row t - n) (top t) in
  do_move_cursor_to_row t new_y.

(** ** tabs *)

Definition set_tab (t : term) : term :=
  if (0 <? cur_col t) && (cur_col t <? cols t) then t <| tabs := tabs_set (cur_col t) (tabs t) |>
  else t.

Definition clear_tab (t : term) : term := t <| tabs := tabs_unset (cur_col t) (tabs t) |>.
Definition clear_all_tabs (t : term) : term := t <| tabs := [] |>.

(** ** buffer switching / resizing *)

Definition switch_to_alternate_buffer (t : term) : res term :=
  match active t with
  | Primary =>
    let t1 := t <| active := Alternate |>
                <| sctx := asctx t |> <| asctx := sctx t |>
                <| other := buf t |>
                <| buf := buffer_new (cols t) (rows t) (Some 0%N) (Some (tpen t)) |> in
    mark_range t1 0 (rows t1)
  | Alternate => Ok t
  end.

Definition switch_to_primary_buffer (t : term) : res term :=
  match active t with
  | Alternate =>
    let t1 := t <| active := Primary |>
                <| sctx := asctx t |> <| asctx := sctx t |>
                <| buf := other t |> <| other := buf t |> in
    mark_range t1 0 (rows t1)
  | Primary => Ok t
  end.

Definition reflow (t : term) : res term :=
  let t := if negb (cols t =? bcols (buf t)) then t <| pend := false |> else t in
  '(b, (c, r)) <- buf_resize (buf t) (cols t) (rows t) (cur_col t) (cur_row t) ;;
  let t := t <| buf := b |> <| cur_col := c |> <| cur_row := r |> in
  let t := t <| dirty := dirty_resize (dirty t) (rows t) |> in
  t <- mark_range t 0 (rows t) ;;
  let t := if cols t <=? sc_col (sctx t) then t <| sctx := (sctx t) <| sc_col := cols t - 1 |> |> else t in
  let t := if rows t <=? sc_row (sctx t) then t <| sctx := (sctx t) <| sc_row := rows t - 1 |> |> else t in
  Ok t.

(** [Terminal::resize(cols, rows)] *)
Definition term_resize (t : term) (c r : nat) : res term :=
  let t := match Nat.compare c (cols t) with
           | Lt => t <| tabs := tabs_contract c (tabs t) |>
           | Eq => t
           | Gt => t <| tabs := tabs_expand (cols t) c (tabs t) |>
           end in
  let t := match Nat.compare r (rows t) with
           | Eq => t
           | _ => t <| top := 0 |> <| bot := r - 1 |>
           end in
  reflow (t <| cols := c |> <| rows := r |>).

(** ** printing *)

Definition print (t : term) (c : N) : res term :=
  cs <- active_cs t ;;
  c <- translate cs c ;;
  let cl := mkCell c (tpen t) in
  t <- (if awm t && pend t then
          let t := do_move_cursor_to_col t 0 in
          if cur_row t =? bot t then
            t <- on_buf t (fun b => buf_wrap b (cur_row t)) ;;
            scroll_up_in_region t 1
          else if cur_row t <? rows t - 1 then
            t <- on_buf t (fun b => buf_wrap b (cur_row t)) ;;
            Ok (do_move_cursor_to_row t (cur_row t + 1))
          else Ok t
        else Ok t) ;;
  let next_col := cur_col t + 1 in
  t <- (if cols t <=? next_col then
          t <- on_buf t (fun b => buf_print b (cols t - 1) (cur_row t) cl) ;;
          if awm t then Ok (do_move_cursor_to_col t (cols t) <| pend := true |>) else Ok t
        else
          t <- (if ins t then on_buf t (fun b => buf_insert b (cur_col t) (cur_row t) 1 cl)
                else on_buf t (fun b => buf_print b (cur_col t) (cur_row t) cl)) ;;
          Ok (do_move_cursor_to_col t next_col)) ;;
  mark t (cur_row t).

Fixpoint print_n (n : nat) (t : term) (c : N) : res term :=
  match n with
  | O => Ok t
  | S k => t <- print t c ;; print_n k t c
  end.

(** ** the control functions *)

Definition bs (t : term) : term :=
  if pend t then move_cursor_to_rel_col t (-2) else move_cursor_to_rel_col t (-1).

Definition lf (t : term) : res term :=
  t <- move_cursor_down_with_scroll t ;;
  Ok (if nlm t then do_move_cursor_to_col t 0 else t).

Definition nel (t : term) : res term :=
  t <- move_cursor_down_with_scroll t ;; Ok (do_move_cursor_to_col t 0).

Definition ri (t : term) : res term :=
  if cur_row t =? top t then scroll_down_in_region t 1
  else if 0 <? cur_row t then Ok (do_move_cursor_to_row t (cur_row t - 1))
  else Ok t.

Fixpoint decaln_cols (b : buffer) (row : nat) (n col : nat) : res buffer :=
  match n with
  | O => Ok b
  | S k => b <- buf_print b col row (mkCell 69 default_pen) ;; decaln_cols b row k (S col)
  end.

Fixpoint decaln_rows (t : term) (n row : nat) : res term :=
  match n with
  | O => Ok t
  | S k =>
    t <- on_buf t (fun b => decaln_cols b row (cols t) 0) ;;
    t <- mark t row ;;
    decaln_rows t k (S row)
  end.

Definition decaln (t : term) : res term := decaln_rows t (rows t) 0.

Definition ich (t : term) (n : N) : res term :=
  t <- on_buf t (fun b => buf_insert b (cur_col t) (cur_row t) (as_usize n 1) (blank_cell (tpen t))) ;;
  mark t (cur_row t).

Definition cub (t : term) (n : N) : term :=
  let rel := (- Z.of_nat (as_usize n 1))%Z in
  move_cursor_to_rel_col t (if pend t then rel - 1 else rel)%Z.

Definition cup (t : term) (r c : N) : term :=
  let t := move_cursor_to_col t (as_usize c 1 - 1) in
  move_cursor_to_row t (as_usize r 1 - 1).

Definition ed (t : term) (s : ed_scope) : res term :=
  match s with
  | EdBelow =>
    t <- on_buf t (fun b => buf_erase b (cur_col t) (cur_row t) FromCursorToEndOfView (tpen t)) ;;
    mark_range t (cur_row t) (rows t)
  | EdAbove =>
    t <- on_buf t (fun b => buf_erase b (cur_col t) (cur_row t) FromStartOfViewToCursor (tpen t)) ;;
    mark_range t 0 (cur_row t + 1)
  | EdAll =>
    t <- on_buf t (fun b => buf_erase b (cur_col t) (cur_row t) WholeView (tpen t)) ;;
    mark_range t 0 (rows t)
  | EdSavedLines => Ok t
  end.

Definition el (t : term) (s : el_scope) : res term :=
  let m := match s with
           | ElToRight => FromCursorToEndOfLine
           | ElToLeft => FromStartOfLineToCursor
           | ElAll => WholeLine
           end in
  t <- on_buf t (fun b => buf_erase b (cur_col t) (cur_row t) m (tpen t)) ;;
  mark t (cur_row t).

Definition il_dl_range (t : term) : nat * nat :=
  if cur_row t <=? bot t then (cur_row t, bot t + 1) else (cur_row t, rows t).

Definition il (t : term) (n : N) : res term :=
  let '(a, z) := il_dl_range t in
  t <- on_buf t (fun b => buf_scroll_down b a z (as_usize n 1) (tpen t)) ;;
  mark_range t a z.

Definition dl (t : term) (n : N) : res term :=
  let '(a, z) := il_dl_range t in
  t <- on_buf t (fun b => buf_scroll_up b a z (as_usize n 1) (tpen t)) ;;
  mark_range t a z.

Definition dch (t : term) (n : N) : res term :=
  let t := if cols t <=? cur_col t then move_cursor_to_col t (cols t - 1) else t in
  t <- on_buf t (fun b => buf_delete b (cur_col t) (cur_row t) (as_usize n 1) (tpen t)) ;;
  mark t (cur_row t).

Definition ech (t : term) (n : N) : res term :=
  t <- on_buf t (fun b => buf_erase b (cur_col t) (cur_row t) (NextChars (as_usize n 1)) (tpen t)) ;;
  mark t (cur_row t).

Definition rep (t : term) (n : N) : res term :=
  if 0 <? cur_col t then
    l <- get_row (buf t) (cur_row t) ;;
    match nth_error (cells l) (cur_col t - 1) with
    | Some c => print_n (as_usize n 1) t (ch c)
    | None => Panic 72
    end
  else Ok t.

Definition ctc (t : term) (op : ctc_op) : term :=
  match op with
  | CtcSet => set_tab t
  | CtcClearCurrentColumn => clear_tab t
  | CtcClearAll => clear_all_tabs t
  end.

Definition tbc (t : term) (s : tbc_scope) : term :=
  match s with
  | TbcCurrentColumn => clear_tab t
  | TbcAll => clear_all_tabs t
  end.

Definition sm_one (t : term) (m : ansi_mode) : term :=
  match m with Insert => t <| ins := true |> | NewLine => t <| nlm := true |> end.
Definition rm_one (t : term) (m : ansi_mode) : term :=
  match m with Insert => t <| ins := false |> | NewLine => t <| nlm := false |> end.

(** pen.rs *)
Definition pen_set (m : N) (p : pen) : pen := p <| attrs := N.lor (attrs p) m |>.
Definition pen_unset (m : N) (p : pen) : pen := p <| attrs := N.land (attrs p) (N.lxor 255 m) |>.
Definition pen_has (m : N) (p : pen) : bool := negb (N.land (attrs p) m =? 0)%N.

Definition sgr_one (p : pen) (op : sgr_op) : pen :=
  match op with
  | Reset => default_pen
  | SetBoldIntensity => p <| intensity := Bold |>
  | SetFaintIntensity => p <| intensity := Faint |>
  | SetItalic => pen_set ITALIC_MASK p
  | SetUnderline => pen_set UNDERLINE_MASK p
  | SetBlink => pen_set BLINK_MASK p
  | SetInverse => pen_set INVERSE_MASK p
  | SetStrikethrough => pen_set STRIKETHROUGH_MASK p
  | ResetIntensity => p <| intensity := Normal |>
  | ResetItalic => pen_unset ITALIC_MASK p
  | ResetUnderline => pen_unset UNDERLINE_MASK p
  | ResetBlink => pen_unset BLINK_MASK p
  | ResetInverse => pen_unset INVERSE_MASK p
  | ResetStrikethrough => pen_unset STRIKETHROUGH_MASK p
  | SetForegroundColor c => p <| foreground := Some c |>
  | ResetForegroundColor => p <| foreground := None |>
  | SetBackgroundColor c => p <| background := Some c |>
  | ResetBackgroundColor => p <| background := None |>
  end.

Definition sgr (t : term) (ops : list sgr_op) : term :=
  t <| tpen := fold_left sgr_one ops (tpen t) |>.

Definition decstbm (t : term) (tp bt : N) : term :=
  let tp := as_usize tp 1 - 1 in
  let bt := as_usize bt (rows t) - 1 in
  let t := if (tp <? bt) && (bt <? rows t) then t <| top := tp |> <| bot := bt |> else t in
  move_cursor_home t.

Definition xtwinops (t : term) (op : xtwinops_op) : res term :=
  if xtw t then
    let '(XtwinopsResize c r) := op in
    term_resize t (as_usize c (cols t)) (as_usize r (rows t))
  else Ok t.

Definition decset_one (t : term) (m : dec_mode) : res term :=
  match m with
  | CursorKeys => Ok (t <| ckm := true |>)
  | Origin => Ok (move_cursor_home (t <| org := true |>))
  | AutoWrap => Ok (t <| awm := true |>)
  | TextCursorEnable => Ok (t <| cur_vis := true |>)
  | AltScreenBuffer => t <- switch_to_alternate_buffer t ;; reflow t
  | SaveCursor => Ok (save_cursor t)
  | SaveCursorAltScreenBuffer =>
    t <- switch_to_alternate_buffer (save_cursor t) ;; reflow t
  end.

Definition decrst_one (t : term) (m : dec_mode) : res term :=
  match m with
  | CursorKeys => Ok (t <| ckm := false |>)
  | Origin => Ok (move_cursor_home (t <| org := false |>))
  | AutoWrap => Ok (t <| awm := false |>)
  | TextCursorEnable => Ok (t <| cur_vis := false |>)
  | AltScreenBuffer => t <- switch_to_primary_buffer t ;; reflow t
  | SaveCursor => Ok (restore_cursor t)
  | SaveCursorAltScreenBuffer =>
    t <- switch_to_primary_buffer t ;; reflow (restore_cursor t)
  end.

Fixpoint foldM {A B} (f : A -> B -> res A) (l : list B) (a : A) : res A :=
  match l with
  | [] => Ok a
  | x :: r => a' <- f a x ;; foldM f r a'
  end.

(** [Terminal::execute] *)
Definition execute (t : term) (f : func) : res term :=
  match f with
  | Bs => Ok (bs t)
  | Cbt n => move_cursor_to_prev_tab t (as_usize n 1)
  | Cha n => Ok (move_cursor_to_col t (as_usize n 1 - 1))
  | Cht n => move_cursor_to_next_tab t (as_usize n 1)
  | Cnl n => Ok (do_move_cursor_to_col (cursor_down t (as_usize n 1)) 0)
  | Cpl n => Ok (do_move_cursor_to_col (cursor_up t (as_usize n 1)) 0)
  | Cr => Ok (do_move_cursor_to_col t 0)
  | Ctc op => Ok (ctc t op)
  | Cub n => Ok (cub t n)
  | Cud n => Ok (cursor_down t (as_usize n 1))
  | Cuf n => Ok (move_cursor_to_rel_col t (Z.of_nat (as_usize n 1)))
  | Cup r c => Ok (cup t r c)
  | Cuu n => Ok (cursor_up t (as_usize n 1))
  | Dch n => dch t n
  | Decaln => decaln t
  | Decrc => Ok (restore_cursor t)
  | Decrst ms => foldM decrst_one ms t
  | Decsc => Ok (save_cursor t)
  | Decset ms => foldM decset_one ms t
  | Decstbm tp bt => Ok (decstbm t tp bt)
  | Decstr => Ok (soft_reset_gen t)
  | Dl n => dl t n
  | Ech n => ech t n
  | Ed s => ed t s
  | El s => el t s
  | G1d4 c => Ok (t <| cs1 := c |>)
  | Gzd4 c => Ok (t <| cs0 := c |>)
  | Ht => move_cursor_to_next_tab t 1
  | Hts => Ok (set_tab t)
  | Ich n => ich t n
  | Il n => il t n
  | Lf => lf t
  | Nel => nel t
  | Print c => print t c
  | Rep n => rep t n
  | Ri => ri t
  | Ris => Ok (hard_reset_gen t)
  | Rm ms => Ok (fold_left rm_one ms t)
  | Scorc => Ok (restore_cursor t)
  | Scosc => Ok (save_cursor t)
  | Sd n => scroll_down_in_region t (as_usize n 1)
  | Sgr ops => Ok (sgr t ops)
  | Si => Ok (t <| acs := 0 |>)
  | Sm ms => Ok (fold_left sm_one ms t)
  | So => Ok (t <| acs := 1 |>)
  | Su n => scroll_up_in_region t (as_usize n 1)
  | Tbc s => Ok (tbc t s)
  | Vpa n => Ok (move_cursor_to_row t (as_usize n 1 - 1))
  | Vpr n => Ok (cursor_down t (as_usize n 1))
  | Xtwinops op => xtwinops t op
  end.

(** [Terminal::changes] *)
Definition changes (t : term) : term * list nat :=
  (t <| dirty := dirty_clear (dirty t) |>, dirty_to_vec (dirty t) 0).

(** [Terminal::gc]: the drained lines, suppressed while the alternate screen is active *)
Definition term_gc (t : term) : res (term * list line) :=
  '(b, drained) <- buf_gc (buf t) ;;
  let t := t <| buf := b |> in
  match active t with
  | Alternate => Ok (t, [])
  | Primary => Ok (t, drained)
  end.

Definition primary_buffer (t : term) : buffer :=
  match active t with Primary => buf t | Alternate => other t end.

Definition alternate_buffer (t : term) : buffer :=
  match active t with Alternate => buf t | Primary => other t end.
