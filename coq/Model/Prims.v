(** line.rs, buffer.rs, tabs.rs, terminal/dirty_lines.rs: primitives.
    Each Rust panic site is an explicit guard returning [Panic site]. *)

From Avt Require Export Model.Types.
From Avt Require Import Gen.Consts.

(** * cell.rs / line.rs *)

Definition blank_cell (p : pen) : cell := mkCell 32 p.
Definition default_cell : cell := blank_cell default_pen.

Definition pen_is_default (p : pen) : bool := pen_eqb p default_pen.
Definition cell_is_default (c : cell) : bool := N.eqb (ch c) 32 && pen_is_default (cpen c).

Definition blank_line (n : nat) (p : pen) : line := mkLine (repeat (blank_cell p) n) false.

Definition llen (l : line) : nat := length (cells l).

(** [Line::clear(a..b, pen)] : [self.cells[a..b].fill(blank)] *)
Definition line_clear_ok (a b : nat) (l : line) : bool := (a <=? b) && (b <=? llen l).
Definition line_clear (a b : nat) (p : pen) (l : line) : line :=
  l <| cells := fill_range a b (blank_cell p) (cells l) |>.
Definition line_clearM a b p l : res line :=
  if line_clear_ok a b l then Ok (line_clear a b p l) else Panic 20.

(** [Line::print(col, cell)] *)
Definition line_print_ok (col : nat) (l : line) : bool := col <? llen l.
Definition line_print (col : nat) (c : cell) (l : line) : line :=
  l <| cells := upd col (fun _ => c) (cells l) |>.
Definition line_printM col c l : res line :=
  if line_print_ok col l then Ok (line_print col c l) else Panic 21.

(** [Line::insert(col, n, cell)] : [cells[col..].rotate_right(n); cells[col..col+n].fill(cell)] *)
Definition line_insert_ok (col n : nat) (l : line) : bool :=
  (col <=? llen l) && (n <=? llen l - col).
Definition line_insert (col n : nat) (c : cell) (l : line) : line :=
  l <| cells := fill_range col (col + n) c (on_range col (llen l) (rotr n) (cells l)) |>.
Definition line_insertM col n c l : res line :=
  if line_insert_ok col n l then Ok (line_insert col n c l) else Panic 22.

(** [Line::delete(col, n, pen)] : [cells[col..].rotate_left(n); cells[len-n..].fill(blank)] *)
Definition line_delete_ok (col n : nat) (l : line) : bool :=
  (col <=? llen l) && (n <=? llen l - col).
Definition line_delete (col n : nat) (p : pen) (l : line) : line :=
  l <| cells := fill_range (llen l - n) (llen l) (blank_cell p)
                  (on_range col (llen l) (rotl n) (cells l)) |>.
Definition line_deleteM col n p l : res line :=
  if line_delete_ok col n l then Ok (line_delete col n p l) else Panic 23.

(** [Line::trailers] : number of trailing default cells *)
Definition trailers (l : line) : nat := length (take_while cell_is_default (rev (cells l))).

(** [Line::trim] *)
Definition line_trim (l : line) : line :=
  l <| cells := firstn (llen l - trailers l) (cells l) |>.

(** [Line::expand(len, pen)] : panics (debug) if [len < self.len()] *)
Definition line_expand_ok (len : nat) (l : line) : bool := llen l <=? len.
Definition line_expand (len : nat) (p : pen) (l : line) : line :=
  l <| cells := cells l ++ repeat (blank_cell p) (len - llen l) |>.
Definition line_expandM len p l : res line :=
  if line_expand_ok len l then Ok (line_expand len p l) else Panic 24.

Definition line_is_blank (l : line) : bool := forallb cell_is_default (cells l).

(** [Line::contract(len)] -> (self', rest) *)
Definition line_contract (len : nat) (l : line) : line * option line :=
  let l1 :=
    if wrapped l then l
    else l <| cells := firstn (Nat.max len (llen l - trailers l)) (cells l) |> in
  if len <? llen l1 then
    let rest0 := mkLine (skipn len (cells l1)) (wrapped l1) in
    let l2 := l1 <| cells := firstn len (cells l1) |> in
    let rest := if wrapped l2 then rest0 else line_trim rest0 in
    match cells rest with
    | [] => (l2, None)
    | _ => (l2 <| wrapped := true |>, Some rest)
    end
  else (l1, None).

(** [Line::extend(other, len)] -> (self', (bool, rest)); panics if [len < self.len()] *)
Definition line_extend (l other : line) (len : nat) : res (line * (bool * option line)) :=
  if negb (llen l <=? len) then Panic 25 else
  let needed := len - llen l in
  if needed =? 0 then Ok (l, (true, Some other)) else
  if negb (wrapped l) then Ok (line_expand len default_pen l, (true, Some other)) else
  let other := if wrapped other then other else line_trim other in
  if needed <? llen other then
    let l' := l <| cells := cells l ++ firstn needed (cells other) |> in
    (* cells.rotate_left(needed); cells.truncate(cells.len() - needed) *)
    let rc := firstn (llen other - needed) (rotl needed (cells other)) in
    Ok (l', (true, Some (mkLine rc (wrapped other))))
  else
    let l' := l <| cells := cells l ++ cells other |> in
    if negb (wrapped other) then
      let l'' := l' <| wrapped := false |> in
      let l''' := if llen l'' <? len then line_expand len default_pen l'' else l'' in
      Ok (l''', (true, None))
    else Ok (l', (false, None)).

(** * [Reflow::next] / [reflow()] *)

Fixpoint reflow_go (fuel : nat) (ncols : nat) (rest : option line) (iter : list line)
         (acc : list line) : res (list line) :=
  match fuel with
  | O => Panic site_fuel
  | S fuel' =>
    let cur :=
      match rest with
      | Some l => Some (l, iter)
      | None => match iter with [] => None | l :: it => Some (l, it) end
      end in
    match cur with
    | None => Ok (rev acc)
    | Some (l, it) =>
      match Nat.compare ncols (llen l) with
      | Lt =>
        let '(l', r) := line_contract ncols l in
        reflow_go fuel' ncols r it (l' :: acc)
      | Eq => reflow_go fuel' ncols None it (l :: acc)
      | Gt =>
        match it with
        | next :: it' =>
          x <- line_extend l next ncols ;;
          match x with
          | (l', (true, r)) => reflow_go fuel' ncols r it' (l' :: acc)
          | (l', (false, _)) => reflow_go fuel' ncols (Some l') it' acc
          end
        | [] =>
          l' <- line_expandM ncols default_pen l ;;
          reflow_go fuel' ncols None [] ((l' <| wrapped := false |>) :: acc)
        end
      end
    end
  end.

Definition total_cells (ls : list line) : nat := fold_right (fun l n => llen l + n) 0 ls.

Definition reflow_fuel (ls : list line) : nat := S (S (total_cells ls + 2 * length ls)).

(** [reflow(iter, cols)] including its [assert!] *)
Definition reflowM (ls : list line) (ncols : nat) : res (list line) :=
  out <- reflow_go (reflow_fuel ls) ncols None ls [] ;;
  if forallb (fun l => llen l =? ncols) out then Ok out else Panic 26.

(** * buffer.rs *)

Definition limit_of (l : option N) : option (N * N) :=
  match l with Some n => Some (n, hard_of n) | None => None end.

(** [Buffer::new(cols, rows, scrollback_limit, pen)] *)
Definition buffer_new (c r : nat) (l : option N) (p : option pen) : buffer :=
  let p := match p with Some p => p | None => default_pen end in
  mkBuffer (repeat (blank_line c p) r) c r (limit_of l) false.

Definition sb_len (b : buffer) : nat := length (lines b) - brows b.
Definition view_ok (b : buffer) : bool := brows b <=? length (lines b).
Definition view (b : buffer) : list line := skipn (sb_len b) (lines b).

Definition viewM (b : buffer) : res (list line) :=
  if view_ok b then Ok (view b) else Panic 30.

(** apply a (partial) row transformer to visible row [r]: [self[r]] via [view_mut()] *)
Definition with_row (b : buffer) (r : nat) (f : line -> res line) : res buffer :=
  if view_ok b && (r <? brows b) then
    match nth_error (lines b) (sb_len b + r) with
    | Some l => l' <- f l ;; Ok (b <| lines := upd (sb_len b + r) (fun _ => l') (lines b) |>)
    | None => Panic 31
    end
  else Panic 31.

Definition get_row (b : buffer) (r : nat) : res line :=
  if view_ok b && (r <? brows b) then
    match nth_error (lines b) (sb_len b + r) with
    | Some l => Ok l
    | None => Panic 32
    end
  else Panic 32.

Definition set_wrapped (w : bool) (l : line) : res line := Ok (l <| wrapped := w |>).

(** apply a total transformer to the view; [ok] is the Rust panic condition *)
Definition with_view (b : buffer) (ok : bool) (f : list line -> list line) : res buffer :=
  if view_ok b && ok then
    Ok (b <| lines := firstn (sb_len b) (lines b) ++ f (view b) |>)
  else Panic 33.

(** [Buffer::clear(a..b, pen)] : [view_mut()[a..b].fill(blank_line)] *)
Definition buf_clear (b : buffer) (a z : nat) (p : pen) : res buffer :=
  with_view b ((a <=? z) && (z <=? brows b)) (fill_range a z (blank_line (bcols b) p)).

(** [Buffer::extend(n, cols, pen)] *)
Definition buf_extend (b : buffer) (n c : nat) (p : pen) : buffer :=
  b <| lines := lines b ++ repeat (blank_line c p) n |>.

Definition buf_print (b : buffer) (col row : nat) (c : cell) : res buffer :=
  with_row b row (line_printM col c).

Definition buf_wrap (b : buffer) (row : nat) : res buffer :=
  with_row b row (set_wrapped true).

Definition buf_insert (b : buffer) (col row n : nat) (c : cell) : res buffer :=
  _ <- guard (col <=? bcols b) 34 ;;
  with_row b row (line_insertM col (Nat.min n (bcols b - col)) c).

Definition buf_delete (b : buffer) (col row n : nat) (p : pen) : res buffer :=
  _ <- guard (col <=? bcols b) 35 ;;
  with_row b row (fun l => l' <- line_deleteM col (Nat.min n (bcols b - col)) p l ;;
                           set_wrapped false l').

Inductive erase_mode :=
| NextChars (n : nat) | FromCursorToEndOfView | FromStartOfViewToCursor | WholeView
| FromCursorToEndOfLine | FromStartOfLineToCursor | WholeLine.

Definition buf_erase (b : buffer) (col row : nat) (m : erase_mode) (p : pen) : res buffer :=
  match m with
  | NextChars n =>
    _ <- guard (col <=? bcols b) 36 ;;
    let n := Nat.min n (bcols b - col) in
    let e := col + n in
    with_row b row (fun l => l' <- line_clearM col e p l ;;
                             if e =? bcols b then set_wrapped false l' else Ok l')
  | FromCursorToEndOfView =>
    b1 <- with_row b row (fun l => line_clearM col (bcols b) p (l <| wrapped := false |>)) ;;
    buf_clear b1 (row + 1) (brows b1) p
  | FromStartOfViewToCursor =>
    b1 <- with_row b row (line_clearM 0 (Nat.min (col + 1) (bcols b)) p) ;;
    buf_clear b1 0 row p
  | WholeView => buf_clear b 0 (brows b) p
  | FromCursorToEndOfLine =>
    with_row b row (fun l => l' <- line_clearM col (bcols b) p l ;; set_wrapped false l')
  | FromStartOfLineToCursor =>
    with_row b row (line_clearM 0 (Nat.min (col + 1) (bcols b)) p)
  | WholeLine =>
    with_row b row (fun l => l' <- line_clearM 0 (bcols b) p l ;; set_wrapped false l')
  end.

(** [Buffer::scroll_up(a..z, n, pen)] *)
Definition buf_scroll_up (b : buffer) (a z n : nat) (p : pen) : res buffer :=
  _ <- guard ((a <=? z) && (1 <=? z) && (1 <=? brows b)) 37 ;;
  let n := Nat.min n (z - a) in
  b1 <- (if z - 1 <? brows b - 1 then with_row b (z - 1) (set_wrapped false) else Ok b) ;;
  b2 <- (if a =? 0 then
           if z =? brows b1 then Ok (buf_extend b1 n (bcols b1) p)
           else
             _ <- guard (view_ok b1) 38 ;;
             let index := sb_len b1 + z in
             _ <- guard (index <=? length (lines b1)) 38 ;;
             Ok (b1 <| lines := insert_n index n (blank_line (bcols b1) p) (lines b1) |>)
         else
           b' <- with_row b1 (a - 1) (set_wrapped false) ;;
           b'' <- with_view b' (z <=? brows b') (on_range a z (rotl n)) ;;
           buf_clear b'' (z - n) z p) ;;
  Ok (b2 <| trim_needed := true |>).

(** [Buffer::scroll_down(a..z, n, pen)] *)
Definition buf_scroll_down (b : buffer) (a z n : nat) (p : pen) : res buffer :=
  _ <- guard (a <=? z) 39 ;;
  let n := Nat.min n (z - a) in
  b1 <- with_view b (z <=? brows b) (on_range a z (rotr n)) ;;
  b2 <- buf_clear b1 a (a + n) p ;;
  b3 <- (if 0 <? a then with_row b2 (a - 1) (set_wrapped false) else Ok b2) ;;
  _ <- guard (1 <=? z) 39 ;;
  with_row b3 (z - 1) (set_wrapped false).

(** [Buffer::logical_position(pos, cols, rows)] *)
Fixpoint logpos_go (ls : list line) (c : nat) (off row : nat) : nat * nat :=
  match ls with
  | [] => (off, row)
  | l :: r => if wrapped l then logpos_go r c (off + c) row else logpos_go r c 0 (row + 1)
  end.

Definition logical_position (b : buffer) (pc pr : nat) (c r : nat) : res (nat * nat) :=
  _ <- guard (r <=? length (lines b)) 40 ;;
  let vis_row_offset := length (lines b) - r in
  let abs_row := pr + vis_row_offset in
  let last_available_row := Nat.min abs_row (length (lines b)) in
  let log_row := abs_row - last_available_row in
  let '(off, row) := logpos_go (firstn abs_row (lines b)) c 0 log_row in
  Ok (pc + off, row).

(** first loop of [relative_position] *)
Fixpoint relpos1 (fuel : nat) (ls : list line) (target last_row r rel_row : nat) : res nat :=
  match fuel with
  | O => Panic site_fuel
  | S f =>
    if (r <? target) && (rel_row <? last_row) then
      match nth_error ls rel_row with
      | Some l => relpos1 f ls target last_row (if wrapped l then r else r + 1) (rel_row + 1)
      | None => Panic 41
      end
    else Ok rel_row
  end.

(** second loop of [relative_position] *)
Fixpoint relpos2 (fuel : nat) (ls : list line) (c rel_col rel_row : nat) : res (nat * nat) :=
  match fuel with
  | O => Panic site_fuel
  | S f =>
    if c <=? rel_col then
      match nth_error ls rel_row with
      | Some l => if wrapped l then relpos2 f ls c (rel_col - c) (rel_row + 1)
                  else Ok (rel_col, rel_row)
      | None => Panic 42
      end
    else Ok (rel_col, rel_row)
  end.

Definition relative_position (ls : list line) (pc pr : nat) (c r : nat) : res (nat * Z) :=
  _ <- guard ((1 <=? length ls) && (r <=? length ls) && (1 <=? c)) 43 ;;
  let last_row := length ls - 1 in
  rel_row <- relpos1 (S (length ls)) ls pr last_row 0 0 ;;
  '(rel_col, rel_row) <- relpos2 (S (S (pc + length ls))) ls c pc rel_row ;;
  let rel_col := Nat.min rel_col (c - 1) in
  let off := length ls - r in
  Ok (rel_col, (Z.of_nat rel_row - Z.of_nat off)%Z).

(** [Buffer::resize(new_cols, new_rows, cursor)] -> (buffer, cursor) *)
Definition buf_resize (b : buffer) (ncols nrows : nat) (cc cr : nat) : res (buffer * (nat * nat)) :=
  let old_cols := bcols b in
  let old_rows := brows b in
  '(lc, lr) <- logical_position b cc cr old_cols old_rows ;;
  '(ls1, cc1, cr1, old_rows1) <-
     (if negb (ncols =? old_cols) then
        ls <- reflowM (lines b) ncols ;;
        let line_count := length ls in
        let ls := if line_count <? old_rows
                  then ls ++ repeat (blank_line ncols default_pen) (old_rows - line_count)
                  else ls in
        '(rc, rr) <- relative_position ls lc lr ncols old_rows ;;
        if (0 <=? rr)%Z then Ok (ls, rc, Z.to_nat rr, old_rows)
        else Ok (ls, rc, 0, old_rows + Z.to_nat (- rr))
      else Ok (lines b, cc, cr, old_rows)) ;;
  let line_count := length ls1 in
  '(ls2, cr2) <-
     (match Nat.compare nrows old_rows1 with
      | Lt =>
        let height_delta := old_rows1 - nrows in
        _ <- guard (cr1 + 1 <=? old_rows1) 44 ;;
        let inverted_cursor_row := old_rows1 - 1 - cr1 in
        let excess := Nat.min height_delta inverted_cursor_row in
        ls' <- (if 0 <? excess then
                  _ <- guard (excess <=? line_count) 45 ;;
                  let t := firstn (line_count - excess) ls1 in
                  _ <- guard (1 <=? length t) 46 ;;
                  Ok (upd (length t - 1) (fun l => l <| wrapped := false |>) t)
                else Ok ls1) ;;
        _ <- guard (height_delta - excess <=? cr1) 47 ;;
        Ok (ls', cr1 - (height_delta - excess))
      | Gt =>
        let height_delta := nrows - old_rows1 in
        let scrollback_size := line_count - Nat.min old_rows1 line_count in
        let cursor_row_shift := Nat.min scrollback_size height_delta in
        let height_delta := height_delta - cursor_row_shift in
        let cr' := if cr1 <? old_rows1 then cr1 + cursor_row_shift else cr1 in
        let ls' := if 0 <? height_delta
                   then ls1 ++ repeat (blank_line ncols default_pen) height_delta
                   else ls1 in
        Ok (ls', cr')
      | Eq => Ok (ls1, cr1)
      end) ;;
  Ok (b <| lines := ls2 |> <| bcols := ncols |> <| brows := nrows |> <| trim_needed := true |>,
      (cc1, cr2)).

(** [Buffer::gc] / [trim_scrollback]: returns the buffer and the drained prefix *)
Definition buf_gc (b : buffer) : res (buffer * list line) :=
  if trim_needed b then
    let b := b <| trim_needed := false |> in
    match blimit b with
    | Some (soft, hard) =>
      _ <- guard (view_ok b) 48 ;;
      let size := N.of_nat (sb_len b) in
      if (hard <? size)%N then
        _ <- guard (soft <=? size)%N 49 ;;
        let excess := N.to_nat (size - soft) in
        Ok (b <| lines := skipn excess (lines b) |>, firstn excess (lines b))
      else Ok (b, [])
    | None => Ok (b, [])
    end
  else Ok (b, []).

(** * tabs.rs *)

Definition tabs_range (start stop : nat) : list nat :=
  map (fun i => start + TAB_STEP * i) (seq 0 ((stop - start + (TAB_STEP - 1)) / TAB_STEP)).

Definition tabs_new (c : nat) : list nat := tabs_range TAB_START c.

Fixpoint tabs_set (pos : nat) (l : list nat) : list nat :=
  match l with
  | [] => [pos]
  | t :: r => if pos <? t then pos :: l else if pos =? t then l else t :: tabs_set pos r
  end.

Fixpoint tabs_unset (pos : nat) (l : list nat) : list nat :=
  match l with
  | [] => []
  | t :: r => if pos =? t then r else t :: tabs_unset pos r
  end.

(** [Tabs::expand(start, end)] (hand-modelled) *)
Definition tabs_expand (start stop : nat) (l : list nat) : list nat :=
  let start := if negb (start mod 8 =? 0) then start + (8 - start mod 8) else start in
  l ++ map (fun i => start + 8 * i) (seq 0 ((stop - start + 7) / 8)).

(** [Tabs::contract(pos)]: [partition_point(|t| t < pos)] on the sorted vector *)
Definition tabs_contract (pos : nat) (l : list nat) : list nat :=
  take_while (fun t => t <? pos) l.

(** [Tabs::before(pos, n)]; [n - 1] underflows for [n = 0] *)
Definition tabs_before (l : list nat) (pos n : nat) : res (option nat) :=
  _ <- guard (1 <=? n) 50 ;;
  Ok (nth_error (skip_while (fun t => pos <=? t) (rev l)) (n - 1)).

Definition tabs_after (l : list nat) (pos n : nat) : res (option nat) :=
  _ <- guard (1 <=? n) 51 ;;
  Ok (nth_error (skip_while (fun t => t <=? pos) l) (n - 1)).

(** * dirty_lines.rs *)

Definition dirty_new (n : nat) : list bool := repeat true n.

Definition dirty_add (d : list bool) (n : nat) : res (list bool) :=
  if n <? length d then Ok (upd n (fun _ => true) d) else Panic 60.

Definition dirty_extend (d : list bool) (a z : nat) : res (list bool) :=
  if (a <=? z) && (z <=? length d) then Ok (fill_range a z true d) else Panic 61.

Definition dirty_resize (d : list bool) (n : nat) : list bool :=
  firstn n d ++ repeat false (n - length d).

Definition dirty_clear (d : list bool) : list bool := repeat false (length d).

Fixpoint dirty_to_vec (d : list bool) (i : nat) : list nat :=
  match d with
  | [] => []
  | true :: r => i :: dirty_to_vec r (S i)
  | false :: r => dirty_to_vec r (S i)
  end.
