(** parser.rs: [Parser::feed] as an interpreter of the regenerated arm list, with the
    hand-modelled helpers [clear], [collect], [param] and [Parser::dump]. *)

From Avt Require Export Model.ParserBase.
From Avt Require Export Gen.Consts Gen.FeedArms Gen.Dispatch.
Local Open Scope N_scope.

Definition init_parser : parser :=
  mkParser Ground (repeat default_param PARAMS_LEN) 0 None.

(** ** Param *)

(** [Param::clear]: [self.parts[..=self.cur_part].fill(0); self.cur_part = 0] *)
Definition param_clear_ok (p : param) : bool := (cur_part p <? length (parts p))%nat.
Definition param_clear (p : param) : param :=
  mkParam 0 (fill_range 0 (S (cur_part p)) 0 (parts p)).

(** [Param::add_part] *)
Definition param_add_part (p : param) : param :=
  p <| cur_part := Nat.min (cur_part p + 1) ADD_PART_CAP |>.

(** [Param::add_digit] *)
Definition param_add_digit_ok (p : param) : bool := (cur_part p <? length (parts p))%nat.
Definition param_add_digit (d : N) (p : param) : param :=
  p <| parts := upd (cur_part p) (fun n => add_digit_gen n d) (parts p) |>.

(** ** Parser helpers *)

(** [Parser::clear]: clears [params[..=cur_param]] *)
Definition clear_ok (p : parser) : bool :=
  (cur_param p <? length (params p))%nat
  && forallb param_clear_ok (firstn (S (cur_param p)) (params p)).

Definition clear (p : parser) : parser :=
  p <| params := map param_clear (firstn (S (cur_param p)) (params p))
                 ++ skipn (S (cur_param p)) (params p) |>
    <| cur_param := 0%nat |>
    <| inter := None |>.

Definition clearM (p : parser) : res parser :=
  if clear_ok p then Ok (clear p) else Panic 1.

Definition collect (p : parser) (input : N) : parser := p <| inter := Some input |>.

(** [Parser::param] *)
Definition param_ok (p : parser) (input : N) : bool :=
  if input =? PARAM_SEP then true
  else if input =? PART_SEP then (cur_param p <? length (params p))%nat
  else (cur_param p <? length (params p))%nat
       && match nth_error (params p) (cur_param p) with
          | Some q => param_add_digit_ok q
          | None => false
          end
       && (DIGIT_BASE <=? input mod 256). (* (input as u8) - 0x30 must not underflow *)

Definition param_step (p : parser) (input : N) : parser :=
  if input =? PARAM_SEP then
    let c := (cur_param p + 1)%nat in
    p <| cur_param := if (c =? PARAMS_LEN)%nat then (PARAMS_LEN - 1)%nat else c |>
  else if input =? PART_SEP then
    p <| params := upd (cur_param p) param_add_part (params p) |>
  else
    p <| params := upd (cur_param p) (param_add_digit (input mod 256 - DIGIT_BASE)) (params p) |>.

Definition paramM (p : parser) (input : N) : res parser :=
  if param_ok p input then Ok (param_step p input) else Panic 2.

(** ** dispatch wrappers (slices [ps[..=cur_param]] need [cur_param < 32]) *)

Definition csi_dispatchM (p : parser) (input : N) : res (option func) :=
  if (cur_param p <? length (params p))%nat
  then Ok (csi_dispatch_gen (inter p) input (params p) (cur_param p))
  else Panic 3.

Definition esc_dispatch (p : parser) (input : N) : parser * option func :=
  let '(st, f) := esc_dispatch_gen (inter p) input in
  (match st with Some s => p <| pst := s |> | None => p end, f).

(** ** feed *)

Definition spat_matches (sp : spat) (s : pstate) : bool :=
  match sp with AnyState => true | St s' => pstate_eqb s' s end.

Definition pat_matches (s : pstate) (c : N) (p : spat * N * N) : bool :=
  let '(sp, lo, hi) := p in spat_matches sp s && (lo <=? c) && (c <=? hi).

Fixpoint find_arm (s : pstate) (c : N) (arms : list arm) : list act :=
  match arms with
  | [] => []
  | (pats, acts) :: r => if existsb (pat_matches s c) pats then acts else find_arm s c r
  end.

Fixpoint run_acts (acts : list act) (p : parser) (input : N) : res (parser * option func) :=
  match acts with
  | [] => Ok (p, None)
  | ASetState s :: r => run_acts r (p <| pst := s |>) input
  | AClear :: r => p' <- clearM p ;; run_acts r p' input
  | ACollect :: r => run_acts r (collect p input) input
  | AParam :: r => p' <- paramM p input ;; run_acts r p' input
  | APut :: r => run_acts r p input
  | AOscPut :: r => run_acts r p input
  | ARetExecute :: _ => Ok (p, execute_gen input)
  | ARetCsi :: _ => f <- csi_dispatchM p input ;; Ok (p, f)
  | ARetEsc :: _ => Ok (esc_dispatch p input)
  | ARetPrint :: _ => Ok (p, Some (Print input))
  end.

Definition input2 (input : N) : N := if hi_threshold <=? input then hi_subst else input.

Definition feedM (p : parser) (input : N) : res (parser * option func) :=
  run_acts (find_arm (pst p) (input2 input) feed_arms) p input.

(** ** [Parser::dump] *)

Fixpoint digits_fuel (fuel : nat) (n : N) (acc : list N) : list N :=
  match fuel with
  | O => acc
  | S f => let acc' := (48 + n mod 10) :: acc in
           if n / 10 =? 0 then acc' else digits_fuel f (n / 10) acc'
  end.

(** decimal text of [n] (as produced by [to_string]); 20 digits suffice for u64. *)
Definition show_N (n : N) : list N := digits_fuel 20 n [].
Definition show_nat (n : nat) : list N := show_N (N.of_nat n).

Fixpoint join_with (sep : list N) (l : list (list N)) : list N :=
  match l with
  | [] => []
  | [x] => x
  | x :: r => x ++ sep ++ join_with sep r
  end.

(** [impl Display for Param] *)
Definition param_show (p : param) : list N := join_with [58] (map show_N (pparts p)).

Definition inter_str (p : parser) : list N :=
  match inter p with Some c => [c] | None => [] end.

Definition params_str (p : parser) : list N :=
  join_with [59] (map param_show (firstn (S (cur_param p)) (params p))).

Definition parser_dump (p : parser) : list N :=
  match pst p with
  | Ground => []
  | Escape => [27]
  | EscapeIntermediate => 27 :: inter_str p
  | CsiEntry => [155]
  | CsiParam => 155 :: inter_str p ++ params_str p
  | CsiIntermediate => 155 :: inter_str p
  | CsiIgnore => [155; 58]
  | DcsEntry => [144]
  | DcsIntermediate => 144 :: inter_str p
  | DcsParam => 144 :: inter_str p ++ params_str p
  | DcsPassthrough => 144 :: inter_str p ++ [64]
  | DcsIgnore => [144; 58]
  | OscString => [157]
  | SosPmApcString => [152]
  end.

Definition parser_dumpM (p : parser) : res (list N) :=
  if (cur_param p <? length (params p))%nat then Ok (parser_dump p) else Panic 4.
