(** [Pen::dump], [Color::sgr_params], [Buffer::dump], [Terminal::dump], [Buffer::text],
    and util.rs ([TextUnwrapper], [TextCollector::flush]). Strings are lists of code points. *)

From Coq Require Import String Ascii.
From Avt Require Export Model.Terminal.
Local Open Scope N_scope.

Fixpoint str (s : string) : list N :=
  match s with
  | EmptyString => []
  | String a r => N_of_ascii a :: str r
  end.

Definition CSI : N := 155.
Definition ESC : N := 27.

(** [Color::sgr_params(base)] *)
Definition sgr_params (c : color) (base : N) : list N :=
  match c with
  | Indexed i =>
    if i <? SGRP_T1 then show_N (base + i)
    else if i <? SGRP_T2 then show_N (base + SGRP_O2 + i)
    else show_N (base + SGRP_O3) ++ str ":5:" ++ show_N i
  | RGB r g b =>
    show_N (base + SGRP_O4) ++ str ":2:" ++ show_N r ++ [58] ++ show_N g ++ [58] ++ show_N b
  end.

(** [Pen::dump] *)
Definition pen_dump (p : pen) : list N :=
  [ESC; 91; 48]
  ++ (match foreground p with Some c => 59 :: sgr_params c 30 | None => [] end)
  ++ (match background p with Some c => 59 :: sgr_params c 40 | None => [] end)
  ++ (match intensity p with Normal => [] | Bold => str ";1" | Faint => str ";2" end)
  ++ (if pen_has ITALIC_MASK p then str ";3" else [])
  ++ (if pen_has UNDERLINE_MASK p then str ";4" else [])
  ++ (if pen_has BLINK_MASK p then str ";5" else [])
  ++ (if pen_has INVERSE_MASK p then str ";7" else [])
  ++ (if pen_has STRIKETHROUGH_MASK p then str ";9" else [])
  ++ [109].

(** [Line::chunks(|c1, c2| c1.pen() != c2.pen())] *)
Fixpoint chunks_go (cur : list cell) (l : list cell) : list (list cell) :=
  match l with
  | [] => match cur with [] => [] | _ => [rev cur] end
  | c :: r =>
    match cur with
    | [] => chunks_go [c] r
    | last :: _ =>
      if negb (pen_eqb (cpen last) (cpen c)) then rev cur :: chunks_go [c] r
      else chunks_go (c :: cur) r
    end
  end.

Definition chunks (l : line) : list (list cell) := chunks_go [] (cells l).

(** [Buffer::rep_encode_cell_text] *)
Definition rep_flush (prev : N) (count : nat) : list N :=
  if (5 <? count)%nat then prev :: [ESC; 91] ++ show_nat (count - 1) ++ [98]
  else repeat prev count.

Fixpoint rep_go (prev : N) (count : nat) (l : list cell) : list N :=
  match l with
  | [] => rep_flush prev count
  | c :: r => if ch c =? prev then rep_go prev (S count) r
              else rep_flush prev count ++ rep_go (ch c) 1 r
  end.

Definition rep_encode (cs : list cell) : res (list N) :=
  match cs with
  | [] => Panic 80
  | c :: r => Ok (rep_go (ch c) 1 r)
  end.

Fixpoint dump_cutoff (v : list line) (i : nat) (prev_wrapped : bool) (cutoff : nat) : nat :=
  match v with
  | [] => cutoff
  | l :: r =>
    let cutoff := if prev_wrapped || wrapped l || negb (line_is_blank l) then S i else cutoff in
    dump_cutoff r (S i) (wrapped l) cutoff
  end.

Fixpoint dump_chunks (cks : list (list cell)) (p : pen) : res (list N * pen) :=
  match cks with
  | [] => Ok ([], p)
  | ck :: r =>
    match ck with
    | [] => Panic 81
    | c0 :: _ =>
      let '(pre, p') := if negb (pen_eqb (cpen c0) p) then (pen_dump (cpen c0), cpen c0) else ([], p) in
      body <- rep_encode ck ;;
      '(rest, p'') <- dump_chunks r p' ;;
      Ok (pre ++ body ++ rest, p'')
    end
  end.

Fixpoint dump_rows (v : list line) (i last : nat) (p : pen) : res (list N) :=
  match v with
  | [] => Ok []
  | l :: r =>
    '(s, p') <- dump_chunks (chunks l) p ;;
    let nl := if (i <? last)%nat && negb (wrapped l) then [13; 10] else [] in
    rest <- dump_rows r (S i) last p' ;;
    Ok (s ++ nl ++ rest)
  end.

(** [Buffer::dump] *)
Definition buf_dump (b : buffer) : res (list N) :=
  v <- viewM b ;;
  _ <- guard (1 <=? brows b)%nat 82 ;;
  let cutoff := dump_cutoff v 0 false 0 in
  dump_rows (firstn cutoff v) 0 (brows b - 1) default_pen.

Definition ctx_is_default (c : saved_ctx) : bool :=
  (sc_col c =? 0)%nat && (sc_row c =? 0)%nat && pen_is_default (sc_pen c)
  && negb (sc_origin c) && sc_awm c.

Definition dump_ctx (c : saved_ctx) : list N :=
  if negb (ctx_is_default c) then
    (if negb (sc_awm c) then CSI :: str "?7l" else [])
    ++ (if sc_origin c then CSI :: str "?6h" else [])
    ++ CSI :: show_nat (sc_row c + 1) ++ [59] ++ show_nat (sc_col c + 1) ++ [72]
    ++ pen_dump (sc_pen c)
    ++ [ESC; 55]
    ++ (if negb (sc_awm c) then CSI :: str "?7h" else [])
    ++ (if sc_origin c then CSI :: str "?6l" else [])
  else [].

Definition is_alt (t : term) : bool := match active t with Alternate => true | Primary => false end.

Definition list_nat_eqb := list_eqb Nat.eqb.

(** [Terminal::dump] *)
Definition term_dump (t : term) : res (list N) :=
  let '(primary_ctx, alternate_ctx) :=
    match active t with Primary => (sctx t, asctx t) | Alternate => (asctx t, sctx t) end in
  (* 1 *)
  s1 <- buf_dump (primary_buffer t) ;;
  (* 2 *)
  let s2 :=
    if negb (list_nat_eqb (tabs t) (tabs_new (cols t))) then
      CSI :: str "5W"
      ++ flat_map (fun tb => CSI :: show_nat (tb + 1) ++ [96; ESC; 91; 87]) (tabs t)
    else [] in
  (* 3 *)
  let s3 := dump_ctx primary_ctx ++ [ESC; 91; 109] in
  (* 4 *)
  let s4a := if is_alt t || negb (ctx_is_default alternate_ctx) then CSI :: str "?1047h" else [] in
  s4b <- (if is_alt t then d <- buf_dump (alternate_buffer t) ;; Ok (CSI :: str "1;1H" ++ d)
          else Ok []) ;;
  (* 5 *)
  let s5 := dump_ctx alternate_ctx in
  (* 6 *)
  let s6 := if negb (is_alt t) && negb (ctx_is_default alternate_ctx) then CSI :: str "?1047l" else [] in
  (* 7 *)
  let s7 := if org t then CSI :: str "?6h" else [] in
  (* 8 *)
  let s8 := if (0 <? top t)%nat || (bot t <? rows t - 1)%nat
            then CSI :: show_nat (top t + 1) ++ [59] ++ show_nat (bot t + 1) ++ [114] else [] in
  (* 9 *)
  let col := cur_col t in
  let row := cur_row t in
  let s9 :=
    if org t then
      if (row <? top t)%nat || (bot t <? row)%nat then
        CSI :: [117]
        ++ (match Nat.compare col (sc_col (sctx t)) with
            | Lt => CSI :: show_nat (sc_col (sctx t) - col) ++ [68]
            | Gt => CSI :: show_nat (col - sc_col (sctx t)) ++ [67]
            | Eq => []
            end)
        ++ (match Nat.compare row (sc_row (sctx t)) with
            | Lt => CSI :: show_nat (sc_row (sctx t) - row) ++ [65]
            | Gt => CSI :: show_nat (row - sc_row (sctx t)) ++ [66]
            | Eq => []
            end)
      else CSI :: show_nat (row - top t + 1) ++ [59] ++ show_nat (col + 1) ++ [72]
    else CSI :: show_nat (row + 1) ++ [59] ++ show_nat (col + 1) ++ [72] in
  s9b <- (if (cols t <=? cur_col t)%nat then
            l <- get_row (buf t) (cur_row t) ;;
            match nth_error (cells l) (cols t - 1) with
            | Some c => Ok (pen_dump (cpen c) ++ [ch c])
            | None => Panic 83
            end
          else Ok []) ;;
  let s9c := pen_dump (tpen t) ++ (if negb (cur_vis t) then CSI :: str "?25l" else []) in
  (* 10 *)
  let s10 := (match cs0 t with CsDrawing => ESC :: str "(0" | CsAscii => [] end)
             ++ (match cs1 t with CsDrawing => ESC :: str ")0" | CsAscii => [] end)
             ++ (if (acs t =? 1)%nat then [14] else []) in
  (* 11 - 14 *)
  let s11 := if ins t then CSI :: str "4h" else [] in
  let s12 := if negb (awm t) then CSI :: str "?7l" else [] in
  let s13 := if nlm t then CSI :: str "20h" else [] in
  let s14 := if ckm t then CSI :: str "?1h" else [] in
  Ok (s1 ++ s2 ++ s3 ++ s4a ++ s4b ++ s5 ++ s6 ++ s7 ++ s8 ++ s9 ++ s9b ++ s9c
      ++ s10 ++ s11 ++ s12 ++ s13 ++ s14).

(** ** text *)

(** [char::is_whitespace] (Unicode White_Space), as a range table *)
Definition is_whitespace (c : N) : bool :=
  ((9 <=? c) && (c <=? 13)) || (c =? 32) || (c =? 133) || (c =? 160) || (c =? 5760)
  || ((8192 <=? c) && (c <=? 8202)) || (c =? 8232) || (c =? 8233) || (c =? 8239)
  || (c =? 8287) || (c =? 12288).

(** [str::trim_end] *)
Definition trim_end (s : list N) : list N := rev (skip_while is_whitespace (rev s)).

Definition line_text (l : line) : list N := map ch (cells l).

(** [Buffer::text] *)
Fixpoint text_go (ls : list line) (cur : list N) : list (list N) :=
  match ls with
  | [] => match cur with [] => [] | _ => [trim_end cur] end
  | l :: r =>
    let cur := cur ++ line_text l in
    if wrapped l then text_go r cur else trim_end cur :: text_go r []
  end.

Definition buf_text (b : buffer) : list (list N) := text_go (lines b) [].

Definition term_text (t : term) : list (list N) := buf_text (primary_buffer t).

(** ** util.rs *)

(** [TextUnwrapper::push]: state = the pending wrapped prefix *)
Definition unwrap_push (st : list N) (l : line) : list N * option (list N) :=
  if wrapped l then (st ++ line_text l, None)
  else ([], Some (st ++ trim_end (line_text l))).

Fixpoint unwrap_all (st : list N) (ls : list line) : list N * list (list N) :=
  match ls with
  | [] => (st, [])
  | l :: r =>
    let '(st', o) := unwrap_push st l in
    let '(st'', out) := unwrap_all st' r in
    (st'', match o with Some s => s :: out | None => out end)
  end.

Fixpoint strip_empty_tail (ls : list (list N)) : list (list N) :=
  match ls with
  | [] => []
  | x :: r =>
    match strip_empty_tail r, x with
    | [], [] => []
    | r', _ => x :: r'
    end
  end.

(** [TextCollector::flush] given the unwrapper state and the final [lines()] *)
Definition collector_flush (st : list N) (ls : list line) : list (list N) :=
  let '(st', out) := unwrap_all st ls in
  strip_empty_tail (out ++ match st' with [] => [] | _ => [st'] end).
