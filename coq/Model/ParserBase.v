(** Helpers used by the generated dispatch tables (Gen/Dispatch.v) and the
    hand-modelled parts of parser.rs: [Param], [SgrOps::next]. *)

From Avt Require Export Model.Types.
From Avt Require Import Gen.Consts.
Local Open Scope N_scope.

Definition opt_is_none (o : option N) : bool :=
  match o with None => true | Some _ => false end.

Definition opt_is (o : option N) (c : N) : bool :=
  match o with Some x => N.eqb x c | None => false end.

(** [Param::as_u16]: [self.parts[0]] *)
Definition as_u16 (p : param) : N := hd 0 (parts p).

(** [ps[k].as_u16()] on the fixed-size parameter array *)
Definition pu16 (ps : list param) (k : nat) : N :=
  match nth_error ps k with Some p => as_u16 p | None => 0 end.

(** [Param::parts]: [&self.parts[..=self.cur_part]] *)
Definition pparts (p : param) : list N := firstn (S (cur_part p)) (parts p).

Definition default_param : param := mkParam 0 (repeat 0 MAX_PARAM_LEN).

Definition rgb (r g b : N) : color := RGB (r mod 256) (g mod 256) (b mod 256).

(** single-part SGR codes *)
Definition sgr_single (v : N) : option sgr_op :=
  if v =? 0 then Some Reset else
  if v =? 1 then Some SetBoldIntensity else
  if v =? 2 then Some SetFaintIntensity else
  if v =? 3 then Some SetItalic else
  if v =? 4 then Some SetUnderline else
  if v =? 5 then Some SetBlink else
  if v =? 7 then Some SetInverse else
  if v =? 9 then Some SetStrikethrough else
  if (v =? 21) || (v =? 22) then Some ResetIntensity else
  if v =? 23 then Some ResetItalic else
  if v =? 24 then Some ResetUnderline else
  if v =? 25 then Some ResetBlink else
  if v =? 27 then Some ResetInverse else
  if v =? 29 then Some ResetStrikethrough else
  if (30 <=? v) && (v <=? 37) then Some (SetForegroundColor (Indexed ((v - 30) mod 256))) else
  if v =? 39 then Some ResetForegroundColor else
  if (40 <=? v) && (v <=? 47) then Some (SetBackgroundColor (Indexed ((v - 40) mod 256))) else
  if v =? 49 then Some ResetBackgroundColor else
  if (90 <=? v) && (v <=? 97) then Some (SetForegroundColor (Indexed ((v - 90 + 8) mod 256))) else
  if (100 <=? v) && (v <=? 107) then Some (SetBackgroundColor (Indexed ((v - 100 + 8) mod 256))) else
  None.

(** the [[38]] / [[48]] arms: colour given by the following ';'-separated parameters.
    [rest] is [self.ps[1..]].  Returns the op (if any) and the number of parameters consumed. *)
Definition sgr_ext (mk : color -> sgr_op) (rest : list param) : option sgr_op * nat :=
  match rest with
  | [] => (None, 1%nat)
  | p1 :: _ =>
    match pparts p1 with
    | [2] =>
      match nth_error rest 3 with
      | Some pb => (Some (mk (rgb (pu16 rest 1) (pu16 rest 2) (as_u16 pb))), 5%nat)
      | None => (None, 2%nat)
      end
    | [5] =>
      match nth_error rest 1 with
      | Some pi => (Some (mk (Indexed (as_u16 pi mod 256))), 3%nat)
      | None => (None, 2%nat)
      end
    | _ => (None, 1%nat)
    end
  end.

(** one iteration of the [while let] loop of [SgrOps::next] on [p :: rest] *)
Definition sgr_step (p : param) (rest : list param) : option sgr_op * nat :=
  match pparts p with
  | [v] =>
    if v =? 38 then sgr_ext SetForegroundColor rest else
    if v =? 48 then sgr_ext SetBackgroundColor rest else
    (sgr_single v, 1%nat)
  | [a; b; c] =>
    if (a =? 38) && (b =? 5) then (Some (SetForegroundColor (Indexed (c mod 256))), 1%nat) else
    if (a =? 48) && (b =? 5) then (Some (SetBackgroundColor (Indexed (c mod 256))), 1%nat) else
    (None, 1%nat)
  | [a; b; r; g; bl] =>
    if (a =? 38) && (b =? 2) then (Some (SetForegroundColor (rgb r g bl)), 1%nat) else
    if (a =? 48) && (b =? 2) then (Some (SetBackgroundColor (rgb r g bl)), 1%nat) else
    (None, 1%nat)
  | [a; b; _; r; g; bl] =>
    if (a =? 38) && (b =? 2) then (Some (SetForegroundColor (rgb r g bl)), 1%nat) else
    if (a =? 48) && (b =? 2) then (Some (SetBackgroundColor (rgb r g bl)), 1%nat) else
    (None, 1%nat)
  | _ => (None, 1%nat)
  end.

(** [SgrOps { ps }.collect()]; [skip] parameters are still to be dropped (they were
    consumed by a multi-parameter colour). Structural recursion: every iteration of the
    Rust loop consumes at least one parameter. *)
Fixpoint sgr_go (skip : nat) (ps : list param) : list sgr_op :=
  match ps with
  | [] => []
  | p :: rest =>
    match skip with
    | S k => sgr_go k rest
    | O =>
      let '(op, consumed) := sgr_step p rest in
      match op with
      | Some o => o :: sgr_go (consumed - 1) rest
      | None => sgr_go (consumed - 1) rest
      end
    end
  end.

Definition sgr_ops (ps : list param) : list sgr_op := sgr_go 0 ps.
