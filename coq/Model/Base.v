(** Base definitions for the avt model: the panic monad and list primitives
    that mirror the Rust slice/Vec operations used by asciinema/avt.

    Every Rust operation that can panic is modelled by a boolean guard plus a
    total body: [primM x := if prim_ok x then Ok (prim x) else Panic site]. *)

From Coq Require Export List Arith NArith ZArith Bool Lia.
Export ListNotations.

Inductive res (A : Type) : Type :=
| Ok (a : A)
| Panic (site : nat).

Arguments Ok {A} a.
Arguments Panic {A} site.

Definition bind {A B} (m : res A) (f : A -> res B) : res B :=
  match m with
  | Ok a => f a
  | Panic s => Panic s
  end.

Notation "x <- m ;; k" := (bind m (fun x => k))
  (at level 100, m at next level, right associativity).
Notation "' p <- m ;; k" := (bind m (fun p => k))
  (at level 100, p pattern, m at next level, right associativity).

Definition guard (b : bool) (site : nat) : res unit :=
  if b then Ok tt else Panic site.

Definition is_ok {A} (m : res A) : bool :=
  match m with Ok _ => true | Panic _ => false end.

(** Distinguished site for exhausted fuel (never a normal-looking value). *)
Definition site_fuel : nat := 99.

(** * List primitives (total bodies) *)

Section ListPrims.
  Context {A : Type}.

  (** [slice::rotate_left(n)]; Rust panics unless [n <= len]. *)
  Definition rotl (n : nat) (l : list A) : list A := skipn n l ++ firstn n l.

  (** [slice::rotate_right(n)]; Rust panics unless [n <= len]. *)
  Definition rotr (n : nat) (l : list A) : list A :=
    skipn (length l - n) l ++ firstn (length l - n) l.

  (** [l[a..b].fill(x)]; Rust panics unless [a <= b <= len]. *)
  Definition fill_range (a b : nat) (x : A) (l : list A) : list A :=
    firstn a l ++ repeat x (b - a) ++ skipn b l.

  (** [l[i] = f(l[i])]; Rust panics unless [i < len]. *)
  Definition upd (i : nat) (f : A -> A) (l : list A) : list A :=
    match skipn i l with
    | [] => l
    | x :: r => firstn i l ++ f x :: r
    end.

  (** apply [f] to the sub-slice [l[a..b]] *)
  Definition on_range (a b : nat) (f : list A -> list A) (l : list A) : list A :=
    firstn a l ++ f (firstn (b - a) (skipn a l)) ++ skipn b l.

  (** [Vec::insert(i, x)] repeated [n] times at the same index *)
  Definition insert_n (i n : nat) (x : A) (l : list A) : list A :=
    firstn i l ++ repeat x n ++ skipn i l.

  Fixpoint last_opt (l : list A) : option A :=
    match l with
    | [] => None
    | [x] => Some x
    | _ :: r => last_opt r
    end.

  Fixpoint take_while (f : A -> bool) (l : list A) : list A :=
    match l with
    | [] => []
    | x :: r => if f x then x :: take_while f r else []
    end.

  Fixpoint skip_while (f : A -> bool) (l : list A) : list A :=
    match l with
    | [] => []
    | x :: r => if f x then skip_while f r else l
    end.

  Fixpoint filter_map {B} (f : A -> option B) (l : list A) : list B :=
    match l with
    | [] => []
    | x :: r => match f x with Some y => y :: filter_map f r | None => filter_map f r end
    end.
End ListPrims.

Definition opt_eqb {A} (eqb : A -> A -> bool) (a b : option A) : bool :=
  match a, b with
  | None, None => true
  | Some x, Some y => eqb x y
  | _, _ => false
  end.

Fixpoint list_eqb {A} (eqb : A -> A -> bool) (a b : list A) : bool :=
  match a, b with
  | [], [] => true
  | x :: a', y :: b' => eqb x y && list_eqb eqb a' b'
  | _, _ => false
  end.
