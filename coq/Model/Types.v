(** Data types of the avt model, field-for-field after the Rust structs. *)

From Avt Require Export Model.Base.
From RecordUpdate Require Export RecordUpdate.

(** * color.rs / pen.rs / cell.rs / line.rs *)

Inductive color := Indexed (i : N) | RGB (r g b : N).

Inductive inten := Normal | Bold | Faint.

Record pen := mkPen {
  foreground : option color;
  background : option color;
  intensity : inten;
  attrs : N (* u8 bit set *)
}.

#[export] Instance eta_pen : Settable _ :=
  settable! mkPen <foreground; background; intensity; attrs>.

Definition default_pen : pen := mkPen None None Normal 0.

Record cell := mkCell { ch : N (* Unicode scalar value *); cpen : pen }.

Record line := mkLine { cells : list cell; wrapped : bool }.

#[export] Instance eta_line : Settable _ := settable! mkLine <cells; wrapped>.

Definition color_eqb (a b : color) : bool :=
  match a, b with
  | Indexed i, Indexed j => N.eqb i j
  | RGB r g b, RGB r' g' b' => N.eqb r r' && N.eqb g g' && N.eqb b b'
  | _, _ => false
  end.

Definition inten_eqb (a b : inten) : bool :=
  match a, b with
  | Normal, Normal | Bold, Bold | Faint, Faint => true
  | _, _ => false
  end.

Definition pen_eqb (p q : pen) : bool :=
  opt_eqb color_eqb (foreground p) (foreground q)
  && opt_eqb color_eqb (background p) (background q)
  && inten_eqb (intensity p) (intensity q)
  && N.eqb (attrs p) (attrs q).

Definition cell_eqb (a b : cell) : bool := N.eqb (ch a) (ch b) && pen_eqb (cpen a) (cpen b).

Definition line_eqb (a b : line) : bool :=
  list_eqb cell_eqb (cells a) (cells b) && Bool.eqb (wrapped a) (wrapped b).

(** * parser.rs *)

Inductive pstate :=
| Ground | Escape | EscapeIntermediate | CsiEntry | CsiParam | CsiIntermediate
| CsiIgnore | DcsEntry | DcsParam | DcsIntermediate | DcsPassthrough | DcsIgnore
| OscString | SosPmApcString.

Definition pstate_eqb (a b : pstate) : bool :=
  match a, b with
  | Ground, Ground | Escape, Escape | EscapeIntermediate, EscapeIntermediate
  | CsiEntry, CsiEntry | CsiParam, CsiParam | CsiIntermediate, CsiIntermediate
  | CsiIgnore, CsiIgnore | DcsEntry, DcsEntry | DcsParam, DcsParam
  | DcsIntermediate, DcsIntermediate | DcsPassthrough, DcsPassthrough
  | DcsIgnore, DcsIgnore | OscString, OscString | SosPmApcString, SosPmApcString => true
  | _, _ => false
  end.

Definition all_pstates : list pstate :=
  [Ground; Escape; EscapeIntermediate; CsiEntry; CsiParam; CsiIntermediate;
   CsiIgnore; DcsEntry; DcsParam; DcsIntermediate; DcsPassthrough; DcsIgnore;
   OscString; SosPmApcString].

Record param := mkParam { cur_part : nat; parts : list N (* [u16; 6] *) }.

#[export] Instance eta_param : Settable _ := settable! mkParam <cur_part; parts>.

Record parser := mkParser {
  pst : pstate;
  params : list param; (* [Param; 32] *)
  cur_param : nat;
  inter : option N
}.

#[export] Instance eta_parser : Settable _ :=
  settable! mkParser <pst; params; cur_param; inter>.

Inductive charset := CsAscii | CsDrawing.
Inductive ansi_mode := Insert | NewLine.
Inductive ctc_op := CtcSet | CtcClearCurrentColumn | CtcClearAll.
Inductive dec_mode :=
| CursorKeys | Origin | AutoWrap | TextCursorEnable | AltScreenBuffer | SaveCursor
| SaveCursorAltScreenBuffer.
Inductive ed_scope := EdBelow | EdAbove | EdAll | EdSavedLines.
Inductive el_scope := ElToRight | ElToLeft | ElAll.
Inductive tbc_scope := TbcCurrentColumn | TbcAll.
Inductive xtwinops_op := XtwinopsResize (cols rows : N).

Inductive sgr_op :=
| Reset | SetBoldIntensity | SetFaintIntensity | SetItalic | SetUnderline | SetBlink
| SetInverse | SetStrikethrough | ResetIntensity | ResetItalic | ResetUnderline
| ResetBlink | ResetInverse | ResetStrikethrough
| SetForegroundColor (c : color) | ResetForegroundColor
| SetBackgroundColor (c : color) | ResetBackgroundColor.

Inductive func :=
| Bs | Cbt (n : N) | Cha (n : N) | Cht (n : N) | Cnl (n : N) | Cpl (n : N) | Cr
| Ctc (op : ctc_op) | Cub (n : N) | Cud (n : N) | Cuf (n : N) | Cup (r c : N)
| Cuu (n : N) | Dch (n : N) | Decaln | Decrc | Decrst (ms : list dec_mode) | Decsc
| Decset (ms : list dec_mode) | Decstbm (t b : N) | Decstr | Dl (n : N) | Ech (n : N)
| Ed (s : ed_scope) | El (s : el_scope) | G1d4 (c : charset) | Gzd4 (c : charset)
| Ht | Hts | Ich (n : N) | Il (n : N) | Lf | Nel | Print (c : N) | Rep (n : N) | Ri
| Ris | Rm (ms : list ansi_mode) | Scorc | Scosc | Sd (n : N) | Sgr (ops : list sgr_op)
| Si | Sm (ms : list ansi_mode) | So | Su (n : N) | Tbc (s : tbc_scope) | Vpa (n : N)
| Vpr (n : N) | Xtwinops (op : xtwinops_op).

(** The [Parser::feed] match, as data regenerated from the source (Gen/FeedArms.v). *)
Inductive spat := AnyState | St (s : pstate).

Inductive act :=
| ASetState (s : pstate) | AClear | ACollect | AParam | APut | AOscPut
| ARetExecute | ARetCsi | ARetEsc | ARetPrint.

Definition arm : Type := (list (spat * N * N) * list act).

(** * buffer.rs / tabs.rs / terminal.rs *)

Record buffer := mkBuffer {
  lines : list line; (* scrollback ++ view *)
  bcols : nat;
  brows : nat;
  blimit : option (N * N); (* soft, hard *)
  trim_needed : bool
}.

#[export] Instance eta_buffer : Settable _ :=
  settable! mkBuffer <lines; bcols; brows; blimit; trim_needed>.

Record saved_ctx := mkCtx {
  sc_col : nat;
  sc_row : nat;
  sc_pen : pen;
  sc_origin : bool;
  sc_awm : bool
}.

#[export] Instance eta_ctx : Settable _ :=
  settable! mkCtx <sc_col; sc_row; sc_pen; sc_origin; sc_awm>.

Inductive btype := Primary | Alternate.

Record term := mkTerm {
  cols : nat;
  rows : nat;
  buf : buffer;            (* buffer (the active one) *)
  other : buffer;          (* other_buffer *)
  active : btype;          (* active_buffer_type *)
  sb_limit : option N;     (* scrollback_limit *)
  cur_col : nat;
  cur_row : nat;
  cur_vis : bool;
  tpen : pen;
  cs0 : charset;
  cs1 : charset;
  acs : nat;               (* active_charset *)
  tabs : list nat;
  ins : bool;              (* insert_mode *)
  org : bool;              (* origin_mode *)
  awm : bool;              (* auto_wrap_mode *)
  nlm : bool;              (* new_line_mode *)
  ckm : bool;              (* cursor_keys_mode == Application *)
  pend : bool;             (* pending_wrap *)
  top : nat;               (* top_margin *)
  bot : nat;               (* bottom_margin *)
  sctx : saved_ctx;        (* saved_ctx *)
  asctx : saved_ctx;       (* alternate_saved_ctx *)
  dirty : list bool;       (* dirty_lines *)
  xtw : bool               (* xtwinops: false at construction, never assigned *)
}.

#[export] Instance eta_term : Settable _ :=
  settable! mkTerm <cols; rows; buf; other; active; sb_limit; cur_col; cur_row; cur_vis;
                    tpen; cs0; cs1; acs; tabs; ins; org; awm; nlm; ckm; pend; top; bot;
                    sctx; asctx; dirty; xtw>.

Record vt := mkVt { vparser : parser; vterm : term }.

#[export] Instance eta_vt : Settable _ := settable! mkVt <vparser; vterm>.
