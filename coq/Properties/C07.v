(** Property C07 -- erase / insert / delete (PARTIAL: buffer level; see DESIGN.md).
    Only pinned statements, closed by [exact], with their assumptions printed. *)
From Avt Require Import Spec.Screen Proofs.Inv Proofs.BufRow.

(** Buffer::erase in each of its seven modes touches exactly the documented extent (closed formula [erase_view]); scrollback, geometry and every other row are unchanged *)
Theorem C07_erase : forall b col row m p, BGeom b -> row < brows b -> col <= bcols b -> buf_erase b col row m p = Ok (bset b (erase_view b col row m p)) /\ BGeom (bset b (erase_view b col row m p)).
Proof. exact buf_erase_spec. Qed.
Check C07_erase : forall b col row m p, BGeom b -> row < brows b -> col <= bcols b -> buf_erase b col row m p = Ok (bset b (erase_view b col row m p)) /\ BGeom (bset b (erase_view b col row m p)).
Print Assumptions C07_erase.
