(** Property C07 -- erase, insert and delete touch exactly their extent.
    Only pinned statements, closed by [exact], with their assumptions printed. *)
From Avt Require Import Oracles.Step Proofs.Inv Proofs.VisEq Proofs.BufRow Proofs.SpecEdit.
From Avt Require Import Gen.BufFns Proofs.BufTie.

(** ED (4 selectors), EL (3), ECH, ICH, DCH, DECALN: from every state satisfying the invariant the control function yields exactly the specified screen (closed formula per cell), cursor and modes; everything outside the extent is unchanged. *)
Theorem C07_edit : forall t f e, TInv t -> spec_edit t f = Some e -> exists t', execute t f = Ok t' /\ vis_norm e = vis_norm t'.
Proof. exact C07_edit. Qed.
Check C07_edit : forall t f e, TInv t -> spec_edit t f = Some e -> exists t', execute t f = Ok t' /\ vis_norm e = vis_norm t'.
Print Assumptions C07_edit.

(** the executable statement evaluated on the implementation is a theorem of the model *)
Theorem C07_statement : forall p p' t f t', TInv t -> execute t f = Ok t' -> holds_C07 (mkVt p t) f (mkVt p' t') = true.
Proof. exact C07_edit_holds. Qed.
Check C07_statement : forall p p' t f t', TInv t -> execute t f = Ok t' -> holds_C07 (mkVt p t) f (mkVt p' t') = true.
Print Assumptions C07_statement.

Theorem C07_erase : forall b col row m p, BGeom b -> row < brows b -> col <= bcols b -> buf_erase b col row m p = Ok (bset b (erase_view b col row m p)) /\ BGeom (bset b (erase_view b col row m p)).
Proof. exact buf_erase_spec. Qed.
Check C07_erase : forall b col row m p, BGeom b -> row < brows b -> col <= bcols b -> buf_erase b col row m p = Ok (bset b (erase_view b col row m p)) /\ BGeom (bset b (erase_view b col row m p)).
Print Assumptions C07_erase.

(** SOURCE TIE BY PROOF: the function is REGENERATED from the Rust source on every run (Gen/BufFns.v, translate/buf2coq.py: slice and Vec idioms into the model's list primitives, every Rust panic condition as a guard) and the hand-written model function is proved equal to it (=~ : equal up to the panic-site number) - an edit to the Rust function breaks this theorem (Buffer::erase, all seven modes) *)
Theorem C07_source_erase : forall b col row m p, g_buffer_erase b col row m p =~ buf_erase b col row m p.
Proof. exact tie_buffer_erase. Qed.
Check C07_source_erase : forall b col row m p, g_buffer_erase b col row m p =~ buf_erase b col row m p.
Print Assumptions C07_source_erase.

(** Buffer::insert incl. the count clamp *)
Theorem C07_source_insert : forall b col row n c, g_buffer_insert b col row n c =~ buf_insert b col row n c.
Proof. exact tie_buffer_insert. Qed.
Check C07_source_insert : forall b col row n c, g_buffer_insert b col row n c =~ buf_insert b col row n c.
Print Assumptions C07_source_insert.

(** Buffer::delete *)
Theorem C07_source_delete : forall b col row n p, g_buffer_delete b col row n p =~ buf_delete b col row n p.
Proof. exact tie_buffer_delete. Qed.
Check C07_source_delete : forall b col row n p, g_buffer_delete b col row n p =~ buf_delete b col row n p.
Print Assumptions C07_source_delete.

From Avt Require Import Gen.TermFns Proofs.TermTie Proofs.TermTieW Proofs.TermTieX.
(** SOURCE TIE BY PROOF (translate/term2coq.py -> Gen/TermFns.v, W-mode): the method of `impl Terminal` is REGENERATED from src/terminal.rs on every run as a function over the scalar record `zt` and an abstract world behind the interface `zops` (recorded calls of the buffer / tabs / dirty-line primitives with their evaluated arguments, queries for tab stops / cells / charset translation); instantiated with the model's own primitives (`Om`) it is proved equal to the hand-written model function, panics included: the model performs exactly the primitive calls the Rust text performs - same arguments, order, marked rows, erase modes, case splits *)
(** Terminal::ich *)
Theorem C07_source_terminal_ich : forall t n, ZW t -> w_ich Om (zabs t) (wabs t) (Z.of_N n) = wres (ich t n).
Proof. exact w_ich_eq. Qed.
Check C07_source_terminal_ich : forall t n, ZW t -> w_ich Om (zabs t) (wabs t) (Z.of_N n) = wres (ich t n).
Print Assumptions C07_source_terminal_ich.

(** Terminal::dch *)
Theorem C07_source_terminal_dch : forall t n, ZW t -> w_dch Om (zabs t) (wabs t) (Z.of_N n) = wres (dch t n).
Proof. exact w_dch_eq. Qed.
Check C07_source_terminal_dch : forall t n, ZW t -> w_dch Om (zabs t) (wabs t) (Z.of_N n) = wres (dch t n).
Print Assumptions C07_source_terminal_dch.

(** Terminal::ech *)
Theorem C07_source_terminal_ech : forall t n, ZW t -> w_ech Om (zabs t) (wabs t) (Z.of_N n) = wres (ech t n).
Proof. exact w_ech_eq. Qed.
Check C07_source_terminal_ech : forall t n, ZW t -> w_ech Om (zabs t) (wabs t) (Z.of_N n) = wres (ech t n).
Print Assumptions C07_source_terminal_ech.

(** Terminal::ed, all four scopes *)
Theorem C07_source_terminal_ed : forall t sc, ZW t -> w_ed Om (zabs t) (wabs t) sc = wres (ed t sc).
Proof. exact w_ed_eq. Qed.
Check C07_source_terminal_ed : forall t sc, ZW t -> w_ed Om (zabs t) (wabs t) sc = wres (ed t sc).
Print Assumptions C07_source_terminal_ed.

(** Terminal::el, all three scopes *)
Theorem C07_source_terminal_el : forall t sc, ZW t -> w_el Om (zabs t) (wabs t) sc = wres (el t sc).
Proof. exact w_el_eq. Qed.
Check C07_source_terminal_el : forall t sc, ZW t -> w_el Om (zabs t) (wabs t) sc = wres (el t sc).
Print Assumptions C07_source_terminal_el.

(** Terminal::decaln *)
Theorem C07_source_terminal_decaln : forall t, ZW t -> w_decaln Om (zabs t) (wabs t) = wres (decaln t).
Proof. exact w_decaln_eq. Qed.
Check C07_source_terminal_decaln : forall t, ZW t -> w_decaln Om (zabs t) (wabs t) = wres (decaln t).
Print Assumptions C07_source_terminal_decaln.

From Avt Require Import Oracles.C07Wrap Proofs.C07Wrap.
(** Oracles/C07Wrap.v, Proofs/C07Wrap.v (second statement audit) *)
(** "A row stops being soft-wrapped when its tail is erased or characters are deleted from it", row by row for every editing function (rows wholly erased, the cursor row when a non-empty extent reaches the last cell, DCH: unwrapped; every other row keeps its mark; an EMPTY extent in the wrap-pending position unwraps too - `when` is read as `not only when`), outside the class kf1_C07 *)
Theorem C07_wrap_mark : forall p p' t f t', TInv t -> execute t f = Ok t' -> kf1_C07 (mkVt p t) f = false -> holds_C07_wrapmark (mkVt p t) f (mkVt p' t') = true.
Proof. exact C07_wrapmark. Qed.
Check C07_wrap_mark : forall p p' t f t', TInv t -> execute t f = Ok t' -> kf1_C07 (mkVt p t) f = false -> holds_C07_wrapmark (mkVt p t) f (mkVt p' t') = true.
Print Assumptions C07_wrap_mark.

(** known finding KF-C07-1, exact: on the WHOLE class the row is blanked completely and still soft-wrapped *)
Theorem C07_known_finding : forall p p' t f t', TInv t -> execute t f = Ok t' -> kf1_C07 (mkVt p t) f = true -> wrapmark_kept (mkVt p t) f (mkVt p' t') = true.
Proof. exact C07_wrapmark_kf_exact. Qed.
Check C07_known_finding : forall p p' t f t', TInv t -> execute t f = Ok t' -> kf1_C07 (mkVt p t) f = true -> wrapmark_kept (mkVt p t) f (mkVt p' t') = true.
Print Assumptions C07_known_finding.

(** the class in words: EL 1 or ED 1, cursor in the last column or the pending position, cursor row soft-wrapped *)
Theorem C07_known_finding_class : forall p t f, kf1_C07 (mkVt p t) f = true <-> (f = El ElToLeft \/ f = Ed EdAbove) /\ cols t <= cur_col t + 1 /\ wrapped (row_at (tview t) (cur_row t)) = true.
Proof. exact kf1_C07_class. Qed.
Check C07_known_finding_class : forall p t f, kf1_C07 (mkVt p t) f = true <-> (f = El ElToLeft \/ f = Ed EdAbove) /\ cols t <= cur_col t + 1 /\ wrapped (row_at (tview t) (cur_row t)) = true.
Print Assumptions C07_known_finding_class.

