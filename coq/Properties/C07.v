(** Property C07 -- erase, insert and delete touch exactly their extent.
    Only pinned statements, closed by [exact], with their assumptions printed. *)
From Avt Require Import Oracles.Step Proofs.Inv Proofs.VisEq Proofs.BufRow Proofs.SpecEdit.

(** ED (4 selectors), EL (3), ECH, ICH, DCH, DECALN: from every state satisfying the invariant the control function yields exactly the specified screen (closed formula per cell), cursor and modes; everything outside the extent is unchanged. *)
Theorem C07_edit : forall t f e, TInv t -> spec_edit t f = Some e -> exists t', execute t f = Ok t' /\ vis_norm e = vis_norm t'.
Proof. exact C07_edit. Qed.
Check C07_edit : forall t f e, TInv t -> spec_edit t f = Some e -> exists t', execute t f = Ok t' /\ vis_norm e = vis_norm t'.
Print Assumptions C07_edit.

(** the executable statement evaluated on the implementation is a theorem of the model *)
Theorem C07_statement : forall p p' t f t', TInv t -> execute t f = Ok t' -> holds_C07 (mkVt p t) f (mkVt p' t') = true.
Proof. exact C07_edit_holds. Qed.
Check C07_statement : forall p p' t f t', TInv t -> execute t f = Ok t' -> holds_C07 (mkVt p t) f (mkVt p' t') = true.
Print Assumptions C07_statement.

Theorem C07_erase : forall b col row m p, BGeom b -> row < brows b -> col <= bcols b -> buf_erase b col row m p = Ok (bset b (erase_view b col row m p)) /\ BGeom (bset b (erase_view b col row m p)).
Proof. exact buf_erase_spec. Qed.
Check C07_erase : forall b col row m p, BGeom b -> row < brows b -> col <= bcols b -> buf_erase b col row m p = Ok (bset b (erase_view b col row m p)) /\ BGeom (bset b (erase_view b col row m p)).
Print Assumptions C07_erase.
