(** Property C02 -- screen geometry invariants hold after every public call.
    Only pinned statements, closed by [exact], with their assumptions printed. *)
From Avt Require Import Oracles.Step Proofs.Inv Proofs.ReflowCore Proofs.Resize Proofs.InvTerm Proofs.InvStep.

(** the executable geometry statement (size, view = tail of lines, every line `cols` cells, >= rows lines, last line unwrapped, cursor row < rows, col <= cols with col = cols exactly when wrap-pending, dirty vector length, parked buffer well-formed) follows from the invariant *)
Theorem C02_state : forall v, Inv v -> holds_C02_state v = true.
Proof. exact C02_state_holds. Qed.
Check C02_state : forall v, Inv v -> holds_C02_state v = true.
Print Assumptions C02_state.

(** ... hence holds after every call of every session *)
Theorem C02_run : forall c r l ops v, 1 <= c -> 1 <= r -> Forall op_ok ops -> runM (vt_new c r l) ops = Ok v -> holds_C02_state v = true.
Proof. exact C02_run. Qed.
Check C02_run : forall c r l ops v, 1 <= c -> 1 <= r -> Forall op_ok ops -> runM (vt_new c r l) ops = Ok v -> holds_C02_state v = true.
Print Assumptions C02_run.

(** changed-line indices strictly increasing and < rows; size() is the size last requested *)
Theorem C02_call : forall v o v' out, Inv v -> op_ok o -> stepM v o = Ok (v', out) -> match o with Feed _ => True | _ => holds_C02_call o v' (o_lines out) = true end.
Proof. exact C02_call_holds. Qed.
Check C02_call : forall v o v' out, Inv v -> op_ok o -> stepM v o = Ok (v', out) -> match o with Feed _ => True | _ => holds_C02_call o v' (o_lines out) = true end.
Print Assumptions C02_call.

Theorem C02_inductive : forall v o, Inv v -> op_ok o -> exists v' out, stepM v o = Ok (v', out) /\ Inv v'.
Proof. exact stepM_Inv. Qed.
Check C02_inductive : forall v o, Inv v -> op_ok o -> exists v' out, stepM v o = Ok (v', out) /\ Inv v'.
Print Assumptions C02_inductive.

Theorem C02_initial : forall c r l, 1 <= c -> 1 <= r -> Inv (vt_new c r l).
Proof. exact vt_new_Inv. Qed.
Check C02_initial : forall c r l, 1 <= c -> 1 <= r -> Inv (vt_new c r l).
Print Assumptions C02_initial.

Theorem C02_reflow_widths : forall ls c, 1 <= c -> exists out, reflowM ls c = Ok out /\ Forall (LineInv c) out /\ (ls <> [] -> out <> []) /\ (last_not_wrapped ls -> last_not_wrapped out).
Proof. exact reflow_total. Qed.
Check C02_reflow_widths : forall ls c, 1 <= c -> exists out, reflowM ls c = Ok out /\ Forall (LineInv c) out /\ (ls <> [] -> out <> []) /\ (last_not_wrapped ls -> last_not_wrapped out).
Print Assumptions C02_reflow_widths.

Theorem C02_resize_geometry : forall b nc nr cc cr, BInv b -> 1 <= nc -> 1 <= nr -> (nc = bcols b -> cr < Nat.max (brows b) nr) -> exists b' cc' cr', buf_resize b nc nr cc cr = Ok (b', (cc', cr')) /\ BInv b' /\ bcols b' = nc /\ brows b' = nr /\ blimit b' = blimit b /\ trim_needed b' = true /\ cr' < nr /\ (nc <> bcols b -> cc' < nc) /\ (nc = bcols b -> cc' = cc).
Proof. exact buf_resize_ok'. Qed.
Check C02_resize_geometry : forall b nc nr cc cr, BInv b -> 1 <= nc -> 1 <= nr -> (nc = bcols b -> cr < Nat.max (brows b) nr) -> exists b' cc' cr', buf_resize b nc nr cc cr = Ok (b', (cc', cr')) /\ BInv b' /\ bcols b' = nc /\ brows b' = nr /\ blimit b' = blimit b /\ trim_needed b' = true /\ cr' < nr /\ (nc <> bcols b -> cc' < nc) /\ (nc = bcols b -> cc' = cc).
Print Assumptions C02_resize_geometry.

From Avt Require Import Gen.TermFns Proofs.TermTie Proofs.TermTieW Proofs.TermTieX.
(** SOURCE TIE BY PROOF (translate/term2coq.py -> Gen/TermFns.v, W-mode): the method of `impl Terminal` is REGENERATED from src/terminal.rs on every run as a function over the scalar record `zt` and an abstract world behind the interface `zops` (recorded calls of the buffer / tabs / dirty-line primitives with their evaluated arguments, queries for tab stops / cells / charset translation); instantiated with the model's own primitives (`Om`) it is proved equal to the hand-written model function, panics included: the model performs exactly the primitive calls the Rust text performs - same arguments, order, marked rows, erase modes, case splits *)
(** Terminal::execute as a whole, every one of the 50 functions *)
Theorem C02_source_execute : forall t f, TInv t -> w_execute Om (zabs t) (wabs t) f = Some (wres (execute t f)).
Proof. exact tie_execute_all. Qed.
Check C02_source_execute : forall t f, TInv t -> w_execute Om (zabs t) (wabs t) f = Some (wres (execute t f)).
Print Assumptions C02_source_execute.

(** further methods regenerated in W-mode (swap / Buffer::new / tabs / dirty-list events, the buffer.resize query) *)
(** the public resize operation of the model (stepM (Resize c r)) is the regenerated Terminal::resize followed by the flush *)
Theorem C02_source_resize_op : forall v c r, ZW (vterm v) -> 1 <= c -> 1 <= r -> match w_resize Om (zabs (vterm v)) (wabs (vterm v)) (Z.of_nat c) (Z.of_nat r) with Some (s, w, ok, _) => ok = true /\ stepM v (Resize c r) = vt_flush (v <| vterm := zput s w |>) | None => exists e, stepM v (Resize c r) = Panic e end.
Proof. exact tie_resize_op. Qed.
Check C02_source_resize_op : forall v c r, ZW (vterm v) -> 1 <= c -> 1 <= r -> match w_resize Om (zabs (vterm v)) (wabs (vterm v)) (Z.of_nat c) (Z.of_nat r) with Some (s, w, ok, _) => ok = true /\ stepM v (Resize c r) = vt_flush (v <| vterm := zput s w |>) | None => exists e, stepM v (Resize c r) = Panic e end.
Print Assumptions C02_source_resize_op.

From Avt Require Import Gen.AccFns Proofs.BufTie Proofs.ParserFnsTie Proofs.AccTie.
(** SOURCE TIE BY PROOF (translate/acc2coq.py -> Gen/AccFns.v): the public constructors and accessors are REGENERATED from the Rust source on every run and proved equal to the model's observation functions - the functions through which every theorem of this property reads the terminal *)
(** Vt::new (through Builder and Terminal::new, field by field); Rust underflows in `rows - 1` for rows = 0 - the side condition of the builder contract *)
Theorem C02_source_vt_new : forall c r, g_vt_new c r =~ okM (1 <=? r) (vt_new c r None).
Proof. exact tie_vt_new. Qed.
Check C02_source_vt_new : forall c r, g_vt_new c r =~ okM (1 <=? r) (vt_new c r None).
Print Assumptions C02_source_vt_new.

(** Builder::build with the scrollback limit *)
Theorem C02_source_build : forall b, g_builder_build b =~ okM (1 <=? snd (b_size b)) (vt_new (fst (b_size b)) (snd (b_size b)) (option_map N.of_nat (b_scrollback_limit b))).
Proof. exact tie_builder_build. Qed.
Check C02_source_build : forall b, g_builder_build b =~ okM (1 <=? snd (b_size b)) (vt_new (fst (b_size b)) (snd (b_size b)) (option_map N.of_nat (b_scrollback_limit b))).
Print Assumptions C02_source_build.

(** Vt::view *)
Theorem C02_source_view : forall v, g_vt_view v =~ vt_view v.
Proof. exact tie_vt_view. Qed.
Check C02_source_view : forall v, g_vt_view v =~ vt_view v.
Print Assumptions C02_source_view.

(** Vt::lines *)
Theorem C02_source_lines : forall v, g_vt_lines v = Ok (vt_lines v).
Proof. exact tie_vt_lines. Qed.
Check C02_source_lines : forall v, g_vt_lines v = Ok (vt_lines v).
Print Assumptions C02_source_lines.

(** Vt::line(n): panics exactly when the model does *)
Theorem C02_source_line : forall v n, g_vt_line v n =~ vt_line v n.
Proof. exact tie_vt_line. Qed.
Check C02_source_line : forall v n, g_vt_line v n =~ vt_line v n.
Print Assumptions C02_source_line.

(** Vt::size *)
Theorem C02_source_size : forall v, g_vt_size v = Ok (vt_size v).
Proof. exact tie_vt_size. Qed.
Check C02_source_size : forall v, g_vt_size v = Ok (vt_size v).
Print Assumptions C02_source_size.

(** Vt::cursor (the stored cursor as is) *)
Theorem C02_source_cursor : forall v, g_vt_cursor v = Ok (cursor_of (vt_cursor v)).
Proof. exact tie_vt_cursor. Qed.
Check C02_source_cursor : forall v, g_vt_cursor v = Ok (cursor_of (vt_cursor v)).
Print Assumptions C02_source_cursor.

From Avt Require Import Proofs.TermTieClosed.
(** CLOSED TIE: the W-mode interface instantiated with the REGENERATED primitives only (`Og`: g_buffer_print / insert / delete / erase / wrap / scroll_up / scroll_down / new, g_tabs_*, g_dirty_*, g_charset_translate, g_buffer_resize with the regenerated reflow and relative_position, g_sgr, the regenerated reset lists) - `w_execute Og` is a function built from nothing but text regenerated from the Rust source, and it equals the hand-written model's `execute` on every state satisfying the invariant *)
(** Terminal::execute, all 50 functions, closed over the regenerated primitives *)
Theorem C02_source_execute_closed : forall t f, TInv t -> w_execute Og (zabs t) (wabs t) f = Some (wres (execute t f)).
Proof. exact tie_execute_closed. Qed.
Check C02_source_execute_closed : forall t f, TInv t -> w_execute Og (zabs t) (wabs t) f = Some (wres (execute t f)).
Print Assumptions C02_source_execute_closed.

(** the public resize, closed over the regenerated primitives *)
Theorem C02_source_resize_closed : forall v c r, ZW (vterm v) -> 1 <= c -> 1 <= r -> match w_resize Og (zabs (vterm v)) (wabs (vterm v)) (Z.of_nat c) (Z.of_nat r) with Some (s, w, ok, _) => ok = true /\ stepM v (Resize c r) = vt_flush (v <| vterm := zput s w |>) | None => exists e, stepM v (Resize c r) = Panic e end.
Proof. exact tie_resize_closed. Qed.
Check C02_source_resize_closed : forall v c r, ZW (vterm v) -> 1 <= c -> 1 <= r -> match w_resize Og (zabs (vterm v)) (wabs (vterm v)) (Z.of_nat c) (Z.of_nat r) with Some (s, w, ok, _) => ok = true /\ stepM v (Resize c r) = vt_flush (v <| vterm := zput s w |>) | None => exists e, stepM v (Resize c r) = Panic e end.
Print Assumptions C02_source_resize_closed.

From Avt Require Import Proofs.ModeSem.
(** Proofs/ModeSem.v *)
(** "size() reports the geometry last requested": after ANY history the size is that of the last Resize, else the construction size (feeds never change it: XTWINOPS is neutralised) *)
Theorem C02_size_stable : forall c r l ops v, 1 <= c -> 1 <= r -> Forall op_ok ops -> runM (vt_new c r l) ops = Ok v -> vt_size v = size_after (c, r) ops.
Proof. exact C02_size_run. Qed.
Check C02_size_stable : forall c r l ops v, 1 <= c -> 1 <= r -> Forall op_ok ops -> runM (vt_new c r l) ops = Ok v -> vt_size v = size_after (c, r) ops.
Print Assumptions C02_size_stable.

(** one fed character never changes the size *)
Theorem C02_size_feed_stable : forall v c v' o, Inv v -> stepM v (Feed c) = Ok (v', o) -> vt_size v' = vt_size v.
Proof. exact C02_size_feed. Qed.
Check C02_size_feed_stable : forall v c v' o, Inv v -> stepM v (Feed c) = Ok (v', o) -> vt_size v' = vt_size v.
Print Assumptions C02_size_feed_stable.

