(** Property C02 -- geometry invariants (PARTIAL: the resize / reflow core; see DESIGN.md).
    Only pinned statements, closed by [exact], with their assumptions printed. *)
From Avt Require Import Model.Vt Proofs.Inv Proofs.ReflowCore Proofs.Resize.

(** every row produced by reflow has exactly the new width; the last row is not soft-wrapped *)
Theorem C02_reflow_widths : forall ls c, 1 <= c -> exists out, reflowM ls c = Ok out /\ Forall (LineInv c) out /\ (ls <> [] -> out <> []) /\ (last_not_wrapped ls -> last_not_wrapped out).
Proof. exact reflow_total. Qed.
Check C02_reflow_widths : forall ls c, 1 <= c -> exists out, reflowM ls c = Ok out /\ Forall (LineInv c) out /\ (ls <> [] -> out <> []) /\ (last_not_wrapped ls -> last_not_wrapped out).
Print Assumptions C02_reflow_widths.

(** after Buffer::resize: every line has the new width, at least `rows` lines, last line not wrapped, cursor row inside the screen *)
Theorem C02_resize_geometry : forall b nc nr cc cr, BInv b -> 1 <= nc -> 1 <= nr -> (nc = bcols b -> cr < Nat.max (brows b) nr) -> exists b' cc' cr', buf_resize b nc nr cc cr = Ok (b', (cc', cr')) /\ BInv b' /\ bcols b' = nc /\ brows b' = nr /\ blimit b' = blimit b /\ trim_needed b' = true /\ cr' < nr /\ (nc <> bcols b -> cc' < nc) /\ (nc = bcols b -> cc' = cc).
Proof. exact buf_resize_ok'. Qed.
Check C02_resize_geometry : forall b nc nr cc cr, BInv b -> 1 <= nc -> 1 <= nr -> (nc = bcols b -> cr < Nat.max (brows b) nr) -> exists b' cc' cr', buf_resize b nc nr cc cr = Ok (b', (cc', cr')) /\ BInv b' /\ bcols b' = nc /\ brows b' = nr /\ blimit b' = blimit b /\ trim_needed b' = true /\ cr' < nr /\ (nc <> bcols b -> cc' < nc) /\ (nc = bcols b -> cc' = cc).
Print Assumptions C02_resize_geometry.
