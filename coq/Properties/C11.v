(** Property C11 -- dump() reproduces the terminal for all future input .
    Only pinned statements, closed by [exact], with their assumptions printed. *)
From Avt Require Import Oracles.Rel Spec.Screen Proofs.Inv Proofs.ParserInv Proofs.PenInv Proofs.ParamChop Proofs.Future Proofs.FutureInst Proofs.DumpParserRT Proofs.DumpPen Proofs.DumpRows Proofs.InvStep Proofs.PenInvProofs Proofs.DumpMargins Proofs.DumpScript Proofs.DumpFinal.

(** THE FUTURE HALF: the observational equivalence established by a restore (executable statement holds_C11: same visible cells, pens, wrap marks, cursor, visibility, every mode, margins, tabs, charsets, saved contexts, parser state) is preserved by EVERY further input string - two terminals related by it stay related (and never panic) whatever is fed to both. Scrollback, its limit, dirty / trim flags and the discarded parked alternate buffer may differ. (PWf: parser data cleared in entry states - holds for every state reachable by feeding, see Proofs/Future.v.) *)
Theorem C11_future : forall a b s a' oa, Inv a -> Inv b -> parked_ok (vterm a) -> parked_ok (vterm b) -> PWf (vparser a) -> PWf (vparser b) -> holds_C11 a b = true -> feed_str a s = Ok (a', oa) -> exists b' ob, feed_str b s = Ok (b', ob) /\ holds_C11 a' b' = true.
Proof. exact C11_future_closed. Qed.
Check C11_future : forall a b s a' oa, Inv a -> Inv b -> parked_ok (vterm a) -> parked_ok (vterm b) -> PWf (vparser a) -> PWf (vparser b) -> holds_C11 a b = true -> feed_str a s = Ok (a', oa) -> exists b' ob, feed_str b s = Ok (b', ob) /\ holds_C11 a' b' = true.
Print Assumptions C11_future.

(** MID-SEQUENCE CUTS: Parser::dump round-trips every reachable parser state (all 14 states, private markers, intermediates, parameters with sub-parameters, saturated parameter counts): feeding the dumped prefix to a fresh parser emits nothing and reaches an observationally equal parser. *)
Theorem C11_parser : forall p, PInv p -> PReach p -> exists p', runP init_parser (parser_dump p) = Ok (p', []) /\ obs_eqb_parser p p' = true.
Proof. exact C11_parser. Qed.
Check C11_parser : forall p, PInv p -> PReach p -> exists p', runP init_parser (parser_dump p) = Ok (p', []) /\ obs_eqb_parser p p' = true.
Print Assumptions C11_parser.

(** PEN: Pen::dump, fed to any parser in ground state, emits one SGR whose fold over ANY pen yields the dumped pen (all 256 indexed colours in their three encodings, RGB, bold/faint, the five attributes). *)
Theorem C11_pen : forall pr p, PInv pr -> pst pr = Ground -> pen_ok p -> exists pr' ops, runP pr (pen_dump p) = Ok (pr', [Sgr ops]) /\ pst pr' = Ground /\ forall q, observe (fold_left sgr_one ops q) = observe p.
Proof. exact run_pen_dump. Qed.
Check C11_pen : forall pr p, PInv pr -> pst pr = Ground -> pen_ok p -> exists pr' ops, runP pr (pen_dump p) = Ok (pr', [Sgr ops]) /\ pst pr' = Ground /\ forall q, observe (fold_left sgr_one ops q) = observe p.
Print Assumptions C11_pen.

(** SCREEN CONTENT: replaying Buffer::dump of any well-formed view (pen runs, REP compression, CR LF only after unwrapped rows, cut-off after the last non-blank row) on a blank terminal of the same size reproduces the view exactly - cells, pens and soft-wrap marks - and touches nothing else but cursor and pen. Width bound 65536 = known finding KF-C11-3. *)
Theorem C11_rows : forall b v d, BGeom b -> (N.of_nat (bcols b) <= 65536)%N -> printable_view (view b) -> lines_wf (view b) -> last_not_wrapped (view b) -> Ready (vterm v) -> PInv (vparser v) -> pst (vparser v) = Ground -> cols (vterm v) = bcols b -> rows (vterm v) = brows b -> buf_dump b = Ok d -> exists v', feed_chars v d = Ok v' /\ pst (vparser v') = Ground /\ PInv (vparser v') /\ TInv (vterm v') /\ tview (vterm v') = view b /\ tsb (vterm v') = tsb (vterm v) /\ vterm v' = (vterm v) <| buf := buf (vterm v') |> <| cur_col := cur_col (vterm v') |> <| cur_row := cur_row (vterm v') |> <| pend := pend (vterm v') |> <| tpen := tpen (vterm v') |> <| dirty := dirty (vterm v') |> /\ pen_wf (tpen (vterm v')).
Proof. exact buf_dump_replay. Qed.
Check C11_rows : forall b v d, BGeom b -> (N.of_nat (bcols b) <= 65536)%N -> printable_view (view b) -> lines_wf (view b) -> last_not_wrapped (view b) -> Ready (vterm v) -> PInv (vparser v) -> pst (vparser v) = Ground -> cols (vterm v) = bcols b -> rows (vterm v) = brows b -> buf_dump b = Ok d -> exists v', feed_chars v d = Ok v' /\ pst (vparser v') = Ground /\ PInv (vparser v') /\ TInv (vterm v') /\ tview (vterm v') = view b /\ tsb (vterm v') = tsb (vterm v) /\ vterm v' = (vterm v) <| buf := buf (vterm v') |> <| cur_col := cur_col (vterm v') |> <| cur_row := cur_row (vterm v') |> <| pend := pend (vterm v') |> <| tpen := tpen (vterm v') |> <| dirty := dirty (vterm v') |> /\ pen_wf (tpen (vterm v')).
Print Assumptions C11_rows.

Theorem C11_dump_total : forall v, Inv v -> exists s, vt_dump v = Ok s.
Proof. exact vt_dump_ok. Qed.
Check C11_dump_total : forall v, Inv v -> exists s, vt_dump v = Ok s.
Print Assumptions C11_dump_total.

(** THE RESTORE HALF: for every state satisfying the invariants (all of which hold for every reachable state, next theorem),
    outside the three known-finding classes (kf1: origin mode with the cursor outside the region; kf2: alternate screen showing
    with a parked primary of stale geometry; kf3 / dumpable': sizes or stale saved coordinates beyond the 16-bit parameter
    range), dump() succeeds, feeding it to a fresh terminal of the same size succeeds, and the restored terminal is
    observationally equal to the original (holds_C11): same visible cells, pens, wrap marks, cursor position incl. wrap-pending,
    visibility, all modes, margins, tab stops, charsets, both saved contexts, parser state incl. a cut in mid-sequence. *)
Theorem C11_dump : forall v, Inv v -> PReach (vparser v) -> PensInv (vterm v) -> CharsInv (vterm v) -> MarginsInv (vterm v) -> dumpable' (vterm v) -> kf1_C11 (vterm v) = false -> kf2_C11 (vterm v) = false -> exists d r o, vt_dump v = Ok d /\ feed_str (vt_new (cols (vterm v)) (rows (vterm v)) None) d = Ok (r, o) /\ holds_C11 v r = true.
Proof. exact C11_dump. Qed.
Check C11_dump : forall v, Inv v -> PReach (vparser v) -> PensInv (vterm v) -> CharsInv (vterm v) -> MarginsInv (vterm v) -> dumpable' (vterm v) -> kf1_C11 (vterm v) = false -> kf2_C11 (vterm v) = false -> exists d r o, vt_dump v = Ok d /\ feed_str (vt_new (cols (vterm v)) (rows (vterm v)) None) d = Ok (r, o) /\ holds_C11 v r = true.
Print Assumptions C11_dump.

(** ... for every history of feeds, flushes and resizes from a fresh terminal *)
Theorem C11_dump_reachable : forall c r l ops v, 1 <= c -> 1 <= r -> Forall op_ok ops -> runM (vt_new c r l) ops = Ok v -> dumpable' (vterm v) -> kf1_C11 (vterm v) = false -> kf2_C11 (vterm v) = false -> exists d r' o, vt_dump v = Ok d /\ feed_str (vt_new (cols (vterm v)) (rows (vterm v)) None) d = Ok (r', o) /\ holds_C11 v r' = true.
Proof. exact C11_dump_run. Qed.
Check C11_dump_reachable : forall c r l ops v, 1 <= c -> 1 <= r -> Forall op_ok ops -> runM (vt_new c r l) ops = Ok v -> dumpable' (vterm v) -> kf1_C11 (vterm v) = false -> kf2_C11 (vterm v) = false -> exists d r' o, vt_dump v = Ok d /\ feed_str (vt_new (cols (vterm v)) (rows (vterm v)) None) d = Ok (r', o) /\ holds_C11 v r' = true.
Print Assumptions C11_dump_reachable.

(** PROPERTY C11 IN ONE STATEMENT: for every history of feeds, flushes and resizes from a fresh terminal, outside the three
    known-finding classes, dump() restores an observationally equal terminal, and original and restored stay observationally
    equal - and never panic - after ANY further input (also any sequence of further feed_str calls). *)
Theorem C11_restore_and_future : forall c r l ops v, 1 <= c -> 1 <= r -> Forall op_ok ops -> runM (vt_new c r l) ops = Ok v -> dumpable' (vterm v) -> kf1_C11 (vterm v) = false -> kf2_C11 (vterm v) = false -> exists d r0 o0, vt_dump v = Ok d /\ feed_str (vt_new (cols (vterm v)) (rows (vterm v)) None) d = Ok (r0, o0) /\ holds_C11 v r0 = true /\ forall s v' ov, feed_str v s = Ok (v', ov) -> exists r1 o1, feed_str r0 s = Ok (r1, o1) /\ holds_C11 v' r1 = true.
Proof. exact C11_restore_and_future. Qed.
Check C11_restore_and_future : forall c r l ops v, 1 <= c -> 1 <= r -> Forall op_ok ops -> runM (vt_new c r l) ops = Ok v -> dumpable' (vterm v) -> kf1_C11 (vterm v) = false -> kf2_C11 (vterm v) = false -> exists d r0 o0, vt_dump v = Ok d /\ feed_str (vt_new (cols (vterm v)) (rows (vterm v)) None) d = Ok (r0, o0) /\ holds_C11 v r0 = true /\ forall s v' ov, feed_str v s = Ok (v', ov) -> exists r1 o1, feed_str r0 s = Ok (r1, o1) /\ holds_C11 v' r1 = true.
Print Assumptions C11_restore_and_future.

From Avt Require Import Gen.DumpFns Proofs.BufTie Proofs.DumpTie.
(** SOURCE TIE BY PROOF (translate/dump2coq.py -> Gen/DumpFns.v): the 13 dump functions are REGENERATED from the Rust source on every run (append-only string building checked, u8 sums bounded statically, usize subtraction / indexing / unreachable!() as guards) and the hand-written model functions - the ones every C11 theorem is about - are proved equal to them on every state satisfying the invariant *)
(** Vt::dump = Parser::dump ++ Terminal::dump (all 14 steps), on every reachable state *)
Theorem C11_source_vt_dump : forall v, Inv v -> PensInv (vterm v) -> g_vt_dump v = vt_dump v.
Proof. exact tie_vt_dump_inv. Qed.
Check C11_source_vt_dump : forall v, Inv v -> PensInv (vterm v) -> g_vt_dump v = vt_dump v.
Print Assumptions C11_source_vt_dump.

(** Terminal::dump under the weakest arithmetic precondition (dump_pre: both saved pens have only the five attribute bits; rows >= 1 when the top margin is 0; cols >= 1 - necessary, see dump_pre_necessary in Proofs/DumpTie.v) *)
Theorem C11_source_term_dump : forall t, dump_pre t -> g_term_dump t =~ term_dump t.
Proof. exact tie_term_dump. Qed.
Check C11_source_term_dump : forall t, dump_pre t -> g_term_dump t =~ term_dump t.
Print Assumptions C11_source_term_dump.

(** Buffer::dump (chunks by pen, REP encoding, CRLF between unwrapped rows), unconditional *)
Theorem C11_source_buffer_dump : forall b, g_buffer_dump b =~ buf_dump b.
Proof. exact tie_buffer_dump. Qed.
Check C11_source_buffer_dump : forall b, g_buffer_dump b =~ buf_dump b.
Print Assumptions C11_source_buffer_dump.

(** Pen::dump, unconditional *)
Theorem C11_source_pen_dump : forall p, g_pen_dump p = pen_dump p.
Proof. exact tie_pen_dump. Qed.
Check C11_source_pen_dump : forall p, g_pen_dump p = pen_dump p.
Print Assumptions C11_source_pen_dump.

(** Color::sgr_params, unconditional *)
Theorem C11_source_sgr_params : forall c base, g_sgr_params c base = sgr_params c base.
Proof. exact tie_sgr_params. Qed.
Check C11_source_sgr_params : forall c base, g_sgr_params c base = sgr_params c base.
Print Assumptions C11_source_sgr_params.

(** Parser::dump with Param's Display *)
Theorem C11_source_parser_dump : forall p, PInv p -> g_parser_dump p = parser_dumpM p.
Proof. exact tie_parser_dumpM. Qed.
Check C11_source_parser_dump : forall p, PInv p -> g_parser_dump p = parser_dumpM p.
Print Assumptions C11_source_parser_dump.

From Avt Require Import Oracles.C11Narrow Proofs.C11More.
(** Proofs/C11More.v (statement audit): exact classes of the findings, any target limit *)
(** the restore theorem with hypotheses that are ONLY the executable classes of the recorded findings (kf1_C11_narrow, kf2_C11, kf3_C11, kf3b_C11), every reachable state, a fresh terminal with ANY scrollback limit as the target, and all future input *)
Theorem C11_exact : forall c r l ops v l', 1 <= c -> 1 <= r -> Forall op_ok ops -> runM (vt_new c r l) ops = Ok v -> kf3_C11 (vterm v) = false -> kf3b_C11 (vterm v) = false -> kf1_C11_narrow (vterm v) = false -> kf2_C11 (vterm v) = false -> exists d r0 o0, vt_dump v = Ok d /\ feed_str (vt_new (cols (vterm v)) (rows (vterm v)) l') d = Ok (r0, o0) /\ holds_C11 v r0 = true /\ forall s v' ov, feed_str v s = Ok (v', ov) -> exists r1 o1, feed_str r0 s = Ok (r1, o1) /\ holds_C11 v' r1 = true.
Proof. exact C11_restore_and_future_exact. Qed.
Check C11_exact : forall c r l ops v l', 1 <= c -> 1 <= r -> Forall op_ok ops -> runM (vt_new c r l) ops = Ok v -> kf3_C11 (vterm v) = false -> kf3b_C11 (vterm v) = false -> kf1_C11_narrow (vterm v) = false -> kf2_C11 (vterm v) = false -> exists d r0 o0, vt_dump v = Ok d /\ feed_str (vt_new (cols (vterm v)) (rows (vterm v)) l') d = Ok (r0, o0) /\ holds_C11 v r0 = true /\ forall s v' ov, feed_str v s = Ok (v', ov) -> exists r1 o1, feed_str r0 s = Ok (r1, o1) /\ holds_C11 v' r1 = true.
Print Assumptions C11_exact.

(** KF-C11-1 narrowed to its exact extent: with origin mode on and the cursor outside the region the restore is STILL exact when the saved context has origin mode on, has auto-wrap on (or the terminal has neither auto-wrap nor a pending wrap) and no margin lies between the saved row and the cursor row *)
Theorem C11_narrow : forall c r l ops v l', 1 <= c -> 1 <= r -> Forall op_ok ops -> runM (vt_new c r l) ops = Ok v -> dumpable' (vterm v) -> kf1_C11_narrow (vterm v) = false -> kf2_C11 (vterm v) = false -> exists d r' o, vt_dump v = Ok d /\ feed_str (vt_new (cols (vterm v)) (rows (vterm v)) l') d = Ok (r', o) /\ holds_C11 v r' = true.
Proof. exact C11_dump_reachable_narrow. Qed.
Check C11_narrow : forall c r l ops v l', 1 <= c -> 1 <= r -> Forall op_ok ops -> runM (vt_new c r l) ops = Ok v -> dumpable' (vterm v) -> kf1_C11_narrow (vterm v) = false -> kf2_C11 (vterm v) = false -> exists d r' o, vt_dump v = Ok d /\ feed_str (vt_new (cols (vterm v)) (rows (vterm v)) l') d = Ok (r', o) /\ holds_C11 v r' = true.
Print Assumptions C11_narrow.

(** "a fresh terminal of the same size" with any scrollback limit *)
Theorem C11_any_limit : forall c r l ops v l', 1 <= c -> 1 <= r -> Forall op_ok ops -> runM (vt_new c r l) ops = Ok v -> dumpable' (vterm v) -> kf1_C11 (vterm v) = false -> kf2_C11 (vterm v) = false -> exists d r' o, vt_dump v = Ok d /\ feed_str (vt_new (cols (vterm v)) (rows (vterm v)) l') d = Ok (r', o) /\ holds_C11 v r' = true.
Proof. exact C11_dump_reachable_any_limit. Qed.
Check C11_any_limit : forall c r l ops v l', 1 <= c -> 1 <= r -> Forall op_ok ops -> runM (vt_new c r l) ops = Ok v -> dumpable' (vterm v) -> kf1_C11 (vterm v) = false -> kf2_C11 (vterm v) = false -> exists d r' o, vt_dump v = Ok d /\ feed_str (vt_new (cols (vterm v)) (rows (vterm v)) l') d = Ok (r', o) /\ holds_C11 v r' = true.
Print Assumptions C11_any_limit.

(** the size hypothesis of the older theorems, as executable classes: `dumpable'` = `dumpable` and not kf3b_C11 (the second half of KF-C11-3: primary showing, the alternate screen's saved cursor at column / row >= 65535 - reachable only through a terminal that once was >= 65536 wide or tall: C11_dumpable'_small_history) *)
Theorem C11_kf3b_class : forall t, TInv t -> kf2_C11 t = false -> (dumpable' t <-> dumpable t = true /\ kf3b_C11 t = false).
Proof. exact dumpable'_iff. Qed.
Check C11_kf3b_class : forall t, TInv t -> kf2_C11 t = false -> (dumpable' t <-> dumpable t = true /\ kf3b_C11 t = false).
Print Assumptions C11_kf3b_class.

From Avt Require Import Proofs.Audit2Misc.
(** Proofs/Audit2Misc.v (second statement audit): the findings' classes are not vacuous *)
(** failure INSIDE the narrowed class of KF-C11-1: six reachable states in the class on which dump-then-restore does not reproduce the terminal *)
Theorem C11_kf1_fails_inside : forall w, In w kf1_witnesses -> exists v d r o, runM (vt_new 8 5 None) (map Feed w ++ [Flush]) = Ok v /\ kf1_C11_narrow (vterm v) = true /\ vt_dump v = Ok d /\ feed_str (vt_new (cols (vterm v)) (rows (vterm v)) (Some 3%N)) d = Ok (r, o) /\ holds_C11 v r = false.
Proof. exact C11_kf1_narrow_witnesses. Qed.
Check C11_kf1_fails_inside : forall w, In w kf1_witnesses -> exists v d r o, runM (vt_new 8 5 None) (map Feed w ++ [Flush]) = Ok v /\ kf1_C11_narrow (vterm v) = true /\ vt_dump v = Ok d /\ feed_str (vt_new (cols (vterm v)) (rows (vterm v)) (Some 3%N)) d = Ok (r, o) /\ holds_C11 v r = false.
Print Assumptions C11_kf1_fails_inside.

(** failure inside the class of KF-C11-2 (for kf3b see C11_kf3b_witness in Proofs/C11Witness.v, kept out of this file's dependency cone because a 65536-column terminal is slow to re-check; for kf3_C11 - more than 65534 columns - no Coq witness is attempted, the implementation witness is the harness's kf3 mode) *)
Theorem C11_kf2_fails_inside : exists v d r o, runM (vt_new 40 10 None) kf2_witness_ops = Ok v /\ kf2_C11 (vterm v) = true /\ kf1_C11 (vterm v) = false /\ kf3_C11 (vterm v) = false /\ vt_dump v = Ok d /\ feed_str (vt_new (cols (vterm v)) (rows (vterm v)) None) d = Ok (r, o) /\ holds_C11 v r = false.
Proof. exact C11_kf2_witness. Qed.
Check C11_kf2_fails_inside : exists v d r o, runM (vt_new 40 10 None) kf2_witness_ops = Ok v /\ kf2_C11 (vterm v) = true /\ kf1_C11 (vterm v) = false /\ kf3_C11 (vterm v) = false /\ vt_dump v = Ok d /\ feed_str (vt_new (cols (vterm v)) (rows (vterm v)) None) d = Ok (r, o) /\ holds_C11 v r = false.
Print Assumptions C11_kf2_fails_inside.

