(** Property C04 -- printing, auto-wrap, insert mode and charsets.
    Only pinned statements, closed by [exact], with their assumptions printed. *)
From Avt Require Import Oracles.Step Proofs.Inv Proofs.VisEq Proofs.BufRow Proofs.SpecPrint.
From Avt Require Import Gen.BufFns Proofs.BufTie.

(** the DEC special graphics table regenerated from the source is the VT100 table of the specification, for every character *)
Theorem C04_charset : forall cs c, translate cs c = Ok (spec_translate cs c).
Proof. exact C04_translate. Qed.
Check C04_charset : forall cs c, translate cs c = Ok (spec_translate cs c).
Print Assumptions C04_charset.

(** Printing from every state satisfying the invariant (wrap-pending column, 1-column screens, cursor below the region, insert mode, auto-wrap off included) yields exactly the specified screen: deferred wrap (with region scroll on the bottom margin), write with the current pen, advance / park; nothing else changes; and the invariant holds again. *)
Theorem C04_print : forall t c, TInv t -> exists t', execute t (Print c) = Ok t' /\ vis_norm (spec_print t c) = vis_norm t' /\ TInv t'.
Proof. exact C04_print. Qed.
Check C04_print : forall t c, TInv t -> exists t', execute t (Print c) = Ok t' /\ vis_norm (spec_print t c) = vis_norm t' /\ TInv t'.
Print Assumptions C04_print.

(** REP n = the character left of the cursor typed n times *)
Theorem C04_rep : forall t n, TInv t -> exists t', execute t (Rep n) = Ok t' /\ vis_norm (spec_rep t n) = vis_norm t' /\ TInv t'.
Proof. exact C04_rep. Qed.
Check C04_rep : forall t n, TInv t -> exists t', execute t (Rep n) = Ok t' /\ vis_norm (spec_rep t n) = vis_norm t' /\ TInv t'.
Print Assumptions C04_rep.

(** the executable statement evaluated on the implementation is a theorem of the model *)
Theorem C04_statement : forall p p' t f t', TInv t -> execute t f = Ok t' -> holds_C04 (mkVt p t) f (mkVt p' t') = true.
Proof. exact C04_holds. Qed.
Check C04_statement : forall p p' t f t', TInv t -> execute t f = Ok t' -> holds_C04 (mkVt p t) f (mkVt p' t') = true.
Print Assumptions C04_statement.

(** SOURCE TIE BY PROOF: the function is REGENERATED from the Rust source on every run (Gen/BufFns.v, translate/buf2coq.py: slice and Vec idioms into the model's list primitives, every Rust panic condition as a guard) and the hand-written model function is proved equal to it (=~ : equal up to the panic-site number) - an edit to the Rust function breaks this theorem (Buffer::print / Line::print) *)
Theorem C04_source_print : forall b col row c, g_buffer_print b col row c =~ buf_print b col row c.
Proof. exact tie_buffer_print. Qed.
Check C04_source_print : forall b col row c, g_buffer_print b col row c =~ buf_print b col row c.
Print Assumptions C04_source_print.

(** Line::insert (rotate_right + fill) *)
Theorem C04_source_line_insert : forall l col n c, g_line_insert l col n c =~ line_insertM col n c l.
Proof. exact tie_line_insert. Qed.
Check C04_source_line_insert : forall l col n c, g_line_insert l col n c =~ line_insertM col n c l.
Print Assumptions C04_source_line_insert.

From Avt Require Import Gen.RestFns Proofs.RestTie.
(** SOURCE TIE BY PROOF (translate/rest2coq.py -> Gen/RestFns.v): the Rust function is REGENERATED on every run (u8/u16/u32/char as N with exact casts, isize as Z with guards on `as usize`, loops as folds or fuelled fixpoints, every Rust panic condition as a guard) and the hand-written model function is proved equal to it (=~ : equal up to the panic-site number) *)
(** Charset::translate regenerated *)
Theorem C04_source_translate : forall cs c, g_charset_translate cs c =~ translate cs c.
Proof. exact tie_charset_translate. Qed.
Check C04_source_translate : forall cs c, g_charset_translate cs c =~ translate cs c.
Print Assumptions C04_source_translate.

From Avt Require Import Gen.TermFns Proofs.TermTie Proofs.TermTieW Proofs.TermTieX.
(** SOURCE TIE BY PROOF (translate/term2coq.py -> Gen/TermFns.v, W-mode): the method of `impl Terminal` is REGENERATED from src/terminal.rs on every run as a function over the scalar record `zt` and an abstract world behind the interface `zops` (recorded calls of the buffer / tabs / dirty-line primitives with their evaluated arguments, queries for tab stops / cells / charset translation); instantiated with the model's own primitives (`Om`) it is proved equal to the hand-written model function, panics included: the model performs exactly the primitive calls the Rust text performs - same arguments, order, marked rows, erase modes, case splits *)
(** Terminal::print: deferred wrap, last-column rule, insert vs overwrite, charset translation, marked rows *)
Theorem C04_source_terminal_print : forall t c, ZW t -> w_print Om (zabs t) (wabs t) (Z.of_N c) = wres (print t c).
Proof. exact w_print_eq. Qed.
Check C04_source_terminal_print : forall t c, ZW t -> w_print Om (zabs t) (wabs t) (Z.of_N c) = wres (print t c).
Print Assumptions C04_source_terminal_print.

(** Terminal::rep *)
Theorem C04_source_terminal_rep : forall t n, TInv t -> w_rep Om (zabs t) (wabs t) (Z.of_N n) = wres (rep t n).
Proof. exact w_rep_eq. Qed.
Check C04_source_terminal_rep : forall t n, TInv t -> w_rep Om (zabs t) (wabs t) (Z.of_N n) = wres (rep t n).
Print Assumptions C04_source_terminal_rep.

From Avt Require Import Oracles.C04Wrap Proofs.DumpMargins Proofs.C04Wrap.
(** "... and marks the row it left as soft-wrapped" (Oracles/C04Wrap.v, Proofs/C04Wrap.v): the clause is TRUE outside the class kf1_C04 and FALSE on all of it - known finding KF-C04-1: when the wrap happens on a bottom margin above the last screen row, Buffer::scroll_up clears the mark Terminal::print has just set *)
(** outside the finding: the row left carries the mark afterwards - wherever it now is (same view row, one row up inside the region, or the last scrollback line) *)
Theorem C04_wrap_mark : forall p p' t f t', TInv t -> execute t f = Ok t' -> kf1_C04 (mkVt p t) f = false -> holds_C04_wrapmark (mkVt p t) f (mkVt p' t') = true.
Proof. exact C04_wrapmark. Qed.
Check C04_wrap_mark : forall p p' t f t', TInv t -> execute t f = Ok t' -> kf1_C04 (mkVt p t) f = false -> holds_C04_wrapmark (mkVt p t) f (mkVt p' t') = true.
Print Assumptions C04_wrap_mark.

(** the finding is exact: on the WHOLE class the mark is lost *)
Theorem C04_known_finding : forall p p' t f t', TInv t -> execute t f = Ok t' -> kf1_C04 (mkVt p t) f = true -> wrapmark_lost (mkVt p t) f (mkVt p' t') = true.
Proof. exact C04_wrapmark_kf_exact. Qed.
Check C04_known_finding : forall p p' t f t', TInv t -> execute t f = Ok t' -> kf1_C04 (mkVt p t) f = true -> wrapmark_lost (mkVt p t) f (mkVt p' t') = true.
Print Assumptions C04_known_finding.

(** the class, in words: a printable character arrives with auto-wrap on and the wrap pending, on the bottom margin, and the bottom margin is above the last row *)
Theorem C04_known_finding_class : forall p t f, MarginsInv t -> (kf1_C04 (mkVt p t) f = true <-> (exists c, f = Print c) /\ awm t = true /\ pend t = true /\ cur_row t = bot t /\ bot t < rows t - 1).
Proof. exact kf1_C04_class_reachable. Qed.
Check C04_known_finding_class : forall p t f, MarginsInv t -> (kf1_C04 (mkVt p t) f = true <-> (exists c, f = Print c) /\ awm t = true /\ pend t = true /\ cur_row t = bot t /\ bot t < rows t - 1).
Print Assumptions C04_known_finding_class.

From Avt Require Import Proofs.ModeSem.
(** Proofs/ModeSem.v: semantics of the mode commands *)
(** what the mode-setting commands the quantifier interleaves DO (exact record equalities, every state): SM 4 *)
Theorem C04_insert_mode_set : forall t, execute t (Sm [Insert]) = Ok (t <| ins := true |>).
Proof. exact sem_insert_set. Qed.
Check C04_insert_mode_set : forall t, execute t (Sm [Insert]) = Ok (t <| ins := true |>).
Print Assumptions C04_insert_mode_set.

(** RM 4 *)
Theorem C04_insert_mode_reset : forall t, execute t (Rm [Insert]) = Ok (t <| ins := false |>).
Proof. exact sem_insert_reset. Qed.
Check C04_insert_mode_reset : forall t, execute t (Rm [Insert]) = Ok (t <| ins := false |>).
Print Assumptions C04_insert_mode_reset.

(** DECSET 7 changes only the flag *)
Theorem C04_autowrap_set : forall t, execute t (Decset [AutoWrap]) = Ok (t <| awm := true |>).
Proof. exact sem_autowrap_set. Qed.
Check C04_autowrap_set : forall t, execute t (Decset [AutoWrap]) = Ok (t <| awm := true |>).
Print Assumptions C04_autowrap_set.

(** DECRST 7 changes only the flag *)
Theorem C04_autowrap_reset : forall t, execute t (Decrst [AutoWrap]) = Ok (t <| awm := false |>).
Proof. exact sem_autowrap_reset. Qed.
Check C04_autowrap_reset : forall t, execute t (Decrst [AutoWrap]) = Ok (t <| awm := false |>).
Print Assumptions C04_autowrap_reset.

(** ... in particular a pending wrap is neither cancelled nor performed by DECAWM (so `wrap pending` does not imply `auto-wrap on`: reachable by CSI ?7l in the pending position) *)
Theorem C04_autowrap_pending : forall t (b : bool) t', execute t (if b then Decset [AutoWrap] else Decrst [AutoWrap]) = Ok t' -> awm t' = b /\ pend t' = pend t /\ cur_col t' = cur_col t /\ cur_row t' = cur_row t /\ buf t' = buf t.
Proof. exact sem_autowrap_pending. Qed.
Check C04_autowrap_pending : forall t (b : bool) t', execute t (if b then Decset [AutoWrap] else Decrst [AutoWrap]) = Ok t' -> awm t' = b /\ pend t' = pend t /\ cur_col t' = cur_col t /\ cur_row t' = cur_row t /\ buf t' = buf t.
Print Assumptions C04_autowrap_pending.

