(** Property C04 -- printing (PARTIAL: buffer level; see DESIGN.md).
    Only pinned statements, closed by [exact], with their assumptions printed. *)
From Avt Require Import Spec.Screen Proofs.Inv Proofs.BufRow.

(** writing a cell changes exactly that cell *)
Theorem C04_buf_print : forall b col row x, BGeom b -> row < brows b -> col < bcols b -> buf_print b col row x = Ok (bset b (upd_row row (set_cell col x) (view b))) /\ BGeom (bset b (upd_row row (set_cell col x) (view b))).
Proof. exact buf_print_spec. Qed.
Check C04_buf_print : forall b col row x, BGeom b -> row < brows b -> col < bcols b -> buf_print b col row x = Ok (bset b (upd_row row (set_cell col x) (view b))) /\ BGeom (bset b (upd_row row (set_cell col x) (view b))).
Print Assumptions C04_buf_print.
