(** Property C16 -- the alternate screen never disturbs the primary screen.
    Only pinned statements, closed by [exact], with their assumptions printed. *)
From Avt Require Import Oracles.Step Oracles.Rel Proofs.Inv Proofs.StepC16 Proofs.ResizeText Proofs.StepC16R.

(** For every control function from every state satisfying the invariant: while the alternate screen stays active the parked primary buffer (lines, wrap marks, geometry) is untouched; every entry (47 / 1047 / 1049, also inside longer mode lists) parks the primary unchanged and presents a blank alternate screen filled with the current pen, 1049 saving the cursor first; leaving with unchanged size restores the primary's lines exactly. *)
Theorem C16_statement : forall p p' t f t', TInv t -> execute t f = Ok t' -> holds_C16 (mkVt p t) f (mkVt p' t') = true.
Proof. exact C16_holds. Qed.
Check C16_statement : forall p p' t f t', TInv t -> execute t f = Ok t' -> holds_C16 (mkVt p t) f (mkVt p' t') = true.
Print Assumptions C16_statement.

(** the re-wrap on return after a resized excursion is the C10 theorem applied to the parked buffer with the cursor used for the translation (for 1049 the saved cursor, which lies inside the parked geometry by the invariant) *)
Theorem C16_resized_text : forall b nc nr cc cr b' cc' cr', BInv b -> 1 <= nc -> 1 <= nr -> cr < brows b -> cc <= bcols b -> buf_resize b nc nr cc cr = Ok (b', (cc', cr')) -> resize_preserves b cc cr b' cc' cr' = true.
Proof. exact resize_text. Qed.
Check C16_resized_text : forall b nc nr cc cr b' cc' cr', BInv b -> 1 <= nc -> 1 <= nr -> cr < brows b -> cc <= bcols b -> buf_resize b nc nr cc cr = Ok (b', (cc', cr')) -> resize_preserves b cc cr b' cc' cr' = true.
Print Assumptions C16_resized_text.

(** C16.4 at the level of the control function: leaving via ?1049l after any resize during the excursion re-wraps the parked
    primary without altering its logical text and puts the cursor back on the same character (C10's statement for the parked
    buffer and the saved cursor); the geometry invariants hold on return for all three mode numbers *)
Theorem C16_resized_statement : forall p p' t f t', TInv t -> execute t f = Ok t' -> holds_C16_resized (mkVt p t) f (mkVt p' t') = true.
Proof. exact C16_resized_holds. Qed.
Check C16_resized_statement : forall p p' t f t', TInv t -> execute t f = Ok t' -> holds_C16_resized (mkVt p t) f (mkVt p' t') = true.
Print Assumptions C16_resized_statement.

From Avt Require Import Gen.TermFns Proofs.TermTie Proofs.TermTieW Proofs.TermTieX.
(** SOURCE TIE BY PROOF (translate/term2coq.py -> Gen/TermFns.v, W-mode): the method of `impl Terminal` is REGENERATED from src/terminal.rs on every run as a function over the scalar record `zt` and an abstract world behind the interface `zops` (recorded calls of the buffer / tabs / dirty-line primitives with their evaluated arguments, queries for tab stops / cells / charset translation); instantiated with the model's own primitives (`Om`) it is proved equal to the hand-written model function, panics included: the model performs exactly the primitive calls the Rust text performs - same arguments, order, marked rows, erase modes, case splits *)
(** Terminal::execute as a whole (the screen switches are opaque whole-state steps here; their order relative to save / restore / reflow is tied) *)
Theorem C16_source_execute : forall t f, TInv t -> w_execute Om (zabs t) (wabs t) f = Some (wres (execute t f)).
Proof. exact tie_execute_all. Qed.
Check C16_source_execute : forall t f, TInv t -> w_execute Om (zabs t) (wabs t) f = Some (wres (execute t f)).
Print Assumptions C16_source_execute.

(** further methods regenerated in W-mode (swap / Buffer::new / tabs / dirty-list events, the buffer.resize query) *)
(** Terminal::switch_to_alternate_buffer: mem::swap of the buffers and of the saved contexts, Buffer::new(cols, rows, Some(0), Some(&pen)), dirty marking *)
Theorem C16_source_switch_to_alternate : forall t, ZW t -> w_switch_to_alternate_buffer Om (zabs t) (wabs t) = wres (switch_to_alternate_buffer t).
Proof. exact w_switch_to_alternate_buffer_eq. Qed.
Check C16_source_switch_to_alternate : forall t, ZW t -> w_switch_to_alternate_buffer Om (zabs t) (wabs t) = wres (switch_to_alternate_buffer t).
Print Assumptions C16_source_switch_to_alternate.

(** Terminal::switch_to_primary_buffer, including the geometry test before reflow *)
Theorem C16_source_switch_to_primary : forall t, ZW t -> w_switch_to_primary_buffer Om (zabs t) (wabs t) = wres (switch_to_primary_buffer t).
Proof. exact w_switch_to_primary_buffer_eq. Qed.
Check C16_source_switch_to_primary : forall t, ZW t -> w_switch_to_primary_buffer Om (zabs t) (wabs t) = wres (switch_to_primary_buffer t).
Print Assumptions C16_source_switch_to_primary.

From Avt Require Import Proofs.StepC17.
(** a clause of C17's statement that this property's text contains and its check evaluates on the implementation *)
(** a soft reset while the alternate screen is showing leaves the parked primary's saved cursor - the one ?1049l restores - untouched (evaluated as `C16.decstr_parked_ctx`) *)
Theorem C16_decstr_parked_ctx : forall p p' t t', TInv t -> execute t Decstr = Ok t' -> holds_C17 (mkVt p t) Decstr (mkVt p' t') = true.
Proof. intros p p' t t'. exact (C17_holds p p' t Decstr t'). Qed.
Check C16_decstr_parked_ctx : forall p p' t t', TInv t -> execute t Decstr = Ok t' -> holds_C17 (mkVt p t) Decstr (mkVt p' t') = true.
Print Assumptions C16_decstr_parked_ctx.

From Avt Require Import Model.Vt Oracles.C16Text Proofs.C16Text.
(** Oracles/C16Text.v, Proofs/C16Text.v: the text of the primary on EVERY return (47 / 1047 / 1049, inside any mode list), for EVERY scrollback limit, and the whole excursion *)
(** after a resize during the excursion, also when leaving with ?47l / ?1047l: the returned primary's logical lines are the parked ones cut at one place at most and followed only by empty lines (`tail_ok`), intact up to the reflow cursor's line (`text_upto`); with the size unchanged the lines are exactly the parked ones; no limit hypothesis (`execute` never trims) *)
Theorem C16_return_text : forall p p' t f t', TInv t -> execute t f = Ok t' -> holds_C16_return_text (mkVt p t) f (mkVt p' t') = true.
Proof. exact C16_return_text_holds. Qed.
Check C16_return_text : forall p p' t f t', TInv t -> execute t f = Ok t' -> holds_C16_return_text (mkVt p t) f (mkVt p' t') = true.
Print Assumptions C16_return_text.

From Avt Require Import Oracles.C16List Proofs.C16List.
(** Oracles/C16List.v, Proofs/C16List.v: a return INSIDE A MODE LIST (CSI ? 1049 ; 6 l, CSI ? 47 ; 25 l): the cursor that decides where the parked primary may be cut is the one in force at the moment of the return (the alternate screen's for 47 / 1047, the saved one for 1049), whatever the later, non-switching elements of the list do to the cursor afterwards; everything above that cursor's logical line and before the cursor in it survives (seeded change C16_8) *)
Theorem C16_return_list : forall p p' t f t', TInv t -> execute t f = Ok t' -> holds_C16_return_list (mkVt p t) f (mkVt p' t') = true.
Proof. exact C16_return_list_holds. Qed.
Check C16_return_list : forall p p' t f t', TInv t -> execute t f = Ok t' -> holds_C16_return_list (mkVt p t) f (mkVt p' t') = true.
Print Assumptions C16_return_list.

(** the same with the leaving mode in ANY position of the list (CSI ? 6 ; 1049 l, CSI ? 25 ; 47 ; 7 l): the non-switching modes before it are executed first (they may move the cursor), and the cursor that decides where the parked primary may be cut is the one after them *)
Theorem C16_return_list_any : forall p p' t f t', TInv t -> execute t f = Ok t' -> holds_C16_return_list_any (mkVt p t) f (mkVt p' t') = true.
Proof. exact C16_return_list_any_holds. Qed.
Check C16_return_list_any : forall p p' t f t', TInv t -> execute t f = Ok t' -> holds_C16_return_list_any (mkVt p t) f (mkVt p' t') = true.
Print Assumptions C16_return_list_any.

(** the ?1049l clause of C16_resized_statement for every scrollback limit *)
Theorem C16_resized_1049_every_limit : forall p' t t', TInv t -> active t = Alternate -> execute t (Decrst [SaveCursorAltScreenBuffer]) = Ok t' -> resize_preserves (other t) (sc_col (saved_of t Primary)) (sc_row (saved_of t Primary)) (buf t') (cur_col t') (cur_row t') = true /\ holds_C02_state (mkVt p' t') = true.
Proof. exact C16_resized_1049_any_limit. Qed.
Check C16_resized_1049_every_limit : forall p' t t', TInv t -> active t = Alternate -> execute t (Decrst [SaveCursorAltScreenBuffer]) = Ok t' -> resize_preserves (other t) (sc_col (saved_of t Primary)) (sc_row (saved_of t Primary)) (buf t') (cur_col t') (cur_row t') = true /\ holds_C02_state (mkVt p' t') = true.
Print Assumptions C16_resized_1049_every_limit.

(** "throughout": after entering, along ANY run of feeds, flushes and resizes that stays on the alternate screen, the parked primary buffer is Leibniz-equal to the primary before entering and text() is unchanged *)
Theorem C16_throughout_excursion : forall v0 c0 v1 ops v, Inv v0 -> active (vterm v0) = Primary -> vt_feed v0 c0 = Ok v1 -> active (vterm v1) = Alternate -> alt_run v1 ops v -> Inv v /\ active (vterm v) = Alternate /\ other (vterm v) = buf (vterm v0) /\ vt_text v = vt_text v0.
Proof. exact C16_throughout. Qed.
Check C16_throughout_excursion : forall v0 c0 v1 ops v, Inv v0 -> active (vterm v0) = Primary -> vt_feed v0 c0 = Ok v1 -> active (vterm v1) = Alternate -> alt_run v1 ops v -> Inv v /\ active (vterm v) = Alternate /\ other (vterm v) = buf (vterm v0) /\ vt_text v = vt_text v0.
Print Assumptions C16_throughout_excursion.

(** "before, throughout and after": enter; any such run; leave - with the size at leaving equal to the size at entering the primary's lines (scrollback included) and text() are exactly as before; otherwise re-wrapped, never altered *)
Theorem C16_whole_excursion : forall v0 c0 v1 ops v2 ms t3, Inv v0 -> active (vterm v0) = Primary -> vt_feed v0 c0 = Ok v1 -> active (vterm v1) = Alternate -> alt_run v1 ops v2 -> execute (vterm v2) (Decrst ms) = Ok t3 -> active t3 = Primary -> (cols (vterm v2) = cols (vterm v0) -> rows (vterm v2) = rows (vterm v0) -> lines (buf t3) = lines (buf (vterm v0)) /\ term_text t3 = vt_text v0) /\ excursion_text_ok (buf (vterm v0)) (buf t3) = true.
Proof. exact C16_excursion. Qed.
Check C16_whole_excursion : forall v0 c0 v1 ops v2 ms t3, Inv v0 -> active (vterm v0) = Primary -> vt_feed v0 c0 = Ok v1 -> active (vterm v1) = Alternate -> alt_run v1 ops v2 -> execute (vterm v2) (Decrst ms) = Ok t3 -> active t3 = Primary -> (cols (vterm v2) = cols (vterm v0) -> rows (vterm v2) = rows (vterm v0) -> lines (buf t3) = lines (buf (vterm v0)) /\ term_text t3 = vt_text v0) /\ excursion_text_ok (buf (vterm v0)) (buf t3) = true.
Print Assumptions C16_whole_excursion.

From Avt Require Import Proofs.C10Char.
(** Proofs/C10Char.v (second statement audit) *)
(** the ?1049 excursion from ENTRY to EXIT with any feeds, flushes and resizes in between: the cursor comes back into the same logical line of the primary's text on the same character, text above intact, pen / origin / auto-wrap as at entry, geometry invariants; exact position and lines when the size at leaving equals the size at entering (no hypothesis on what happens on the alternate screen: only RIS touches the parked context, and RIS leaves the alternate screen) *)
Theorem C16_excursion_1049_with_resizes : forall v0 v1 ops v2 t3, Inv v0 -> active (vterm v0) = Primary -> (* [v1]: the machine right after the step that executed ?1049h (its parser is the parser after the final [h]; any parser satisfying the parser invariant) *) PInv (vparser v1) -> execute (vterm v0) (Decset [SaveCursorAltScreenBuffer]) = Ok (vterm v1) -> alt_run v1 ops v2 -> execute (vterm v2) (Decrst [SaveCursorAltScreenBuffer]) = Ok t3 -> let t0 := vterm v0 in resize_preserves (buf t0) (viscol t0) (cur_row t0) (buf t3) (cur_col t3) (cur_row t3) = true /\ same_character (buf t0) (viscol t0) (cur_row t0) (buf t3) (cur_col t3) (cur_row t3) /\ active t3 = Primary /\ tpen t3 = tpen t0 /\ org t3 = org t0 /\ awm t3 = awm t0 /\ Types.pend t3 = false /\ cur_col t3 < cols t3 /\ cur_row t3 < rows t3 /\ cols t3 = cols (vterm v2) /\ rows t3 = rows (vterm v2) /\ (cols (vterm v2) = cols t0 -> rows (vterm v2) = rows t0 -> cur_col t3 = viscol t0 /\ cur_row t3 = cur_row t0 /\ lines (buf t3) = lines (buf t0)) /\ (forall p, holds_C02_state (mkVt p t3) = true).
Proof. exact C16_excursion_1049_resized. Qed.
Check C16_excursion_1049_with_resizes : forall v0 v1 ops v2 t3, Inv v0 -> active (vterm v0) = Primary -> (* [v1]: the machine right after the step that executed ?1049h (its parser is the parser after the final [h]; any parser satisfying the parser invariant) *) PInv (vparser v1) -> execute (vterm v0) (Decset [SaveCursorAltScreenBuffer]) = Ok (vterm v1) -> alt_run v1 ops v2 -> execute (vterm v2) (Decrst [SaveCursorAltScreenBuffer]) = Ok t3 -> let t0 := vterm v0 in resize_preserves (buf t0) (viscol t0) (cur_row t0) (buf t3) (cur_col t3) (cur_row t3) = true /\ same_character (buf t0) (viscol t0) (cur_row t0) (buf t3) (cur_col t3) (cur_row t3) /\ active t3 = Primary /\ tpen t3 = tpen t0 /\ org t3 = org t0 /\ awm t3 = awm t0 /\ Types.pend t3 = false /\ cur_col t3 < cols t3 /\ cur_row t3 < rows t3 /\ cols t3 = cols (vterm v2) /\ rows t3 = rows (vterm v2) /\ (cols (vterm v2) = cols t0 -> rows (vterm v2) = rows t0 -> cur_col t3 = viscol t0 /\ cur_row t3 = cur_row t0 /\ lines (buf t3) = lines (buf t0)) /\ (forall p, holds_C02_state (mkVt p t3) = true).
Print Assumptions C16_excursion_1049_with_resizes.

(** the same for ?47l / ?1047l (no cursor restore: text clauses against the buffer at entry) *)
Theorem C16_excursion_47_with_resizes : forall v0 c0 v1 ops v2 t3, Inv v0 -> active (vterm v0) = Primary -> vt_feed v0 c0 = Ok v1 -> active (vterm v1) = Alternate -> alt_run v1 ops v2 -> execute (vterm v2) (Decrst [AltScreenBuffer]) = Ok t3 -> let t0 := vterm v0 in let t2 := vterm v2 in (let '(k, o) := curs (buf t0) (cur_col t2) (cur_row t2) in text_upto (logical_t (lines (buf t0))) (logical_t (lines (buf t3))) k o) = true /\ (cur_row t2 < rows t0 -> resize_preserves (buf t0) (cur_col t2) (cur_row t2) (buf t3) (cur_col t3) (cur_row t3) = true /\ ((cols t2 = cols t0 -> rows t2 < rows t0 -> cur_col t2 < cols t0) -> same_character (buf t0) (cur_col t2) (cur_row t2) (buf t3) (cur_col t3) (cur_row t3))).
Proof. exact C16_excursion_47_resized. Qed.
Check C16_excursion_47_with_resizes : forall v0 c0 v1 ops v2 t3, Inv v0 -> active (vterm v0) = Primary -> vt_feed v0 c0 = Ok v1 -> active (vterm v1) = Alternate -> alt_run v1 ops v2 -> execute (vterm v2) (Decrst [AltScreenBuffer]) = Ok t3 -> let t0 := vterm v0 in let t2 := vterm v2 in (let '(k, o) := curs (buf t0) (cur_col t2) (cur_row t2) in text_upto (logical_t (lines (buf t0))) (logical_t (lines (buf t3))) k o) = true /\ (cur_row t2 < rows t0 -> resize_preserves (buf t0) (cur_col t2) (cur_row t2) (buf t3) (cur_col t3) (cur_row t3) = true /\ ((cols t2 = cols t0 -> rows t2 < rows t0 -> cur_col t2 < cols t0) -> same_character (buf t0) (cur_col t2) (cur_row t2) (buf t3) (cur_col t3) (cur_row t3))).
Print Assumptions C16_excursion_47_with_resizes.

