(** Property C10 -- resizing keeps the logical text and the cursor's place in it.
    Only pinned statements, closed by [exact], with their assumptions printed. *)
From Avt Require Import Oracles.Rel Proofs.Inv Proofs.ReflowCore Proofs.Resize Proofs.ReflowText Proofs.ResizeText.
From Avt Require Import Gen.BufFns Proofs.BufTie.

(** Re-wrapping to any width >= 1 preserves the list of logical lines exactly (same number, same order, same cells, up to trailing default blanks of each logical line). *)
Theorem C10_reflow_logical : forall ls c out, 1 <= c -> last_not_wrapped ls -> reflowM ls c = Ok out -> logical_t out = logical_t ls.
Proof. exact reflow_logical. Qed.
Check C10_reflow_logical : forall ls c out, 1 <= c -> last_not_wrapped ls -> reflowM ls c = Ok out -> logical_t out = logical_t ls.
Print Assumptions C10_reflow_logical.

(** The cursor stays in the same logical line and - when it was on a character of the text - on that same character, for every buffer, every cursor (wrap-pending column included) and every new size. *)
Theorem C10_cursor : forall b nc nr cc cr b' cc' cr', BInv b -> 1 <= nc -> 1 <= nr -> cr < brows b -> buf_resize b nc nr cc cr = Ok (b', (cc', cr')) -> fst (curs b' cc' cr') = fst (curs b cc cr) /\ (snd (curs b cc cr) < length (nth (fst (curs b cc cr)) (logical_t (lines b)) []) -> snd (curs b' cc' cr') = snd (curs b cc cr)).
Proof. exact resize_cursor_line'. Qed.
Check C10_cursor : forall b nc nr cc cr b' cc' cr', BInv b -> 1 <= nc -> 1 <= nr -> cr < brows b -> buf_resize b nc nr cc cr = Ok (b', (cc', cr')) -> fst (curs b' cc' cr') = fst (curs b cc cr) /\ (snd (curs b cc cr) < length (nth (fst (curs b cc cr)) (logical_t (lines b)) []) -> snd (curs b' cc' cr') = snd (curs b cc cr)).
Print Assumptions C10_cursor.

(** The full executable statement [resize_preserves]: lines above the cursor's line unchanged, the cursor's line intact up to the cursor (possibly cut short after it), later lines unchanged or one cut short followed only by blank lines. *)
Theorem C10_text : forall b nc nr cc cr b' cc' cr', BInv b -> 1 <= nc -> 1 <= nr -> cr < brows b -> cc <= bcols b -> buf_resize b nc nr cc cr = Ok (b', (cc', cr')) -> resize_preserves b cc cr b' cc' cr' = true.
Proof. exact resize_text. Qed.
Check C10_text : forall b nc nr cc cr b' cc' cr', BInv b -> 1 <= nc -> 1 <= nr -> cr < brows b -> cc <= bcols b -> buf_resize b nc nr cc cr = Ok (b', (cc', cr')) -> resize_preserves b cc cr b' cc' cr' = true.
Print Assumptions C10_text.

(** ... and at the level of the public operation: the statement evaluated on every implementation resize is a theorem of the model for every state satisfying the invariant. *)
Theorem C10_step : forall v c r v' o, Inv v -> 1 <= c -> 1 <= r -> stepM v (Resize c r) = Ok (v', o) -> holds_C10 v v' = true.
Proof. exact C10_resize_step. Qed.
Check C10_step : forall v c r v' o, Inv v -> 1 <= c -> 1 <= r -> stepM v (Resize c r) = Ok (v', o) -> holds_C10 v v' = true.
Print Assumptions C10_step.

Theorem C10_same_size : forall b cc cr, BInv b -> cr < brows b -> buf_resize b (bcols b) (brows b) cc cr = Ok (b <| trim_needed := true |>, (cc, cr)).
Proof. exact buf_resize_same. Qed.
Check C10_same_size : forall b cc cr, BInv b -> cr < brows b -> buf_resize b (bcols b) (brows b) cc cr = Ok (b <| trim_needed := true |>, (cc, cr)).
Print Assumptions C10_same_size.

Theorem C10_resize_total : forall b nc nr cc cr, BInv b -> 1 <= nc -> 1 <= nr -> (nc = bcols b -> cr < Nat.max (brows b) nr) -> exists b' cc' cr', buf_resize b nc nr cc cr = Ok (b', (cc', cr')) /\ BInv b' /\ bcols b' = nc /\ brows b' = nr /\ blimit b' = blimit b /\ trim_needed b' = true /\ cr' < nr /\ (nc <> bcols b -> cc' < nc) /\ (nc = bcols b -> cc' = cc).
Proof. exact buf_resize_ok'. Qed.
Check C10_resize_total : forall b nc nr cc cr, BInv b -> 1 <= nc -> 1 <= nr -> (nc = bcols b -> cr < Nat.max (brows b) nr) -> exists b' cc' cr', buf_resize b nc nr cc cr = Ok (b', (cc', cr')) /\ BInv b' /\ bcols b' = nc /\ brows b' = nr /\ blimit b' = blimit b /\ trim_needed b' = true /\ cr' < nr /\ (nc <> bcols b -> cc' < nc) /\ (nc = bcols b -> cc' = cc).
Print Assumptions C10_resize_total.

(** SOURCE TIE BY PROOF: the function is REGENERATED from the Rust source on every run (Gen/BufFns.v, translate/buf2coq.py: slice and Vec idioms into the model's list primitives, every Rust panic condition as a guard) and the hand-written model function is proved equal to it (=~ : equal up to the panic-site number) - an edit to the Rust function breaks this theorem (Line::extend, the join step of reflow) *)
Theorem C10_source_extend : forall l other len, g_line_extend l other len =~ line_extend l other len.
Proof. exact tie_line_extend. Qed.
Check C10_source_extend : forall l other len, g_line_extend l other len =~ line_extend l other len.
Print Assumptions C10_source_extend.

(** Line::contract, the split step of reflow *)
Theorem C10_source_contract : forall l len, g_line_contract l len = Ok (line_contract len l).
Proof. exact tie_line_contract. Qed.
Check C10_source_contract : forall l len, g_line_contract l len = Ok (line_contract len l).
Print Assumptions C10_source_contract.

From Avt Require Import Gen.RestFns Proofs.RestTie.
(** SOURCE TIE BY PROOF (translate/rest2coq.py -> Gen/RestFns.v): the Rust function is REGENERATED on every run (u8/u16/u32/char as N with exact casts, isize as Z with guards on `as usize`, loops as folds or fuelled fixpoints, every Rust panic condition as a guard) and the hand-written model function is proved equal to it (=~ : equal up to the panic-site number) *)
(** Buffer::resize regenerated, with its callees reflow() and relative_position() ALSO the regenerated ones: nothing hand-written between the Rust text and buf_resize *)
Theorem C10_source_resize : forall b nc nr cc cr, g_buffer_resize g_reflow_at g_relative_position_at b nc nr (cc, cr) =~ buf_resize b nc nr cc cr.
Proof. exact tie_buffer_resize_closed. Qed.
Check C10_source_resize : forall b nc nr cc cr, g_buffer_resize g_reflow_at g_relative_position_at b nc nr (cc, cr) =~ buf_resize b nc nr cc cr.
Print Assumptions C10_source_resize.

(** Reflow::next + reflow() regenerated as the fused collect loop *)
Theorem C10_source_reflow : forall ls c, g_reflow_reflow (reflow_fuel ls) ls c =~ reflowM ls c.
Proof. exact tie_reflow. Qed.
Check C10_source_reflow : forall ls c, g_reflow_reflow (reflow_fuel ls) ls c =~ reflowM ls c.
Print Assumptions C10_source_reflow.

(** Buffer::logical_position regenerated *)
Theorem C10_source_logical_position : forall b pc pr c r, g_buffer_logical_position b (pc, pr) c r =~ logical_position b pc pr c r.
Proof. exact tie_buffer_logical_position. Qed.
Check C10_source_logical_position : forall b pc pr c r, g_buffer_logical_position b (pc, pr) c r =~ logical_position b pc pr c r.
Print Assumptions C10_source_logical_position.

(** Buffer::relative_position regenerated (two while loops) *)
Theorem C10_source_relative_position : forall b pc pr c r, g_buffer_relative_position (S (length (lines b))) (S (S (pc + length (lines b)))) b (pc, pr) c r =~ relative_position (lines b) pc pr c r.
Proof. exact tie_buffer_relative_position. Qed.
Check C10_source_relative_position : forall b pc pr c r, g_buffer_relative_position (S (length (lines b))) (S (S (pc + length (lines b)))) b (pc, pr) c r =~ relative_position (lines b) pc pr c r.
Print Assumptions C10_source_relative_position.

From Avt Require Import Gen.TermFns Proofs.TermTie Proofs.TermTieW Proofs.TermTieX.
(** further methods regenerated in W-mode (swap / Buffer::new / tabs / dirty-list events, the buffer.resize query) *)
(** Terminal::reflow: the buffer.resize call with its arguments, the saved-context clamps, the pending-wrap update, tab-stop and dirty-list resizing *)
Theorem C10_source_terminal_reflow : forall t, ZW t -> w_reflow Om (zabs t) (wabs t) = wres (reflow t).
Proof. exact w_reflow_eq. Qed.
Check C10_source_terminal_reflow : forall t, ZW t -> w_reflow Om (zabs t) (wabs t) = wres (reflow t).
Print Assumptions C10_source_terminal_reflow.

(** Terminal::resize (public), including the returned flag; Rust underflows for c = 0 or r = 0, hence the hypotheses (Vt::resize's builder contract) *)
Theorem C10_source_terminal_resize : forall t c r, ZW t -> 1 <= c -> 1 <= r -> w_resize Om (zabs t) (wabs t) (Z.of_nat c) (Z.of_nat r) = wres_flag (term_resize t c r) (negb ((c =? cols t) && (r =? rows t))).
Proof. exact w_resize_eq. Qed.
Check C10_source_terminal_resize : forall t c r, ZW t -> 1 <= c -> 1 <= r -> w_resize Om (zabs t) (wabs t) (Z.of_nat c) (Z.of_nat r) = wres_flag (term_resize t c r) (negb ((c =? cols t) && (r =? rows t))).
Print Assumptions C10_source_terminal_resize.

From Avt Require Import Proofs.C10Char.
(** Proofs/C10Char.v (second statement audit) *)
(** "... when it was on a character of the text - on that same character": the CELL under the cursor survives (same logical line, same offset, equal cell, inside the raw line; inside the trimmed line when it is not a default blank). Side hypothesis = the one reachable exception: a wrap-pending cursor on an already soft-wrapped row when only the height shrinks (then `curs` points at the first cell of the dropped row: C10_same_character_refuted_pending in Proofs/C10Char.v) *)
Theorem C10_same_character : forall b nc nr cc cr b' cc' cr', BInv b -> 1 <= nc -> 1 <= nr -> cr < brows b -> (nc = bcols b -> nr < brows b -> cc < bcols b) -> buf_resize b nc nr cc cr = Ok (b', (cc', cr')) -> let '(k, o) := curs b cc cr in let '(k', o') := curs b' cc' cr' in let old_k := nth k (logical_t (lines b)) [] in let new_k := nth k' (logical_t (lines b')) [] in let new_raw := nth k' (logical (lines b')) [] in o < length old_k -> k' = k /\ o' = o /\ nth o new_k default_cell = nth o old_k default_cell /\ o < length new_raw /\ nth o new_raw default_cell = nth o old_k default_cell /\ (cell_is_default (nth o old_k default_cell) = false -> o < length new_k).
Proof. exact C10_same_character_partial. Qed.
Check C10_same_character : forall b nc nr cc cr b' cc' cr', BInv b -> 1 <= nc -> 1 <= nr -> cr < brows b -> (nc = bcols b -> nr < brows b -> cc < bcols b) -> buf_resize b nc nr cc cr = Ok (b', (cc', cr')) -> let '(k, o) := curs b cc cr in let '(k', o') := curs b' cc' cr' in let old_k := nth k (logical_t (lines b)) [] in let new_k := nth k' (logical_t (lines b')) [] in let new_raw := nth k' (logical (lines b')) [] in o < length old_k -> k' = k /\ o' = o /\ nth o new_k default_cell = nth o old_k default_cell /\ o < length new_raw /\ nth o new_raw default_cell = nth o old_k default_cell /\ (cell_is_default (nth o old_k default_cell) = false -> o < length new_k).
Print Assumptions C10_same_character.

(** at the level of a Resize call, for EVERY scrollback limit *)
Theorem C10_same_character_every_limit : forall v c r v' o, Inv v -> 1 <= c -> 1 <= r -> stepM v (Resize c r) = Ok (v', o) -> active (vterm v) = Primary -> (c = cols (vterm v) -> r < rows (vterm v) -> cur_col (vterm v) < cols (vterm v)) -> let t := vterm v in let t' := vterm v' in let dr := o_drained o in (* (a) right after the reflow = with the drained rows put back on top *) same_character (buf t) (cur_col t) (cur_row t) (buf t' <| lines := dr ++ lines (buf t') |>) (cur_col t') (cur_row t') /\ (* (b) after the trim: [jd] whole logical lines were drained, [od] cells of a further one *) (let '(jd, od) := curs_go dr (length dr) 0 0 c in let k := fst (curs (buf t) (cur_col t) (cur_row t)) in (jd < k \/ (jd = k /\ od = 0)) -> same_character_from jd (buf t) (cur_col t) (cur_row t) (buf t') (cur_col t') (cur_row t')).
Proof. exact C10_same_character_step_any_limit. Qed.
Check C10_same_character_every_limit : forall v c r v' o, Inv v -> 1 <= c -> 1 <= r -> stepM v (Resize c r) = Ok (v', o) -> active (vterm v) = Primary -> (c = cols (vterm v) -> r < rows (vterm v) -> cur_col (vterm v) < cols (vterm v)) -> let t := vterm v in let t' := vterm v' in let dr := o_drained o in (* (a) right after the reflow = with the drained rows put back on top *) same_character (buf t) (cur_col t) (cur_row t) (buf t' <| lines := dr ++ lines (buf t') |>) (cur_col t') (cur_row t') /\ (* (b) after the trim: [jd] whole logical lines were drained, [od] cells of a further one *) (let '(jd, od) := curs_go dr (length dr) 0 0 c in let k := fst (curs (buf t) (cur_col t) (cur_row t)) in (jd < k \/ (jd = k /\ od = 0)) -> same_character_from jd (buf t) (cur_col t) (cur_row t) (buf t') (cur_col t') (cur_row t')).
Print Assumptions C10_same_character_every_limit.

