(** Property C10 -- resizing keeps the logical text (PARTIAL: identity case + totality; see DESIGN.md).
    Only pinned statements, closed by [exact], with their assumptions printed. *)
From Avt Require Import Model.Vt Proofs.Inv Proofs.ReflowCore Proofs.Resize.

(** resizing to the same size changes neither content nor cursor *)
Theorem C10_same_size : forall b cc cr, BInv b -> cr < brows b -> buf_resize b (bcols b) (brows b) cc cr = Ok (b <| trim_needed := true |>, (cc, cr)).
Proof. exact buf_resize_same. Qed.
Check C10_same_size : forall b cc cr, BInv b -> cr < brows b -> buf_resize b (bcols b) (brows b) cc cr = Ok (b <| trim_needed := true |>, (cc, cr)).
Print Assumptions C10_same_size.

Theorem C10_resize_total : forall b nc nr cc cr, BInv b -> 1 <= nc -> 1 <= nr -> (nc = bcols b -> cr < Nat.max (brows b) nr) -> exists b' cc' cr', buf_resize b nc nr cc cr = Ok (b', (cc', cr')) /\ BInv b' /\ bcols b' = nc /\ brows b' = nr /\ blimit b' = blimit b /\ trim_needed b' = true /\ cr' < nr /\ (nc <> bcols b -> cc' < nc) /\ (nc = bcols b -> cc' = cc).
Proof. exact buf_resize_ok'. Qed.
Check C10_resize_total : forall b nc nr cc cr, BInv b -> 1 <= nc -> 1 <= nr -> (nc = bcols b -> cr < Nat.max (brows b) nr) -> exists b' cc' cr', buf_resize b nc nr cc cr = Ok (b', (cc', cr')) /\ BInv b' /\ bcols b' = nc /\ brows b' = nr /\ blimit b' = blimit b /\ trim_needed b' = true /\ cr' < nr /\ (nc <> bcols b -> cc' < nc) /\ (nc = bcols b -> cc' = cc).
Print Assumptions C10_resize_total.
