(** Property C15 -- changed-line reports are sound.
    Only pinned statements, closed by [exact], with their assumptions printed. *)
From Avt Require Import Oracles.Step Proofs.Inv Proofs.Dirty.
From Avt Require Import Gen.VtFns Proofs.VtTie.
From Avt Require Import Gen.BufFns Proofs.BufTie.

(** Every control function marks every row whose cells it changes: the ghost invariant [DInv v0] (a row whose flag is clear has the cells it had at the previous report, and the height is unchanged) is preserved by every function from every state satisfying the invariant. (The premise is C04_print.) *)
Theorem C15_execute : (forall t c, TInv t -> exists t', print t c = Ok t' /\ TInv t') -> forall v0 t f t', TInv t -> DInv v0 t -> execute t f = Ok t' -> DInv v0 t'.
Proof. exact execute_DInv. Qed.
Check C15_execute : (forall t c, TInv t -> exists t', print t c = Ok t' /\ TInv t') -> forall v0 t f t', TInv t -> DInv v0 t -> execute t f = Ok t' -> DInv v0 t'.
Print Assumptions C15_execute.

(** hence every report is sound: a row not in the returned set is cell-for-cell what it was at the previous report *)
Theorem C15_sound : forall v0 t, TInv t -> DInv v0 t -> forall t1 ls t2 dr p, changes t = (t1, ls) -> term_gc t1 = Ok (t2, dr) -> holds_C15 v0 (mkVt p t2) ls = true.
Proof. exact C15_sound. Qed.
Check C15_sound : forall v0 t, TInv t -> DInv v0 t -> forall t1 ls t2 dr p, changes t = (t1, ls) -> term_gc t1 = Ok (t2, dr) -> holds_C15 v0 (mkVt p t2) ls = true.
Print Assumptions C15_sound.

Theorem C15_resize : forall v0 v c r v' o, TInv (vterm v) -> 1 <= c -> 1 <= r -> stepM v (Resize c r) = Ok (v', o) -> holds_C15 v0 v' (o_lines o) = true /\ DInv (tview (vterm v')) (vterm v').
Proof. exact stepM_Resize_C15. Qed.
Check C15_resize : forall v0 v c r v' o, TInv (vterm v) -> 1 <= c -> 1 <= r -> stepM v (Resize c r) = Ok (v', o) -> holds_C15 v0 v' (o_lines o) = true /\ DInv (tview (vterm v')) (vterm v').
Print Assumptions C15_resize.

Theorem C15_flush : forall v0 v v' o, TInv (vterm v) -> DInv v0 (vterm v) -> stepM v Flush = Ok (v', o) -> holds_C15 v0 v' (o_lines o) = true /\ DInv (tview (vterm v')) (vterm v').
Proof. exact stepM_Flush_C15. Qed.
Check C15_flush : forall v0 v v' o, TInv (vterm v) -> DInv v0 (vterm v) -> stepM v Flush = Ok (v', o) -> holds_C15 v0 v' (o_lines o) = true /\ DInv (tview (vterm v')) (vterm v').
Print Assumptions C15_flush.

(** SOURCE TIE BY PROOF: the function is REGENERATED from the Rust source on every run (Gen/BufFns.v, translate/buf2coq.py: slice and Vec idioms into the model's list primitives, every Rust panic condition as a guard) and the hand-written model function is proved equal to it (=~ : equal up to the panic-site number) - an edit to the Rust function breaks this theorem (DirtyLines::add) *)
Theorem C15_source_dirty_add : forall d n, g_dirty_add d n =~ dirty_add d n.
Proof. exact tie_dirty_add. Qed.
Check C15_source_dirty_add : forall d n, g_dirty_add d n =~ dirty_add d n.
Print Assumptions C15_source_dirty_add.

(** DirtyLines::extend *)
Theorem C15_source_dirty_extend : forall d a z, g_dirty_extend d a z =~ dirty_extend d a z.
Proof. exact tie_dirty_extend. Qed.
Check C15_source_dirty_extend : forall d a z, g_dirty_extend d a z =~ dirty_extend d a z.
Print Assumptions C15_source_dirty_extend.

(** DirtyLines::to_vec *)
Theorem C15_source_dirty_to_vec : forall d, g_dirty_to_vec d = Ok (dirty_to_vec d 0).
Proof. exact tie_dirty_to_vec. Qed.
Check C15_source_dirty_to_vec : forall d, g_dirty_to_vec d = Ok (dirty_to_vec d 0).
Print Assumptions C15_source_dirty_to_vec.

(** Terminal::changes = to_vec then clear, regenerated skeleton *)
Theorem C15_source_changes : forall t, changes t = fold_left (fun x st => interp_cstep st x) g_changes_skel (t, []).
Proof. exact tie_changes. Qed.
Check C15_source_changes : forall t, changes t = fold_left (fun x st => interp_cstep st x) g_changes_skel (t, []).
Print Assumptions C15_source_changes.

From Avt Require Import Gen.TermFns Proofs.TermTie Proofs.TermTieW Proofs.TermTieX.
(** SOURCE TIE BY PROOF (translate/term2coq.py -> Gen/TermFns.v, W-mode): the method of `impl Terminal` is REGENERATED from src/terminal.rs on every run as a function over the scalar record `zt` and an abstract world behind the interface `zops` (recorded calls of the buffer / tabs / dirty-line primitives with their evaluated arguments, queries for tab stops / cells / charset translation); instantiated with the model's own primitives (`Om`) it is proved equal to the hand-written model function, panics included: the model performs exactly the primitive calls the Rust text performs - same arguments, order, marked rows, erase modes, case splits *)
(** Terminal::execute as a whole: every dirty-line marking (`EvDirtyAdd`, `extend` ranges) the Rust text performs is performed by the model with the same rows *)
Theorem C15_source_execute : forall t f, TInv t -> w_execute Om (zabs t) (wabs t) f = Some (wres (execute t f)).
Proof. exact tie_execute_all. Qed.
Check C15_source_execute : forall t f, TInv t -> w_execute Om (zabs t) (wabs t) f = Some (wres (execute t f)).
Print Assumptions C15_source_execute.

From Avt Require Import Proofs.C15Run.
(** history level, unconditional (Proofs/C15Run.v) *)
(** every control function marks every row it changes - the ghost invariant `DInv v0` (a row whose flag is clear equals row-for-row the reference view v0) is preserved by `execute`, with no side premise *)
Theorem C15_execute_unconditional : forall v0 t f t', TInv t -> DInv v0 t -> execute t f = Ok t' -> DInv v0 t'.
Proof. exact C15_execute_uncond. Qed.
Check C15_execute_unconditional : forall v0 t f t', TInv t -> DInv v0 t -> execute t f = Ok t' -> DInv v0 t'.
Print Assumptions C15_execute_unconditional.

(** along EVERY history of Feed / Flush / Resize operations from every fresh terminal, no step panics and at each reporting call (Flush = feed_str, Resize) every row NOT in the returned list is cell-for-cell what it was at the previous report (for the first report the reference is arbitrary: every row is reported) *)
Theorem C15_histories : forall v0 c r l ops, 1 <= c -> 1 <= r -> Forall op_ok ops -> reports_sound_strict v0 (vt_new c r l) ops.
Proof. exact C15_run_strict. Qed.
Check C15_histories : forall v0 c r l ops, 1 <= c -> 1 <= r -> Forall op_ok ops -> reports_sound_strict v0 (vt_new c r l) ops.
Print Assumptions C15_histories.

(** the statement between two consecutive reports, spelled out: the view right after report o1 is the reference for report o2 *)
Theorem C15_between_two_reports : forall c r l pre o1 cs o2 v1 v2 v3 out, 1 <= c -> 1 <= r -> Forall op_ok pre -> op_ok o1 -> op_ok o2 -> is_report o1 -> is_report o2 -> runM (vt_new c r l) (pre ++ [o1]) = Ok v1 -> runM v1 (map Feed cs) = Ok v2 -> stepM v2 o2 = Ok (v3, out) -> holds_C15 (tview (vterm v1)) v3 (o_lines out) = true.
Proof. exact C15_between_reports. Qed.
Check C15_between_two_reports : forall c r l pre o1 cs o2 v1 v2 v3 out, 1 <= c -> 1 <= r -> Forall op_ok pre -> op_ok o1 -> op_ok o2 -> is_report o1 -> is_report o2 -> runM (vt_new c r l) (pre ++ [o1]) = Ok v1 -> runM v1 (map Feed cs) = Ok v2 -> stepM v2 o2 = Ok (v3, out) -> holds_C15 (tview (vterm v1)) v3 (o_lines out) = true.
Print Assumptions C15_between_two_reports.

