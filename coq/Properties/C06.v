(** Property C06 -- scrolling stays in its region and feeds the scrollback in order.
    Only pinned statements, closed by [exact], with their assumptions printed. *)
From Avt Require Import Gen.TermFns Proofs.TermEasy Proofs.TermTie.
From Avt Require Import Gen.BufFns Proofs.BufTie.
From Avt Require Import Oracles.Step Proofs.Inv Proofs.VisEq Proofs.BufScroll Proofs.SpecScroll Proofs.StepC06C08 Proofs.StepC06M.

(** LF/IND/NEL on the bottom margin, RI on the top margin, SU, SD, IL, DL: from every state satisfying the invariant the control function succeeds and yields exactly the specified screen, scrollback, cursor and modes (all fields except dirty flags / lazy-trim flag). *)
Theorem C06_scroll : forall t f e, TInv t -> spec_scroll t f = Some e -> exists t', execute t f = Ok t' /\ vis_norm e = vis_norm t'.
Proof. exact C06_scroll. Qed.
Check C06_scroll : forall t f e, TInv t -> spec_scroll t f = Some e -> exists t', execute t f = Ok t' /\ vis_norm e = vis_norm t'.
Print Assumptions C06_scroll.

(** the executable statement evaluated on the implementation *)
Theorem C06_statement : forall t f t', TInv t -> execute t f = Ok t' -> match spec_scroll t f with Some e => visible_eqb e t' = true | None => True end.
Proof. exact C06_scroll_step. Qed.
Check C06_statement : forall t f t', TInv t -> execute t f = Ok t' -> match spec_scroll t f with Some e => visible_eqb e t' = true | None => True end.
Print Assumptions C06_statement.

(** Buffer::scroll_up (all three code paths) equals the list-level specification, including exactly which rows enter the scrollback and in which order *)
Theorem C06_scroll_up : forall b a z n p, BGeom b -> a < z -> z <= brows b -> exists b', buf_scroll_up b a z n p = Ok b' /\ lines b' = firstn (sb_len b) (lines b) ++ snd (spec_scroll_up a z n p (bcols b) (view b)) ++ fst (spec_scroll_up a z n p (bcols b) (view b)) /\ bcols b' = bcols b /\ brows b' = brows b /\ blimit b' = blimit b /\ trim_needed b' = true /\ BGeom b'.
Proof. exact buf_scroll_up_spec. Qed.
Check C06_scroll_up : forall b a z n p, BGeom b -> a < z -> z <= brows b -> exists b', buf_scroll_up b a z n p = Ok b' /\ lines b' = firstn (sb_len b) (lines b) ++ snd (spec_scroll_up a z n p (bcols b) (view b)) ++ fst (spec_scroll_up a z n p (bcols b) (view b)) /\ bcols b' = bcols b /\ brows b' = brows b /\ blimit b' = blimit b /\ trim_needed b' = true /\ BGeom b'.
Print Assumptions C06_scroll_up.

Theorem C06_scroll_down : forall b a z n p, BGeom b -> a < z -> z <= brows b -> exists b', buf_scroll_down b a z n p = Ok b' /\ b' = b <| lines := firstn (sb_len b) (lines b) ++ spec_scroll_down a z n p (bcols b) (view b) |> /\ BGeom b'.
Proof. exact buf_scroll_down_spec. Qed.
Check C06_scroll_down : forall b a z n p, BGeom b -> a < z -> z <= brows b -> exists b', buf_scroll_down b a z n p = Ok b' /\ b' = b <| lines := firstn (sb_len b) (lines b) ++ spec_scroll_down a z n p (bcols b) (view b) |> /\ BGeom b'.
Print Assumptions C06_scroll_down.

(** no other control function adds to the scrollback (or touches the parked buffer), and margins change only through DECSTBM / resets *)
Theorem C06_frame : forall t f t', TInv t -> execute t f = Ok t' -> (may_touch_scrollback f = false -> lines_eqb (tsb t) (tsb t') = true /\ buffer_vis_eqb (other t) (other t') = true) /\ (match f with Decstbm _ _ | Decstr | Ris | Decset _ | Decrst _ | Xtwinops _ => True | _ => top t = top t' /\ bot t = bot t' end).
Proof. exact C06_frame_holds. Qed.
Check C06_frame : forall t f t', TInv t -> execute t f = Ok t' -> (may_touch_scrollback f = false -> lines_eqb (tsb t) (tsb t') = true /\ buffer_vis_eqb (other t) (other t') = true) /\ (match f with Decstbm _ _ | Decstr | Ris | Decset _ | Decrst _ | Xtwinops _ => True | _ => top t = top t' /\ bot t = bot t' end).
Print Assumptions C06_frame.

(** switching screens or toggling any mode never changes the scroll region; a resize resets it to the full screen exactly
    when the height changes and keeps it on a width-only change *)
Theorem C06_modes : forall p p' t f t', execute t f = Ok t' -> holds_C06_modes (mkVt p t) f (mkVt p' t') = true.
Proof. exact C06_modes_holds. Qed.
Check C06_modes : forall p p' t f t', execute t f = Ok t' -> holds_C06_modes (mkVt p t) f (mkVt p' t') = true.
Print Assumptions C06_modes.

Theorem C06_resize : forall p p' t c r t', term_resize t c r = Ok t' -> holds_C06_resize (mkVt p t) (mkVt p' t') = true.
Proof. exact C06_resize_holds. Qed.
Check C06_resize : forall p p' t c r t', term_resize t c r = Ok t' -> holds_C06_resize (mkVt p t) (mkVt p' t') = true.
Print Assumptions C06_resize.

(** TIE BY PROOF for the scrolling commands' scalar logic (which range, which count, which rows are marked): the
    regenerated Rust functions LF NEL RI SU SD IL DL (and HTS), replayed with the model's buffer primitives, equal the
    model's control functions; no usize underflow. *)
Theorem C06_source_tie : forall t f, TScal t -> ev_fn f = true -> exists z, g_execute (zabs t) f = Some (z, true) /\ execute t f = zrun z t.
Proof. exact tie_execute_ev. Qed.
Check C06_source_tie : forall t f, TScal t -> ev_fn f = true -> exists z, g_execute (zabs t) f = Some (z, true) /\ execute t f = zrun z t.
Print Assumptions C06_source_tie.

(** SOURCE TIE BY PROOF: the function is REGENERATED from the Rust source on every run (Gen/BufFns.v, translate/buf2coq.py: slice and Vec idioms into the model's list primitives, every Rust panic condition as a guard) and the hand-written model function is proved equal to it (=~ : equal up to the panic-site number) - an edit to the Rust function breaks this theorem (Buffer::scroll_up, all three branches) *)
Theorem C06_source_scroll_up : forall b a z n p, 0 < n \/ z <= brows b -> g_buffer_scroll_up b a z n p =~ buf_scroll_up b a z n p.
Proof. exact tie_buffer_scroll_up. Qed.
Check C06_source_scroll_up : forall b a z n p, 0 < n \/ z <= brows b -> g_buffer_scroll_up b a z n p =~ buf_scroll_up b a z n p.
Print Assumptions C06_source_scroll_up.

(** Buffer::scroll_down *)
Theorem C06_source_scroll_down : forall b a z n p, g_buffer_scroll_down b a z n p =~ buf_scroll_down b a z n p.
Proof. exact tie_buffer_scroll_down. Qed.
Check C06_source_scroll_down : forall b a z n p, g_buffer_scroll_down b a z n p =~ buf_scroll_down b a z n p.
Print Assumptions C06_source_scroll_down.

From Avt Require Import Proofs.StepC05.
(** clauses of other properties' statements that this property's text contains and its check evaluates on the implementation *)
(** "DECSTBM takes effect only for 1 <= top < bottom <= rows and otherwise leaves the margins as they were": the margins clause of the cursor-command specification, for DECSTBM (evaluated as `C06.decstbm_region`) *)
Theorem C06_decstbm_region : forall p p' t a b t', TInv t -> execute t (Decstbm a b) = Ok t' -> holds_C05 (mkVt p t) (Decstbm a b) (mkVt p' t') = true.
Proof. intros p p' t a b t'. exact (C05_holds p p' t (Decstbm a b) t'). Qed.
Check C06_decstbm_region : forall p p' t a b t', TInv t -> execute t (Decstbm a b) = Ok t' -> holds_C05 (mkVt p t) (Decstbm a b) (mkVt p' t') = true.
Print Assumptions C06_decstbm_region.

From Avt Require Import Proofs.ModeSem.
(** Proofs/ModeSem.v *)
(** no other control function adds to the scrollback - also DECSET / DECRST of the non-screen modes, any list: no cell, no wrap mark, no scrollback line changes *)
Theorem C06_frame_modes_set : forall t ms t', execute t (Decset ms) = Ok t' -> (forall m, In m ms -> m <> AltScreenBuffer /\ m <> SaveCursorAltScreenBuffer) -> lines (buf t') = lines (buf t) /\ other t' = other t.
Proof. exact C06_frame_decset. Qed.
Check C06_frame_modes_set : forall t ms t', execute t (Decset ms) = Ok t' -> (forall m, In m ms -> m <> AltScreenBuffer /\ m <> SaveCursorAltScreenBuffer) -> lines (buf t') = lines (buf t) /\ other t' = other t.
Print Assumptions C06_frame_modes_set.

(** DECRST likewise *)
Theorem C06_frame_modes_reset : forall t ms t', execute t (Decrst ms) = Ok t' -> (forall m, In m ms -> m <> AltScreenBuffer /\ m <> SaveCursorAltScreenBuffer) -> lines (buf t') = lines (buf t) /\ other t' = other t.
Proof. exact C06_frame_decrst. Qed.
Check C06_frame_modes_reset : forall t ms t', execute t (Decrst ms) = Ok t' -> (forall m, In m ms -> m <> AltScreenBuffer /\ m <> SaveCursorAltScreenBuffer) -> lines (buf t') = lines (buf t) /\ other t' = other t.
Print Assumptions C06_frame_modes_reset.

(** DECSTR, exactly: margins to the full screen, cursor visible, insert and origin off, default pen, ASCII charsets, saved context of the shown screen reset; auto-wrap, LNM, DECCKM, cursor position, both buffers, tab stops and the other screen's saved context untouched *)
Theorem C06_decstr : forall t, execute t Decstr = Ok (spec_decstr t).
Proof. exact sem_decstr. Qed.
Check C06_decstr : forall t, execute t Decstr = Ok (spec_decstr t).
Print Assumptions C06_decstr.

