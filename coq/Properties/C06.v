(** Property C06 -- scrolling (PARTIAL: buffer level; see DESIGN.md).
    Only pinned statements, closed by [exact], with their assumptions printed. *)
From Avt Require Import Spec.Screen Proofs.Inv Proofs.BufScroll.

(** Buffer::scroll_up (all three code paths) equals the list-level specification: the range shifts by min n (z-a), vacated rows are blank in the pen, rows outside the range are unchanged, and exactly the rows pushed off a range starting at row 0 are appended to the scrollback, in order *)
Theorem C06_scroll_up : forall b a z n p, BGeom b -> a < z -> z <= brows b -> exists b', buf_scroll_up b a z n p = Ok b' /\ lines b' = firstn (sb_len b) (lines b) ++ snd (spec_scroll_up a z n p (bcols b) (view b)) ++ fst (spec_scroll_up a z n p (bcols b) (view b)) /\ bcols b' = bcols b /\ brows b' = brows b /\ blimit b' = blimit b /\ trim_needed b' = true /\ BGeom b'.
Proof. exact buf_scroll_up_spec. Qed.
Check C06_scroll_up : forall b a z n p, BGeom b -> a < z -> z <= brows b -> exists b', buf_scroll_up b a z n p = Ok b' /\ lines b' = firstn (sb_len b) (lines b) ++ snd (spec_scroll_up a z n p (bcols b) (view b)) ++ fst (spec_scroll_up a z n p (bcols b) (view b)) /\ bcols b' = bcols b /\ brows b' = brows b /\ blimit b' = blimit b /\ trim_needed b' = true /\ BGeom b'.
Print Assumptions C06_scroll_up.

Theorem C06_scroll_down : forall b a z n p, BGeom b -> a < z -> z <= brows b -> exists b', buf_scroll_down b a z n p = Ok b' /\ b' = b <| lines := firstn (sb_len b) (lines b) ++ spec_scroll_down a z n p (bcols b) (view b) |> /\ BGeom b'.
Proof. exact buf_scroll_down_spec. Qed.
Check C06_scroll_down : forall b a z n p, BGeom b -> a < z -> z <= brows b -> exists b', buf_scroll_down b a z n p = Ok b' /\ b' = b <| lines := firstn (sb_len b) (lines b) ++ spec_scroll_down a z n p (bcols b) (view b) |> /\ BGeom b'.
Print Assumptions C06_scroll_down.
