(** Property C09 -- logical text is reproduced exactly, whatever the width.
    Only pinned statements, closed by [exact], with their assumptions printed. *)
From Avt Require Import Oracles.Rel Proofs.Inv Proofs.Text.

(** For EVERY width and height >= 1 and EVERY list of lines of printable characters (ASCII incl. DEL, everything >= U+00A0; any lengths, also exact multiples of the width, lines of spaces, Unicode whitespace), feeding the lines separated by CR LF to a fresh terminal with unlimited scrollback and calling text() gives exactly the input lines with trailing whitespace trimmed, trailing empty lines aside - however many rows each line wraps over and however much scrolled off. *)
Theorem C09_text : forall c r ls, 1 <= c -> 1 <= r -> Forall (Forall (fun x => printable_c09 x = true)) ls -> exists v o, feed_str (vt_new c r None) (join_crlf ls) = Ok (v, o) /\ strip_empty_tail (vt_text v) = strip_empty_tail (map trim_end ls).
Proof. exact C09_text. Qed.
Check C09_text : forall c r ls, 1 <= c -> 1 <= r -> Forall (Forall (fun x => printable_c09 x = true)) ls -> exists v o, feed_str (vt_new c r None) (join_crlf ls) = Ok (v, o) /\ strip_empty_tail (vt_text v) = strip_empty_tail (map trim_end ls).
Print Assumptions C09_text.

(** the same text at two different sizes gives the same text() *)
Theorem C09_width_independent : forall c1 r1 c2 r2 ls, 1 <= c1 -> 1 <= r1 -> 1 <= c2 -> 1 <= r2 -> Forall (Forall (fun x => printable_c09 x = true)) ls -> exists v1 o1 v2 o2, feed_str (vt_new c1 r1 None) (join_crlf ls) = Ok (v1, o1) /\ feed_str (vt_new c2 r2 None) (join_crlf ls) = Ok (v2, o2) /\ strip_empty_tail (vt_text v1) = strip_empty_tail (vt_text v2).
Proof. exact C09_width_independent. Qed.
Check C09_width_independent : forall c1 r1 c2 r2 ls, 1 <= c1 -> 1 <= r1 -> 1 <= c2 -> 1 <= r2 -> Forall (Forall (fun x => printable_c09 x = true)) ls -> exists v1 o1 v2 o2, feed_str (vt_new c1 r1 None) (join_crlf ls) = Ok (v1, o1) /\ feed_str (vt_new c2 r2 None) (join_crlf ls) = Ok (v2, o2) /\ strip_empty_tail (vt_text v1) = strip_empty_tail (vt_text v2).
Print Assumptions C09_width_independent.

(** unwrapping lines() with TextUnwrapper gives the same lines up to trailing whitespace *)
Theorem C09_unwrapper : forall c r ls, 1 <= c -> 1 <= r -> Forall (Forall (fun x => printable_c09 x = true)) ls -> exists v o, feed_str (vt_new c r None) (join_crlf ls) = Ok (v, o) /\ let '(st, out) := unwrap_all [] (vt_lines v) in strip_empty_tail (map trim_end (out ++ match st with [] => [] | _ => [st] end)) = strip_empty_tail (map trim_end ls).
Proof. exact C09_unwrapper. Qed.
Check C09_unwrapper : forall c r ls, 1 <= c -> 1 <= r -> Forall (Forall (fun x => printable_c09 x = true)) ls -> exists v o, feed_str (vt_new c r None) (join_crlf ls) = Ok (v, o) /\ let '(st, out) := unwrap_all [] (vt_lines v) in strip_empty_tail (map trim_end (out ++ match st with [] => [] | _ => [st] end)) = strip_empty_tail (map trim_end ls).
Print Assumptions C09_unwrapper.

(** the executable statement evaluated on the implementation *)
Theorem C09_statement : forall c r ls, 1 <= c -> 1 <= r -> Forall (Forall (fun x => printable_c09 x = true)) ls -> exists v o, feed_str (vt_new c r None) (join_crlf ls) = Ok (v, o) /\ holds_C09 (join_crlf ls) (vt_text v) (unwrapped v) = true.
Proof. exact C09_holds. Qed.
Check C09_statement : forall c r ls, 1 <= c -> 1 <= r -> Forall (Forall (fun x => printable_c09 x = true)) ls -> exists v o, feed_str (vt_new c r None) (join_crlf ls) = Ok (v, o) /\ holds_C09 (join_crlf ls) (vt_text v) (unwrapped v) = true.
Print Assumptions C09_statement.

From Avt Require Import Gen.RestFns Proofs.BufTie Proofs.RestTie.
(** SOURCE TIE BY PROOF (translate/rest2coq.py -> Gen/RestFns.v): the Rust function is REGENERATED on every run (u8/u16/u32/char as N with exact casts, isize as Z with guards on `as usize`, loops as folds or fuelled fixpoints, every Rust panic condition as a guard) and the hand-written model function is proved equal to it (=~ : equal up to the panic-site number) *)
(** Buffer::text regenerated *)
Theorem C09_source_text : forall b, g_buffer_text b = Ok (buf_text b).
Proof. exact tie_buffer_text. Qed.
Check C09_source_text : forall b, g_buffer_text b = Ok (buf_text b).
Print Assumptions C09_source_text.

(** TextUnwrapper::push regenerated *)
Theorem C09_source_unwrapper_push : forall st l, g_unwrapper_push st l = Ok (unwrap_push st l).
Proof. exact tie_unwrapper_push. Qed.
Check C09_source_unwrapper_push : forall st l, g_unwrapper_push st l = Ok (unwrap_push st l).
Print Assumptions C09_source_unwrapper_push.

From Avt Require Import Gen.AccFns Proofs.AccTie.
(** SOURCE TIE BY PROOF (translate/acc2coq.py -> Gen/AccFns.v): the public constructors and accessors are REGENERATED from the Rust source on every run and proved equal to the model's observation functions - the functions through which every theorem of this property reads the terminal *)
(** Vt::text = Terminal::text on the primary buffer *)
Theorem C09_source_vt_text : forall v, g_vt_text v = Ok (vt_text v).
Proof. exact tie_vt_text. Qed.
Check C09_source_vt_text : forall v, g_vt_text v = Ok (vt_text v).
Print Assumptions C09_source_vt_text.

(** Line::text / chars *)
Theorem C09_source_line_text : forall l, g_line_text l = Ok (line_text l).
Proof. exact tie_line_text. Qed.
Check C09_source_line_text : forall l, g_line_text l = Ok (line_text l).
Print Assumptions C09_source_line_text.

