(** Property C17 -- save/restore cursor.
    Only pinned statements, closed by [exact], with their assumptions printed. *)
From Avt Require Import Oracles.Step Proofs.TermEasy.

(** the save spellings store exactly (visible column, row, pen, origin, auto-wrap) in the active screen's context and change nothing else *)
Theorem C17_save : forall t f, match f with Decsc | Scosc | Decset [SaveCursor] => True | _ => False end -> execute t f = Ok (t <| sctx := spec_saved_now t |>).
Proof. exact exec_save. Qed.
Check C17_save : forall t f, match f with Decsc | Scosc | Decset [SaveCursor] => True | _ => False end -> execute t f = Ok (t <| sctx := spec_saved_now t |>).
Print Assumptions C17_save.

(** the restore spellings re-establish exactly the five saved components, clear the wrap-pending flag and change nothing else *)
Theorem C17_restore : forall t f, match f with Decrc | Scorc | Decrst [SaveCursor] => True | _ => False end -> execute t f = Ok (spec_restore t).
Proof. exact exec_restore. Qed.
Check C17_restore : forall t f, match f with Decrc | Scorc | Decrst [SaveCursor] => True | _ => False end -> execute t f = Ok (spec_restore t).
Print Assumptions C17_restore.
