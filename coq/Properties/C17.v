(** Property C17 -- save/restore cursor round-trips the full context, per screen.
    Only pinned statements, closed by [exact], with their assumptions printed. *)
From Avt Require Import Oracles.Step Proofs.Inv Proofs.TermEasy Proofs.StepC17.

(** The per-screen saved-context bookkeeping (executable statement holds_C17) is a theorem for every control function from every state satisfying the invariant: the four save spellings store exactly the five components on the active screen and nothing else changes; the restore spellings re-establish exactly those, inside the screen; ?1049h saves on the screen that was active; ?1049l restores the primary's context (exactly, when the size is unchanged; inside the screen always); DECSTR re-initialises only the active screen's context; RIS both; every other function leaves both contexts and the active screen alone. *)
Theorem C17_statement : forall p p' t f t', TInv t -> execute t f = Ok t' -> holds_C17 (mkVt p t) f (mkVt p' t') = true.
Proof. exact C17_holds. Qed.
Check C17_statement : forall p p' t f t', TInv t -> execute t f = Ok t' -> holds_C17 (mkVt p t) f (mkVt p' t') = true.
Print Assumptions C17_statement.

(** a resize clamps the active screen's saved position into the new screen and leaves the other screen's context alone *)
Theorem C17_resize : forall p p' t c r t', TInv t -> 1 <= c -> 1 <= r -> term_resize t c r = Ok t' -> holds_C17_resize (mkVt p t) (mkVt p' t') = true.
Proof. exact C17_resize_holds. Qed.
Check C17_resize : forall p p' t c r t', TInv t -> 1 <= c -> 1 <= r -> term_resize t c r = Ok t' -> holds_C17_resize (mkVt p t) (mkVt p' t') = true.
Print Assumptions C17_resize.

Theorem C17_save : forall t f, match f with Decsc | Scosc | Decset [SaveCursor] => True | _ => False end -> execute t f = Ok (t <| sctx := spec_saved_now t |>).
Proof. exact exec_save. Qed.
Check C17_save : forall t f, match f with Decsc | Scosc | Decset [SaveCursor] => True | _ => False end -> execute t f = Ok (t <| sctx := spec_saved_now t |>).
Print Assumptions C17_save.

Theorem C17_restore : forall t f, match f with Decrc | Scorc | Decrst [SaveCursor] => True | _ => False end -> execute t f = Ok (spec_restore t).
Proof. exact exec_restore. Qed.
Check C17_restore : forall t f, match f with Decrc | Scorc | Decrst [SaveCursor] => True | _ => False end -> execute t f = Ok (spec_restore t).
Print Assumptions C17_restore.

From Avt Require Import Gen.TermFns Proofs.TermTie Proofs.TermTieW Proofs.TermTieX.
(** SOURCE TIE BY PROOF (translate/term2coq.py -> Gen/TermFns.v, W-mode): the method of `impl Terminal` is REGENERATED from src/terminal.rs on every run as a function over the scalar record `zt` and an abstract world behind the interface `zops` (recorded calls of the buffer / tabs / dirty-line primitives with their evaluated arguments, queries for tab stops / cells / charset translation); instantiated with the model's own primitives (`Om`) it is proved equal to the hand-written model function, panics included: the model performs exactly the primitive calls the Rust text performs - same arguments, order, marked rows, erase modes, case splits *)
(** Terminal::decset: per-mode case split and the order of the save / switch / reflow calls *)
Theorem C17_source_terminal_decset : forall t ms, TInv t -> w_decset Om (zabs t) (wabs t) ms = wres (foldM decset_one ms t).
Proof. exact w_decset_eq. Qed.
Check C17_source_terminal_decset : forall t ms, TInv t -> w_decset Om (zabs t) (wabs t) ms = wres (foldM decset_one ms t).
Print Assumptions C17_source_terminal_decset.

(** Terminal::decrst *)
Theorem C17_source_terminal_decrst : forall t ms, TInv t -> w_decrst Om (zabs t) (wabs t) ms = wres (foldM decrst_one ms t).
Proof. exact w_decrst_eq. Qed.
Check C17_source_terminal_decrst : forall t ms, TInv t -> w_decrst Om (zabs t) (wabs t) ms = wres (foldM decrst_one ms t).
Print Assumptions C17_source_terminal_decrst.

(** further methods regenerated in W-mode (swap / Buffer::new / tabs / dirty-list events, the buffer.resize query) *)
(** Terminal::save_cursor (the column clamp included) *)
Theorem C17_source_save_cursor : forall t, ZW t -> w_save_cursor Om (zabs t) (wabs t) = wres (Ok (save_cursor t)).
Proof. exact w_save_cursor_eq. Qed.
Check C17_source_save_cursor : forall t, ZW t -> w_save_cursor Om (zabs t) (wabs t) = wres (Ok (save_cursor t)).
Print Assumptions C17_source_save_cursor.

(** Terminal::restore_cursor *)
Theorem C17_source_restore_cursor : forall t, ZW t -> w_restore_cursor Om (zabs t) (wabs t) = wres (Ok (restore_cursor t)).
Proof. exact w_restore_cursor_eq. Qed.
Check C17_source_restore_cursor : forall t, ZW t -> w_restore_cursor Om (zabs t) (wabs t) = wres (Ok (restore_cursor t)).
Print Assumptions C17_source_restore_cursor.

From Avt Require Import Proofs.StepC17Switch.
(** C17.5 "the primary and the alternate screen keep separate saved contexts": switching screens (47 / 1047, in any list of
    DEC modes without 1048 / 1049) or toggling any other DEC mode keeps the saved context of EACH screen, up to the clamp into
    the current size that the return to a resized primary performs - a `take` instead of a swap, or a reset of the parked
    context, breaks it *)
Theorem C17_switch : forall p p' t f t', TInv t -> execute t f = Ok t' -> holds_C17_switch (mkVt p t) f (mkVt p' t') = true.
Proof. exact C17_switch_holds. Qed.
Check C17_switch : forall p p' t f t', TInv t -> execute t f = Ok t' -> holds_C17_switch (mkVt p t) f (mkVt p' t') = true.
Print Assumptions C17_switch.

From Avt Require Import Proofs.C17Run.
(** run level (Proofs/C17Run.v): "the most recent save on the same screen, regardless of what was executed in between" *)
(** any of the four save spellings; then ANY run of control functions (moves, prints, SGR, mode and margin changes, excursions to the other screen through 47 / 1047 / 1049 with their own saves) that contains no save and no DECSTR while the saving screen is shown and no RIS (`no_save_reset_on`, an executable check over the run that tracks the shown screen); then any restore spelling on the same screen: exactly the column (the last column if the wrap was pending), row, pen, origin mode and auto-wrap mode in force at the save *)
Theorem C17_round_trip : forall t fsave t1 fs t2 frest t3, TInv t -> is_save fsave -> execute t fsave = Ok t1 -> rrun (map RF fs) t1 = Ok t2 -> no_save_reset_on (active t) (active t1) (map RF fs) = true -> active t2 = active t -> is_restore frest -> execute t2 frest = Ok t3 -> cur_col t3 = viscol t /\ cur_row t3 = cur_row t /\ tpen t3 = tpen t /\ org t3 = org t /\ awm t3 = awm t /\ pend t3 = false /\ cols t3 = cols t /\ rows t3 = rows t.
Proof. exact C17_roundtrip. Qed.
Check C17_round_trip : forall t fsave t1 fs t2 frest t3, TInv t -> is_save fsave -> execute t fsave = Ok t1 -> rrun (map RF fs) t1 = Ok t2 -> no_save_reset_on (active t) (active t1) (map RF fs) = true -> active t2 = active t -> is_restore frest -> execute t2 frest = Ok t3 -> cur_col t3 = viscol t /\ cur_row t3 = cur_row t /\ tpen t3 = tpen t /\ org t3 = org t /\ awm t3 = awm t /\ pend t3 = false /\ cols t3 = cols t /\ rows t3 = rows t.
Print Assumptions C17_round_trip.

(** the same with resizes in the run: the restored position is the saved one clamped through the sizes the terminal went through (`run_ctx`), inside the screen, never beyond the saved position; pen and modes exact ("clamped into the CURRENT size" would be false: C17_roundtrip_current_size_refuted - 20 columns, saved at 15, resized to 10 and back to 20 restores column 9) *)
Theorem C17_round_trip_resized : forall t fsave t1 os t2 frest t3, TInv t -> is_save fsave -> execute t fsave = Ok t1 -> forallb rop_ok os = true -> rrun os t1 = Ok t2 -> no_save_reset_on (active t) (active t1) os = true -> active t2 = active t -> is_restore frest -> execute t2 frest = Ok t3 -> let e := run_ctx (active t) (active t1) (cols t) (rows t) (spec_saved_now t) os in cur_col t3 = sc_col e /\ cur_row t3 = sc_row e /\ tpen t3 = tpen t /\ org t3 = org t /\ awm t3 = awm t /\ pend t3 = false /\ cur_col t3 < cols t3 /\ cur_row t3 < rows t3 /\ cur_col t3 <= viscol t /\ cur_row t3 <= cur_row t.
Proof. exact C17_roundtrip_run. Qed.
Check C17_round_trip_resized : forall t fsave t1 os t2 frest t3, TInv t -> is_save fsave -> execute t fsave = Ok t1 -> forallb rop_ok os = true -> rrun os t1 = Ok t2 -> no_save_reset_on (active t) (active t1) os = true -> active t2 = active t -> is_restore frest -> execute t2 frest = Ok t3 -> let e := run_ctx (active t) (active t1) (cols t) (rows t) (spec_saved_now t) os in cur_col t3 = sc_col e /\ cur_row t3 = sc_row e /\ tpen t3 = tpen t /\ org t3 = org t /\ awm t3 = awm t /\ pend t3 = false /\ cur_col t3 < cols t3 /\ cur_row t3 < rows t3 /\ cur_col t3 <= viscol t /\ cur_row t3 <= cur_row t.
Print Assumptions C17_round_trip_resized.

(** a whole ?1049h ... ?1049l excursion *)
Theorem C17_round_trip_1049 : forall t t1 fs t2 t3, TInv t -> active t = Primary -> execute t (Decset [SaveCursorAltScreenBuffer]) = Ok t1 -> rrun (map RF fs) t1 = Ok t2 -> no_save_reset_on Primary Alternate (map RF fs) = true -> execute t2 (Decrst [SaveCursorAltScreenBuffer]) = Ok t3 -> active t1 = Alternate /\ active t3 = Primary /\ cur_col t3 = viscol t /\ cur_row t3 = cur_row t /\ tpen t3 = tpen t /\ org t3 = org t /\ awm t3 = awm t /\ pend t3 = false.
Proof. exact C17_roundtrip_1049. Qed.
Check C17_round_trip_1049 : forall t t1 fs t2 t3, TInv t -> active t = Primary -> execute t (Decset [SaveCursorAltScreenBuffer]) = Ok t1 -> rrun (map RF fs) t1 = Ok t2 -> no_save_reset_on Primary Alternate (map RF fs) = true -> execute t2 (Decrst [SaveCursorAltScreenBuffer]) = Ok t3 -> active t1 = Alternate /\ active t3 = Primary /\ cur_col t3 = viscol t /\ cur_row t3 = cur_row t /\ tpen t3 = tpen t /\ org t3 = org t /\ awm t3 = awm t /\ pend t3 = false.
Print Assumptions C17_round_trip_1049.

(** ?1049l and BOTH screens' saved contexts *)
Theorem C17_1049_leave : forall t t', TInv t -> execute t (Decrst [SaveCursorAltScreenBuffer]) = Ok t' -> active t' = Primary /\ cols t' = cols t /\ rows t' = rows t /\ saved_of t' Primary = clamp_ctx (saved_of t Primary) (cols t) (rows t) /\ saved_of t' Alternate = saved_of t Alternate /\ (active t = Primary -> saved_of t' Primary = saved_of t Primary).
Proof. exact C17_1049l. Qed.
Check C17_1049_leave : forall t t', TInv t -> execute t (Decrst [SaveCursorAltScreenBuffer]) = Ok t' -> active t' = Primary /\ cols t' = cols t /\ rows t' = rows t /\ saved_of t' Primary = clamp_ctx (saved_of t Primary) (cols t) (rows t) /\ saved_of t' Alternate = saved_of t Alternate /\ (active t = Primary -> saved_of t' Primary = saved_of t Primary).
Print Assumptions C17_1049_leave.

(** "or the power-on defaults if nothing was saved": any run from a fresh terminal without a save on the screen shown at the end *)
Theorem C17_unsaved : forall c r l s os t2 f t3, 1 <= c -> 1 <= r -> forallb rop_ok os = true -> rrun os (vterm (vt_new c r l)) = Ok t2 -> no_save_on s Primary os = true -> active t2 = s -> is_restore f -> execute t2 f = Ok t3 -> cur_col t3 = 0 /\ cur_row t3 = 0 /\ tpen t3 = default_pen /\ org t3 = false /\ awm t3 = true /\ pend t3 = false.
Proof. exact C17_restore_unsaved_new. Qed.
Check C17_unsaved : forall c r l s os t2 f t3, 1 <= c -> 1 <= r -> forallb rop_ok os = true -> rrun os (vterm (vt_new c r l)) = Ok t2 -> no_save_on s Primary os = true -> active t2 = s -> is_restore f -> execute t2 f = Ok t3 -> cur_col t3 = 0 /\ cur_row t3 = 0 /\ tpen t3 = default_pen /\ org t3 = false /\ awm t3 = true /\ pend t3 = false.
Print Assumptions C17_unsaved.

(** KNOWN DEVIATION from the literal quantifier (KF-C17-1): a soft reset between save and restore RESETS the saved context of the shown screen (DEC STD 070 / xterm behaviour), so the restore yields the power-on defaults *)
Theorem C17_decstr : forall t fsave t1 t2 frest t3, match fsave with Decsc | Scosc | Decset [SaveCursor] => True | _ => False end -> execute t fsave = Ok t1 -> execute t1 Decstr = Ok t2 -> is_restore frest -> execute t2 frest = Ok t3 -> cur_col t3 = 0 /\ cur_row t3 = 0 /\ tpen t3 = default_pen /\ org t3 = false /\ awm t3 = true /\ pend t3 = false.
Proof. exact C17_decstr_resets_saved. Qed.
Check C17_decstr : forall t fsave t1 t2 frest t3, match fsave with Decsc | Scosc | Decset [SaveCursor] => True | _ => False end -> execute t fsave = Ok t1 -> execute t1 Decstr = Ok t2 -> is_restore frest -> execute t2 frest = Ok t3 -> cur_col t3 = 0 /\ cur_row t3 = 0 /\ tpen t3 = default_pen /\ org t3 = false /\ awm t3 = true /\ pend t3 = false.
Print Assumptions C17_decstr.

