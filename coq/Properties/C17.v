(** Property C17 -- save/restore cursor round-trips the full context, per screen.
    Only pinned statements, closed by [exact], with their assumptions printed. *)
From Avt Require Import Oracles.Step Proofs.Inv Proofs.TermEasy Proofs.StepC17.

(** The per-screen saved-context bookkeeping (executable statement holds_C17) is a theorem for every control function from every state satisfying the invariant: the four save spellings store exactly the five components on the active screen and nothing else changes; the restore spellings re-establish exactly those, inside the screen; ?1049h saves on the screen that was active; ?1049l restores the primary's context (exactly, when the size is unchanged; inside the screen always); DECSTR re-initialises only the active screen's context; RIS both; every other function leaves both contexts and the active screen alone. *)
Theorem C17_statement : forall p p' t f t', TInv t -> execute t f = Ok t' -> holds_C17 (mkVt p t) f (mkVt p' t') = true.
Proof. exact C17_holds. Qed.
Check C17_statement : forall p p' t f t', TInv t -> execute t f = Ok t' -> holds_C17 (mkVt p t) f (mkVt p' t') = true.
Print Assumptions C17_statement.

(** a resize clamps the active screen's saved position into the new screen and leaves the other screen's context alone *)
Theorem C17_resize : forall p p' t c r t', TInv t -> 1 <= c -> 1 <= r -> term_resize t c r = Ok t' -> holds_C17_resize (mkVt p t) (mkVt p' t') = true.
Proof. exact C17_resize_holds. Qed.
Check C17_resize : forall p p' t c r t', TInv t -> 1 <= c -> 1 <= r -> term_resize t c r = Ok t' -> holds_C17_resize (mkVt p t) (mkVt p' t') = true.
Print Assumptions C17_resize.

Theorem C17_save : forall t f, match f with Decsc | Scosc | Decset [SaveCursor] => True | _ => False end -> execute t f = Ok (t <| sctx := spec_saved_now t |>).
Proof. exact exec_save. Qed.
Check C17_save : forall t f, match f with Decsc | Scosc | Decset [SaveCursor] => True | _ => False end -> execute t f = Ok (t <| sctx := spec_saved_now t |>).
Print Assumptions C17_save.

Theorem C17_restore : forall t f, match f with Decrc | Scorc | Decrst [SaveCursor] => True | _ => False end -> execute t f = Ok (spec_restore t).
Proof. exact exec_restore. Qed.
Check C17_restore : forall t f, match f with Decrc | Scorc | Decrst [SaveCursor] => True | _ => False end -> execute t f = Ok (spec_restore t).
Print Assumptions C17_restore.

From Avt Require Import Gen.TermFns Proofs.TermTie Proofs.TermTieW Proofs.TermTieX.
(** SOURCE TIE BY PROOF (translate/term2coq.py -> Gen/TermFns.v, W-mode): the method of `impl Terminal` is REGENERATED from src/terminal.rs on every run as a function over the scalar record `zt` and an abstract world behind the interface `zops` (recorded calls of the buffer / tabs / dirty-line primitives with their evaluated arguments, queries for tab stops / cells / charset translation); instantiated with the model's own primitives (`Om`) it is proved equal to the hand-written model function, panics included: the model performs exactly the primitive calls the Rust text performs - same arguments, order, marked rows, erase modes, case splits *)
(** Terminal::decset: per-mode case split and the order of the save / switch / reflow calls *)
Theorem C17_source_terminal_decset : forall t ms, TInv t -> w_decset Om (zabs t) (wabs t) ms = wres (foldM decset_one ms t).
Proof. exact w_decset_eq. Qed.
Check C17_source_terminal_decset : forall t ms, TInv t -> w_decset Om (zabs t) (wabs t) ms = wres (foldM decset_one ms t).
Print Assumptions C17_source_terminal_decset.

(** Terminal::decrst *)
Theorem C17_source_terminal_decrst : forall t ms, TInv t -> w_decrst Om (zabs t) (wabs t) ms = wres (foldM decrst_one ms t).
Proof. exact w_decrst_eq. Qed.
Check C17_source_terminal_decrst : forall t ms, TInv t -> w_decrst Om (zabs t) (wabs t) ms = wres (foldM decrst_one ms t).
Print Assumptions C17_source_terminal_decrst.

(** further methods regenerated in W-mode (swap / Buffer::new / tabs / dirty-list events, the buffer.resize query) *)
(** Terminal::save_cursor (the column clamp included) *)
Theorem C17_source_save_cursor : forall t, ZW t -> w_save_cursor Om (zabs t) (wabs t) = wres (Ok (save_cursor t)).
Proof. exact w_save_cursor_eq. Qed.
Check C17_source_save_cursor : forall t, ZW t -> w_save_cursor Om (zabs t) (wabs t) = wres (Ok (save_cursor t)).
Print Assumptions C17_source_save_cursor.

(** Terminal::restore_cursor *)
Theorem C17_source_restore_cursor : forall t, ZW t -> w_restore_cursor Om (zabs t) (wabs t) = wres (Ok (restore_cursor t)).
Proof. exact w_restore_cursor_eq. Qed.
Check C17_source_restore_cursor : forall t, ZW t -> w_restore_cursor Om (zabs t) (wabs t) = wres (Ok (restore_cursor t)).
Print Assumptions C17_source_restore_cursor.

From Avt Require Import Proofs.StepC17Switch.
(** C17.5 "the primary and the alternate screen keep separate saved contexts": switching screens (47 / 1047, in any list of
    DEC modes without 1048 / 1049) or toggling any other DEC mode keeps the saved context of EACH screen, up to the clamp into
    the current size that the return to a resized primary performs - a `take` instead of a swap, or a reset of the parked
    context, breaks it *)
Theorem C17_switch : forall p p' t f t', TInv t -> execute t f = Ok t' -> holds_C17_switch (mkVt p t) f (mkVt p' t') = true.
Proof. exact C17_switch_holds. Qed.
Check C17_switch : forall p p' t f t', TInv t -> execute t f = Ok t' -> holds_C17_switch (mkVt p t) f (mkVt p' t') = true.
Print Assumptions C17_switch.
