(** Property C17 -- save/restore cursor round-trips the full context, per screen.
    Only pinned statements, closed by [exact], with their assumptions printed. *)
From Avt Require Import Oracles.Step Proofs.Inv Proofs.TermEasy Proofs.StepC17.

(** The per-screen saved-context bookkeeping (executable statement holds_C17) is a theorem for every control function from every state satisfying the invariant: the four save spellings store exactly the five components on the active screen and nothing else changes; the restore spellings re-establish exactly those, inside the screen; ?1049h saves on the screen that was active; ?1049l restores the primary's context (exactly, when the size is unchanged; inside the screen always); DECSTR re-initialises only the active screen's context; RIS both; every other function leaves both contexts and the active screen alone. *)
Theorem C17_statement : forall p p' t f t', TInv t -> execute t f = Ok t' -> holds_C17 (mkVt p t) f (mkVt p' t') = true.
Proof. exact C17_holds. Qed.
Check C17_statement : forall p p' t f t', TInv t -> execute t f = Ok t' -> holds_C17 (mkVt p t) f (mkVt p' t') = true.
Print Assumptions C17_statement.

(** a resize clamps the active screen's saved position into the new screen and leaves the other screen's context alone *)
Theorem C17_resize : forall p p' t c r t', TInv t -> 1 <= c -> 1 <= r -> term_resize t c r = Ok t' -> holds_C17_resize (mkVt p t) (mkVt p' t') = true.
Proof. exact C17_resize_holds. Qed.
Check C17_resize : forall p p' t c r t', TInv t -> 1 <= c -> 1 <= r -> term_resize t c r = Ok t' -> holds_C17_resize (mkVt p t) (mkVt p' t') = true.
Print Assumptions C17_resize.

Theorem C17_save : forall t f, match f with Decsc | Scosc | Decset [SaveCursor] => True | _ => False end -> execute t f = Ok (t <| sctx := spec_saved_now t |>).
Proof. exact exec_save. Qed.
Check C17_save : forall t f, match f with Decsc | Scosc | Decset [SaveCursor] => True | _ => False end -> execute t f = Ok (t <| sctx := spec_saved_now t |>).
Print Assumptions C17_save.

Theorem C17_restore : forall t f, match f with Decrc | Scorc | Decrst [SaveCursor] => True | _ => False end -> execute t f = Ok (spec_restore t).
Proof. exact exec_restore. Qed.
Check C17_restore : forall t f, match f with Decrc | Scorc | Decrst [SaveCursor] => True | _ => False end -> execute t f = Ok (spec_restore t).
Print Assumptions C17_restore.

From Avt Require Import Gen.TermFns Proofs.TermTie Proofs.TermTieW Proofs.TermTieX.
(** SOURCE TIE BY PROOF (translate/term2coq.py -> Gen/TermFns.v, W-mode): the method of `impl Terminal` is REGENERATED from src/terminal.rs on every run as a function over the scalar record `zt` and an abstract world behind the interface `zops` (recorded calls of the buffer / tabs / dirty-line primitives with their evaluated arguments, queries for tab stops / cells / charset translation); instantiated with the model's own primitives (`Om`) it is proved equal to the hand-written model function, panics included: the model performs exactly the primitive calls the Rust text performs - same arguments, order, marked rows, erase modes, case splits *)
(** Terminal::decset: per-mode case split and the order of the save / switch / reflow calls *)
Theorem C17_source_terminal_decset : forall t ms, TInv t -> w_decset Om (zabs t) (wabs t) ms = wres (foldM decset_one ms t).
Proof. exact w_decset_eq. Qed.
Check C17_source_terminal_decset : forall t ms, TInv t -> w_decset Om (zabs t) (wabs t) ms = wres (foldM decset_one ms t).
Print Assumptions C17_source_terminal_decset.

(** Terminal::decrst *)
Theorem C17_source_terminal_decrst : forall t ms, TInv t -> w_decrst Om (zabs t) (wabs t) ms = wres (foldM decrst_one ms t).
Proof. exact w_decrst_eq. Qed.
Check C17_source_terminal_decrst : forall t ms, TInv t -> w_decrst Om (zabs t) (wabs t) ms = wres (foldM decrst_one ms t).
Print Assumptions C17_source_terminal_decrst.

(** further methods regenerated in W-mode (swap / Buffer::new / tabs / dirty-list events, the buffer.resize query) *)
(** Terminal::save_cursor (the column clamp included) *)
Theorem C17_source_save_cursor : forall t, ZW t -> w_save_cursor Om (zabs t) (wabs t) = wres (Ok (save_cursor t)).
Proof. exact w_save_cursor_eq. Qed.
Check C17_source_save_cursor : forall t, ZW t -> w_save_cursor Om (zabs t) (wabs t) = wres (Ok (save_cursor t)).
Print Assumptions C17_source_save_cursor.

(** Terminal::restore_cursor *)
Theorem C17_source_restore_cursor : forall t, ZW t -> w_restore_cursor Om (zabs t) (wabs t) = wres (Ok (restore_cursor t)).
Proof. exact w_restore_cursor_eq. Qed.
Check C17_source_restore_cursor : forall t, ZW t -> w_restore_cursor Om (zabs t) (wabs t) = wres (Ok (restore_cursor t)).
Print Assumptions C17_source_restore_cursor.

From Avt Require Import Proofs.StepC17Switch.
(** C17.5 "the primary and the alternate screen keep separate saved contexts": switching screens (47 / 1047, in any list of
    DEC modes without 1048 / 1049) or toggling any other DEC mode keeps the saved context of EACH screen, up to the clamp into
    the current size that the return to a resized primary performs - a `take` instead of a swap, or a reset of the parked
    context, breaks it *)
Theorem C17_switch : forall p p' t f t', TInv t -> execute t f = Ok t' -> holds_C17_switch (mkVt p t) f (mkVt p' t') = true.
Proof. exact C17_switch_holds. Qed.
Check C17_switch : forall p p' t f t', TInv t -> execute t f = Ok t' -> holds_C17_switch (mkVt p t) f (mkVt p' t') = true.
Print Assumptions C17_switch.

From Avt Require Import Proofs.C17Run.
(** run level (Proofs/C17Run.v): "the most recent save on the same screen, regardless of what was executed in between" *)
(** any of the four save spellings; then ANY run of control functions (moves, prints, SGR, mode and margin changes, excursions to the other screen through 47 / 1047 / 1049 with their own saves) that contains no save and no DECSTR while the saving screen is shown and no RIS (`no_save_reset_on`, an executable check over the run that tracks the shown screen); then any restore spelling on the same screen: exactly the column (the last column if the wrap was pending), row, pen, origin mode and auto-wrap mode in force at the save *)
Theorem C17_round_trip : forall t fsave t1 fs t2 frest t3, TInv t -> is_save fsave -> execute t fsave = Ok t1 -> rrun (map RF fs) t1 = Ok t2 -> no_save_reset_on (active t) (active t1) (map RF fs) = true -> active t2 = active t -> is_restore frest -> execute t2 frest = Ok t3 -> cur_col t3 = viscol t /\ cur_row t3 = cur_row t /\ tpen t3 = tpen t /\ org t3 = org t /\ awm t3 = awm t /\ pend t3 = false /\ cols t3 = cols t /\ rows t3 = rows t.
Proof. exact C17_roundtrip. Qed.
Check C17_round_trip : forall t fsave t1 fs t2 frest t3, TInv t -> is_save fsave -> execute t fsave = Ok t1 -> rrun (map RF fs) t1 = Ok t2 -> no_save_reset_on (active t) (active t1) (map RF fs) = true -> active t2 = active t -> is_restore frest -> execute t2 frest = Ok t3 -> cur_col t3 = viscol t /\ cur_row t3 = cur_row t /\ tpen t3 = tpen t /\ org t3 = org t /\ awm t3 = awm t /\ pend t3 = false /\ cols t3 = cols t /\ rows t3 = rows t.
Print Assumptions C17_round_trip.

(** the same with resizes in the run: the restored position is the saved one clamped through the sizes the terminal went through (`run_ctx`), inside the screen, never beyond the saved position; pen and modes exact ("clamped into the CURRENT size" would be false: C17_roundtrip_current_size_refuted - 20 columns, saved at 15, resized to 10 and back to 20 restores column 9) *)
Theorem C17_round_trip_resized : forall t fsave t1 os t2 frest t3, TInv t -> is_save fsave -> execute t fsave = Ok t1 -> forallb rop_ok os = true -> rrun os t1 = Ok t2 -> no_save_reset_on (active t) (active t1) os = true -> active t2 = active t -> is_restore frest -> execute t2 frest = Ok t3 -> let e := run_ctx (active t) (active t1) (cols t) (rows t) (spec_saved_now t) os in cur_col t3 = sc_col e /\ cur_row t3 = sc_row e /\ tpen t3 = tpen t /\ org t3 = org t /\ awm t3 = awm t /\ pend t3 = false /\ cur_col t3 < cols t3 /\ cur_row t3 < rows t3 /\ cur_col t3 <= viscol t /\ cur_row t3 <= cur_row t.
Proof. exact C17_roundtrip_run. Qed.
Check C17_round_trip_resized : forall t fsave t1 os t2 frest t3, TInv t -> is_save fsave -> execute t fsave = Ok t1 -> forallb rop_ok os = true -> rrun os t1 = Ok t2 -> no_save_reset_on (active t) (active t1) os = true -> active t2 = active t -> is_restore frest -> execute t2 frest = Ok t3 -> let e := run_ctx (active t) (active t1) (cols t) (rows t) (spec_saved_now t) os in cur_col t3 = sc_col e /\ cur_row t3 = sc_row e /\ tpen t3 = tpen t /\ org t3 = org t /\ awm t3 = awm t /\ pend t3 = false /\ cur_col t3 < cols t3 /\ cur_row t3 < rows t3 /\ cur_col t3 <= viscol t /\ cur_row t3 <= cur_row t.
Print Assumptions C17_round_trip_resized.

(** a whole ?1049h ... ?1049l excursion *)
Theorem C17_round_trip_1049 : forall t t1 fs t2 t3, TInv t -> active t = Primary -> execute t (Decset [SaveCursorAltScreenBuffer]) = Ok t1 -> rrun (map RF fs) t1 = Ok t2 -> no_save_reset_on Primary Alternate (map RF fs) = true -> execute t2 (Decrst [SaveCursorAltScreenBuffer]) = Ok t3 -> active t1 = Alternate /\ active t3 = Primary /\ cur_col t3 = viscol t /\ cur_row t3 = cur_row t /\ tpen t3 = tpen t /\ org t3 = org t /\ awm t3 = awm t /\ pend t3 = false.
Proof. exact C17_roundtrip_1049. Qed.
Check C17_round_trip_1049 : forall t t1 fs t2 t3, TInv t -> active t = Primary -> execute t (Decset [SaveCursorAltScreenBuffer]) = Ok t1 -> rrun (map RF fs) t1 = Ok t2 -> no_save_reset_on Primary Alternate (map RF fs) = true -> execute t2 (Decrst [SaveCursorAltScreenBuffer]) = Ok t3 -> active t1 = Alternate /\ active t3 = Primary /\ cur_col t3 = viscol t /\ cur_row t3 = cur_row t /\ tpen t3 = tpen t /\ org t3 = org t /\ awm t3 = awm t /\ pend t3 = false.
Print Assumptions C17_round_trip_1049.

(** ?1049l and BOTH screens' saved contexts *)
Theorem C17_1049_leave : forall t t', TInv t -> execute t (Decrst [SaveCursorAltScreenBuffer]) = Ok t' -> active t' = Primary /\ cols t' = cols t /\ rows t' = rows t /\ saved_of t' Primary = clamp_ctx (saved_of t Primary) (cols t) (rows t) /\ saved_of t' Alternate = saved_of t Alternate /\ (active t = Primary -> saved_of t' Primary = saved_of t Primary).
Proof. exact C17_1049l. Qed.
Check C17_1049_leave : forall t t', TInv t -> execute t (Decrst [SaveCursorAltScreenBuffer]) = Ok t' -> active t' = Primary /\ cols t' = cols t /\ rows t' = rows t /\ saved_of t' Primary = clamp_ctx (saved_of t Primary) (cols t) (rows t) /\ saved_of t' Alternate = saved_of t Alternate /\ (active t = Primary -> saved_of t' Primary = saved_of t Primary).
Print Assumptions C17_1049_leave.

(** "or the power-on defaults if nothing was saved": any run from a fresh terminal without a save on the screen shown at the end *)
Theorem C17_unsaved : forall c r l s os t2 f t3, 1 <= c -> 1 <= r -> forallb rop_ok os = true -> rrun os (vterm (vt_new c r l)) = Ok t2 -> no_save_on s Primary os = true -> active t2 = s -> is_restore f -> execute t2 f = Ok t3 -> cur_col t3 = 0 /\ cur_row t3 = 0 /\ tpen t3 = default_pen /\ org t3 = false /\ awm t3 = true /\ pend t3 = false.
Proof. exact C17_restore_unsaved_new. Qed.
Check C17_unsaved : forall c r l s os t2 f t3, 1 <= c -> 1 <= r -> forallb rop_ok os = true -> rrun os (vterm (vt_new c r l)) = Ok t2 -> no_save_on s Primary os = true -> active t2 = s -> is_restore f -> execute t2 f = Ok t3 -> cur_col t3 = 0 /\ cur_row t3 = 0 /\ tpen t3 = default_pen /\ org t3 = false /\ awm t3 = true /\ pend t3 = false.
Print Assumptions C17_unsaved.

(** KNOWN DEVIATION from the literal quantifier (KF-C17-1): a soft reset between save and restore RESETS the saved context of the shown screen (DEC STD 070 / xterm behaviour), so the restore yields the power-on defaults *)
Theorem C17_decstr : forall t fsave t1 t2 frest t3, match fsave with Decsc | Scosc | Decset [SaveCursor] => True | _ => False end -> execute t fsave = Ok t1 -> execute t1 Decstr = Ok t2 -> is_restore frest -> execute t2 frest = Ok t3 -> cur_col t3 = 0 /\ cur_row t3 = 0 /\ tpen t3 = default_pen /\ org t3 = false /\ awm t3 = true /\ pend t3 = false.
Proof. exact C17_decstr_resets_saved. Qed.
Check C17_decstr : forall t fsave t1 t2 frest t3, match fsave with Decsc | Scosc | Decset [SaveCursor] => True | _ => False end -> execute t fsave = Ok t1 -> execute t1 Decstr = Ok t2 -> is_restore frest -> execute t2 frest = Ok t3 -> cur_col t3 = 0 /\ cur_row t3 = 0 /\ tpen t3 = default_pen /\ org t3 = false /\ awm t3 = true /\ pend t3 = false.
Print Assumptions C17_decstr.

From Avt Require Import Oracles.KFClasses Proofs.ModeSem Proofs.Audit2Misc.
(** Proofs/Audit2Misc.v (second statement audit): the remaining spellings; KF-C17-1 as a class *)
(** known finding KF-C17-1 with a Coq-defined class (Oracles/KFClasses.v `kf1_C17`: DECSTR while the shown screen has a non-default saved context): inside the class a following restore re-establishes the power-on defaults, NOT the saved context *)
Theorem C17_known_finding : forall pre f t1 frest t3, kf1_C17 pre f = true -> execute (vterm pre) f = Ok t1 -> is_restore frest -> execute t1 frest = Ok t3 -> f = Decstr /\ sctx (vterm pre) <> default_ctx /\ cur_col t3 = 0 /\ cur_row t3 = 0 /\ tpen t3 = default_pen /\ org t3 = false /\ awm t3 = true /\ pend t3 = false /\ ctx_eqb (mkCtx (cur_col t3) (cur_row t3) (tpen t3) (org t3) (awm t3)) (sctx (vterm pre)) = false.
Proof. exact C17_kf1_exact. Qed.
Check C17_known_finding : forall pre f t1 frest t3, kf1_C17 pre f = true -> execute (vterm pre) f = Ok t1 -> is_restore frest -> execute t1 frest = Ok t3 -> f = Decstr /\ sctx (vterm pre) <> default_ctx /\ cur_col t3 = 0 /\ cur_row t3 = 0 /\ tpen t3 = default_pen /\ org t3 = false /\ awm t3 = true /\ pend t3 = false /\ ctx_eqb (mkCtx (cur_col t3) (cur_row t3) (tpen t3) (org t3) (awm t3)) (sctx (vterm pre)) = false.
Print Assumptions C17_known_finding.

(** the round trip with the state-dependent hypothesis: no save, no RIS and no step IN THE CLASS while the saving screen is shown (a DECSTR that finds a default saved context is harmless) *)
Theorem C17_round_trip_outside_finding : forall p t fsave t1 os t2 frest t3, TInv t -> is_save fsave -> execute t fsave = Ok t1 -> forallb rop_ok os = true -> rrun os t1 = Ok t2 -> no_save_on (active t) (active t1) os = true -> has_ris os = false -> kf1_free p (active t) os t1 -> active t2 = active t -> is_restore frest -> execute t2 frest = Ok t3 -> let e := run_ctx_clamps (active t) (active t1) (cols t) (rows t) (spec_saved_now t) os in cur_col t3 = sc_col e /\ cur_row t3 = sc_row e /\ tpen t3 = tpen t /\ org t3 = org t /\ awm t3 = awm t /\ pend t3 = false /\ cur_col t3 < cols t3 /\ cur_row t3 < rows t3 /\ cur_col t3 <= viscol t /\ cur_row t3 <= cur_row t /\ (no_resize os = true -> cur_col t3 = viscol t /\ cur_row t3 = cur_row t).
Proof. exact C17_roundtrip_outside_kf1. Qed.
Check C17_round_trip_outside_finding : forall p t fsave t1 os t2 frest t3, TInv t -> is_save fsave -> execute t fsave = Ok t1 -> forallb rop_ok os = true -> rrun os t1 = Ok t2 -> no_save_on (active t) (active t1) os = true -> has_ris os = false -> kf1_free p (active t) os t1 -> active t2 = active t -> is_restore frest -> execute t2 frest = Ok t3 -> let e := run_ctx_clamps (active t) (active t1) (cols t) (rows t) (spec_saved_now t) os in cur_col t3 = sc_col e /\ cur_row t3 = sc_row e /\ tpen t3 = tpen t /\ org t3 = org t /\ awm t3 = awm t /\ pend t3 = false /\ cur_col t3 < cols t3 /\ cur_row t3 < rows t3 /\ cur_col t3 <= viscol t /\ cur_row t3 <= cur_row t /\ (no_resize os = true -> cur_col t3 = viscol t /\ cur_row t3 = cur_row t).
Print Assumptions C17_round_trip_outside_finding.

(** ?1049l as the restore spelling after ANY of the four save spellings *)
Theorem C17_round_trip_1049l : forall t fsave t1 os t2 t3, TInv t -> active t = Primary -> is_save fsave -> execute t fsave = Ok t1 -> forallb rop_ok os = true -> rrun os t1 = Ok t2 -> no_save_reset_on Primary (active t1) os = true -> execute t2 (Decrst [SaveCursorAltScreenBuffer]) = Ok t3 -> let e := run_ctx Primary (active t1) (cols t) (rows t) (spec_saved_now t) os in active t3 = Primary /\ tpen t3 = tpen t /\ org t3 = org t /\ awm t3 = awm t /\ pend t3 = false /\ cur_col t3 < cols t3 /\ cur_row t3 < rows t3 /\ (exists b, buf_resize (primary_buffer t2) (cols t2) (rows t2) (sc_col e) (sc_row e) = Ok (b, (cur_col t3, cur_row t3)) /\ buf t3 = b) /\ (bcols (primary_buffer t2) = cols t2 -> brows (primary_buffer t2) = rows t2 -> cur_col t3 = sc_col e /\ cur_row t3 = sc_row e) /\ (active t2 = Primary -> cur_col t3 = sc_col e /\ cur_row t3 = sc_row e) /\ sc_col e <= viscol t /\ sc_row e <= cur_row t /\ saved_of t3 Primary = clamp_ctx e (cols t2) (rows t2).
Proof. exact C17_roundtrip_run_1049l. Qed.
Check C17_round_trip_1049l : forall t fsave t1 os t2 t3, TInv t -> active t = Primary -> is_save fsave -> execute t fsave = Ok t1 -> forallb rop_ok os = true -> rrun os t1 = Ok t2 -> no_save_reset_on Primary (active t1) os = true -> execute t2 (Decrst [SaveCursorAltScreenBuffer]) = Ok t3 -> let e := run_ctx Primary (active t1) (cols t) (rows t) (spec_saved_now t) os in active t3 = Primary /\ tpen t3 = tpen t /\ org t3 = org t /\ awm t3 = awm t /\ pend t3 = false /\ cur_col t3 < cols t3 /\ cur_row t3 < rows t3 /\ (exists b, buf_resize (primary_buffer t2) (cols t2) (rows t2) (sc_col e) (sc_row e) = Ok (b, (cur_col t3, cur_row t3)) /\ buf t3 = b) /\ (bcols (primary_buffer t2) = cols t2 -> brows (primary_buffer t2) = rows t2 -> cur_col t3 = sc_col e /\ cur_row t3 = sc_row e) /\ (active t2 = Primary -> cur_col t3 = sc_col e /\ cur_row t3 = sc_row e) /\ sc_col e <= viscol t /\ sc_row e <= cur_row t /\ saved_of t3 Primary = clamp_ctx e (cols t2) (rows t2).
Print Assumptions C17_round_trip_1049l.

(** a save spelled inside a mode list (flag modes 1, 7, 25 around it) *)
Theorem C17_save_in_list : forall t ms1 m ms2 t1 os t2 frest t3, TInv t -> Forall quiet_mode ms1 -> Forall quiet_mode ms2 -> m = SaveCursor \/ m = SaveCursorAltScreenBuffer -> execute t (Decset (ms1 ++ m :: ms2)) = Ok t1 -> forallb rop_ok os = true -> rrun os t1 = Ok t2 -> no_save_reset_on (active t) (active t1) os = true -> active t2 = active t -> is_restore frest -> execute t2 frest = Ok t3 -> let e := run_ctx (active t) (active t1) (cols t) (rows t) (spec_saved_now (set_quiet ms1 true t)) os in cur_col t3 = sc_col e /\ cur_row t3 = sc_row e /\ tpen t3 = tpen t /\ org t3 = org t /\ awm t3 = (if has_mode AutoWrap ms1 then true else awm t) /\ pend t3 = false /\ cur_col t3 < cols t3 /\ cur_row t3 < rows t3 /\ cur_col t3 <= viscol t /\ cur_row t3 <= cur_row t.
Proof. exact C17_roundtrip_run_list. Qed.
Check C17_save_in_list : forall t ms1 m ms2 t1 os t2 frest t3, TInv t -> Forall quiet_mode ms1 -> Forall quiet_mode ms2 -> m = SaveCursor \/ m = SaveCursorAltScreenBuffer -> execute t (Decset (ms1 ++ m :: ms2)) = Ok t1 -> forallb rop_ok os = true -> rrun os t1 = Ok t2 -> no_save_reset_on (active t) (active t1) os = true -> active t2 = active t -> is_restore frest -> execute t2 frest = Ok t3 -> let e := run_ctx (active t) (active t1) (cols t) (rows t) (spec_saved_now (set_quiet ms1 true t)) os in cur_col t3 = sc_col e /\ cur_row t3 = sc_row e /\ tpen t3 = tpen t /\ org t3 = org t /\ awm t3 = (if has_mode AutoWrap ms1 then true else awm t) /\ pend t3 = false /\ cur_col t3 < cols t3 /\ cur_row t3 < rows t3 /\ cur_col t3 <= viscol t /\ cur_row t3 <= cur_row t.
Print Assumptions C17_save_in_list.

(** Proofs/C17Run.v: further statements (second statement audit) *)
(** the saved context of a screen along ANY run of functions and resizes without a save / DECSTR on that screen and without RIS is exactly `run_ctx` (the tracked clamps) *)
Theorem C17_saved_context_along_runs : forall b s os t1 t2, TInv t1 -> forallb rop_ok os = true -> rrun os t1 = Ok t2 -> safe_run b s (active t1) os = true -> TInv t2 /\ active t2 = run_active (active t1) os /\ (cols t2, rows t2) = run_size (cols t1) (rows t1) os /\ saved_of t2 s = run_ctx s (active t1) (cols t1) (rows t1) (saved_of t1 s) os.
Proof. exact C17_run_saved. Qed.
Check C17_saved_context_along_runs : forall b s os t1 t2, TInv t1 -> forallb rop_ok os = true -> rrun os t1 = Ok t2 -> safe_run b s (active t1) os = true -> TInv t2 /\ active t2 = run_active (active t1) os /\ (cols t2, rows t2) = run_size (cols t1) (rows t1) os /\ saved_of t2 s = run_ctx s (active t1) (cols t1) (rows t1) (saved_of t1 s) os.
Print Assumptions C17_saved_context_along_runs.

(** ?1049l while the primary screen is shown: both contexts untouched, a plain restore *)
Theorem C17_1049l_on_the_primary : forall t t', TInv t -> active t = Primary -> execute t (Decrst [SaveCursorAltScreenBuffer]) = Ok t' -> active t' = Primary /\ sctx t' = sctx t /\ asctx t' = asctx t /\ cur_col t' = sc_col (sctx t) /\ cur_row t' = sc_row (sctx t) /\ tpen t' = sc_pen (sctx t) /\ org t' = sc_origin (sctx t) /\ awm t' = sc_awm (sctx t) /\ pend t' = false.
Proof. exact C17_1049l_on_primary. Qed.
Check C17_1049l_on_the_primary : forall t t', TInv t -> active t = Primary -> execute t (Decrst [SaveCursorAltScreenBuffer]) = Ok t' -> active t' = Primary /\ sctx t' = sctx t /\ asctx t' = asctx t /\ cur_col t' = sc_col (sctx t) /\ cur_row t' = sc_row (sctx t) /\ tpen t' = sc_pen (sctx t) /\ org t' = sc_origin (sctx t) /\ awm t' = sc_awm (sctx t) /\ pend t' = false.
Print Assumptions C17_1049l_on_the_primary.

