(** Property C13 -- scrollback retention bounded (PARTIAL: the trim step; see DESIGN.md).
    Only pinned statements, closed by [exact], with their assumptions printed. *)
From Avt Require Import Model.Vt Proofs.Inv Proofs.BufScroll.

(** after the end-of-call trim the scrollback holds at most `hard = L + L/10` lines (exactly L after an actual trim) *)
Theorem C13_gc_bound : forall b b' d soft hard, BGeom b -> buf_gc b = Ok (b', d) -> blimit b = Some (soft, hard) -> (soft <= hard)%N -> trim_needed b = true -> (N.of_nat (sb_len b') <= hard)%N /\ ((hard < N.of_nat (sb_len b))%N -> N.of_nat (sb_len b') = soft /\ length d = sb_len b - N.to_nat soft) /\ (~ (hard < N.of_nat (sb_len b))%N -> lines b' = lines b /\ d = []).
Proof. exact buf_gc_bound. Qed.
Check C13_gc_bound : forall b b' d soft hard, BGeom b -> buf_gc b = Ok (b', d) -> blimit b = Some (soft, hard) -> (soft <= hard)%N -> trim_needed b = true -> (N.of_nat (sb_len b') <= hard)%N /\ ((hard < N.of_nat (sb_len b))%N -> N.of_nat (sb_len b') = soft /\ length d = sb_len b - N.to_nat soft) /\ (~ (hard < N.of_nat (sb_len b))%N -> lines b' = lines b /\ d = []).
Print Assumptions C13_gc_bound.

Theorem C13_limit_le : forall l s h, limit_of l = Some (s, h) -> (s <= h)%N.
Proof. exact limit_of_le. Qed.
Check C13_limit_le : forall l s h, limit_of l = Some (s, h) -> (s <= h)%N.
Print Assumptions C13_limit_le.
