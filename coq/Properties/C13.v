(** Property C13 -- scrollback retention is bounded by the configured limit.
    Only pinned statements, closed by [exact], with their assumptions printed. *)
From Avt Require Import Oracles.Step Proofs.Inv Proofs.BufScroll Proofs.InvTerm Proofs.InvStep.
From Avt Require Import Gen.VtFns Proofs.VtTie.
From Avt Require Import Gen.BufFns Proofs.BufTie.

(** For every size, every limit L and every session: after any feed_str / resize call has returned, lines() holds at most rows + L + L/10 lines (exactly rows when L = 0), and exactly the visible rows while the alternate screen is showing. *)
Theorem C13_run : forall c r l ops o v, 1 <= c -> 1 <= r -> Forall op_ok (ops ++ [o]) -> match o with Feed _ => False | _ => True end -> runM (vt_new c r l) (ops ++ [o]) = Ok v -> holds_C13 v = true.
Proof. exact C13_run_last. Qed.
Check C13_run : forall c r l ops o v, 1 <= c -> 1 <= r -> Forall op_ok (ops ++ [o]) -> match o with Feed _ => False | _ => True end -> runM (vt_new c r l) (ops ++ [o]) = Ok v -> holds_C13 v = true.
Print Assumptions C13_run.

(** the lazy-trim invariant (every growth site sets trim_needed) is preserved by every operation, and the end-of-call trim establishes the bound *)
Theorem C13_step : forall v o v' out, Inv v -> TInvL (vterm v) -> op_ok o -> stepM v o = Ok (v', out) -> match o with Feed _ => TInvL (vterm v') | _ => TInvL (vterm v') /\ holds_C13 v' = true end.
Proof. exact C13_bound. Qed.
Check C13_step : forall v o v' out, Inv v -> TInvL (vterm v) -> op_ok o -> stepM v o = Ok (v', out) -> match o with Feed _ => TInvL (vterm v') | _ => TInvL (vterm v') /\ holds_C13 v' = true end.
Print Assumptions C13_step.

Theorem C13_gc_bound : forall b b' d soft hard, BGeom b -> buf_gc b = Ok (b', d) -> blimit b = Some (soft, hard) -> (soft <= hard)%N -> trim_needed b = true -> (N.of_nat (sb_len b') <= hard)%N /\ ((hard < N.of_nat (sb_len b))%N -> N.of_nat (sb_len b') = soft /\ length d = sb_len b - N.to_nat soft) /\ (~ (hard < N.of_nat (sb_len b))%N -> lines b' = lines b /\ d = []).
Proof. exact buf_gc_bound. Qed.
Check C13_gc_bound : forall b b' d soft hard, BGeom b -> buf_gc b = Ok (b', d) -> blimit b = Some (soft, hard) -> (soft <= hard)%N -> trim_needed b = true -> (N.of_nat (sb_len b') <= hard)%N /\ ((hard < N.of_nat (sb_len b))%N -> N.of_nat (sb_len b') = soft /\ length d = sb_len b - N.to_nat soft) /\ (~ (hard < N.of_nat (sb_len b))%N -> lines b' = lines b /\ d = []).
Print Assumptions C13_gc_bound.

Theorem C13_limit_le : forall l s h, limit_of l = Some (s, h) -> (s <= h)%N.
Proof. exact limit_of_le. Qed.
Check C13_limit_le : forall l s h, limit_of l = Some (s, h) -> (s <= h)%N.
Print Assumptions C13_limit_le.

(** SOURCE TIE BY PROOF: the function is REGENERATED from the Rust source on every run (Gen/BufFns.v, translate/buf2coq.py: slice and Vec idioms into the model's list primitives, every Rust panic condition as a guard) and the hand-written model function is proved equal to it (=~ : equal up to the panic-site number) - an edit to the Rust function breaks this theorem (Buffer::gc / trim_scrollback: the `size > hard` test, `excess = size - soft`, `drain(..excess)`) *)
Theorem C13_source_gc : forall b, res_map drained (g_buffer_gc b) =~ buf_gc b.
Proof. exact tie_buffer_gc. Qed.
Check C13_source_gc : forall b, res_map drained (g_buffer_gc b) =~ buf_gc b.
Print Assumptions C13_source_gc.

(** Vt::resize = terminal.resize; changes(); gc() - regenerated skeleton *)
Theorem C13_source_resize : forall v c r, stepM v (Resize c r) = interp_skel g_feed_str_each (ASize c r) g_resize_skel v.
Proof. exact tie_resize. Qed.
Check C13_source_resize : forall v c r, stepM v (Resize c r) = interp_skel g_feed_str_each (ASize c r) g_resize_skel v.
Print Assumptions C13_source_resize.

(** Terminal::gc: which screen's drained lines are handed out is regenerated from the source (g_gc_select) *)
Theorem C13_source_term_gc : forall t, term_gc t = bind (buf_gc (buf t)) (fun '(b, dr) => Ok (t <| buf := b |>, g_gc_select (active t) (Some dr))).
Proof. exact tie_term_gc. Qed.
Check C13_source_term_gc : forall t, term_gc t = bind (buf_gc (buf t)) (fun '(b, dr) => Ok (t <| buf := b |>, g_gc_select (active t) (Some dr))).
Print Assumptions C13_source_term_gc.
