(** Property C19 -- RIS returns to the power-on state.
    Only pinned statements, closed by [exact], with their assumptions printed. *)
From Avt Require Import Oracles.Step Proofs.Inv Proofs.TermEasy Proofs.ParserInv Proofs.StepC19.

(** The regenerated [Terminal::hard_reset] assignment list, applied to any terminal, yields syntactically the terminal built by the regenerated [Terminal::new] for the same size and scrollback limit (every field, including the cursor-key mode). *)
Theorem C19_terminal : forall t, xtw t = false -> hard_reset_gen t = term_new_gen (cols t) (rows t) (sb_limit t).
Proof. exact hard_reset_is_new. Qed.
Check C19_terminal : forall t, xtw t = false -> hard_reset_gen t = term_new_gen (cols t) (rows t) (sb_limit t).
Print Assumptions C19_terminal.

(** ESC c fed to ANY state satisfying the invariant (any modes, alternate screen, parser inside any sequence or string) yields syntactically the state of a freshly built Vt: parser, terminal, both buffers, dirty flags. *)
Theorem C19_ris : forall v v1 v2, Inv v -> vt_feed v 27 = Ok v1 -> vt_feed v1 99 = Ok v2 -> v2 = vt_new (cols (vterm v)) (rows (vterm v)) (sb_limit (vterm v)).
Proof. exact ris_is_fresh. Qed.
Check C19_ris : forall v v1 v2, Inv v -> vt_feed v 27 = Ok v1 -> vt_feed v1 99 = Ok v2 -> v2 = vt_new (cols (vterm v)) (rows (vterm v)) (sb_limit (vterm v)).
Print Assumptions C19_ris.

(** ... and therefore reacts to every subsequent input exactly like the fresh one. *)
Theorem C19_future : forall v v1 v2 s, Inv v -> vt_feed v 27 = Ok v1 -> vt_feed v1 99 = Ok v2 -> feed_str v2 s = feed_str (vt_new (cols (vterm v)) (rows (vterm v)) (sb_limit (vterm v))) s.
Proof. exact ris_then_any. Qed.
Check C19_future : forall v v1 v2 s, Inv v -> vt_feed v 27 = Ok v1 -> vt_feed v1 99 = Ok v2 -> feed_str v2 s = feed_str (vt_new (cols (vterm v)) (rows (vterm v)) (sb_limit (vterm v))) s.
Print Assumptions C19_future.

(** from every parser state, ESC c emits RIS and leaves the initial parser *)
Theorem C19_anywhere : forall p, PInv p -> exists p1, feedM p 27 = Ok (p1, None) /\ feedM p1 99 = Ok (init_parser, Some Ris).
Proof. exact ris_from_anywhere. Qed.
Check C19_anywhere : forall p, PInv p -> exists p1, feedM p 27 = Ok (p1, None) /\ feedM p1 99 = Ok (init_parser, Some Ris).
Print Assumptions C19_anywhere.

(** the executable statement evaluated on the implementation is a theorem of the model *)
Theorem C19_statement : forall p t t', TInv t -> execute t Ris = Ok t' -> holds_C19 (mkVt p t) Ris (mkVt init_parser t') = true.
Proof. exact C19_holds. Qed.
Check C19_statement : forall p t t', TInv t -> execute t Ris = Ok t' -> holds_C19 (mkVt p t) Ris (mkVt init_parser t') = true.
Print Assumptions C19_statement.

From Avt Require Import Gen.AccFns Proofs.BufTie Proofs.ParserFnsTie Proofs.AccTie.
(** SOURCE TIE BY PROOF (translate/acc2coq.py -> Gen/AccFns.v): the public constructors and accessors are REGENERATED from the Rust source on every run and proved equal to the model's observation functions - the functions through which every theorem of this property reads the terminal *)
(** Terminal::new, field by field: the power-on state RIS is compared with *)
Theorem C19_source_terminal_new : forall c r l, g_terminal_new c r (option_map N.to_nat l) =~ okM (1 <=? r) (term_new_gen c r l).
Proof. exact tie_terminal_new. Qed.
Check C19_source_terminal_new : forall c r l, g_terminal_new c r (option_map N.to_nat l) =~ okM (1 <=? r) (term_new_gen c r l).
Print Assumptions C19_source_terminal_new.

(** Vt::cursor_key_app_mode *)
Theorem C19_source_ckm : forall v, g_vt_cursor_key_app_mode v = Ok (vt_ckm v).
Proof. exact tie_vt_cursor_key_app_mode. Qed.
Check C19_source_ckm : forall v, g_vt_cursor_key_app_mode v = Ok (vt_ckm v).
Print Assumptions C19_source_ckm.

