(** Property C19 -- RIS returns to the power-on state.
    Only pinned statements, closed by [exact], with their assumptions printed. *)
From Avt Require Import Oracles.Step Proofs.TermEasy.

(** The regenerated [Terminal::hard_reset] assignment list, applied to any terminal, yields syntactically the terminal built by the regenerated [Terminal::new] for the same size and scrollback limit (every field, including the cursor-key mode). *)
Theorem C19_terminal : forall t, xtw t = false -> hard_reset_gen t = term_new_gen (cols t) (rows t) (sb_limit t).
Proof. exact hard_reset_is_new. Qed.
Check C19_terminal : forall t, xtw t = false -> hard_reset_gen t = term_new_gen (cols t) (rows t) (sb_limit t).
Print Assumptions C19_terminal.
