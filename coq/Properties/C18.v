(** Property C18 -- tab stops.
    Only pinned statements, closed by [exact], with their assumptions printed. *)
From Avt Require Import Oracles.Step Proofs.Inv Proofs.Tabs Proofs.StepC18.
From Avt Require Import Gen.BufFns Proofs.BufTie.

Theorem C18_new : forall c k, is_stop (tabs_new c) k = default_stop c k.
Proof. exact tabs_new_spec. Qed.
Check C18_new : forall c k, is_stop (tabs_new c) k = default_stop c k.
Print Assumptions C18_new.

Theorem C18_set : forall l p k, sorted_lt l -> is_stop (tabs_set p l) k = is_stop l k || (k =? p).
Proof. exact tabs_set_spec. Qed.
Check C18_set : forall l p k, sorted_lt l -> is_stop (tabs_set p l) k = is_stop l k || (k =? p).
Print Assumptions C18_set.

Theorem C18_unset : forall l p k, sorted_lt l -> is_stop (tabs_unset p l) k = is_stop l k && negb (k =? p).
Proof. exact tabs_unset_spec. Qed.
Check C18_unset : forall l p k, sorted_lt l -> is_stop (tabs_unset p l) k = is_stop l k && negb (k =? p).
Print Assumptions C18_unset.

(** narrowing discards exactly the stops in the columns that disappear *)
Theorem C18_contract : forall l c' k, sorted_lt l -> is_stop (tabs_contract c' l) k = is_stop l k && (k <? c').
Proof. exact tabs_contract_spec. Qed.
Check C18_contract : forall l c' k, sorted_lt l -> is_stop (tabs_contract c' l) k = is_stop l k && (k <? c').
Print Assumptions C18_contract.

(** widening adds the default stops in the new columns - including the first new column when it is a multiple of 8 - and keeps every old stop *)
Theorem C18_expand : forall c c' l k, 1 <= c -> c <= c' -> TabsInv c l -> is_stop (tabs_expand c c' l) k = is_stop l k || ((c <=? k) && (k <? c') && (k mod 8 =? 0)).
Proof. exact tabs_expand_spec. Qed.
Check C18_expand : forall c c' l k, 1 <= c -> c <= c' -> TabsInv c l -> is_stop (tabs_expand c c' l) k = is_stop l k || ((c <=? k) && (k <? c') && (k mod 8 =? 0)).
Print Assumptions C18_expand.

Theorem C18_after : forall l pos n, sorted_lt l -> 1 <= n -> tabs_after l pos n = Ok (nth_error (stops_after l pos) (n - 1)).
Proof. exact tabs_after_spec. Qed.
Check C18_after : forall l pos n, sorted_lt l -> 1 <= n -> tabs_after l pos n = Ok (nth_error (stops_after l pos) (n - 1)).
Print Assumptions C18_after.

Theorem C18_before : forall l pos n, sorted_lt l -> 1 <= n -> tabs_before l pos n = Ok (nth_error (stops_before l pos) (n - 1)).
Proof. exact tabs_before_spec. Qed.
Check C18_before : forall l pos n, sorted_lt l -> 1 <= n -> tabs_before l pos n = Ok (nth_error (stops_before l pos) (n - 1)).
Print Assumptions C18_before.

(** a never-customised terminal has exactly the default stops of its current width after any resize *)
Theorem C18_fresh : forall c c', 1 <= c -> 1 <= c' -> tabs_resize c c' (tabs_new c) = tabs_new c'.
Proof. exact C18_fresh_resize. Qed.
Check C18_fresh : forall c c', 1 <= c -> 1 <= c' -> tabs_resize c c' (tabs_new c) = tabs_new c'.
Print Assumptions C18_fresh.

(** the executable statement evaluated on the implementation is a theorem of the model: HTS / CTC / TBC / RIS act on the stop set as specified, every other function leaves it alone *)
Theorem C18_statement : forall p p' t f t', TInv t -> execute t f = Ok t' -> holds_C18 (mkVt p t) f (mkVt p' t') = true.
Proof. exact C18_holds. Qed.
Check C18_statement : forall p p' t f t', TInv t -> execute t f = Ok t' -> holds_C18 (mkVt p t) f (mkVt p' t') = true.
Print Assumptions C18_statement.

(** resizing the terminal: surviving stops kept, disappearing columns' stops dropped, default stops added in the new columns; default tabs stay default *)
Theorem C18_resize_statement : forall p p' t c r t', TInv t -> 1 <= c -> 1 <= r -> term_resize t c r = Ok t' -> holds_C18_resize (mkVt p t) (mkVt p' t') = true /\ (tabs_are_default t = true -> tabs_are_default t' = true).
Proof. exact C18_resize_holds. Qed.
Check C18_resize_statement : forall p p' t c r t', TInv t -> 1 <= c -> 1 <= r -> term_resize t c r = Ok t' -> holds_C18_resize (mkVt p t) (mkVt p' t') = true /\ (tabs_are_default t = true -> tabs_are_default t' = true).
Print Assumptions C18_resize_statement.

(** SOURCE TIE BY PROOF: the function is REGENERATED from the Rust source on every run (Gen/BufFns.v, translate/buf2coq.py: slice and Vec idioms into the model's list primitives, every Rust panic condition as a guard) and the hand-written model function is proved equal to it (=~ : equal up to the panic-site number) - an edit to the Rust function breaks this theorem (Tabs::set) *)
Theorem C18_source_set : forall l pos, g_tabs_set l pos = Ok (tabs_set pos l).
Proof. exact tie_tabs_set. Qed.
Check C18_source_set : forall l pos, g_tabs_set l pos = Ok (tabs_set pos l).
Print Assumptions C18_source_set.

(** Tabs::unset (binary search: on the sorted vector of the invariant) *)
Theorem C18_source_unset : forall l pos, sorted_lt l -> g_tabs_unset l pos = Ok (tabs_unset pos l).
Proof. exact tie_tabs_unset. Qed.
Check C18_source_unset : forall l pos, sorted_lt l -> g_tabs_unset l pos = Ok (tabs_unset pos l).
Print Assumptions C18_source_unset.

(** Tabs::expand *)
Theorem C18_source_expand : forall l s e, g_tabs_expand l s e = Ok (tabs_expand s e l).
Proof. exact tie_tabs_expand. Qed.
Check C18_source_expand : forall l s e, g_tabs_expand l s e = Ok (tabs_expand s e l).
Print Assumptions C18_source_expand.

(** Tabs::contract *)
Theorem C18_source_contract : forall l pos, g_tabs_contract l pos = Ok (tabs_contract pos l).
Proof. exact tie_tabs_contract. Qed.
Check C18_source_contract : forall l pos, g_tabs_contract l pos = Ok (tabs_contract pos l).
Print Assumptions C18_source_contract.

(** Tabs::before *)
Theorem C18_source_before : forall l pos n, g_tabs_before l pos n =~ tabs_before l pos n.
Proof. exact tie_tabs_before. Qed.
Check C18_source_before : forall l pos n, g_tabs_before l pos n =~ tabs_before l pos n.
Print Assumptions C18_source_before.

(** Tabs::after *)
Theorem C18_source_after : forall l pos n, g_tabs_after l pos n =~ tabs_after l pos n.
Proof. exact tie_tabs_after. Qed.
Check C18_source_after : forall l pos n, g_tabs_after l pos n =~ tabs_after l pos n.
Print Assumptions C18_source_after.

(** Tabs::new *)
Theorem C18_source_new : forall c, g_tabs_new c = Ok (tabs_new c).
Proof. exact tie_tabs_new. Qed.
Check C18_source_new : forall c, g_tabs_new c = Ok (tabs_new c).
Print Assumptions C18_source_new.

From Avt Require Import Gen.TermFns Proofs.TermTie Proofs.TermTieW Proofs.TermTieX.
(** SOURCE TIE BY PROOF (translate/term2coq.py -> Gen/TermFns.v, W-mode): the method of `impl Terminal` is REGENERATED from src/terminal.rs on every run as a function over the scalar record `zt` and an abstract world behind the interface `zops` (recorded calls of the buffer / tabs / dirty-line primitives with their evaluated arguments, queries for tab stops / cells / charset translation); instantiated with the model's own primitives (`Om`) it is proved equal to the hand-written model function, panics included: the model performs exactly the primitive calls the Rust text performs - same arguments, order, marked rows, erase modes, case splits *)
(** Terminal::ctc *)
Theorem C18_source_terminal_ctc : forall t op, ZW t -> w_ctc Om (zabs t) (wabs t) op = wres (Ok (ctc t op)).
Proof. exact w_ctc_eq. Qed.
Check C18_source_terminal_ctc : forall t op, ZW t -> w_ctc Om (zabs t) (wabs t) op = wres (Ok (ctc t op)).
Print Assumptions C18_source_terminal_ctc.

(** Terminal::tbc *)
Theorem C18_source_terminal_tbc : forall t sc, ZW t -> w_tbc Om (zabs t) (wabs t) sc = wres (Ok (tbc t sc)).
Proof. exact w_tbc_eq. Qed.
Check C18_source_terminal_tbc : forall t sc, ZW t -> w_tbc Om (zabs t) (wabs t) sc = wres (Ok (tbc t sc)).
Print Assumptions C18_source_terminal_tbc.

(** Terminal::move_cursor_to_next_tab *)
Theorem C18_source_terminal_next_tab : forall t n, ZW t -> w_move_cursor_to_next_tab Om (zabs t) (wabs t) (Z.of_nat n) = wres (move_cursor_to_next_tab t n).
Proof. exact w_move_cursor_to_next_tab_eq. Qed.
Check C18_source_terminal_next_tab : forall t n, ZW t -> w_move_cursor_to_next_tab Om (zabs t) (wabs t) (Z.of_nat n) = wres (move_cursor_to_next_tab t n).
Print Assumptions C18_source_terminal_next_tab.

(** Terminal::move_cursor_to_prev_tab *)
Theorem C18_source_terminal_prev_tab : forall t n, ZW t -> w_move_cursor_to_prev_tab Om (zabs t) (wabs t) (Z.of_nat n) = wres (move_cursor_to_prev_tab t n).
Proof. exact w_move_cursor_to_prev_tab_eq. Qed.
Check C18_source_terminal_prev_tab : forall t n, ZW t -> w_move_cursor_to_prev_tab Om (zabs t) (wabs t) (Z.of_nat n) = wres (move_cursor_to_prev_tab t n).
Print Assumptions C18_source_terminal_prev_tab.

From Avt Require Import Proofs.StepC05.
(** a clause of C05's statement that this property's text contains and its check evaluates on the implementation *)
(** HT / CHT / CBT move to the n-th next / previous stop (evaluated as `C18.tab_moves`) *)
Theorem C18_tab_moves : forall p p' t f t', TInv t -> execute t f = Ok t' -> match f with Ht | Cht _ | Cbt _ => holds_C05 (mkVt p t) f (mkVt p' t') = true | _ => True end.
Proof. intros p p' t f t' HT E. destruct f; try exact I; exact (C05_holds p p' t _ t' HT E). Qed.
Check C18_tab_moves : forall p p' t f t', TInv t -> execute t f = Ok t' -> match f with Ht | Cht _ | Cbt _ => holds_C05 (mkVt p t) f (mkVt p' t') = true | _ => True end.
Print Assumptions C18_tab_moves.

