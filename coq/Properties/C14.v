(** Property C14 -- no scrolled-off line is lost, duplicated, reordered or altered.
    Only pinned statements, closed by [exact], with their assumptions printed. *)
From Avt Require Import Oracles.Rel Proofs.Inv Proofs.ParamDT Proofs.ParamChop Proofs.Collector Proofs.CollectorChunks.
From Avt Require Import Gen.BufFns Proofs.BufTie.

(** For every size, every limit L and every session of feed_str calls from the initial state without RIS (no resize) that ends on the primary screen: the lines handed out through Changes.scrollback over the session, followed by the final lines(), are exactly the lines() of the unlimited-scrollback run - same order, each once, cell for cell. *)
Theorem C14_stream : forall c r L ss vI outsI vL outsL, session_ris_free (vt_new c r None) ss -> run_session (vt_new c r None) ss = Ok (vI, outsI) -> run_session (vt_new c r (Some L)) ss = Ok (vL, outsL) -> active (vterm vL) = Primary -> concat (map o_drained outsL) ++ lines (buf (vterm vL)) = lines (buf (vterm vI)).
Proof. exact C14_stream. Qed.
Check C14_stream : forall c r L ss vI outsI vL outsL, session_ris_free (vt_new c r None) ss -> run_session (vt_new c r None) ss = Ok (vI, outsI) -> run_session (vt_new c r (Some L)) ss = Ok (vL, outsL) -> active (vterm vL) = Primary -> concat (map o_drained outsL) ++ lines (buf (vterm vL)) = lines (buf (vterm vI)).
Print Assumptions C14_stream.

(** the executable statement evaluated on pairs of implementation runs *)
Theorem C14_statement : forall c r L ss vI outsI vL outsL, session_ris_free (vt_new c r None) ss -> run_session (vt_new c r None) ss = Ok (vI, outsI) -> run_session (vt_new c r (Some L)) ss = Ok (vL, outsL) -> active (vterm vL) = Primary -> holds_C14 (concat (map o_drained outsL)) (lines (buf (vterm vL))) (lines (buf (vterm vI))) = true.
Proof. exact C14_stream_holds. Qed.
Check C14_statement : forall c r L ss vI outsI vL outsL, session_ris_free (vt_new c r None) ss -> run_session (vt_new c r None) ss = Ok (vI, outsI) -> run_session (vt_new c r (Some L)) ss = Ok (vL, outsL) -> active (vterm vL) = Primary -> holds_C14 (concat (map o_drained outsL)) (lines (buf (vterm vL))) (lines (buf (vterm vI))) = true.
Print Assumptions C14_statement.

(** nothing is lost at a report: what the trim removes from the primary is exactly what it hands out; alternate-screen lines are never handed out *)
Theorem C14_flush : forall t t1 ls t2 dr, changes t = (t1, ls) -> term_gc t1 = Ok (t2, dr) -> (active t = Primary -> lines (buf t) = dr ++ lines (buf t2)) /\ (active t = Alternate -> other t2 = other t /\ dr = []) /\ view (buf t2) = view (buf t).
Proof. exact C14_flush. Qed.
Check C14_flush : forall t t1 ls t2 dr, changes t = (t1, ls) -> term_gc t1 = Ok (t2, dr) -> (active t = Primary -> lines (buf t) = dr ++ lines (buf t2)) /\ (active t = Alternate -> other t2 = other t /\ dr = []) /\ view (buf t2) = view (buf t).
Print Assumptions C14_flush.

(** consequently util::TextCollector yields the same text for every scrollback limit (modulo trailing empty lines: an empty
    line handed out early cannot be taken back; flush() itself strips trailing empty lines) *)
Theorem C14_collector : forall c r L ss vI outsI vL outsL, session_ris_free (vt_new c r None) ss -> run_session (vt_new c r None) ss = Ok (vI, outsI) -> run_session (vt_new c r (Some L)) ss = Ok (vL, outsL) -> active (vterm vL) = Primary -> strip_empty_tail (collector_total outsL (lines (buf (vterm vL)))) = strip_empty_tail (collector_total outsI (lines (buf (vterm vI)))).
Proof. exact C14_collector. Qed.
Check C14_collector : forall c r L ss vI outsI vL outsL, session_ris_free (vt_new c r None) ss -> run_session (vt_new c r None) ss = Ok (vI, outsI) -> run_session (vt_new c r (Some L)) ss = Ok (vL, outsL) -> active (vterm vL) = Primary -> strip_empty_tail (collector_total outsL (lines (buf (vterm vL)))) = strip_empty_tail (collector_total outsI (lines (buf (vterm vI)))).
Print Assumptions C14_collector.

(** SOURCE TIE BY PROOF: the function is REGENERATED from the Rust source on every run (Gen/BufFns.v, translate/buf2coq.py: slice and Vec idioms into the model's list primitives, every Rust panic condition as a guard) and the hand-written model function is proved equal to it (=~ : equal up to the panic-site number) - an edit to the Rust function breaks this theorem (Buffer::gc / trim_scrollback) *)
Theorem C14_source_gc : forall b, res_map drained (g_buffer_gc b) =~ buf_gc b.
Proof. exact tie_buffer_gc. Qed.
Check C14_source_gc : forall b, res_map drained (g_buffer_gc b) =~ buf_gc b.
Print Assumptions C14_source_gc.

(** ... and for every chunking: any two limits, any two ways of cutting the same character stream *)
Theorem C14_collector_any : forall c r L1 L2 ss1 ss2 v1 outs1 v2 outs2, concat ss1 = concat ss2 -> session_ris_free (vt_new c r None) ss1 -> session_ris_free (vt_new c r None) ss2 -> run_session (vt_new c r L1) ss1 = Ok (v1, outs1) -> run_session (vt_new c r L2) ss2 = Ok (v2, outs2) -> active (vterm v1) = Primary -> strip_empty_tail (collector_total outs1 (lines (buf (vterm v1)))) = strip_empty_tail (collector_total outs2 (lines (buf (vterm v2)))).
Proof. exact C14_collector_any. Qed.
Check C14_collector_any : forall c r L1 L2 ss1 ss2 v1 outs1 v2 outs2, concat ss1 = concat ss2 -> session_ris_free (vt_new c r None) ss1 -> session_ris_free (vt_new c r None) ss2 -> run_session (vt_new c r L1) ss1 = Ok (v1, outs1) -> run_session (vt_new c r L2) ss2 = Ok (v2, outs2) -> active (vterm v1) = Primary -> strip_empty_tail (collector_total outs1 (lines (buf (vterm v1)))) = strip_empty_tail (collector_total outs2 (lines (buf (vterm v2)))).
Print Assumptions C14_collector_any.

From Avt Require Import Gen.RestFns Proofs.RestTie.
(** SOURCE TIE BY PROOF (translate/rest2coq.py -> Gen/RestFns.v): the Rust function is REGENERATED on every run (u8/u16/u32/char as N with exact casts, isize as Z with guards on `as usize`, loops as folds or fuelled fixpoints, every Rust panic condition as a guard) and the hand-written model function is proved equal to it (=~ : equal up to the panic-site number) *)
(** TextUnwrapper::flush regenerated *)
Theorem C14_source_unwrapper_flush : forall st, g_unwrapper_flush st = Ok (match st with [] => None | _ => Some st end).
Proof. exact tie_unwrapper_flush. Qed.
Check C14_source_unwrapper_flush : forall st, g_unwrapper_flush st = Ok (match st with [] => None | _ => Some st end).
Print Assumptions C14_source_unwrapper_flush.

(** TextCollector::flush regenerated (the `while` loop as a fuelled fixpoint; any sufficient fuel) *)
Theorem C14_source_collector_flush : forall fuel v st, length (lines (buf (vterm v))) + 1 < fuel -> g_collector_flush fuel (v, st) = Ok (collector_flush st (lines (buf (vterm v)))).
Proof. exact tie_collector_flush. Qed.
Check C14_source_collector_flush : forall fuel v st, length (lines (buf (vterm v))) + 1 < fuel -> g_collector_flush fuel (v, st) = Ok (collector_flush st (lines (buf (vterm v)))).
Print Assumptions C14_source_collector_flush.

From Avt Require Import Gen.AccFns Proofs.AccTie.
(** SOURCE TIE BY PROOF (translate/acc2coq.py -> Gen/AccFns.v) *)
(** TextCollector::feed_str: Vt::feed_str, then every drained scrollback line through the TextUnwrapper (the returned iterator taken as fully consumed) *)
Theorem C14_source_collector_feed_str : forall v st s, g_collector_feed_str feed_str (v, st) s = (x <- feed_str v s ;; Ok (collector_step st x)).
Proof. exact tie_collector_feed_str_model. Qed.
Check C14_source_collector_feed_str : forall v st s, g_collector_feed_str feed_str (v, st) s = (x <- feed_str v s ;; Ok (collector_step st x)).
Print Assumptions C14_source_collector_feed_str.

(** TextCollector::new *)
Theorem C14_source_collector_new : forall v, g_collector_new v = Ok (v, []).
Proof. exact tie_collector_new. Qed.
Check C14_source_collector_new : forall v, g_collector_new v = Ok (v, []).
Print Assumptions C14_source_collector_new.

From Avt Require Import Proofs.C12Lines.
(** Proofs/C12Lines.v (statement audit) *)
(** sessions that mix char-at-a-time feed() (which hands out nothing) with feed_str() calls, cut differently on the two sides: the lines drained by the feed_str calls followed by the final lines() are exactly the lines of the unlimited run, for every limit *)
Theorem C14_mixed_calls : forall c r L opsI opsL vI outsI vL outsL, no_resize opsI -> no_resize opsL -> feeds opsI = feeds opsL -> pris_free init_parser (feeds opsL) -> run_ops (vt_new c r None) opsI = Ok (vI, outsI) -> run_ops (vt_new c r L) opsL = Ok (vL, outsL) -> active (vterm vL) = Primary -> concat (map o_drained outsL) ++ lines (buf (vterm vL)) = lines (buf (vterm vI)).
Proof. exact C14_ops. Qed.
Check C14_mixed_calls : forall c r L opsI opsL vI outsI vL outsL, no_resize opsI -> no_resize opsL -> feeds opsI = feeds opsL -> pris_free init_parser (feeds opsL) -> run_ops (vt_new c r None) opsI = Ok (vI, outsI) -> run_ops (vt_new c r L) opsL = Ok (vL, outsL) -> active (vterm vL) = Primary -> concat (map o_drained outsL) ++ lines (buf (vterm vL)) = lines (buf (vterm vI)).
Print Assumptions C14_mixed_calls.

From Avt Require Import Proofs.C04Wrap Proofs.C07Wrap.
(** known finding KF-C14-1 (second statement audit): the collected texts can differ by trailing empty lines across limits -
    which is why C14_collector* state equality modulo `strip_empty_tail`; a reachable witness *)
Theorem C14_known_finding_witness : let calls := [CFeedStr [97]; CFeedStr [13; 10]; CFeedStr [13; 10]]%N in let one := [CFeedStr [97; 13; 10; 13; 10]]%N in collector_session (vt_new 2 1 (Some 0%N)) calls = Ok ([[]; [[97]]; [[]]]%N, []) /\ collector_session (vt_new 2 1 None) calls = Ok ([[]; []; []], [[97]]%N) /\ collected (vt_new 2 1 (Some 0%N)) calls = Ok [[97]; []]%N /\ collected (vt_new 2 1 None) calls = Ok [[97]]%N /\ collected (vt_new 2 1 (Some 0%N)) one = Ok [[97]; []]%N /\ collected (vt_new 2 1 None) one = Ok [[97]]%N /\ (match run_session (vt_new 2 1 (Some 0%N)) [[97]; [13; 10]; [13; 10]]%N, run_session (vt_new 2 1 None) [[97]; [13; 10]; [13; 10]]%N with | Ok (v0, outs0), Ok (vI, outsI) => collector_total outs0 (lines (buf (vterm v0))) = [[97]; []]%N /\ collector_total outsI (lines (buf (vterm vI))) = [[97]]%N | _, _ => False end).
Proof. exact C14_collector_trailing_empty_witness. Qed.
Check C14_known_finding_witness : let calls := [CFeedStr [97]; CFeedStr [13; 10]; CFeedStr [13; 10]]%N in let one := [CFeedStr [97; 13; 10; 13; 10]]%N in collector_session (vt_new 2 1 (Some 0%N)) calls = Ok ([[]; [[97]]; [[]]]%N, []) /\ collector_session (vt_new 2 1 None) calls = Ok ([[]; []; []], [[97]]%N) /\ collected (vt_new 2 1 (Some 0%N)) calls = Ok [[97]; []]%N /\ collected (vt_new 2 1 None) calls = Ok [[97]]%N /\ collected (vt_new 2 1 (Some 0%N)) one = Ok [[97]; []]%N /\ collected (vt_new 2 1 None) one = Ok [[97]]%N /\ (match run_session (vt_new 2 1 (Some 0%N)) [[97]; [13; 10]; [13; 10]]%N, run_session (vt_new 2 1 None) [[97]; [13; 10]; [13; 10]]%N with | Ok (v0, outs0), Ok (vI, outsI) => collector_total outs0 (lines (buf (vterm v0))) = [[97]; []]%N /\ collector_total outsI (lines (buf (vterm vI))) = [[97]]%N | _, _ => False end).
Print Assumptions C14_known_finding_witness.
