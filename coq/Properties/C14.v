(** Property C14 -- no scrolled-off line is lost, duplicated, reordered or altered.
    Only pinned statements, closed by [exact], with their assumptions printed. *)
From Avt Require Import Oracles.Rel Proofs.Inv Proofs.ParamDT Proofs.ParamChop Proofs.Collector.

(** For every size, every limit L and every session of feed_str calls from the initial state without RIS (no resize) that ends on the primary screen: the lines handed out through Changes.scrollback over the session, followed by the final lines(), are exactly the lines() of the unlimited-scrollback run - same order, each once, cell for cell. *)
Theorem C14_stream : forall c r L ss vI outsI vL outsL, session_ris_free (vt_new c r None) ss -> run_session (vt_new c r None) ss = Ok (vI, outsI) -> run_session (vt_new c r (Some L)) ss = Ok (vL, outsL) -> active (vterm vL) = Primary -> concat (map o_drained outsL) ++ lines (buf (vterm vL)) = lines (buf (vterm vI)).
Proof. exact C14_stream. Qed.
Check C14_stream : forall c r L ss vI outsI vL outsL, session_ris_free (vt_new c r None) ss -> run_session (vt_new c r None) ss = Ok (vI, outsI) -> run_session (vt_new c r (Some L)) ss = Ok (vL, outsL) -> active (vterm vL) = Primary -> concat (map o_drained outsL) ++ lines (buf (vterm vL)) = lines (buf (vterm vI)).
Print Assumptions C14_stream.

(** the executable statement evaluated on pairs of implementation runs *)
Theorem C14_statement : forall c r L ss vI outsI vL outsL, session_ris_free (vt_new c r None) ss -> run_session (vt_new c r None) ss = Ok (vI, outsI) -> run_session (vt_new c r (Some L)) ss = Ok (vL, outsL) -> active (vterm vL) = Primary -> holds_C14 (concat (map o_drained outsL)) (lines (buf (vterm vL))) (lines (buf (vterm vI))) = true.
Proof. exact C14_stream_holds. Qed.
Check C14_statement : forall c r L ss vI outsI vL outsL, session_ris_free (vt_new c r None) ss -> run_session (vt_new c r None) ss = Ok (vI, outsI) -> run_session (vt_new c r (Some L)) ss = Ok (vL, outsL) -> active (vterm vL) = Primary -> holds_C14 (concat (map o_drained outsL)) (lines (buf (vterm vL))) (lines (buf (vterm vI))) = true.
Print Assumptions C14_statement.

(** nothing is lost at a report: what the trim removes from the primary is exactly what it hands out; alternate-screen lines are never handed out *)
Theorem C14_flush : forall t t1 ls t2 dr, changes t = (t1, ls) -> term_gc t1 = Ok (t2, dr) -> (active t = Primary -> lines (buf t) = dr ++ lines (buf t2)) /\ (active t = Alternate -> other t2 = other t /\ dr = []) /\ view (buf t2) = view (buf t).
Proof. exact C14_flush. Qed.
Check C14_flush : forall t t1 ls t2 dr, changes t = (t1, ls) -> term_gc t1 = Ok (t2, dr) -> (active t = Primary -> lines (buf t) = dr ++ lines (buf t2)) /\ (active t = Alternate -> other t2 = other t /\ dr = []) /\ view (buf t2) = view (buf t).
Print Assumptions C14_flush.

(** consequently util::TextCollector yields the same text for every scrollback limit (modulo trailing empty lines: an empty
    line handed out early cannot be taken back; flush() itself strips trailing empty lines) *)
Theorem C14_collector : forall c r L ss vI outsI vL outsL, session_ris_free (vt_new c r None) ss -> run_session (vt_new c r None) ss = Ok (vI, outsI) -> run_session (vt_new c r (Some L)) ss = Ok (vL, outsL) -> active (vterm vL) = Primary -> strip_empty_tail (collector_total outsL (lines (buf (vterm vL)))) = strip_empty_tail (collector_total outsI (lines (buf (vterm vI)))).
Proof. exact C14_collector. Qed.
Check C14_collector : forall c r L ss vI outsI vL outsL, session_ris_free (vt_new c r None) ss -> run_session (vt_new c r None) ss = Ok (vI, outsI) -> run_session (vt_new c r (Some L)) ss = Ok (vL, outsL) -> active (vterm vL) = Primary -> strip_empty_tail (collector_total outsL (lines (buf (vterm vL)))) = strip_empty_tail (collector_total outsI (lines (buf (vterm vI)))).
Print Assumptions C14_collector.
