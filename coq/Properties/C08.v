(** Property C08 -- SGR attributes and colours.
    Only pinned statements, closed by [exact], with their assumptions printed. *)
From Avt Require Import Oracles.Step Proofs.Inv Proofs.Sgr Proofs.StepC06C08.
From Avt Require Import Gen.SgrFns Proofs.SgrTie.

(** C08.1 the SGR decoder of the model is the grammar of the property text, for every parameter array. *)
Theorem C08_decode : forall ps, sgr_ops ps = spec_sgr_params ps.
Proof. exact sgr_decode_spec_gen. Qed.
Check C08_decode : forall ps, sgr_ops ps = spec_sgr_params ps.
Print Assumptions C08_decode.

(** C08.2 each SGR operation acts on the public observations of the pen as specified. *)
Theorem C08_one : forall p op, observe (sgr_one p op) = spec_sgr_one (observe p) op.
Proof. exact sgr_one_observe. Qed.
Check C08_one : forall p op, observe (sgr_one p op) = spec_sgr_one (observe p) op.
Print Assumptions C08_one.

(** the pen is the left-to-right fold *)
Theorem C08_fold : forall ops p, observe (fold_left sgr_one ops p) = fold_left spec_sgr_one ops (observe p).
Proof. exact sgr_fold_observe. Qed.
Check C08_fold : forall ops p, observe (fold_left sgr_one ops p) = fold_left spec_sgr_one ops (observe p).
Print Assumptions C08_fold.

(** SGR changes the pen and nothing else *)
Theorem C08_execute : forall t ops, execute t (Sgr ops) = Ok (t <| tpen := fold_left sgr_one ops (tpen t) |>).
Proof. exact C08_execute_sgr. Qed.
Check C08_execute : forall t ops, execute t (Sgr ops) = Ok (t <| tpen := fold_left sgr_one ops (tpen t) |>).
Print Assumptions C08_execute.

(** no function other than SGR (and the restores / resets that are specified to) changes the pen *)
Theorem C08_pen_frame : forall p p' t f t', TInv t -> execute t f = Ok t' -> match f with Sgr _ => False | _ => True end -> holds_C08 (mkVt p t) f (mkVt p' t') = true.
Proof. exact C08_nonsgr_holds. Qed.
Check C08_pen_frame : forall p p' t f t', TInv t -> execute t f = Ok t' -> match f with Sgr _ => False | _ => True end -> holds_C08 (mkVt p t) f (mkVt p' t') = true.
Print Assumptions C08_pen_frame.

(** SOURCE TIE BY PROOF: one iteration of SgrOps::next (all 27 match arms with slice patterns and guards, in source order) is REGENERATED from src/parser.rs on every run (Gen/SgrFns.v) and the hand-written model step is proved equal to it, unconditionally *)
Theorem C08_source_sgr_next : forall p rest, g_sgr_step p rest = sgr_step p rest.
Proof. exact tie_sgr_step. Qed.
Check C08_source_sgr_next : forall p rest, g_sgr_step p rest = sgr_step p rest.
Print Assumptions C08_source_sgr_next.

(** ... hence the regenerated SGR decoder is the grammar of the property, for every parameter array *)
Theorem C08_source_decode : forall ps, g_sgr_go 0 ps = spec_sgr_params ps.
Proof. exact tie_sgr_decode_spec. Qed.
Check C08_source_decode : forall ps, g_sgr_go 0 ps = spec_sgr_params ps.
Print Assumptions C08_source_decode.

(** Terminal::sgr (18 arms) and the Pen bit methods, regenerated, equal the model *)
Theorem C08_source_sgr_one : forall p op, g_sgr_one p op = sgr_one p op.
Proof. exact tie_sgr_one. Qed.
Check C08_source_sgr_one : forall p op, g_sgr_one p op = sgr_one p op.
Print Assumptions C08_source_sgr_one.

From Avt Require Import Gen.AccFns Proofs.AccTie.
(** SOURCE TIE BY PROOF (translate/acc2coq.py -> Gen/AccFns.v): the public constructors and accessors are REGENERATED from the Rust source on every run and proved equal to the model's observation functions - the functions through which every theorem of this property reads the terminal *)
(** Cell::pen - the public accessor through which a printed cell reports its pen *)
Theorem C08_source_cell_pen : forall c, g_cell_pen c = Ok (cpen c).
Proof. exact tie_cell_pen. Qed.
Check C08_source_cell_pen : forall c, g_cell_pen c = Ok (cpen c).
Print Assumptions C08_source_cell_pen.

(** Cell::char *)
Theorem C08_source_cell_char : forall c, g_cell_char c = Ok (ch c).
Proof. exact tie_cell_char. Qed.
Check C08_source_cell_char : forall c, g_cell_char c = Ok (ch c).
Print Assumptions C08_source_cell_char.

From Avt Require Import Proofs.SpecPrint Proofs.StepC16.
(** clauses of other properties' statements that this property's text contains and its check evaluates on the implementation *)
(** "every cell printed ... afterwards reports exactly that pen": the cells REP writes carry the current pen (the REP specification, evaluated as `C08.rep_pen`) *)
Theorem C08_rep_pen : forall p p' t n t', TInv t -> execute t (Rep n) = Ok t' -> holds_C04 (mkVt p t) (Rep n) (mkVt p' t') = true.
Proof. intros p p' t n t'. exact (C04_holds p p' t (Rep n) t'). Qed.
Check C08_rep_pen : forall p p' t n t', TInv t -> execute t (Rep n) = Ok t' -> holds_C04 (mkVt p t) (Rep n) (mkVt p' t') = true.
Print Assumptions C08_rep_pen.

(** "every cell ... blanked afterwards": entering the alternate screen presents blanks in the current pen (evaluated as `C08.alt_entry_blank_pen`) *)
Theorem C08_alt_entry_blank_pen : forall p p' t ms t', TInv t -> execute t (Decset ms) = Ok t' -> holds_C16 (mkVt p t) (Decset ms) (mkVt p' t') = true.
Proof. intros p p' t ms t'. exact (C16_holds p p' t (Decset ms) t'). Qed.
Check C08_alt_entry_blank_pen : forall p p' t ms t', TInv t -> execute t (Decset ms) = Ok t' -> holds_C16 (mkVt p t) (Decset ms) (mkVt p' t') = true.
Print Assumptions C08_alt_entry_blank_pen.

