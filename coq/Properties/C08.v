(** Property C08 -- SGR attributes and colours.
    Only pinned statements, closed by [exact], with their assumptions printed. *)
From Avt Require Import Oracles.Step Proofs.Inv Proofs.Sgr Proofs.StepC06C08.
From Avt Require Import Gen.SgrFns Proofs.SgrTie.

(** C08.1 the SGR decoder of the model is the grammar of the property text, for every parameter array. *)
Theorem C08_decode : forall ps, sgr_ops ps = spec_sgr_params ps.
Proof. exact sgr_decode_spec_gen. Qed.
Check C08_decode : forall ps, sgr_ops ps = spec_sgr_params ps.
Print Assumptions C08_decode.

(** C08.2 each SGR operation acts on the public observations of the pen as specified. *)
Theorem C08_one : forall p op, observe (sgr_one p op) = spec_sgr_one (observe p) op.
Proof. exact sgr_one_observe. Qed.
Check C08_one : forall p op, observe (sgr_one p op) = spec_sgr_one (observe p) op.
Print Assumptions C08_one.

(** the pen is the left-to-right fold *)
Theorem C08_fold : forall ops p, observe (fold_left sgr_one ops p) = fold_left spec_sgr_one ops (observe p).
Proof. exact sgr_fold_observe. Qed.
Check C08_fold : forall ops p, observe (fold_left sgr_one ops p) = fold_left spec_sgr_one ops (observe p).
Print Assumptions C08_fold.

(** SGR changes the pen and nothing else *)
Theorem C08_execute : forall t ops, execute t (Sgr ops) = Ok (t <| tpen := fold_left sgr_one ops (tpen t) |>).
Proof. exact C08_execute_sgr. Qed.
Check C08_execute : forall t ops, execute t (Sgr ops) = Ok (t <| tpen := fold_left sgr_one ops (tpen t) |>).
Print Assumptions C08_execute.

(** no function other than SGR (and the restores / resets that are specified to) changes the pen *)
Theorem C08_pen_frame : forall p p' t f t', TInv t -> execute t f = Ok t' -> match f with Sgr _ => False | _ => True end -> holds_C08 (mkVt p t) f (mkVt p' t') = true.
Proof. exact C08_nonsgr_holds. Qed.
Check C08_pen_frame : forall p p' t f t', TInv t -> execute t f = Ok t' -> match f with Sgr _ => False | _ => True end -> holds_C08 (mkVt p t) f (mkVt p' t') = true.
Print Assumptions C08_pen_frame.

(** SOURCE TIE BY PROOF: one iteration of SgrOps::next (all 27 match arms with slice patterns and guards, in source order) is REGENERATED from src/parser.rs on every run (Gen/SgrFns.v) and the hand-written model step is proved equal to it, unconditionally *)
Theorem C08_source_sgr_next : forall p rest, g_sgr_step p rest = sgr_step p rest.
Proof. exact tie_sgr_step. Qed.
Check C08_source_sgr_next : forall p rest, g_sgr_step p rest = sgr_step p rest.
Print Assumptions C08_source_sgr_next.

(** ... hence the regenerated SGR decoder is the grammar of the property, for every parameter array *)
Theorem C08_source_decode : forall ps, g_sgr_go 0 ps = spec_sgr_params ps.
Proof. exact tie_sgr_decode_spec. Qed.
Check C08_source_decode : forall ps, g_sgr_go 0 ps = spec_sgr_params ps.
Print Assumptions C08_source_decode.

(** Terminal::sgr (18 arms) and the Pen bit methods, regenerated, equal the model *)
Theorem C08_source_sgr_one : forall p op, g_sgr_one p op = sgr_one p op.
Proof. exact tie_sgr_one. Qed.
Check C08_source_sgr_one : forall p op, g_sgr_one p op = sgr_one p op.
Print Assumptions C08_source_sgr_one.

From Avt Require Import Gen.AccFns Proofs.AccTie.
(** SOURCE TIE BY PROOF (translate/acc2coq.py -> Gen/AccFns.v): the public constructors and accessors are REGENERATED from the Rust source on every run and proved equal to the model's observation functions - the functions through which every theorem of this property reads the terminal *)
(** Cell::pen - the public accessor through which a printed cell reports its pen *)
Theorem C08_source_cell_pen : forall c, g_cell_pen c = Ok (cpen c).
Proof. exact tie_cell_pen. Qed.
Check C08_source_cell_pen : forall c, g_cell_pen c = Ok (cpen c).
Print Assumptions C08_source_cell_pen.

(** Cell::char *)
Theorem C08_source_cell_char : forall c, g_cell_char c = Ok (ch c).
Proof. exact tie_cell_char. Qed.
Check C08_source_cell_char : forall c, g_cell_char c = Ok (ch c).
Print Assumptions C08_source_cell_char.

From Avt Require Import Proofs.SpecPrint Proofs.StepC16.
(** clauses of other properties' statements that this property's text contains and its check evaluates on the implementation *)
(** "every cell printed ... afterwards reports exactly that pen": the cells REP writes carry the current pen (the REP specification, evaluated as `C08.rep_pen`) *)
Theorem C08_rep_pen : forall p p' t n t', TInv t -> execute t (Rep n) = Ok t' -> holds_C04 (mkVt p t) (Rep n) (mkVt p' t') = true.
Proof. intros p p' t n t'. exact (C04_holds p p' t (Rep n) t'). Qed.
Check C08_rep_pen : forall p p' t n t', TInv t -> execute t (Rep n) = Ok t' -> holds_C04 (mkVt p t) (Rep n) (mkVt p' t') = true.
Print Assumptions C08_rep_pen.

(** "every cell ... blanked afterwards": entering the alternate screen presents blanks in the current pen (evaluated as `C08.alt_entry_blank_pen`) *)
Theorem C08_alt_entry_blank_pen : forall p p' t ms t', TInv t -> execute t (Decset ms) = Ok t' -> holds_C16 (mkVt p t) (Decset ms) (mkVt p' t') = true.
Proof. intros p p' t ms t'. exact (C16_holds p p' t (Decset ms) t'). Qed.
Check C08_alt_entry_blank_pen : forall p p' t ms t', TInv t -> execute t (Decset ms) = Ok t' -> holds_C16 (mkVt p t) (Decset ms) (mkVt p' t') = true.
Print Assumptions C08_alt_entry_blank_pen.

From Avt Require Import Model.Parser Proofs.ParserInv Proofs.ParserSim Proofs.ParamsWritten Proofs.ParamsPrefixed.
(** Proofs/ParamsPrefixed.v (statement audit) *)
Local Open Scope N_scope.
(** the SGR branch of the executable statement holds_C08 (pen = fold of the decoded parameters, decoding = grammar), for every parser step that emits an SGR *)
Theorem C08_sgr_statement_pinned : forall p c p' t ops t', PInv p -> feedM p c = Ok (p', Some (Sgr ops)) -> execute t (Sgr ops) = Ok t' -> holds_C08 (mkVt p t) (Sgr ops) (mkVt p' t') = true.
Proof. exact C08_sgr_statement. Qed.
Check C08_sgr_statement_pinned : forall p c p' t ops t', PInv p -> feedM p c = Ok (p', Some (Sgr ops)) -> execute t (Sgr ops) = Ok t' -> holds_C08 (mkVt p t) (Sgr ops) (mkVt p' t') = true.
Print Assumptions C08_sgr_statement_pinned.

(** the grammar on the TEXT: any parameter text within the capacity followed by `m`, 7- or 8-bit CSI, from any parser state, emits Sgr of the specification's reading of the values as written *)
Theorem C08_sgr_from_text : forall (t : ptext) p, PInv p -> wf_text t -> hd 0 (render t) <> 58 -> runP p (155 :: render t ++ [109]) = Ok (mkParser Ground (written_block t) (written_cur t) None, [Sgr (spec_sgr (S (length (text_parts t))) (text_parts t))]) /\ runP p (27 :: 91 :: render t ++ [109]) = Ok (mkParser Ground (written_block t) (written_cur t) None, [Sgr (spec_sgr (S (length (text_parts t))) (text_parts t))]).
Proof. exact C08_sgr_text_grammar. Qed.
Check C08_sgr_from_text : forall (t : ptext) p, PInv p -> wf_text t -> hd 0 (render t) <> 58 -> runP p (155 :: render t ++ [109]) = Ok (mkParser Ground (written_block t) (written_cur t) None, [Sgr (spec_sgr (S (length (text_parts t))) (text_parts t))]) /\ runP p (27 :: 91 :: render t ++ [109]) = Ok (mkParser Ground (written_block t) (written_cur t) None, [Sgr (spec_sgr (S (length (text_parts t))) (text_parts t))]).
Print Assumptions C08_sgr_from_text.

(** 38;2;R;G;B = 38:2:R:G:B = 38:2::R:G:B *)
Theorem C08_rgb_spellings : forall (r g b : list N) p, PInv p -> numeral r -> numeral g -> numeral b -> digit_value r < 256 -> digit_value g < 256 -> digit_value b < 256 -> let ops := [Sgr [SetForegroundColor (RGB (digit_value r) (digit_value g) (digit_value b))]] in run_emit p (155 :: render (rgb_semicolons r g b) ++ [109]) = ops /\ run_emit p (155 :: render (rgb_colons r g b) ++ [109]) = ops /\ run_emit p (155 :: render (rgb_colons_cs r g b) ++ [109]) = ops /\ run_emit p (27 :: 91 :: render (rgb_semicolons r g b) ++ [109]) = ops /\ run_emit p (27 :: 91 :: render (rgb_colons r g b) ++ [109]) = ops /\ run_emit p (27 :: 91 :: render (rgb_colons_cs r g b) ++ [109]) = ops.
Proof. exact C08_sgr_rgb_spellings. Qed.
Check C08_rgb_spellings : forall (r g b : list N) p, PInv p -> numeral r -> numeral g -> numeral b -> digit_value r < 256 -> digit_value g < 256 -> digit_value b < 256 -> let ops := [Sgr [SetForegroundColor (RGB (digit_value r) (digit_value g) (digit_value b))]] in run_emit p (155 :: render (rgb_semicolons r g b) ++ [109]) = ops /\ run_emit p (155 :: render (rgb_colons r g b) ++ [109]) = ops /\ run_emit p (155 :: render (rgb_colons_cs r g b) ++ [109]) = ops /\ run_emit p (27 :: 91 :: render (rgb_semicolons r g b) ++ [109]) = ops /\ run_emit p (27 :: 91 :: render (rgb_colons r g b) ++ [109]) = ops /\ run_emit p (27 :: 91 :: render (rgb_colons_cs r g b) ++ [109]) = ops.
Print Assumptions C08_rgb_spellings.

Local Close Scope N_scope.

From Avt Require Import Proofs.Audit2Misc.
(** Proofs/Audit2Misc.v (second statement audit) *)
(** no other function changes the pen: DECRST of any list without 1048 / 1049 (origin, auto-wrap, the screen switches ...) leaves it alone *)
Theorem C08_decrst_keeps_pen : forall t ms t', TInv t -> no_save_modes ms = true -> execute t (Decrst ms) = Ok t' -> tpen t' = tpen t.
Proof. exact C08_decrst_pen. Qed.
Check C08_decrst_keeps_pen : forall t ms t', TInv t -> no_save_modes ms = true -> execute t (Decrst ms) = Ok t' -> tpen t' = tpen t.
Print Assumptions C08_decrst_keeps_pen.

(** DECSET never changes the pen (1048h / 1049h only SAVE it) *)
Theorem C08_decset_keeps_pen : forall t ms t', execute t (Decset ms) = Ok t' -> tpen t' = tpen t.
Proof. exact C08_decset_pen. Qed.
Check C08_decset_keeps_pen : forall t ms t', execute t (Decset ms) = Ok t' -> tpen t' = tpen t.
Print Assumptions C08_decset_keeps_pen.

(** XTWINOPS (CSI 8 ; r ; c t) is a no-op on every reachable state *)
Theorem C08_xtwinops : forall t op t', TInv t -> execute t (Xtwinops op) = Ok t' -> t' = t.
Proof. exact C08_xtwinops_noop. Qed.
Check C08_xtwinops : forall t op t', TInv t -> execute t (Xtwinops op) = Ok t' -> t' = t.
Print Assumptions C08_xtwinops.

