(** Property C12 -- the result is independent of how the input is chunked.
    Only pinned statements, closed by [exact], with their assumptions printed. *)
From Avt Require Import Oracles.Rel Proofs.Inv Proofs.ParamDT Proofs.ParamChop Proofs.ChunkSessions.
From Avt Require Import Gen.VtFns Proofs.VtTie.

(** Unlimited scrollback: feeding s1 ++ s2 in one call, or s1 and then s2 in two calls (cut anywhere, also inside an escape sequence), from any state satisfying the invariant whose parked buffer has the current geometry, ends in states with equal parsers, equal visible screens, cursors, modes, and equal lines() - on the primary and on the alternate screen, RIS allowed. (By induction any chunking; limited scrollback: see C12_dirty_trim_irrelevant and DESIGN.md.) *)
Theorem C12_chunks : forall v s1 s2 va oa v1 o1 vb ob, TInv (vterm v) -> parked_ok (vterm v) -> sb_limit (vterm v) = None -> feed_str v (s1 ++ s2) = Ok (va, oa) -> feed_str v s1 = Ok (v1, o1) -> feed_str v1 s2 = Ok (vb, ob) -> holds_C12 va vb = true.
Proof. exact C12_chunks_holds. Qed.
Check C12_chunks : forall v s1 s2 va oa v1 o1 vb ob, TInv (vterm v) -> parked_ok (vterm v) -> sb_limit (vterm v) = None -> feed_str v (s1 ++ s2) = Ok (va, oa) -> feed_str v s1 = Ok (v1, o1) -> feed_str v1 s2 = Ok (vb, ob) -> holds_C12 va vb = true.
Print Assumptions C12_chunks.

(** No control function reads the dirty flags or the lazy-trim flags: two terminals differing only there stay so (any scrollback limit, no invariant needed). *)
Theorem C12_dirty_trim_irrelevant : forall a b f a', Rdt a b -> execute a f = Ok a' -> exists b', execute b f = Ok b' /\ Rdt a' b'.
Proof. exact execute_Rdt. Qed.
Check C12_dirty_trim_irrelevant : forall a b f a', Rdt a b -> execute a f = Ok a' -> exists b', execute b f = Ok b' /\ Rdt a' b'.
Print Assumptions C12_dirty_trim_irrelevant.

(** No control function reads the rows above the view: executing on a terminal whose scrollbacks were cut by any prefixes gives the cut result (this is what makes the end-of-call trim invisible to later input, for every limit). *)
Theorem C12_no_function_reads_scrollback : forall t f k k' t', TInv t -> parked_ok t -> k <= sb_len (buf t) -> k' <= sb_len (other t) -> execute t f = Ok t' -> exists k1 k1', execute (chop2 k k' t) f = Ok (chop2 k1 k1' t') /\ k1 <= sb_len (buf t') /\ k1' <= sb_len (other t') /\ (is_ris f = false -> kP t' k1 k1' = kP t k k').
Proof. exact execute_chop. Qed.
Check C12_no_function_reads_scrollback : forall t f k k' t', TInv t -> parked_ok t -> k <= sb_len (buf t) -> k' <= sb_len (other t) -> execute t f = Ok t' -> exists k1 k1', execute (chop2 k k' t) f = Ok (chop2 k1 k1' t') /\ k1 <= sb_len (buf t') /\ k1' <= sb_len (other t') /\ (is_ris f = false -> kP t' k1 k1' = kP t k k').
Print Assumptions C12_no_function_reads_scrollback.

Theorem C12_flush : forall v v' o, sb_limit (vterm v) = None -> TInv (vterm v) -> active (vterm v) = Primary -> vt_flush v = Ok (v', o) -> Rdt (vterm v) (vterm v') /\ vparser v' = vparser v /\ o_drained o = [].
Proof. exact flush_unlimited. Qed.
Check C12_flush : forall v v' o, sb_limit (vterm v) = None -> TInv (vterm v) -> active (vterm v) = Primary -> vt_flush v = Ok (v', o) -> Rdt (vterm v) (vterm v') /\ vparser v' = vparser v /\ o_drained o = [].
Print Assumptions C12_flush.

(** EVERY scrollback limit: any two ways of cutting the same character stream into feed_str calls (empty chunks, cuts inside
    escape sequences, RIS allowed), from any state satisfying the invariant, end with equal parsers and the same visible screen,
    cursor, modes, margins, tabs, charsets and saved contexts ([Rvis]: every scalar field, view + geometry of the active buffer,
    and of the parked primary while the alternate screen shows) *)
Theorem C12_sessions : forall v ss1 ss2 v1 o1 v2 o2, TInv (vterm v) -> parked_ok (vterm v) -> concat ss1 = concat ss2 -> run_session v ss1 = Ok (v1, o1) -> run_session v ss2 = Ok (v2, o2) -> vparser v1 = vparser v2 /\ Rvis (vterm v1) (vterm v2).
Proof. exact C12_sessions_from. Qed.
Check C12_sessions : forall v ss1 ss2 v1 o1 v2 o2, TInv (vterm v) -> parked_ok (vterm v) -> concat ss1 = concat ss2 -> run_session v ss1 = Ok (v1, o1) -> run_session v ss2 = Ok (v2, o2) -> vparser v1 = vparser v2 /\ Rvis (vterm v1) (vterm v2).
Print Assumptions C12_sessions.

(** feed() one character at a time (no end-of-call work at all) against any feed_str chunking: same parser, same visible
    state. (lines() on the alternate screen is NOT claimed: known finding KF-C12-1.) *)
Theorem C12_perchar : forall v0 s ss u v o, TInv (vterm v0) -> parked_ok (vterm v0) -> feed_chars v0 s = Ok u -> run_session v0 ss = Ok (v, o) -> concat ss = s -> vparser u = vparser v /\ Rvis (vterm u) (vterm v).
Proof. exact C12_perchar_from. Qed.
Check C12_perchar : forall v0 s ss u v o, TInv (vterm v0) -> parked_ok (vterm v0) -> feed_chars v0 s = Ok u -> run_session v0 ss = Ok (v, o) -> concat ss = s -> vparser u = vparser v /\ Rvis (vterm u) (vterm v).
Print Assumptions C12_perchar.

(** unlimited scrollback: additionally the same lines() - the full executable statement *)
Theorem C12_sessions_unlimited : forall c r ss1 ss2 v1 o1 v2 o2, concat ss1 = concat ss2 -> run_session (vt_new c r None) ss1 = Ok (v1, o1) -> run_session (vt_new c r None) ss2 = Ok (v2, o2) -> holds_C12 v1 v2 = true.
Proof. exact C12_sessions_unlimited. Qed.
Check C12_sessions_unlimited : forall c r ss1 ss2 v1 o1 v2 o2, concat ss1 = concat ss2 -> run_session (vt_new c r None) ss1 = Ok (v1, o1) -> run_session (vt_new c r None) ss2 = Ok (v2, o2) -> holds_C12 v1 v2 = true.
Print Assumptions C12_sessions_unlimited.

(** SOURCE TIE BY PROOF: the call skeleton of Vt::feed_str (for each char: parser.feed, execute if a function is returned; then changes(); then gc()) is regenerated from src/vt.rs and the model's feed_str is proved to be its interpretation *)
Theorem C12_source_feed_str : forall v s, feed_str v s = interp_skel g_feed_str_each (AStr s) g_feed_str_skel v.
Proof. exact tie_feed_str. Qed.
Check C12_source_feed_str : forall v s, feed_str v s = interp_skel g_feed_str_each (AStr s) g_feed_str_skel v.
Print Assumptions C12_source_feed_str.

(** Vt::feed is one step of it, with no end-of-call work *)
Theorem C12_source_feed : forall v c, stepM v (Feed c) = interp_skel g_feed_str_each (AChar c) g_feed_skel v.
Proof. exact tie_feed. Qed.
Check C12_source_feed : forall v c, stepM v (Feed c) = interp_skel g_feed_str_each (AChar c) g_feed_skel v.
Print Assumptions C12_source_feed.

From Avt Require Import Proofs.C12Lines.
(** Proofs/C12Lines.v (statement audit) *)
(** chunk independence from EVERY state satisfying the invariant - the hypothesis `parked_ok` of C12_sessions (no resize while the alternate screen shows) is discharged: no control function except the return to the primary screen and RIS reads the parked buffer *)
Theorem C12_sessions_every_state : forall v ss1 ss2 v1 o1 v2 o2, TInv (vterm v) -> concat ss1 = concat ss2 -> run_session v ss1 = Ok (v1, o1) -> run_session v ss2 = Ok (v2, o2) -> vparser v1 = vparser v2 /\ Rvis (vterm v1) (vterm v2).
Proof. exact C12_sessions_any. Qed.
Check C12_sessions_every_state : forall v ss1 ss2 v1 o1 v2 o2, TInv (vterm v) -> concat ss1 = concat ss2 -> run_session v ss1 = Ok (v1, o1) -> run_session v ss2 = Ok (v2, o2) -> vparser v1 = vparser v2 /\ Rvis (vterm v1) (vterm v2).
Print Assumptions C12_sessions_every_state.

(** char-at-a-time feed() vs any chunking, from every state *)
Theorem C12_perchar_every_state : forall v0 s ss u v o, TInv (vterm v0) -> feed_chars v0 s = Ok u -> run_session v0 ss = Ok (v, o) -> concat ss = s -> vparser u = vparser v /\ Rvis (vterm u) (vterm v).
Proof. exact C12_perchar_any. Qed.
Check C12_perchar_every_state : forall v0 s ss u v o, TInv (vterm v0) -> feed_chars v0 s = Ok u -> run_session v0 ss = Ok (v, o) -> concat ss = s -> vparser u = vparser v /\ Rvis (vterm u) (vterm v).
Print Assumptions C12_perchar_every_state.

(** unlimited scrollback, char-at-a-time feed(): the same lines() whenever the PRIMARY screen shows at the end - exactly the complement of KF-C12-1 (C12_perchar_lines_alt_refuted: on the alternate screen 6 lines vs 2) *)
Theorem C12_perchar_same_lines : forall v0 s ss u v o, TInv (vterm v0) -> sb_limit (vterm v0) = None -> feed_chars v0 s = Ok u -> run_session v0 ss = Ok (v, o) -> concat ss = s -> active (vterm u) = Primary -> lines (buf (vterm u)) = lines (buf (vterm v)).
Proof. exact C12_perchar_lines. Qed.
Check C12_perchar_same_lines : forall v0 s ss u v o, TInv (vterm v0) -> sb_limit (vterm v0) = None -> feed_chars v0 s = Ok u -> run_session v0 ss = Ok (v, o) -> concat ss = s -> active (vterm u) = Primary -> lines (buf (vterm u)) = lines (buf (vterm v)).
Print Assumptions C12_perchar_same_lines.

(** any two interleavings of feed() and feed_str() calls carrying the same characters *)
Theorem C12_mixed_calls : forall v0 ops1 ops2 v1 o1 v2 o2, TInv (vterm v0) -> no_resize ops1 -> no_resize ops2 -> feeds ops1 = feeds ops2 -> run_ops v0 ops1 = Ok (v1, o1) -> run_ops v0 ops2 = Ok (v2, o2) -> vparser v1 = vparser v2 /\ Rvis (vterm v1) (vterm v2).
Proof. exact C12_ops_any. Qed.
Check C12_mixed_calls : forall v0 ops1 ops2 v1 o1 v2 o2, TInv (vterm v0) -> no_resize ops1 -> no_resize ops2 -> feeds ops1 = feeds ops2 -> run_ops v0 ops1 = Ok (v1, o1) -> run_ops v0 ops2 = Ok (v2, o2) -> vparser v1 = vparser v2 /\ Rvis (vterm v1) (vterm v2).
Print Assumptions C12_mixed_calls.

