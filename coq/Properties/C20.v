(** Property C20 -- control strings and unimplemented sequences are inert.
    Only pinned statements, closed by [exact], with their assumptions printed. *)
From Avt Require Import Model.Parser Spec.Inert Proofs.Inv Proofs.ParserInv Proofs.ParserInert.

(** Every concatenation of OSC/DCS/SOS/PM/APC strings (7- and 8-bit introducers, ST / ESC \\ / BEL terminators, any payload), unimplemented CSI and ESC sequences and unassigned C0/C1 controls - as recognised by the grammar [inert_spec], outside the known-finding class [kf_c20] - emits no function from ANY parser in ground state and leaves it in ground state. (No function => the terminal is not touched: Vt::feed executes only emitted functions.) *)
Theorem C20_inert : forall s p, PInv p -> pst p = Ground -> inert_spec s = true -> kf_c20 s = false -> exists p', runP p s = Ok (p', []) /\ pst p' = Ground.
Proof. exact C20_inert. Qed.
Check C20_inert : forall s p, PInv p -> pst p = Ground -> inert_spec s = true -> kf_c20 s = false -> exists p', runP p s = Ok (p', []) /\ pst p' = Ground.
Print Assumptions C20_inert.

(** KF-C20-1 is real in the model: CSI > ! p is unimplemented by the grammar yet executes DECSTR. *)
Theorem C20_known_finding : inert_spec [155;62;33;112]%N = true /\ kf_c20 [155;62;33;112]%N = true /\ exists p', runP init_parser [155;62;33;112]%N = Ok (p', [Decstr]).
Proof. exact C20_kf_witness. Qed.
Check C20_known_finding : inert_spec [155;62;33;112]%N = true /\ kf_c20 [155;62;33;112]%N = true /\ exists p', runP init_parser [155;62;33;112]%N = Ok (p', [Decstr]).
Print Assumptions C20_known_finding.

From Avt Require Import Model.Vt Oracles.Step Proofs.C20Terminal.
(** terminal level (Proofs/C20Terminal.v): not only does the parser emit nothing - the terminal record is untouched *)
(** no cell, cursor, mode, margin, tab stop, saved context or dirty-line flag changes (Leibniz equality of the whole terminal record) and the parser is back in ground state *)
Theorem C20_terminal : forall v s, Inv v -> pst (vparser v) = Ground -> inert_spec s = true -> kf_c20 s = false -> exists v', feed_chars v s = Ok v' /\ vterm v' = vterm v /\ pst (vparser v') = Ground.
Proof. exact C20_terminal_inert. Qed.
Check C20_terminal : forall v s, Inv v -> pst (vparser v) = Ground -> inert_spec s = true -> kf_c20 s = false -> exists v', feed_chars v s = Ok v' /\ vterm v' = vterm v /\ pst (vparser v') = Ground.
Print Assumptions C20_terminal.

(** the executable statement the check evaluates on the implementation *)
Theorem C20_statement : forall v s v', Inv v -> kf_c20 s = false -> feed_chars v s = Ok v' -> holds_C20 v s v' = true.
Proof. exact C20_holds. Qed.
Check C20_statement : forall v s v', Inv v -> kf_c20 s = false -> feed_chars v s = Ok v' -> holds_C20 v s v' = true.
Print Assumptions C20_statement.

(** no changed line is reported: feed_str of an inert sequence returns exactly what feed_str of the empty string returns *)
Theorem C20_no_changed_line : forall v s, Inv v -> pst (vparser v) = Ground -> inert_spec s = true -> kf_c20 s = false -> exists v0 v1 o, feed_str v [] = Ok (v0, o) /\ feed_str v s = Ok (v1, o) /\ vterm v1 = vterm v0 /\ vparser v0 = vparser v /\ pst (vparser v1) = Ground.
Proof. exact C20_flush_unchanged. Qed.
Check C20_no_changed_line : forall v s, Inv v -> pst (vparser v) = Ground -> inert_spec s = true -> kf_c20 s = false -> exists v0 v1 o, feed_str v [] = Ok (v0, o) /\ feed_str v s = Ok (v1, o) /\ vterm v1 = vterm v0 /\ vparser v0 = vparser v /\ pst (vparser v1) = Ground.
Print Assumptions C20_no_changed_line.

(** from EVERY parser state (also in the middle of another sequence or string) when the inert sequence begins with ESC or a C1 control, which cancels whatever was in progress *)
Theorem C20_terminal_anywhere : forall v s, Inv v -> starts_with_introducer s = true -> inert_spec s = true -> kf_c20 s = false -> exists v', feed_chars v s = Ok v' /\ vterm v' = vterm v /\ pst (vparser v') = Ground.
Proof. exact C20_terminal_inert_anywhere. Qed.
Check C20_terminal_anywhere : forall v s, Inv v -> starts_with_introducer s = true -> inert_spec s = true -> kf_c20 s = false -> exists v', feed_chars v s = Ok v' /\ vterm v' = vterm v /\ pst (vparser v') = Ground.
Print Assumptions C20_terminal_anywhere.

Local Open Scope N_scope.
(** malformed shape, pinned: a private marker that is not in first position sends the whole sequence to CsiIgnore - nothing is dispatched *)
Theorem C20_marker_not_first : forall p intro x tail m body f, PInv p -> intro = [155] \/ intro = [27; 91] -> 48 <= x <= 63 -> x <> 58 -> Forall (rng 48 59) tail -> 60 <= m <= 63 -> Forall (rng 32 63) body -> 64 <= f <= 126 -> exists p', runP p (intro ++ x :: tail ++ m :: body ++ [f]) = Ok (p', []) /\ pst p' = Ground.
Proof. exact C20_csi_marker_not_first. Qed.
Check C20_marker_not_first : forall p intro x tail m body f, PInv p -> intro = [155] \/ intro = [27; 91] -> 48 <= x <= 63 -> x <> 58 -> Forall (rng 48 59) tail -> 60 <= m <= 63 -> Forall (rng 32 63) body -> 64 <= f <= 126 -> exists p', runP p (intro ++ x :: tail ++ m :: body ++ [f]) = Ok (p', []) /\ pst p' = Ground.
Print Assumptions C20_marker_not_first.
Local Close Scope N_scope.
