(** Property C20 -- control strings and unimplemented sequences are inert.
    Only pinned statements, closed by [exact], with their assumptions printed. *)
From Avt Require Import Model.Parser Spec.Inert Proofs.Inv Proofs.ParserInv Proofs.ParserInert.

(** Every concatenation of OSC/DCS/SOS/PM/APC strings (7- and 8-bit introducers, ST / ESC \\ / BEL terminators, any payload), unimplemented CSI and ESC sequences and unassigned C0/C1 controls - as recognised by the grammar [inert_spec], outside the known-finding class [kf_c20] - emits no function from ANY parser in ground state and leaves it in ground state. (No function => the terminal is not touched: Vt::feed executes only emitted functions.) *)
Theorem C20_inert : forall s p, PInv p -> pst p = Ground -> inert_spec s = true -> kf_c20 s = false -> exists p', runP p s = Ok (p', []) /\ pst p' = Ground.
Proof. exact C20_inert. Qed.
Check C20_inert : forall s p, PInv p -> pst p = Ground -> inert_spec s = true -> kf_c20 s = false -> exists p', runP p s = Ok (p', []) /\ pst p' = Ground.
Print Assumptions C20_inert.

(** KF-C20-1 is real in the model: CSI > ! p is unimplemented by the grammar yet executes DECSTR. *)
Theorem C20_known_finding : inert_spec [155;62;33;112]%N = true /\ kf_c20 [155;62;33;112]%N = true /\ exists p', runP init_parser [155;62;33;112]%N = Ok (p', [Decstr]).
Proof. exact C20_kf_witness. Qed.
Check C20_known_finding : inert_spec [155;62;33;112]%N = true /\ kf_c20 [155;62;33;112]%N = true /\ exists p', runP init_parser [155;62;33;112]%N = Ok (p', [Decstr]).
Print Assumptions C20_known_finding.
