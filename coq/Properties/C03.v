(** Property C03 -- the parser follows the DEC/ANSI state machine.
    Only pinned statements, closed by [exact], with their assumptions printed. *)
From Avt Require Import Model.Parser Spec.Williams Proofs.ParserTable.

(** C03.1  For every parser state and every input character (all of N, hence every Unicode
    scalar value) the next state, the kind of action and the entry action [clear] of the
    regenerated [Parser::feed] table agree with Williams' diagram + the four deviations. *)
Theorem C03_table : forall (s : pstate) (c : N), trans_model s c = williams s c.
Proof. exact parser_table_is_williams. Qed.
Check C03_table : forall (s : pstate) (c : N), trans_model s c = williams s c.
Print Assumptions C03_table.

Theorem C03_arms_wf : forall (s : pstate) (c : N), acts_wf (find_arm s (input2 c) feed_arms) = true.
Proof. exact parser_arms_wf. Qed.
Check C03_arms_wf : forall (s : pstate) (c : N), acts_wf (find_arm s (input2 c) feed_arms) = true.
Print Assumptions C03_arms_wf.
