(** Property C03 -- the parser follows the DEC/ANSI state machine.
    Only pinned statements, closed by [exact], with their assumptions printed. *)
From Avt Require Import Model.Parser Spec.Williams Proofs.Inv Proofs.ParserTable Proofs.ParserInv Proofs.ParserSim Spec.Functions Proofs.DispatchTable Oracles.Step Proofs.SpecParser.

(** C03.1  For every parser state and every input character (all of N, hence every Unicode scalar value) the next state, the kind of action and the entry action [clear] of the regenerated [Parser::feed] table agree with Williams' diagram + the four deviations. *)
Theorem C03_table : forall (s : pstate) (c : N), trans_model s c = williams s c.
Proof. exact parser_table_is_williams. Qed.
Check C03_table : forall (s : pstate) (c : N), trans_model s c = williams s c.
Print Assumptions C03_table.

Theorem C03_arms_wf : forall (s : pstate) (c : N), acts_wf (find_arm s (input2 c) feed_arms) = true.
Proof. exact parser_arms_wf. Qed.
Check C03_arms_wf : forall (s : pstate) (c : N), acts_wf (find_arm s (input2 c) feed_arms) = true.
Print Assumptions C03_arms_wf.

(** one step of the parser is exactly the table's transition + action (and never panics) *)
Theorem C03_feed : forall p c, PInv p -> feedM p c = Ok (feed_step p c, feed_emit p c).
Proof. exact feedM_char. Qed.
Check C03_feed : forall p c, PInv p -> feedM p c = Ok (feed_step p c, feed_emit p c).
Print Assumptions C03_feed.

Theorem C03_next_state : forall p c p' f, PInv p -> feedM p c = Ok (p', f) -> pst p' = t_next (williams (pst p) c).
Proof. exact feedM_next_state. Qed.
Check C03_next_state : forall p c p' f, PInv p -> feedM p c = Ok (p', f) -> pst p' = t_next (williams (pst p) c).
Print Assumptions C03_next_state.

Theorem C03_ignore : forall p c p' f, PInv p -> feedM p c = Ok (p', f) -> class_of (t_kind (williams (pst p) c)) = ClsIgnore -> f = None.
Proof. exact feedM_ignore_class. Qed.
Check C03_ignore : forall p c p' f, PInv p -> feedM p c = Ok (p', f) -> class_of (t_kind (williams (pst p) c)) = ClsIgnore -> f = None.
Print Assumptions C03_ignore.

(** a 7-bit ESC Fe acts exactly like its 8-bit C1 counterpart *)
Theorem C03_esc_fe : forall p c, PInv p -> (64 <= c <= 95)%N -> exists p1 p2 p3 f, feedM p 27 = Ok (p1, None) /\ feedM p1 c = Ok (p2, f) /\ feedM p (c + 64) = Ok (p3, f) /\ pst p2 = pst p3.
Proof. exact C03_esc_fe. Qed.
Check C03_esc_fe : forall p c, PInv p -> (64 <= c <= 95)%N -> exists p1 p2 p3 f, feedM p 27 = Ok (p1, None) /\ feedM p1 c = Ok (p2, f) /\ feedM p (c + 64) = Ok (p3, f) /\ pst p2 = pst p3.
Print Assumptions C03_esc_fe.

(** dispatch is independent of whatever was parsed before: two parsers in the same state (agreeing on the live parameters when inside a sequence) emit the same functions on every input; in particular any two parsers in ground state *)
Theorem C03_memoryless : forall s p q, PInv p -> PInv q -> psim p q -> exists p' q' fs, runP p s = Ok (p', fs) /\ runP q s = Ok (q', fs) /\ psim p' q'.
Proof. exact C03_memoryless_all. Qed.
Check C03_memoryless : forall s p q, PInv p -> PInv q -> psim p q -> exists p' q' fs, runP p s = Ok (p', fs) /\ runP q s = Ok (q', fs) /\ psim p' q'.
Print Assumptions C03_memoryless.

Theorem C03_ground : forall p q, pst p = Ground -> pst q = Ground -> psim p q.
Proof. exact psim_ground. Qed.
Check C03_ground : forall p q, pst p = Ground -> pst q = Ground -> psim p q.
Print Assumptions C03_ground.

(** C03.3  each implemented final byte yields its function with the parameters as written: the CSI / ESC / C0-C1 / mode
    tables regenerated from the source equal the hand-written function table of Spec/Functions.v, for every private marker
    or intermediate, every final byte (all of N) and every parameter array *)
Theorem C03_csi_table : forall inter fin ps cp, csi_dispatch_gen inter fin ps cp = csi_spec ps cp inter fin.
Proof. exact csi_table. Qed.
Check C03_csi_table : forall inter fin ps cp, csi_dispatch_gen inter fin ps cp = csi_spec ps cp inter fin.
Print Assumptions C03_csi_table.

Theorem C03_esc_table : forall inter fin, snd (esc_dispatch_gen inter fin) = esc_spec inter fin /\ (fst (esc_dispatch_gen inter fin) = None \/ fst (esc_dispatch_gen inter fin) = Some Ground).
Proof. exact esc_table. Qed.
Check C03_esc_table : forall inter fin, snd (esc_dispatch_gen inter fin) = esc_spec inter fin /\ (fst (esc_dispatch_gen inter fin) = None \/ fst (esc_dispatch_gen inter fin) = Some Ground).
Print Assumptions C03_esc_table.

Theorem C03_c0c1_table : forall c, execute_gen c = execute_spec c.
Proof. exact execute_table. Qed.
Check C03_c0c1_table : forall c, execute_gen c = execute_spec c.
Print Assumptions C03_c0c1_table.

Theorem C03_dec_modes : forall v, dec_mode_gen v = dec_mode_spec v.
Proof. exact dec_mode_table. Qed.
Check C03_dec_modes : forall v, dec_mode_gen v = dec_mode_spec v.
Print Assumptions C03_dec_modes.

Theorem C03_ansi_modes : forall v, ansi_mode_gen v = ansi_mode_spec v.
Proof. exact ansi_mode_table. Qed.
Check C03_ansi_modes : forall v, ansi_mode_gen v = ansi_mode_spec v.
Print Assumptions C03_ansi_modes.

(** the specification parser run on the implementation (Williams' diagram + the hand-written function table, no generated
    table involved) is, step for step, the model's parser *)
Theorem C03_spec_parser : forall p c, PInv p -> feedM p c = Ok (spec_feed p c).
Proof. exact spec_feed_is_feedM. Qed.
Check C03_spec_parser : forall p c, PInv p -> feedM p c = Ok (spec_feed p c).
Print Assumptions C03_spec_parser.

From Avt Require Import Proofs.ParamsWritten Gen.RestFns Proofs.BufTie Proofs.ParserFnsTie.
(** SOURCE TIE BY PROOF (translate/rest2coq.py -> Gen/RestFns.v): the Rust function is REGENERATED on every run (u8/u16/u32/char as N with exact casts, isize as Z with guards on `as usize`, loops as folds or fuelled fixpoints, every Rust panic condition as a guard) and the hand-written model function is proved equal to it (=~ : equal up to the panic-site number) *)
Local Open Scope N_scope.
(** C03.8 the parameters as written, for EVERY parameter text within the capacity (<= 32 parameters of <= 6 ':'-parts, any number of digits each) and from EVERY prior parser state, 7- and 8-bit introducer: slot i part j holds the decimal value mod 65536, missing = 0 (a leading ':' right after the introducer sends the sequence to CsiIgnore - excluded by the hypothesis, pinned by the example colon_first_is_ignored) *)
Theorem C03_params_written : forall (t : ptext) p, PInv p -> wf_text t -> hd 0 (render t) <> 58 -> exists p', runP p (155 :: render t) = Ok (p', []) /\ runP p (27 :: 91 :: render t) = Ok (p', []) /\ params p' = written_block t /\ cur_param p' = written_cur t /\ inter p' = None /\ pst p' = match render t with [] => CsiEntry | _ => CsiParam end.
Proof. exact C03_params_written_fresh. Qed.
Check C03_params_written : forall (t : ptext) p, PInv p -> wf_text t -> hd 0 (render t) <> 58 -> exists p', runP p (155 :: render t) = Ok (p', []) /\ runP p (27 :: 91 :: render t) = Ok (p', []) /\ params p' = written_block t /\ cur_param p' = written_cur t /\ inter p' = None /\ pst p' = match render t with [] => CsiEntry | _ => CsiParam end.
Print Assumptions C03_params_written.

(** C03.9 beyond the capacity, for texts of ANY length: further ';' / ':' are dropped and the digits run on into the last slot / part (spec_block) *)
Theorem C03_params_saturate : forall (t : ptext) p, PInv p -> digits_only t -> hd 0 (render t) <> 58 -> exists p', runP p (155 :: render t) = Ok (p', []) /\ runP p (27 :: 91 :: render t) = Ok (p', []) /\ params p' = spec_block t /\ cur_param p' = spec_cur t /\ inter p' = None /\ pst p' = match render t with [] => CsiEntry | _ => CsiParam end.
Proof. exact C03_params_saturate_fresh. Qed.
Check C03_params_saturate : forall (t : ptext) p, PInv p -> digits_only t -> hd 0 (render t) <> 58 -> exists p', runP p (155 :: render t) = Ok (p', []) /\ runP p (27 :: 91 :: render t) = Ok (p', []) /\ params p' = spec_block t /\ cur_param p' = spec_cur t /\ inter p' = None /\ pst p' = match render t with [] => CsiEntry | _ => CsiParam end.
Print Assumptions C03_params_saturate.

(** C03.10 every final byte after any parameter text dispatches exactly the function of the table on the block as written, parser back in Ground *)
Theorem C03_params_dispatch : forall (t : ptext) p c, PInv p -> wf_text t -> hd 0 (render t) <> 58 -> 64 <= c <= 126 -> exists p', runP p (155 :: render t ++ [c]) = Ok (p', opt_cons (csi_spec (written_block t) (written_cur t) None c) []) /\ runP p (27 :: 91 :: render t ++ [c]) = Ok (p', opt_cons (csi_spec (written_block t) (written_cur t) None c) []) /\ pst p' = Ground.
Proof. exact C03_params_written_dispatch. Qed.
Check C03_params_dispatch : forall (t : ptext) p c, PInv p -> wf_text t -> hd 0 (render t) <> 58 -> 64 <= c <= 126 -> exists p', runP p (155 :: render t ++ [c]) = Ok (p', opt_cons (csi_spec (written_block t) (written_cur t) None c) []) /\ runP p (27 :: 91 :: render t ++ [c]) = Ok (p', opt_cons (csi_spec (written_block t) (written_cur t) None c) []) /\ pst p' = Ground.
Print Assumptions C03_params_dispatch.

Local Close Scope N_scope.

(** Parser::param (';' / ':' / digit) regenerated *)
Theorem C03_source_param : forall p c, g_parser_param p c =~ paramM p c.
Proof. exact tie_parser_param. Qed.
Check C03_source_param : forall p c, g_parser_param p c =~ paramM p c.
Print Assumptions C03_source_param.

(** Parser::clear regenerated *)
Theorem C03_source_clear : forall p, g_parser_clear p =~ clearM p.
Proof. exact tie_parser_clear. Qed.
Check C03_source_clear : forall p, g_parser_clear p =~ clearM p.
Print Assumptions C03_source_clear.

(** Parser::collect regenerated *)
Theorem C03_source_collect : forall p c, g_parser_collect p c = Ok (collect p c).
Proof. exact tie_parser_collect. Qed.
Check C03_source_collect : forall p c, g_parser_collect p c = Ok (collect p c).
Print Assumptions C03_source_collect.

(** Param::add_digit regenerated (u32 arithmetic, `as u16` truncation) *)
Theorem C03_source_add_digit : forall p d, g_param_add_digit p d =~ okM (param_add_digit_ok p) (param_add_digit d p).
Proof. exact tie_param_add_digit. Qed.
Check C03_source_add_digit : forall p d, g_param_add_digit p d =~ okM (param_add_digit_ok p) (param_add_digit d p).
Print Assumptions C03_source_add_digit.

(** Param::add_part regenerated *)
Theorem C03_source_add_part : forall p, g_param_add_part p = Ok (param_add_part p).
Proof. exact tie_param_add_part. Qed.
Check C03_source_add_part : forall p, g_param_add_part p = Ok (param_add_part p).
Print Assumptions C03_source_add_part.

(** Param::clear regenerated *)
Theorem C03_source_param_clear : forall p, g_param_clear p =~ okM (param_clear_ok p) (param_clear p).
Proof. exact tie_param_clear. Qed.
Check C03_source_param_clear : forall p, g_param_clear p =~ okM (param_clear_ok p) (param_clear p).
Print Assumptions C03_source_param_clear.

(** Param::as_u16 regenerated (the model is total where the fixed array cannot be short: condition stated) *)
Theorem C03_source_as_u16 : forall p, g_param_as_u16 p =~ okM (0 <? length (parts p)) (as_u16 p).
Proof. exact tie_param_as_u16. Qed.
Check C03_source_as_u16 : forall p, g_param_as_u16 p =~ okM (0 <? length (parts p)) (as_u16 p).
Print Assumptions C03_source_as_u16.

(** Param::parts regenerated *)
Theorem C03_source_parts : forall p, g_param_parts p =~ okM (cur_part p <? length (parts p)) (pparts p).
Proof. exact tie_param_parts. Qed.
Check C03_source_parts : forall p, g_param_parts p =~ okM (cur_part p <? length (parts p)) (pparts p).
Print Assumptions C03_source_parts.

From Avt Require Import Proofs.ParamsPrefixed.
(** Proofs/ParamsPrefixed.v (statement audit) *)
Local Open Scope N_scope.
(** end to end from the characters WITH a private marker and / or intermediate bytes: every final byte emits exactly the function of the table for (block as written, last prefix byte), both introducers, from every parser state (the last of marker and intermediates wins: KF-C20-1 when there are two) *)
Theorem C03_params_dispatch_prefixed_text : forall (t : ptext) p mk js c, PInv p -> wf_text t -> marker_ok mk -> (mk = None -> hd 0 (render t) <> 58) -> Forall (fun i => 32 <= i <= 47) js -> 64 <= c <= 126 -> runP p (155 :: opt_list mk ++ render t ++ js ++ [c]) = Ok (mkParser Ground (written_block t) (written_cur t) (final_inter mk js), opt_cons (csi_spec (written_block t) (written_cur t) (final_inter mk js) c) []) /\ runP p (27 :: 91 :: opt_list mk ++ render t ++ js ++ [c]) = Ok (mkParser Ground (written_block t) (written_cur t) (final_inter mk js), opt_cons (csi_spec (written_block t) (written_cur t) (final_inter mk js) c) []).
Proof. exact C03_params_dispatch_prefixed. Qed.
Check C03_params_dispatch_prefixed_text : forall (t : ptext) p mk js c, PInv p -> wf_text t -> marker_ok mk -> (mk = None -> hd 0 (render t) <> 58) -> Forall (fun i => 32 <= i <= 47) js -> 64 <= c <= 126 -> runP p (155 :: opt_list mk ++ render t ++ js ++ [c]) = Ok (mkParser Ground (written_block t) (written_cur t) (final_inter mk js), opt_cons (csi_spec (written_block t) (written_cur t) (final_inter mk js) c) []) /\ runP p (27 :: 91 :: opt_list mk ++ render t ++ js ++ [c]) = Ok (mkParser Ground (written_block t) (written_cur t) (final_inter mk js), opt_cons (csi_spec (written_block t) (written_cur t) (final_inter mk js) c) []).
Print Assumptions C03_params_dispatch_prefixed_text.

(** CSI ? Pm h from the text *)
Theorem C03_decset_from_text : forall (t : ptext) p, PInv p -> wf_text t -> runP p (155 :: 63 :: render t ++ [104]) = Ok (mkParser Ground (written_block t) (written_cur t) (Some 63), [Decset (filter_map dec_mode_spec (first_values t))]) /\ runP p (27 :: 91 :: 63 :: render t ++ [104]) = Ok (mkParser Ground (written_block t) (written_cur t) (Some 63), [Decset (filter_map dec_mode_spec (first_values t))]).
Proof. exact C03_decset_text. Qed.
Check C03_decset_from_text : forall (t : ptext) p, PInv p -> wf_text t -> runP p (155 :: 63 :: render t ++ [104]) = Ok (mkParser Ground (written_block t) (written_cur t) (Some 63), [Decset (filter_map dec_mode_spec (first_values t))]) /\ runP p (27 :: 91 :: 63 :: render t ++ [104]) = Ok (mkParser Ground (written_block t) (written_cur t) (Some 63), [Decset (filter_map dec_mode_spec (first_values t))]).
Print Assumptions C03_decset_from_text.

(** CSI ! p from the text *)
Theorem C03_decstr_from_text : forall (t : ptext) p, PInv p -> wf_text t -> hd 0 (render t) <> 58 -> runP p (155 :: render t ++ [33; 112]) = Ok (mkParser Ground (written_block t) (written_cur t) (Some 33), [Decstr]) /\ runP p (27 :: 91 :: render t ++ [33; 112]) = Ok (mkParser Ground (written_block t) (written_cur t) (Some 33), [Decstr]).
Proof. exact C03_decstr_text. Qed.
Check C03_decstr_from_text : forall (t : ptext) p, PInv p -> wf_text t -> hd 0 (render t) <> 58 -> runP p (155 :: render t ++ [33; 112]) = Ok (mkParser Ground (written_block t) (written_cur t) (Some 33), [Decstr]) /\ runP p (27 :: 91 :: render t ++ [33; 112]) = Ok (mkParser Ground (written_block t) (written_cur t) (Some 33), [Decstr]).
Print Assumptions C03_decstr_from_text.

(** a 7-bit ESC Fe acts exactly like its 8-bit C1 counterpart also for everything that FOLLOWS: same emitted function and `psim`-related parsers (the relation of C03_memoryless) *)
Theorem C03_esc_fe_acts_alike : forall p c, PInv p -> 64 <= c <= 95 -> exists p1 p2 p3 f, feedM p 27 = Ok (p1, None) /\ feedM p1 c = Ok (p2, f) /\ feedM p (c + 64) = Ok (p3, f) /\ psim p2 p3 /\ PInv p2 /\ PInv p3.
Proof. exact C03_esc_fe_sim. Qed.
Check C03_esc_fe_acts_alike : forall p c, PInv p -> 64 <= c <= 95 -> exists p1 p2 p3 f, feedM p 27 = Ok (p1, None) /\ feedM p1 c = Ok (p2, f) /\ feedM p (c + 64) = Ok (p3, f) /\ psim p2 p3 /\ PInv p2 /\ PInv p3.
Print Assumptions C03_esc_fe_acts_alike.

Local Close Scope N_scope.
