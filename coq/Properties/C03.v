(** Property C03 -- the parser follows the DEC/ANSI state machine.
    Only pinned statements, closed by [exact], with their assumptions printed. *)
From Avt Require Import Model.Parser Spec.Williams Proofs.Inv Proofs.ParserTable Proofs.ParserInv Proofs.ParserSim Spec.Functions Proofs.DispatchTable Oracles.Step Proofs.SpecParser.

(** C03.1  For every parser state and every input character (all of N, hence every Unicode scalar value) the next state, the kind of action and the entry action [clear] of the regenerated [Parser::feed] table agree with Williams' diagram + the four deviations. *)
Theorem C03_table : forall (s : pstate) (c : N), trans_model s c = williams s c.
Proof. exact parser_table_is_williams. Qed.
Check C03_table : forall (s : pstate) (c : N), trans_model s c = williams s c.
Print Assumptions C03_table.

Theorem C03_arms_wf : forall (s : pstate) (c : N), acts_wf (find_arm s (input2 c) feed_arms) = true.
Proof. exact parser_arms_wf. Qed.
Check C03_arms_wf : forall (s : pstate) (c : N), acts_wf (find_arm s (input2 c) feed_arms) = true.
Print Assumptions C03_arms_wf.

(** one step of the parser is exactly the table's transition + action (and never panics) *)
Theorem C03_feed : forall p c, PInv p -> feedM p c = Ok (feed_step p c, feed_emit p c).
Proof. exact feedM_char. Qed.
Check C03_feed : forall p c, PInv p -> feedM p c = Ok (feed_step p c, feed_emit p c).
Print Assumptions C03_feed.

Theorem C03_next_state : forall p c p' f, PInv p -> feedM p c = Ok (p', f) -> pst p' = t_next (williams (pst p) c).
Proof. exact feedM_next_state. Qed.
Check C03_next_state : forall p c p' f, PInv p -> feedM p c = Ok (p', f) -> pst p' = t_next (williams (pst p) c).
Print Assumptions C03_next_state.

Theorem C03_ignore : forall p c p' f, PInv p -> feedM p c = Ok (p', f) -> class_of (t_kind (williams (pst p) c)) = ClsIgnore -> f = None.
Proof. exact feedM_ignore_class. Qed.
Check C03_ignore : forall p c p' f, PInv p -> feedM p c = Ok (p', f) -> class_of (t_kind (williams (pst p) c)) = ClsIgnore -> f = None.
Print Assumptions C03_ignore.

(** a 7-bit ESC Fe acts exactly like its 8-bit C1 counterpart *)
Theorem C03_esc_fe : forall p c, PInv p -> (64 <= c <= 95)%N -> exists p1 p2 p3 f, feedM p 27 = Ok (p1, None) /\ feedM p1 c = Ok (p2, f) /\ feedM p (c + 64) = Ok (p3, f) /\ pst p2 = pst p3.
Proof. exact C03_esc_fe. Qed.
Check C03_esc_fe : forall p c, PInv p -> (64 <= c <= 95)%N -> exists p1 p2 p3 f, feedM p 27 = Ok (p1, None) /\ feedM p1 c = Ok (p2, f) /\ feedM p (c + 64) = Ok (p3, f) /\ pst p2 = pst p3.
Print Assumptions C03_esc_fe.

(** dispatch is independent of whatever was parsed before: two parsers in the same state (agreeing on the live parameters when inside a sequence) emit the same functions on every input; in particular any two parsers in ground state *)
Theorem C03_memoryless : forall s p q, PInv p -> PInv q -> psim p q -> exists p' q' fs, runP p s = Ok (p', fs) /\ runP q s = Ok (q', fs) /\ psim p' q'.
Proof. exact C03_memoryless_all. Qed.
Check C03_memoryless : forall s p q, PInv p -> PInv q -> psim p q -> exists p' q' fs, runP p s = Ok (p', fs) /\ runP q s = Ok (q', fs) /\ psim p' q'.
Print Assumptions C03_memoryless.

Theorem C03_ground : forall p q, pst p = Ground -> pst q = Ground -> psim p q.
Proof. exact psim_ground. Qed.
Check C03_ground : forall p q, pst p = Ground -> pst q = Ground -> psim p q.
Print Assumptions C03_ground.

(** C03.3  each implemented final byte yields its function with the parameters as written: the CSI / ESC / C0-C1 / mode
    tables regenerated from the source equal the hand-written function table of Spec/Functions.v, for every private marker
    or intermediate, every final byte (all of N) and every parameter array *)
Theorem C03_csi_table : forall inter fin ps cp, csi_dispatch_gen inter fin ps cp = csi_spec ps cp inter fin.
Proof. exact csi_table. Qed.
Check C03_csi_table : forall inter fin ps cp, csi_dispatch_gen inter fin ps cp = csi_spec ps cp inter fin.
Print Assumptions C03_csi_table.

Theorem C03_esc_table : forall inter fin, snd (esc_dispatch_gen inter fin) = esc_spec inter fin /\ (fst (esc_dispatch_gen inter fin) = None \/ fst (esc_dispatch_gen inter fin) = Some Ground).
Proof. exact esc_table. Qed.
Check C03_esc_table : forall inter fin, snd (esc_dispatch_gen inter fin) = esc_spec inter fin /\ (fst (esc_dispatch_gen inter fin) = None \/ fst (esc_dispatch_gen inter fin) = Some Ground).
Print Assumptions C03_esc_table.

Theorem C03_c0c1_table : forall c, execute_gen c = execute_spec c.
Proof. exact execute_table. Qed.
Check C03_c0c1_table : forall c, execute_gen c = execute_spec c.
Print Assumptions C03_c0c1_table.

Theorem C03_dec_modes : forall v, dec_mode_gen v = dec_mode_spec v.
Proof. exact dec_mode_table. Qed.
Check C03_dec_modes : forall v, dec_mode_gen v = dec_mode_spec v.
Print Assumptions C03_dec_modes.

Theorem C03_ansi_modes : forall v, ansi_mode_gen v = ansi_mode_spec v.
Proof. exact ansi_mode_table. Qed.
Check C03_ansi_modes : forall v, ansi_mode_gen v = ansi_mode_spec v.
Print Assumptions C03_ansi_modes.

(** the specification parser run on the implementation (Williams' diagram + the hand-written function table, no generated
    table involved) is, step for step, the model's parser *)
Theorem C03_spec_parser : forall p c, PInv p -> feedM p c = Ok (spec_feed p c).
Proof. exact spec_feed_is_feedM. Qed.
Check C03_spec_parser : forall p c, PInv p -> feedM p c = Ok (spec_feed p c).
Print Assumptions C03_spec_parser.
