(** Property C01 -- total on every input: no panic, no hang (PARTIAL: the resize / reflow core; see DESIGN.md).
    Only pinned statements, closed by [exact], with their assumptions printed. *)
From Avt Require Import Model.Vt Proofs.Inv Proofs.ReflowCore Proofs.Resize.

(** The reflow loop never exhausts its fuel (= terminates), never trips the width assertion and never panics, for EVERY list of lines and every new width >= 1. *)
Theorem C01_reflow_total : forall ls c, 1 <= c -> exists out, reflowM ls c = Ok out /\ Forall (LineInv c) out /\ (ls <> [] -> out <> []) /\ (last_not_wrapped ls -> last_not_wrapped out).
Proof. exact reflow_total. Qed.
Check C01_reflow_total : forall ls c, 1 <= c -> exists out, reflowM ls c = Ok out /\ Forall (LineInv c) out /\ (ls <> [] -> out <> []) /\ (last_not_wrapped ls -> last_not_wrapped out).
Print Assumptions C01_reflow_total.

(** Buffer::resize never panics (no index out of range, no usize underflow, fuelled cursor-translation loops terminate) for every buffer satisfying the geometry invariant, every new size >= 1x1 and every cursor the callers can pass; the result satisfies the geometry invariant again. *)
Theorem C01_resize_total : forall b nc nr cc cr, BInv b -> 1 <= nc -> 1 <= nr -> (nc = bcols b -> cr < Nat.max (brows b) nr) -> exists b' cc' cr', buf_resize b nc nr cc cr = Ok (b', (cc', cr')) /\ BInv b' /\ bcols b' = nc /\ brows b' = nr /\ blimit b' = blimit b /\ trim_needed b' = true /\ cr' < nr /\ (nc <> bcols b -> cc' < nc) /\ (nc = bcols b -> cc' = cc).
Proof. exact buf_resize_ok'. Qed.
Check C01_resize_total : forall b nc nr cc cr, BInv b -> 1 <= nc -> 1 <= nr -> (nc = bcols b -> cr < Nat.max (brows b) nr) -> exists b' cc' cr', buf_resize b nc nr cc cr = Ok (b', (cc', cr')) /\ BInv b' /\ bcols b' = nc /\ brows b' = nr /\ blimit b' = blimit b /\ trim_needed b' = true /\ cr' < nr /\ (nc <> bcols b -> cc' < nc) /\ (nc = bcols b -> cc' = cc).
Print Assumptions C01_resize_total.
