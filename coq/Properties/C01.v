(** Property C01 -- total on every input: no panic, no hang.
    Only pinned statements, closed by [exact], with their assumptions printed. *)
From Avt Require Import Oracles.Step Proofs.Inv Proofs.ReflowCore Proofs.Resize Proofs.ParserInv Proofs.InvStep.

(** For every size >= 1x1, every scrollback limit and EVERY sequence of public mutating calls - feed(c) for any code point c (all of N), feed_str("") / end of feed_str, resize to any size >= 1x1 - the model never reaches a panic site (index / range out of bounds, usize underflow, rotate beyond length, unwrap on None, the reflow assertion, u8 arithmetic overflow in the parser) and never exhausts the fuel of its four while-loops (= they terminate), and the invariant holds afterwards. *)
Theorem C01_no_panic : forall c r l ops, 1 <= c -> 1 <= r -> Forall op_ok ops -> exists v, runM (vt_new c r l) ops = Ok v /\ Inv v.
Proof. exact C01_no_panic. Qed.
Check C01_no_panic : forall c r l ops, 1 <= c -> 1 <= r -> Forall op_ok ops -> exists v, runM (vt_new c r l) ops = Ok v /\ Inv v.
Print Assumptions C01_no_panic.

(** one operation from any state satisfying the invariant *)
Theorem C01_step : forall v o, Inv v -> op_ok o -> exists v' out, stepM v o = Ok (v', out) /\ Inv v'.
Proof. exact stepM_Inv. Qed.
Check C01_step : forall v o, Inv v -> op_ok o -> exists v' out, stepM v o = Ok (v', out) /\ Inv v'.
Print Assumptions C01_step.

Theorem C01_feed_str : forall v s, Inv v -> exists v' o, feed_str v s = Ok (v', o) /\ Inv v'.
Proof. exact feed_str_Inv. Qed.
Check C01_feed_str : forall v s, Inv v -> exists v' o, feed_str v s = Ok (v', o) /\ Inv v'.
Print Assumptions C01_feed_str.

(** dump() never panics (chunks are never empty, the wrap-pending cell exists, parser parameters in range) *)
Theorem C01_dump : forall v, Inv v -> exists s, vt_dump v = Ok s.
Proof. exact vt_dump_ok. Qed.
Check C01_dump : forall v, Inv v -> exists s, vt_dump v = Ok s.
Print Assumptions C01_dump.

Theorem C01_view : forall v, Inv v -> vt_view v = Ok (view (buf (vterm v))).
Proof. exact vt_view_ok. Qed.
Check C01_view : forall v, Inv v -> vt_view v = Ok (view (buf (vterm v))).
Print Assumptions C01_view.

(** line(n) for n < rows *)
Theorem C01_line : forall v n, Inv v -> n < rows (vterm v) -> vt_line v n = Ok (row_at (view (buf (vterm v))) n) /\ length (cells (row_at (view (buf (vterm v))) n)) = cols (vterm v).
Proof. exact vt_line_ok. Qed.
Check C01_line : forall v n, Inv v -> n < rows (vterm v) -> vt_line v n = Ok (row_at (view (buf (vterm v))) n) /\ length (cells (row_at (view (buf (vterm v))) n)) = cols (vterm v).
Print Assumptions C01_line.

Theorem C01_parser : forall p c, PInv p -> exists p' f, feedM p c = Ok (p', f).
Proof. exact feedM_total. Qed.
Check C01_parser : forall p c, PInv p -> exists p' f, feedM p c = Ok (p', f).
Print Assumptions C01_parser.

(** The reflow loop terminates within its fuel and never trips the width assertion for EVERY list of lines and every width >= 1. *)
Theorem C01_reflow_total : forall ls c, 1 <= c -> exists out, reflowM ls c = Ok out /\ Forall (LineInv c) out /\ (ls <> [] -> out <> []) /\ (last_not_wrapped ls -> last_not_wrapped out).
Proof. exact reflow_total. Qed.
Check C01_reflow_total : forall ls c, 1 <= c -> exists out, reflowM ls c = Ok out /\ Forall (LineInv c) out /\ (ls <> [] -> out <> []) /\ (last_not_wrapped ls -> last_not_wrapped out).
Print Assumptions C01_reflow_total.

Theorem C01_resize_total : forall b nc nr cc cr, BInv b -> 1 <= nc -> 1 <= nr -> (nc = bcols b -> cr < Nat.max (brows b) nr) -> exists b' cc' cr', buf_resize b nc nr cc cr = Ok (b', (cc', cr')) /\ BInv b' /\ bcols b' = nc /\ brows b' = nr /\ blimit b' = blimit b /\ trim_needed b' = true /\ cr' < nr /\ (nc <> bcols b -> cc' < nc) /\ (nc = bcols b -> cc' = cc).
Proof. exact buf_resize_ok'. Qed.
Check C01_resize_total : forall b nc nr cc cr, BInv b -> 1 <= nc -> 1 <= nr -> (nc = bcols b -> cr < Nat.max (brows b) nr) -> exists b' cc' cr', buf_resize b nc nr cc cr = Ok (b', (cc', cr')) /\ BInv b' /\ bcols b' = nc /\ brows b' = nr /\ blimit b' = blimit b /\ trim_needed b' = true /\ cr' < nr /\ (nc <> bcols b -> cc' < nc) /\ (nc = bcols b -> cc' = cc).
Print Assumptions C01_resize_total.

From Avt Require Import Gen.AccFns Gen.RestFns Proofs.C04Wrap.
(** util::TextCollector never panics either (Proofs/C04Wrap.v, on the regenerated collector functions of Gen/AccFns.v / Gen/RestFns.v) *)
(** TextCollector::new, any list of feed_str / resize (sizes >= 1) calls, then flush: every call returns *)
Theorem C01_collector : forall c r l ks, 1 <= c -> 1 <= r -> Forall ccall_ok ks -> exists os fin, collector_session (vt_new c r l) ks = Ok (os, fin).
Proof. exact C01_collector_session. Qed.
Check C01_collector : forall c r l ks, 1 <= c -> 1 <= r -> Forall ccall_ok ks -> exists os fin, collector_session (vt_new c r l) ks = Ok (os, fin).
Print Assumptions C01_collector.

