(** Property C05 -- cursor movement and addressing.
    Only pinned statements, closed by [exact], with their assumptions printed. *)
From Avt Require Import Oracles.Step Proofs.Inv Proofs.TermEasy Proofs.StepC05.

(** For EVERY cursor command of the property (CUU, CUD, CUF, CUB, CNL, CPL, VPR, HPR, BS, CR, HT, CHT, CBT, CUP/HVP, CHA/HPA, VPA, DECSTBM, DECOM set/reset, and LF/IND/NEL/RI off the margins) and every state satisfying the invariant - wrap-pending column, rows above / inside / below the region, origin mode on or off, any tab stops - the model's control function returns exactly the state the specification [spec_cursor] describes: only cursor column, row and the wrap-pending flag change (margins for DECSTBM, origin mode for DECOM); no cell, mode or tab stop changes. *)
Theorem C05_cursor : forall t f e, TInv t -> spec_cursor t f = Some e -> execute t f = Ok e.
Proof. exact spec_cursor_refines_all. Qed.
Check C05_cursor : forall t f e, TInv t -> spec_cursor t f = Some e -> execute t f = Ok e.
Print Assumptions C05_cursor.

(** the executable statement evaluated on the implementation is a theorem of the model *)
Theorem C05_statement : forall p p' t f t', TInv t -> execute t f = Ok t' -> holds_C05 (mkVt p t) f (mkVt p' t') = true.
Proof. exact C05_holds. Qed.
Check C05_statement : forall p p' t f t', TInv t -> execute t f = Ok t' -> holds_C05 (mkVt p t) f (mkVt p' t') = true.
Print Assumptions C05_statement.
