(** Property C05 -- cursor movement and addressing.
    Only pinned statements, closed by [exact], with their assumptions printed. *)
From Avt Require Import Oracles.Step Proofs.Inv Proofs.TermEasy.

(** For every cursor command except the tab searches: the model's control function returns exactly the state the specification [spec_cursor] describes - only cursor column, row and wrap-pending flag change (and margins / origin mode for DECSTBM / DECOM); in particular no cell changes. *)
Theorem C05_cursor_refines : forall t f t', TScal t -> is_tab_fn f = false -> spec_cursor t f = Some t' -> execute t f = Ok t'.
Proof. exact spec_cursor_refines. Qed.
Check C05_cursor_refines : forall t f t', TScal t -> is_tab_fn f = false -> spec_cursor t f = Some t' -> execute t f = Ok t'.
Print Assumptions C05_cursor_refines.
