(** Property C05 -- cursor movement and addressing.
    Only pinned statements, closed by [exact], with their assumptions printed. *)
From Avt Require Import Gen.TermFns Proofs.TermTie.
From Avt Require Import Oracles.Step Proofs.Inv Proofs.TermEasy Proofs.StepC05.

(** For EVERY cursor command of the property (CUU, CUD, CUF, CUB, CNL, CPL, VPR, HPR, BS, CR, HT, CHT, CBT, CUP/HVP, CHA/HPA, VPA, DECSTBM, DECOM set/reset, and LF/IND/NEL/RI off the margins) and every state satisfying the invariant - wrap-pending column, rows above / inside / below the region, origin mode on or off, any tab stops - the model's control function returns exactly the state the specification [spec_cursor] describes: only cursor column, row and the wrap-pending flag change (margins for DECSTBM, origin mode for DECOM); no cell, mode or tab stop changes. *)
Theorem C05_cursor : forall t f e, TInv t -> spec_cursor t f = Some e -> execute t f = Ok e.
Proof. exact spec_cursor_refines_all. Qed.
Check C05_cursor : forall t f e, TInv t -> spec_cursor t f = Some e -> execute t f = Ok e.
Print Assumptions C05_cursor.

(** the executable statement evaluated on the implementation is a theorem of the model *)
Theorem C05_statement : forall p p' t f t', TInv t -> execute t f = Ok t' -> holds_C05 (mkVt p t) f (mkVt p' t') = true.
Proof. exact C05_holds. Qed.
Check C05_statement : forall p p' t f t', TInv t -> execute t f = Ok t' -> holds_C05 (mkVt p t) f (mkVt p' t') = true.
Print Assumptions C05_statement.

(** TIE BY PROOF: the scalar control functions of src/terminal.rs are REGENERATED from the Rust source on every run
    (Gen/TermFns.v: Z-arithmetic translation with explicit no-underflow / no-negative-cast conditions) and the hand-written
    model functions are proved equal to them, for every state satisfying the scalar invariant: executing the regenerated
    `Terminal::execute` arm gives exactly the model's result and no usize subtraction underflows. An edit to one of these
    Rust functions (BS CHA CNL CPL CR CUB CUD CUF CUP CUU DECSTBM G0/G1 designation SI SO VPA VPR) breaks this theorem. *)
Theorem C05_source_tie : forall t f, TScal t -> scalar_fn f = true -> exists t', execute t f = Ok t' /\ g_execute (zabs t) f = Some (zabs t', true).
Proof. exact tie_execute. Qed.
Check C05_source_tie : forall t f, TScal t -> scalar_fn f = true -> exists t', execute t f = Ok t' /\ g_execute (zabs t) f = Some (zabs t', true).
Print Assumptions C05_source_tie.

From Avt Require Import Proofs.ModeSem.
(** Proofs/ModeSem.v: mode lists *)
(** DECSET with a LIST of modes is the fold of the one-mode commands (likewise DECRST / SM / RM: execute_decrst_run, execute_sm_run, execute_rm_run in Proofs/ModeSem.v), so every clause stated for `Decset [m]` applies inside lists such as CSI ?6;7h *)
Theorem C05_mode_lists : forall ms t, execute t (Decset ms) = foldM (fun t1 m => execute t1 (Decset [m])) ms t.
Proof. exact execute_decset_run. Qed.
Check C05_mode_lists : forall ms t, execute t (Decset ms) = foldM (fun t1 m => execute t1 (Decset [m])) ms t.
Print Assumptions C05_mode_lists.

(** DECOM inside a list still homes the cursor (when no later mode of the list moves it again) *)
Theorem C05_origin_in_list : forall ms1 ms2 t t', no_switch ms2 -> execute t (Decset (ms1 ++ Origin :: ms2)) = Ok t' -> org t' = true /\ cur_col t' = 0 /\ cur_row t' = top t /\ pend t' = false /\ top t' = top t.
Proof. exact decset_origin_last. Qed.
Check C05_origin_in_list : forall ms1 ms2 t t', no_switch ms2 -> execute t (Decset (ms1 ++ Origin :: ms2)) = Ok t' -> org t' = true /\ cur_col t' = 0 /\ cur_row t' = top t /\ pend t' = false /\ top t' = top t.
Print Assumptions C05_origin_in_list.

(** toggling origin mode homes the cursor - exact *)
Theorem C05_origin_set : forall t, execute t (Decset [Origin]) = Ok (spec_home (t <| org := true |>)).
Proof. exact sem_origin_set. Qed.
Check C05_origin_set : forall t, execute t (Decset [Origin]) = Ok (spec_home (t <| org := true |>)).
Print Assumptions C05_origin_set.

(** the other list forms (Proofs/ModeSem.v; second statement audit) *)
(** DECRST lists *)
Theorem C05_mode_lists_decrst : forall ms t, execute t (Decrst ms) = foldM (fun t1 m => execute t1 (Decrst [m])) ms t.
Proof. exact execute_decrst_run. Qed.
Check C05_mode_lists_decrst : forall ms t, execute t (Decrst ms) = foldM (fun t1 m => execute t1 (Decrst [m])) ms t.
Print Assumptions C05_mode_lists_decrst.

(** SM lists *)
Theorem C05_mode_lists_sm : forall ms t, execute t (Sm ms) = foldM (fun t1 m => execute t1 (Sm [m])) ms t.
Proof. exact execute_sm_run. Qed.
Check C05_mode_lists_sm : forall ms t, execute t (Sm ms) = foldM (fun t1 m => execute t1 (Sm [m])) ms t.
Print Assumptions C05_mode_lists_sm.

(** RM lists *)
Theorem C05_mode_lists_rm : forall ms t, execute t (Rm ms) = foldM (fun t1 m => execute t1 (Rm [m])) ms t.
Proof. exact execute_rm_run. Qed.
Check C05_mode_lists_rm : forall ms t, execute t (Rm ms) = foldM (fun t1 m => execute t1 (Rm [m])) ms t.
Print Assumptions C05_mode_lists_rm.

(** DECOM reset inside a list *)
Theorem C05_origin_reset_in_list : forall ms1 ms2 t t', flag_modes ms2 -> execute t (Decrst (ms1 ++ Origin :: ms2)) = Ok t' -> org t' = false /\ cur_col t' = 0 /\ cur_row t' = 0 /\ pend t' = false /\ top t' = top t.
Proof. exact decrst_origin_last. Qed.
Check C05_origin_reset_in_list : forall ms1 ms2 t t', flag_modes ms2 -> execute t (Decrst (ms1 ++ Origin :: ms2)) = Ok t' -> org t' = false /\ cur_col t' = 0 /\ cur_row t' = 0 /\ pend t' = false /\ top t' = top t.
Print Assumptions C05_origin_reset_in_list.

