
(** val negb : bool -> bool **)

let negb = function
| true -> false
| false -> true

type nat =
| O
| S of nat

(** val fst : ('a1 * 'a2) -> 'a1 **)

let fst = function
| (x, _) -> x

(** val snd : ('a1 * 'a2) -> 'a2 **)

let snd = function
| (_, y) -> y

(** val length : 'a1 list -> nat **)

let rec length = function
| [] -> O
| _ :: l' -> S (length l')

(** val app : 'a1 list -> 'a1 list -> 'a1 list **)

let rec app l m =
  match l with
  | [] -> m
  | a :: l1 -> a :: (app l1 m)

type comparison =
| Eq
| Lt
| Gt

(** val compOpp : comparison -> comparison **)

let compOpp = function
| Eq -> Eq
| Lt -> Gt
| Gt -> Lt

module Coq__1 = struct
 (** val add : nat -> nat -> nat **)
 let rec add n0 m =
   match n0 with
   | O -> m
   | S p -> S (add p m)
end
include Coq__1

(** val mul : nat -> nat -> nat **)

let rec mul n0 m =
  match n0 with
  | O -> O
  | S p -> add m (mul p m)

(** val sub : nat -> nat -> nat **)

let rec sub n0 m =
  match n0 with
  | O -> n0
  | S k -> (match m with
            | O -> n0
            | S l -> sub k l)

(** val eqb : bool -> bool -> bool **)

let eqb b1 b2 =
  if b1 then b2 else if b2 then false else true

module Nat =
 struct
  (** val sub : nat -> nat -> nat **)

  let rec sub n0 m =
    match n0 with
    | O -> n0
    | S k -> (match m with
              | O -> n0
              | S l -> sub k l)

  (** val eqb : nat -> nat -> bool **)

  let rec eqb n0 m =
    match n0 with
    | O -> (match m with
            | O -> true
            | S _ -> false)
    | S n' -> (match m with
               | O -> false
               | S m' -> eqb n' m')

  (** val leb : nat -> nat -> bool **)

  let rec leb n0 m =
    match n0 with
    | O -> true
    | S n' -> (match m with
               | O -> false
               | S m' -> leb n' m')

  (** val ltb : nat -> nat -> bool **)

  let ltb n0 m =
    leb (S n0) m

  (** val compare : nat -> nat -> comparison **)

  let rec compare n0 m =
    match n0 with
    | O -> (match m with
            | O -> Eq
            | S _ -> Lt)
    | S n' -> (match m with
               | O -> Gt
               | S m' -> compare n' m')

  (** val max : nat -> nat -> nat **)

  let rec max n0 m =
    match n0 with
    | O -> m
    | S n' -> (match m with
               | O -> n0
               | S m' -> S (max n' m'))

  (** val min : nat -> nat -> nat **)

  let rec min n0 m =
    match n0 with
    | O -> O
    | S n' -> (match m with
               | O -> O
               | S m' -> S (min n' m'))

  (** val divmod : nat -> nat -> nat -> nat -> nat * nat **)

  let rec divmod x y q u =
    match x with
    | O -> (q, u)
    | S x' ->
      (match u with
       | O -> divmod x' y (S q) y
       | S u' -> divmod x' y q u')

  (** val div : nat -> nat -> nat **)

  let div x y = match y with
  | O -> y
  | S y' -> fst (divmod x y' O y')

  (** val modulo : nat -> nat -> nat **)

  let modulo x = function
  | O -> x
  | S y' -> sub y' (snd (divmod x y' O y'))

  (** val iter : nat -> ('a1 -> 'a1) -> 'a1 -> 'a1 **)

  let rec iter n0 f x =
    match n0 with
    | O -> x
    | S n2 -> f (iter n2 f x)
 end

type positive =
| XI of positive
| XO of positive
| XH

type n =
| N0
| Npos of positive

type z =
| Z0
| Zpos of positive
| Zneg of positive

module Pos =
 struct
  type mask =
  | IsNul
  | IsPos of positive
  | IsNeg
 end

module Coq_Pos =
 struct
  (** val succ : positive -> positive **)

  let rec succ = function
  | XI p -> XO (succ p)
  | XO p -> XI p
  | XH -> XO XH

  (** val add : positive -> positive -> positive **)

  let rec add x y =
    match x with
    | XI p ->
      (match y with
       | XI q -> XO (add_carry p q)
       | XO q -> XI (add p q)
       | XH -> XO (succ p))
    | XO p ->
      (match y with
       | XI q -> XI (add p q)
       | XO q -> XO (add p q)
       | XH -> XI p)
    | XH -> (match y with
             | XI q -> XO (succ q)
             | XO q -> XI q
             | XH -> XO XH)

  (** val add_carry : positive -> positive -> positive **)

  and add_carry x y =
    match x with
    | XI p ->
      (match y with
       | XI q -> XI (add_carry p q)
       | XO q -> XO (add_carry p q)
       | XH -> XI (succ p))
    | XO p ->
      (match y with
       | XI q -> XO (add_carry p q)
       | XO q -> XI (add p q)
       | XH -> XO (succ p))
    | XH ->
      (match y with
       | XI q -> XI (succ q)
       | XO q -> XO (succ q)
       | XH -> XI XH)

  (** val pred_double : positive -> positive **)

  let rec pred_double = function
  | XI p -> XI (XO p)
  | XO p -> XI (pred_double p)
  | XH -> XH

  type mask = Pos.mask =
  | IsNul
  | IsPos of positive
  | IsNeg

  (** val succ_double_mask : mask -> mask **)

  let succ_double_mask = function
  | IsNul -> IsPos XH
  | IsPos p -> IsPos (XI p)
  | IsNeg -> IsNeg

  (** val double_mask : mask -> mask **)

  let double_mask = function
  | IsPos p -> IsPos (XO p)
  | x0 -> x0

  (** val double_pred_mask : positive -> mask **)

  let double_pred_mask = function
  | XI p -> IsPos (XO (XO p))
  | XO p -> IsPos (XO (pred_double p))
  | XH -> IsNul

  (** val sub_mask : positive -> positive -> mask **)

  let rec sub_mask x y =
    match x with
    | XI p ->
      (match y with
       | XI q -> double_mask (sub_mask p q)
       | XO q -> succ_double_mask (sub_mask p q)
       | XH -> IsPos (XO p))
    | XO p ->
      (match y with
       | XI q -> succ_double_mask (sub_mask_carry p q)
       | XO q -> double_mask (sub_mask p q)
       | XH -> IsPos (pred_double p))
    | XH -> (match y with
             | XH -> IsNul
             | _ -> IsNeg)

  (** val sub_mask_carry : positive -> positive -> mask **)

  and sub_mask_carry x y =
    match x with
    | XI p ->
      (match y with
       | XI q -> succ_double_mask (sub_mask_carry p q)
       | XO q -> double_mask (sub_mask p q)
       | XH -> IsPos (pred_double p))
    | XO p ->
      (match y with
       | XI q -> double_mask (sub_mask_carry p q)
       | XO q -> succ_double_mask (sub_mask_carry p q)
       | XH -> double_pred_mask p)
    | XH -> IsNeg

  (** val mul : positive -> positive -> positive **)

  let rec mul x y =
    match x with
    | XI p -> add y (XO (mul p y))
    | XO p -> XO (mul p y)
    | XH -> y

  (** val compare_cont : comparison -> positive -> positive -> comparison **)

  let rec compare_cont r x y =
    match x with
    | XI p ->
      (match y with
       | XI q -> compare_cont r p q
       | XO q -> compare_cont Gt p q
       | XH -> Gt)
    | XO p ->
      (match y with
       | XI q -> compare_cont Lt p q
       | XO q -> compare_cont r p q
       | XH -> Gt)
    | XH -> (match y with
             | XH -> r
             | _ -> Lt)

  (** val compare : positive -> positive -> comparison **)

  let compare =
    compare_cont Eq

  (** val eqb : positive -> positive -> bool **)

  let rec eqb p q =
    match p with
    | XI p0 -> (match q with
                | XI q0 -> eqb p0 q0
                | _ -> false)
    | XO p0 -> (match q with
                | XO q0 -> eqb p0 q0
                | _ -> false)
    | XH -> (match q with
             | XH -> true
             | _ -> false)

  (** val coq_Nsucc_double : n -> n **)

  let coq_Nsucc_double = function
  | N0 -> Npos XH
  | Npos p -> Npos (XI p)

  (** val coq_Ndouble : n -> n **)

  let coq_Ndouble = function
  | N0 -> N0
  | Npos p -> Npos (XO p)

  (** val coq_lor : positive -> positive -> positive **)

  let rec coq_lor p q =
    match p with
    | XI p0 ->
      (match q with
       | XI q0 -> XI (coq_lor p0 q0)
       | XO q0 -> XI (coq_lor p0 q0)
       | XH -> p)
    | XO p0 ->
      (match q with
       | XI q0 -> XI (coq_lor p0 q0)
       | XO q0 -> XO (coq_lor p0 q0)
       | XH -> XI p0)
    | XH -> (match q with
             | XO q0 -> XI q0
             | _ -> q)

  (** val coq_land : positive -> positive -> n **)

  let rec coq_land p q =
    match p with
    | XI p0 ->
      (match q with
       | XI q0 -> coq_Nsucc_double (coq_land p0 q0)
       | XO q0 -> coq_Ndouble (coq_land p0 q0)
       | XH -> Npos XH)
    | XO p0 ->
      (match q with
       | XI q0 -> coq_Ndouble (coq_land p0 q0)
       | XO q0 -> coq_Ndouble (coq_land p0 q0)
       | XH -> N0)
    | XH -> (match q with
             | XO _ -> N0
             | _ -> Npos XH)

  (** val coq_lxor : positive -> positive -> n **)

  let rec coq_lxor p q =
    match p with
    | XI p0 ->
      (match q with
       | XI q0 -> coq_Ndouble (coq_lxor p0 q0)
       | XO q0 -> coq_Nsucc_double (coq_lxor p0 q0)
       | XH -> Npos (XO p0))
    | XO p0 ->
      (match q with
       | XI q0 -> coq_Nsucc_double (coq_lxor p0 q0)
       | XO q0 -> coq_Ndouble (coq_lxor p0 q0)
       | XH -> Npos (XI p0))
    | XH ->
      (match q with
       | XI q0 -> Npos (XO q0)
       | XO q0 -> Npos (XI q0)
       | XH -> N0)

  (** val iter_op : ('a1 -> 'a1 -> 'a1) -> positive -> 'a1 -> 'a1 **)

  let rec iter_op op0 p a =
    match p with
    | XI p0 -> op0 a (iter_op op0 p0 (op0 a a))
    | XO p0 -> iter_op op0 p0 (op0 a a)
    | XH -> a

  (** val to_nat : positive -> nat **)

  let to_nat x =
    iter_op Coq__1.add x (S O)

  (** val of_succ_nat : nat -> positive **)

  let rec of_succ_nat = function
  | O -> XH
  | S x -> succ (of_succ_nat x)
 end

module N =
 struct
  (** val succ_double : n -> n **)

  let succ_double = function
  | N0 -> Npos XH
  | Npos p -> Npos (XI p)

  (** val double : n -> n **)

  let double = function
  | N0 -> N0
  | Npos p -> Npos (XO p)

  (** val add : n -> n -> n **)

  let add n0 m =
    match n0 with
    | N0 -> m
    | Npos p -> (match m with
                 | N0 -> n0
                 | Npos q -> Npos (Coq_Pos.add p q))

  (** val sub : n -> n -> n **)

  let sub n0 m =
    match n0 with
    | N0 -> N0
    | Npos n' ->
      (match m with
       | N0 -> n0
       | Npos m' ->
         (match Coq_Pos.sub_mask n' m' with
          | Coq_Pos.IsPos p -> Npos p
          | _ -> N0))

  (** val mul : n -> n -> n **)

  let mul n0 m =
    match n0 with
    | N0 -> N0
    | Npos p -> (match m with
                 | N0 -> N0
                 | Npos q -> Npos (Coq_Pos.mul p q))

  (** val compare : n -> n -> comparison **)

  let compare n0 m =
    match n0 with
    | N0 -> (match m with
             | N0 -> Eq
             | Npos _ -> Lt)
    | Npos n' -> (match m with
                  | N0 -> Gt
                  | Npos m' -> Coq_Pos.compare n' m')

  (** val eqb : n -> n -> bool **)

  let eqb n0 m =
    match n0 with
    | N0 -> (match m with
             | N0 -> true
             | Npos _ -> false)
    | Npos p -> (match m with
                 | N0 -> false
                 | Npos q -> Coq_Pos.eqb p q)

  (** val leb : n -> n -> bool **)

  let leb x y =
    match compare x y with
    | Gt -> false
    | _ -> true

  (** val ltb : n -> n -> bool **)

  let ltb x y =
    match compare x y with
    | Lt -> true
    | _ -> false

  (** val pos_div_eucl : positive -> n -> n * n **)

  let rec pos_div_eucl a b =
    match a with
    | XI a' ->
      let (q, r) = pos_div_eucl a' b in
      let r' = succ_double r in
      if leb b r' then ((succ_double q), (sub r' b)) else ((double q), r')
    | XO a' ->
      let (q, r) = pos_div_eucl a' b in
      let r' = double r in
      if leb b r' then ((succ_double q), (sub r' b)) else ((double q), r')
    | XH ->
      (match b with
       | N0 -> (N0, (Npos XH))
       | Npos p -> (match p with
                    | XH -> ((Npos XH), N0)
                    | _ -> (N0, (Npos XH))))

  (** val div_eucl : n -> n -> n * n **)

  let div_eucl a b =
    match a with
    | N0 -> (N0, N0)
    | Npos na -> (match b with
                  | N0 -> (N0, a)
                  | Npos _ -> pos_div_eucl na b)

  (** val div : n -> n -> n **)

  let div a b =
    fst (div_eucl a b)

  (** val modulo : n -> n -> n **)

  let modulo a b =
    snd (div_eucl a b)

  (** val coq_lor : n -> n -> n **)

  let coq_lor n0 m =
    match n0 with
    | N0 -> m
    | Npos p -> (match m with
                 | N0 -> n0
                 | Npos q -> Npos (Coq_Pos.coq_lor p q))

  (** val coq_land : n -> n -> n **)

  let coq_land n0 m =
    match n0 with
    | N0 -> N0
    | Npos p -> (match m with
                 | N0 -> N0
                 | Npos q -> Coq_Pos.coq_land p q)

  (** val coq_lxor : n -> n -> n **)

  let coq_lxor n0 m =
    match n0 with
    | N0 -> m
    | Npos p -> (match m with
                 | N0 -> n0
                 | Npos q -> Coq_Pos.coq_lxor p q)

  (** val to_nat : n -> nat **)

  let to_nat = function
  | N0 -> O
  | Npos p -> Coq_Pos.to_nat p

  (** val of_nat : nat -> n **)

  let of_nat = function
  | O -> N0
  | S n' -> Npos (Coq_Pos.of_succ_nat n')
 end

(** val hd : 'a1 -> 'a1 list -> 'a1 **)

let hd default = function
| [] -> default
| x :: _ -> x

(** val tl : 'a1 list -> 'a1 list **)

let tl = function
| [] -> []
| _ :: m -> m

(** val nth : nat -> 'a1 list -> 'a1 -> 'a1 **)

let rec nth n0 l default =
  match n0 with
  | O -> (match l with
          | [] -> default
          | x :: _ -> x)
  | S m -> (match l with
            | [] -> default
            | _ :: t -> nth m t default)

(** val nth_error : 'a1 list -> nat -> 'a1 option **)

let rec nth_error l = function
| O -> (match l with
        | [] -> None
        | x :: _ -> Some x)
| S n2 -> (match l with
           | [] -> None
           | _ :: l0 -> nth_error l0 n2)

(** val rev : 'a1 list -> 'a1 list **)

let rec rev = function
| [] -> []
| x :: l' -> app (rev l') (x :: [])

(** val map : ('a1 -> 'a2) -> 'a1 list -> 'a2 list **)

let rec map f = function
| [] -> []
| a :: t -> (f a) :: (map f t)

(** val flat_map : ('a1 -> 'a2 list) -> 'a1 list -> 'a2 list **)

let rec flat_map f = function
| [] -> []
| x :: t -> app (f x) (flat_map f t)

(** val fold_left : ('a1 -> 'a2 -> 'a1) -> 'a2 list -> 'a1 -> 'a1 **)

let rec fold_left f l a0 =
  match l with
  | [] -> a0
  | b :: t -> fold_left f t (f a0 b)

(** val fold_right : ('a2 -> 'a1 -> 'a1) -> 'a1 -> 'a2 list -> 'a1 **)

let rec fold_right f a0 = function
| [] -> a0
| b :: t -> f b (fold_right f a0 t)

(** val existsb : ('a1 -> bool) -> 'a1 list -> bool **)

let rec existsb f = function
| [] -> false
| a :: l0 -> (||) (f a) (existsb f l0)

(** val forallb : ('a1 -> bool) -> 'a1 list -> bool **)

let rec forallb f = function
| [] -> true
| a :: l0 -> (&&) (f a) (forallb f l0)

(** val filter : ('a1 -> bool) -> 'a1 list -> 'a1 list **)

let rec filter f = function
| [] -> []
| x :: l0 -> if f x then x :: (filter f l0) else filter f l0

(** val firstn : nat -> 'a1 list -> 'a1 list **)

let rec firstn n0 l =
  match n0 with
  | O -> []
  | S n2 -> (match l with
             | [] -> []
             | a :: l0 -> a :: (firstn n2 l0))

(** val skipn : nat -> 'a1 list -> 'a1 list **)

let rec skipn n0 l =
  match n0 with
  | O -> l
  | S n2 -> (match l with
             | [] -> []
             | _ :: l0 -> skipn n2 l0)

(** val seq : nat -> nat -> nat list **)

let rec seq start = function
| O -> []
| S len0 -> start :: (seq (S start) len0)

(** val repeat : 'a1 -> nat -> 'a1 list **)

let rec repeat x = function
| O -> []
| S k -> x :: (repeat x k)

module Z =
 struct
  (** val double : z -> z **)

  let double = function
  | Z0 -> Z0
  | Zpos p -> Zpos (XO p)
  | Zneg p -> Zneg (XO p)

  (** val succ_double : z -> z **)

  let succ_double = function
  | Z0 -> Zpos XH
  | Zpos p -> Zpos (XI p)
  | Zneg p -> Zneg (Coq_Pos.pred_double p)

  (** val pred_double : z -> z **)

  let pred_double = function
  | Z0 -> Zneg XH
  | Zpos p -> Zpos (Coq_Pos.pred_double p)
  | Zneg p -> Zneg (XI p)

  (** val pos_sub : positive -> positive -> z **)

  let rec pos_sub x y =
    match x with
    | XI p ->
      (match y with
       | XI q -> double (pos_sub p q)
       | XO q -> succ_double (pos_sub p q)
       | XH -> Zpos (XO p))
    | XO p ->
      (match y with
       | XI q -> pred_double (pos_sub p q)
       | XO q -> double (pos_sub p q)
       | XH -> Zpos (Coq_Pos.pred_double p))
    | XH ->
      (match y with
       | XI q -> Zneg (XO q)
       | XO q -> Zneg (Coq_Pos.pred_double q)
       | XH -> Z0)

  (** val add : z -> z -> z **)

  let add x y =
    match x with
    | Z0 -> y
    | Zpos x' ->
      (match y with
       | Z0 -> x
       | Zpos y' -> Zpos (Coq_Pos.add x' y')
       | Zneg y' -> pos_sub x' y')
    | Zneg x' ->
      (match y with
       | Z0 -> x
       | Zpos y' -> pos_sub y' x'
       | Zneg y' -> Zneg (Coq_Pos.add x' y'))

  (** val opp : z -> z **)

  let opp = function
  | Z0 -> Z0
  | Zpos x0 -> Zneg x0
  | Zneg x0 -> Zpos x0

  (** val sub : z -> z -> z **)

  let sub m n0 =
    add m (opp n0)

  (** val compare : z -> z -> comparison **)

  let compare x y =
    match x with
    | Z0 -> (match y with
             | Z0 -> Eq
             | Zpos _ -> Lt
             | Zneg _ -> Gt)
    | Zpos x' -> (match y with
                  | Zpos y' -> Coq_Pos.compare x' y'
                  | _ -> Gt)
    | Zneg x' ->
      (match y with
       | Zneg y' -> compOpp (Coq_Pos.compare x' y')
       | _ -> Lt)

  (** val leb : z -> z -> bool **)

  let leb x y =
    match compare x y with
    | Gt -> false
    | _ -> true

  (** val ltb : z -> z -> bool **)

  let ltb x y =
    match compare x y with
    | Lt -> true
    | _ -> false

  (** val to_nat : z -> nat **)

  let to_nat = function
  | Zpos p -> Coq_Pos.to_nat p
  | _ -> O

  (** val of_nat : nat -> z **)

  let of_nat = function
  | O -> Z0
  | S n2 -> Zpos (Coq_Pos.of_succ_nat n2)
 end

type ascii =
| Ascii of bool * bool * bool * bool * bool * bool * bool * bool

(** val n_of_digits : bool list -> n **)

let rec n_of_digits = function
| [] -> N0
| b :: l' ->
  N.add (if b then Npos XH else N0) (N.mul (Npos (XO XH)) (n_of_digits l'))

(** val n_of_ascii : ascii -> n **)

let n_of_ascii = function
| Ascii (a0, a1, a2, a3, a4, a5, a6, a7) ->
  n_of_digits
    (a0 :: (a1 :: (a2 :: (a3 :: (a4 :: (a5 :: (a6 :: (a7 :: []))))))))

type string =
| EmptyString
| String of ascii * string

type 'a res =
| Ok of 'a
| Panic of nat

(** val bind : 'a1 res -> ('a1 -> 'a2 res) -> 'a2 res **)

let bind m f =
  match m with
  | Ok a -> f a
  | Panic s -> Panic s

(** val guard : bool -> nat -> unit res **)

let guard b site =
  if b then Ok () else Panic site

(** val site_fuel : nat **)

let site_fuel =
  S (S (S (S (S (S (S (S (S (S (S (S (S (S (S (S (S (S (S (S (S (S (S (S (S
    (S (S (S (S (S (S (S (S (S (S (S (S (S (S (S (S (S (S (S (S (S (S (S (S
    (S (S (S (S (S (S (S (S (S (S (S (S (S (S (S (S (S (S (S (S (S (S (S (S
    (S (S (S (S (S (S (S (S (S (S (S (S (S (S (S (S (S (S (S (S (S (S (S (S
    (S (S
    O))))))))))))))))))))))))))))))))))))))))))))))))))))))))))))))))))))))))))))))))))))))))))))))))))

(** val rotl : nat -> 'a1 list -> 'a1 list **)

let rotl n0 l =
  app (skipn n0 l) (firstn n0 l)

(** val rotr : nat -> 'a1 list -> 'a1 list **)

let rotr n0 l =
  app (skipn (sub (length l) n0) l) (firstn (sub (length l) n0) l)

(** val fill_range : nat -> nat -> 'a1 -> 'a1 list -> 'a1 list **)

let fill_range a b x l =
  app (firstn a l) (app (repeat x (sub b a)) (skipn b l))

(** val upd : nat -> ('a1 -> 'a1) -> 'a1 list -> 'a1 list **)

let upd i f l =
  match skipn i l with
  | [] -> l
  | x :: r -> app (firstn i l) ((f x) :: r)

(** val on_range :
    nat -> nat -> ('a1 list -> 'a1 list) -> 'a1 list -> 'a1 list **)

let on_range a b f l =
  app (firstn a l) (app (f (firstn (sub b a) (skipn a l))) (skipn b l))

(** val insert_n : nat -> nat -> 'a1 -> 'a1 list -> 'a1 list **)

let insert_n i n0 x l =
  app (firstn i l) (app (repeat x n0) (skipn i l))

(** val last_opt : 'a1 list -> 'a1 option **)

let rec last_opt = function
| [] -> None
| x :: r -> (match r with
             | [] -> Some x
             | _ :: _ -> last_opt r)

(** val take_while : ('a1 -> bool) -> 'a1 list -> 'a1 list **)

let rec take_while f = function
| [] -> []
| x :: r -> if f x then x :: (take_while f r) else []

(** val skip_while : ('a1 -> bool) -> 'a1 list -> 'a1 list **)

let rec skip_while f l = match l with
| [] -> []
| x :: r -> if f x then skip_while f r else l

(** val filter_map : ('a1 -> 'a2 option) -> 'a1 list -> 'a2 list **)

let rec filter_map f = function
| [] -> []
| x :: r ->
  (match f x with
   | Some y -> y :: (filter_map f r)
   | None -> filter_map f r)

(** val opt_eqb : ('a1 -> 'a1 -> bool) -> 'a1 option -> 'a1 option -> bool **)

let opt_eqb eqb0 a b =
  match a with
  | Some x -> (match b with
               | Some y -> eqb0 x y
               | None -> false)
  | None -> (match b with
             | Some _ -> false
             | None -> true)

(** val list_eqb : ('a1 -> 'a1 -> bool) -> 'a1 list -> 'a1 list -> bool **)

let rec list_eqb eqb0 a b =
  match a with
  | [] -> (match b with
           | [] -> true
           | _ :: _ -> false)
  | x :: a' ->
    (match b with
     | [] -> false
     | y :: b' -> (&&) (eqb0 x y) (list_eqb eqb0 a' b'))

type ('r, 't) setter = ('t -> 't) -> 'r -> 'r

(** val set :
    ('a1 -> 'a2) -> ('a1, 'a2) setter -> ('a2 -> 'a2) -> 'a1 -> 'a1 **)

let set _ setter0 =
  setter0

type color =
| Indexed of n
| RGB of n * n * n

type inten =
| Normal
| Bold
| Faint

type pen = { foreground : color option; background : color option;
             intensity : inten; attrs : n }

(** val default_pen : pen **)

let default_pen =
  { foreground = None; background = None; intensity = Normal; attrs = N0 }

type cell = { ch : n; cpen : pen }

type line = { cells : cell list; wrapped : bool }

(** val color_eqb : color -> color -> bool **)

let color_eqb a b =
  match a with
  | Indexed i ->
    (match b with
     | Indexed j -> N.eqb i j
     | RGB (_, _, _) -> false)
  | RGB (r, g, b0) ->
    (match b with
     | Indexed _ -> false
     | RGB (r', g', b') -> (&&) ((&&) (N.eqb r r') (N.eqb g g')) (N.eqb b0 b'))

(** val inten_eqb : inten -> inten -> bool **)

let inten_eqb a b =
  match a with
  | Normal -> (match b with
               | Normal -> true
               | _ -> false)
  | Bold -> (match b with
             | Bold -> true
             | _ -> false)
  | Faint -> (match b with
              | Faint -> true
              | _ -> false)

(** val pen_eqb : pen -> pen -> bool **)

let pen_eqb p q =
  (&&)
    ((&&)
      ((&&) (opt_eqb color_eqb p.foreground q.foreground)
        (opt_eqb color_eqb p.background q.background))
      (inten_eqb p.intensity q.intensity)) (N.eqb p.attrs q.attrs)

(** val cell_eqb : cell -> cell -> bool **)

let cell_eqb a b =
  (&&) (N.eqb a.ch b.ch) (pen_eqb a.cpen b.cpen)

(** val line_eqb : line -> line -> bool **)

let line_eqb a b =
  (&&) (list_eqb cell_eqb a.cells b.cells) (eqb a.wrapped b.wrapped)

type pstate =
| Ground
| Escape
| EscapeIntermediate
| CsiEntry
| CsiParam
| CsiIntermediate
| CsiIgnore
| DcsEntry
| DcsParam
| DcsIntermediate
| DcsPassthrough
| DcsIgnore
| OscString
| SosPmApcString

(** val pstate_eqb : pstate -> pstate -> bool **)

let pstate_eqb a b =
  match a with
  | Ground -> (match b with
               | Ground -> true
               | _ -> false)
  | Escape -> (match b with
               | Escape -> true
               | _ -> false)
  | EscapeIntermediate ->
    (match b with
     | EscapeIntermediate -> true
     | _ -> false)
  | CsiEntry -> (match b with
                 | CsiEntry -> true
                 | _ -> false)
  | CsiParam -> (match b with
                 | CsiParam -> true
                 | _ -> false)
  | CsiIntermediate -> (match b with
                        | CsiIntermediate -> true
                        | _ -> false)
  | CsiIgnore -> (match b with
                  | CsiIgnore -> true
                  | _ -> false)
  | DcsEntry -> (match b with
                 | DcsEntry -> true
                 | _ -> false)
  | DcsParam -> (match b with
                 | DcsParam -> true
                 | _ -> false)
  | DcsIntermediate -> (match b with
                        | DcsIntermediate -> true
                        | _ -> false)
  | DcsPassthrough -> (match b with
                       | DcsPassthrough -> true
                       | _ -> false)
  | DcsIgnore -> (match b with
                  | DcsIgnore -> true
                  | _ -> false)
  | OscString -> (match b with
                  | OscString -> true
                  | _ -> false)
  | SosPmApcString -> (match b with
                       | SosPmApcString -> true
                       | _ -> false)

type param = { cur_part : nat; parts : n list }

type parser0 = { pst : pstate; params : param list; cur_param : nat;
                 inter : n option }

type charset =
| CsAscii
| CsDrawing

type ansi_mode =
| Insert
| NewLine

type ctc_op =
| CtcSet
| CtcClearCurrentColumn
| CtcClearAll

type dec_mode =
| CursorKeys
| Origin
| AutoWrap
| TextCursorEnable
| AltScreenBuffer
| SaveCursor
| SaveCursorAltScreenBuffer

type ed_scope =
| EdBelow
| EdAbove
| EdAll
| EdSavedLines

type el_scope =
| ElToRight
| ElToLeft
| ElAll

type tbc_scope =
| TbcCurrentColumn
| TbcAll

type xtwinops_op =
| XtwinopsResize of n * n

type sgr_op =
| Reset
| SetBoldIntensity
| SetFaintIntensity
| SetItalic
| SetUnderline
| SetBlink
| SetInverse
| SetStrikethrough
| ResetIntensity
| ResetItalic
| ResetUnderline
| ResetBlink
| ResetInverse
| ResetStrikethrough
| SetForegroundColor of color
| ResetForegroundColor
| SetBackgroundColor of color
| ResetBackgroundColor

type func =
| Bs
| Cbt of n
| Cha of n
| Cht of n
| Cnl of n
| Cpl of n
| Cr
| Ctc of ctc_op
| Cub of n
| Cud of n
| Cuf of n
| Cup of n * n
| Cuu of n
| Dch of n
| Decaln
| Decrc
| Decrst of dec_mode list
| Decsc
| Decset of dec_mode list
| Decstbm of n * n
| Decstr
| Dl of n
| Ech of n
| Ed of ed_scope
| El of el_scope
| G1d4 of charset
| Gzd4 of charset
| Ht
| Hts
| Ich of n
| Il of n
| Lf
| Nel
| Print of n
| Rep of n
| Ri
| Ris
| Rm of ansi_mode list
| Scorc
| Scosc
| Sd of n
| Sgr of sgr_op list
| Si
| Sm of ansi_mode list
| So
| Su of n
| Tbc of tbc_scope
| Vpa of n
| Vpr of n
| Xtwinops of xtwinops_op

type spat =
| AnyState
| St of pstate

type act =
| ASetState of pstate
| AClear
| ACollect
| AParam
| APut
| AOscPut
| ARetExecute
| ARetCsi
| ARetEsc
| ARetPrint

type arm = ((spat * n) * n) list * act list

type buffer = { lines : line list; bcols : nat; brows : nat;
                blimit : (n * n) option; trim_needed : bool }

type saved_ctx = { sc_col : nat; sc_row : nat; sc_pen : pen;
                   sc_origin : bool; sc_awm : bool }

type btype =
| Primary
| Alternate

type term = { cols : nat; rows : nat; buf : buffer; other : buffer;
              active : btype; sb_limit : n option; cur_col : nat;
              cur_row : nat; cur_vis : bool; tpen : pen; cs0 : charset;
              cs1 : charset; acs : nat; tabs : nat list; ins : bool;
              org : bool; awm : bool; nlm : bool; ckm : bool; pend : 
              bool; top : nat; bot : nat; sctx : saved_ctx;
              asctx : saved_ctx; dirty : bool list; xtw : bool }

type vt = { vparser : parser0; vterm : term }

(** val pARAMS_LEN : nat **)

let pARAMS_LEN =
  S (S (S (S (S (S (S (S (S (S (S (S (S (S (S (S (S (S (S (S (S (S (S (S (S
    (S (S (S (S (S (S (S O)))))))))))))))))))))))))))))))

(** val mAX_PARAM_LEN : nat **)

let mAX_PARAM_LEN =
  S (S (S (S (S (S O)))))

(** val aDD_PART_CAP : nat **)

let aDD_PART_CAP =
  S (S (S (S (S O))))

(** val add_digit_gen : n -> n -> n **)

let add_digit_gen number input =
  N.modulo (N.add (N.mul (Npos (XO (XI (XO XH)))) number) input) (Npos (XO
    (XO (XO (XO (XO (XO (XO (XO (XO (XO (XO (XO (XO (XO (XO (XO
    XH)))))))))))))))))

(** val pARAM_SEP : n **)

let pARAM_SEP =
  Npos (XI (XI (XO (XI (XI XH)))))

(** val pART_SEP : n **)

let pART_SEP =
  Npos (XO (XI (XO (XI (XI XH)))))

(** val dIGIT_BASE : n **)

let dIGIT_BASE =
  Npos (XO (XO (XO (XO (XI XH)))))

(** val iTALIC_MASK : n **)

let iTALIC_MASK =
  Npos XH

(** val uNDERLINE_MASK : n **)

let uNDERLINE_MASK =
  Npos (XO XH)

(** val sTRIKETHROUGH_MASK : n **)

let sTRIKETHROUGH_MASK =
  Npos (XO (XO XH))

(** val bLINK_MASK : n **)

let bLINK_MASK =
  Npos (XO (XO (XO XH)))

(** val iNVERSE_MASK : n **)

let iNVERSE_MASK =
  Npos (XO (XO (XO (XO XH))))

(** val sPECIAL_GFX_CHARS : n list **)

let sPECIAL_GFX_CHARS =
  (Npos (XO (XI (XI (XO (XO (XI (XI (XO (XO (XI (XI (XO (XO
    XH)))))))))))))) :: ((Npos (XO (XI (XO (XO (XI (XO (XO (XI (XI (XO (XI
    (XO (XO XH)))))))))))))) :: ((Npos (XI (XO (XO (XI (XO (XO (XO (XO (XO
    (XO (XI (XO (XO XH)))))))))))))) :: ((Npos (XO (XO (XI (XI (XO (XO (XO
    (XO (XO (XO (XI (XO (XO XH)))))))))))))) :: ((Npos (XI (XO (XI (XI (XO
    (XO (XO (XO (XO (XO (XI (XO (XO XH)))))))))))))) :: ((Npos (XO (XI (XO
    (XI (XO (XO (XO (XO (XO (XO (XI (XO (XO XH)))))))))))))) :: ((Npos (XO
    (XO (XO (XO (XI (XI (XO XH)))))))) :: ((Npos (XI (XO (XO (XO (XI (XI (XO
    XH)))))))) :: ((Npos (XO (XO (XI (XO (XO (XI (XO (XO (XO (XO (XI (XO (XO
    XH)))))))))))))) :: ((Npos (XI (XI (XO (XI (XO (XO (XO (XO (XO (XO (XI
    (XO (XO XH)))))))))))))) :: ((Npos (XO (XO (XO (XI (XI (XO (XO (XO (XI
    (XO (XI (XO (XO XH)))))))))))))) :: ((Npos (XO (XO (XO (XO (XI (XO (XO
    (XO (XI (XO (XI (XO (XO XH)))))))))))))) :: ((Npos (XO (XO (XI (XI (XO
    (XO (XO (XO (XI (XO (XI (XO (XO XH)))))))))))))) :: ((Npos (XO (XO (XI
    (XO (XI (XO (XO (XO (XI (XO (XI (XO (XO XH)))))))))))))) :: ((Npos (XO
    (XO (XI (XI (XI (XI (XO (XO (XI (XO (XI (XO (XO
    XH)))))))))))))) :: ((Npos (XO (XI (XO (XI (XI (XI (XO (XI (XI (XI (XO
    (XO (XO XH)))))))))))))) :: ((Npos (XI (XI (XO (XI (XI (XI (XO (XI (XI
    (XI (XO (XO (XO XH)))))))))))))) :: ((Npos (XO (XO (XO (XO (XO (XO (XO
    (XO (XI (XO (XI (XO (XO XH)))))))))))))) :: ((Npos (XO (XO (XI (XI (XI
    (XI (XO (XI (XI (XI (XO (XO (XO XH)))))))))))))) :: ((Npos (XI (XO (XI
    (XI (XI (XI (XO (XI (XI (XI (XO (XO (XO XH)))))))))))))) :: ((Npos (XO
    (XO (XI (XI (XI (XO (XO (XO (XI (XO (XI (XO (XO
    XH)))))))))))))) :: ((Npos (XO (XO (XI (XO (XO (XI (XO (XO (XI (XO (XI
    (XO (XO XH)))))))))))))) :: ((Npos (XO (XO (XI (XO (XI (XI (XO (XO (XI
    (XO (XI (XO (XO XH)))))))))))))) :: ((Npos (XO (XO (XI (XI (XO (XI (XO
    (XO (XI (XO (XI (XO (XO XH)))))))))))))) :: ((Npos (XO (XI (XO (XO (XO
    (XO (XO (XO (XI (XO (XI (XO (XO XH)))))))))))))) :: ((Npos (XO (XO (XI
    (XO (XO (XI (XI (XO (XO (XI (XO (XO (XO XH)))))))))))))) :: ((Npos (XI
    (XO (XI (XO (XO (XI (XI (XO (XO (XI (XO (XO (XO
    XH)))))))))))))) :: ((Npos (XO (XO (XO (XO (XO (XO (XI (XI (XI
    XH)))))))))) :: ((Npos (XO (XO (XO (XO (XO (XI (XI (XO (XO (XI (XO (XO
    (XO XH)))))))))))))) :: ((Npos (XI (XI (XO (XO (XO (XI (XO
    XH)))))))) :: ((Npos (XI (XO (XI (XO (XO (XO (XI (XI (XO (XI (XO (XO (XO
    XH)))))))))))))) :: []))))))))))))))))))))))))))))))

(** val gFX_LO : n **)

let gFX_LO =
  Npos (XO (XO (XO (XO (XO (XI XH))))))

(** val gFX_HI_EXCL : n **)

let gFX_HI_EXCL =
  Npos (XI (XI (XI (XI (XI (XI XH))))))

(** val gFX_OFF : n **)

let gFX_OFF =
  Npos (XO (XO (XO (XO (XO (XI XH))))))

(** val hard_of : n -> n **)

let hard_of l =
  N.add l (N.div l (Npos (XO (XI (XO XH)))))

(** val tAB_START : nat **)

let tAB_START =
  S (S (S (S (S (S (S (S O)))))))

(** val tAB_STEP : nat **)

let tAB_STEP =
  S (S (S (S (S (S (S (S O)))))))

(** val as_usize_gen : n -> nat -> nat **)

let as_usize_gen value default =
  if N.eqb value N0 then default else N.to_nat value

(** val sGRP_T1 : n **)

let sGRP_T1 =
  Npos (XO (XO (XO XH)))

(** val sGRP_T2 : n **)

let sGRP_T2 =
  Npos (XO (XO (XO (XO XH))))

(** val sGRP_O2 : n **)

let sGRP_O2 =
  Npos (XO (XO (XI (XO (XI XH)))))

(** val sGRP_O3 : n **)

let sGRP_O3 =
  Npos (XO (XO (XO XH)))

(** val sGRP_O4 : n **)

let sGRP_O4 =
  Npos (XO (XO (XO XH)))

(** val blank_cell : pen -> cell **)

let blank_cell p =
  { ch = (Npos (XO (XO (XO (XO (XO XH)))))); cpen = p }

(** val default_cell : cell **)

let default_cell =
  blank_cell default_pen

(** val pen_is_default : pen -> bool **)

let pen_is_default p =
  pen_eqb p default_pen

(** val cell_is_default : cell -> bool **)

let cell_is_default c =
  (&&) (N.eqb c.ch (Npos (XO (XO (XO (XO (XO XH))))))) (pen_is_default c.cpen)

(** val blank_line : nat -> pen -> line **)

let blank_line n0 p =
  { cells = (repeat (blank_cell p) n0); wrapped = false }

(** val llen : line -> nat **)

let llen l =
  length l.cells

(** val line_clear_ok : nat -> nat -> line -> bool **)

let line_clear_ok a b l =
  (&&) (Nat.leb a b) (Nat.leb b (llen l))

(** val line_clear : nat -> nat -> pen -> line -> line **)

let line_clear a b p l =
  set (fun l0 -> l0.cells) (fun f ->
    let l0 = fun r -> f r.cells in
    (fun x -> { cells = (l0 x); wrapped = x.wrapped })) (fun _ ->
    fill_range a b (blank_cell p) l.cells) l

(** val line_clearM : nat -> nat -> pen -> line -> line res **)

let line_clearM a b p l =
  if line_clear_ok a b l
  then Ok (line_clear a b p l)
  else Panic (S (S (S (S (S (S (S (S (S (S (S (S (S (S (S (S (S (S (S (S
         O))))))))))))))))))))

(** val line_print_ok : nat -> line -> bool **)

let line_print_ok col l =
  Nat.ltb col (llen l)

(** val line_print : nat -> cell -> line -> line **)

let line_print col c l =
  set (fun l0 -> l0.cells) (fun f ->
    let l0 = fun r -> f r.cells in
    (fun x -> { cells = (l0 x); wrapped = x.wrapped })) (fun _ ->
    upd col (fun _ -> c) l.cells) l

(** val line_printM : nat -> cell -> line -> line res **)

let line_printM col c l =
  if line_print_ok col l
  then Ok (line_print col c l)
  else Panic (S (S (S (S (S (S (S (S (S (S (S (S (S (S (S (S (S (S (S (S (S
         O)))))))))))))))))))))

(** val line_insert_ok : nat -> nat -> line -> bool **)

let line_insert_ok col n0 l =
  (&&) (Nat.leb col (llen l)) (Nat.leb n0 (sub (llen l) col))

(** val line_insert : nat -> nat -> cell -> line -> line **)

let line_insert col n0 c l =
  set (fun l0 -> l0.cells) (fun f ->
    let l0 = fun r -> f r.cells in
    (fun x -> { cells = (l0 x); wrapped = x.wrapped })) (fun _ ->
    fill_range col (add col n0) c (on_range col (llen l) (rotr n0) l.cells)) l

(** val line_insertM : nat -> nat -> cell -> line -> line res **)

let line_insertM col n0 c l =
  if line_insert_ok col n0 l
  then Ok (line_insert col n0 c l)
  else Panic (S (S (S (S (S (S (S (S (S (S (S (S (S (S (S (S (S (S (S (S (S
         (S O))))))))))))))))))))))

(** val line_delete_ok : nat -> nat -> line -> bool **)

let line_delete_ok col n0 l =
  (&&) (Nat.leb col (llen l)) (Nat.leb n0 (sub (llen l) col))

(** val line_delete : nat -> nat -> pen -> line -> line **)

let line_delete col n0 p l =
  set (fun l0 -> l0.cells) (fun f ->
    let l0 = fun r -> f r.cells in
    (fun x -> { cells = (l0 x); wrapped = x.wrapped })) (fun _ ->
    fill_range (sub (llen l) n0) (llen l) (blank_cell p)
      (on_range col (llen l) (rotl n0) l.cells)) l

(** val line_deleteM : nat -> nat -> pen -> line -> line res **)

let line_deleteM col n0 p l =
  if line_delete_ok col n0 l
  then Ok (line_delete col n0 p l)
  else Panic (S (S (S (S (S (S (S (S (S (S (S (S (S (S (S (S (S (S (S (S (S
         (S (S O)))))))))))))))))))))))

(** val trailers : line -> nat **)

let trailers l =
  length (take_while cell_is_default (rev l.cells))

(** val line_trim : line -> line **)

let line_trim l =
  set (fun l0 -> l0.cells) (fun f ->
    let l0 = fun r -> f r.cells in
    (fun x -> { cells = (l0 x); wrapped = x.wrapped })) (fun _ ->
    firstn (sub (llen l) (trailers l)) l.cells) l

(** val line_expand_ok : nat -> line -> bool **)

let line_expand_ok len l =
  Nat.leb (llen l) len

(** val line_expand : nat -> pen -> line -> line **)

let line_expand len p l =
  set (fun l0 -> l0.cells) (fun f ->
    let l0 = fun r -> f r.cells in
    (fun x -> { cells = (l0 x); wrapped = x.wrapped })) (fun _ ->
    app l.cells (repeat (blank_cell p) (sub len (llen l)))) l

(** val line_expandM : nat -> pen -> line -> line res **)

let line_expandM len p l =
  if line_expand_ok len l
  then Ok (line_expand len p l)
  else Panic (S (S (S (S (S (S (S (S (S (S (S (S (S (S (S (S (S (S (S (S (S
         (S (S (S O))))))))))))))))))))))))

(** val line_is_blank : line -> bool **)

let line_is_blank l =
  forallb cell_is_default l.cells

(** val line_contract : nat -> line -> line * line option **)

let line_contract len l =
  let l1 =
    if l.wrapped
    then l
    else set (fun l0 -> l0.cells) (fun f ->
           let l0 = fun r -> f r.cells in
           (fun x -> { cells = (l0 x); wrapped = x.wrapped })) (fun _ ->
           firstn (Nat.max len (sub (llen l) (trailers l))) l.cells) l
  in
  if Nat.ltb len (llen l1)
  then let rest0 = { cells = (skipn len l1.cells); wrapped = l1.wrapped } in
       let l2 =
         set (fun l0 -> l0.cells) (fun f ->
           let l0 = fun r -> f r.cells in
           (fun x -> { cells = (l0 x); wrapped = x.wrapped })) (fun _ ->
           firstn len l1.cells) l1
       in
       let rest = if l2.wrapped then rest0 else line_trim rest0 in
       (match rest.cells with
        | [] -> (l2, None)
        | _ :: _ ->
          ((set (fun l0 -> l0.wrapped) (fun f ->
             let b = fun r -> f r.wrapped in
             (fun x -> { cells = x.cells; wrapped = (b x) })) (fun _ -> true)
             l2), (Some rest)))
  else (l1, None)

(** val line_extend :
    line -> line -> nat -> (line * (bool * line option)) res **)

let line_extend l other0 len =
  if negb (Nat.leb (llen l) len)
  then Panic (S (S (S (S (S (S (S (S (S (S (S (S (S (S (S (S (S (S (S (S (S
         (S (S (S (S O)))))))))))))))))))))))))
  else let needed = sub len (llen l) in
       if Nat.eqb needed O
       then Ok (l, (true, (Some other0)))
       else if negb l.wrapped
            then Ok ((line_expand len default_pen l), (true, (Some other0)))
            else let other1 =
                   if other0.wrapped then other0 else line_trim other0
                 in
                 if Nat.ltb needed (llen other1)
                 then let l' =
                        set (fun l0 -> l0.cells) (fun f ->
                          let l0 = fun r -> f r.cells in
                          (fun x -> { cells = (l0 x); wrapped = x.wrapped }))
                          (fun _ -> app l.cells (firstn needed other1.cells))
                          l
                      in
                      let rc =
                        firstn (sub (llen other1) needed)
                          (rotl needed other1.cells)
                      in
                      Ok (l', (true, (Some { cells = rc; wrapped =
                      other1.wrapped })))
                 else let l' =
                        set (fun l0 -> l0.cells) (fun f ->
                          let l0 = fun r -> f r.cells in
                          (fun x -> { cells = (l0 x); wrapped = x.wrapped }))
                          (fun _ -> app l.cells other1.cells) l
                      in
                      if negb other1.wrapped
                      then let l'' =
                             set (fun l0 -> l0.wrapped) (fun f ->
                               let b = fun r -> f r.wrapped in
                               (fun x -> { cells = x.cells; wrapped = (b x) }))
                               (fun _ -> false) l'
                           in
                           let l''' =
                             if Nat.ltb (llen l'') len
                             then line_expand len default_pen l''
                             else l''
                           in
                           Ok (l''', (true, None))
                      else Ok (l', (false, None))

(** val reflow_go :
    nat -> nat -> line option -> line list -> line list -> line list res **)

let rec reflow_go fuel ncols rest iter0 acc =
  match fuel with
  | O -> Panic site_fuel
  | S fuel' ->
    let cur =
      match rest with
      | Some l -> Some (l, iter0)
      | None -> (match iter0 with
                 | [] -> None
                 | l :: it -> Some (l, it))
    in
    (match cur with
     | Some p ->
       let (l, it) = p in
       (match Nat.compare ncols (llen l) with
        | Eq -> reflow_go fuel' ncols None it (l :: acc)
        | Lt ->
          let (l', r) = line_contract ncols l in
          reflow_go fuel' ncols r it (l' :: acc)
        | Gt ->
          (match it with
           | [] ->
             bind (line_expandM ncols default_pen l) (fun l' ->
               reflow_go fuel' ncols None []
                 ((set (fun l0 -> l0.wrapped) (fun f ->
                    let b = fun r -> f r.wrapped in
                    (fun x -> { cells = x.cells; wrapped = (b x) }))
                    (fun _ -> false) l') :: acc))
           | next :: it' ->
             bind (line_extend l next ncols) (fun x ->
               let (l', p0) = x in
               let (b, r) = p0 in
               if b
               then reflow_go fuel' ncols r it' (l' :: acc)
               else reflow_go fuel' ncols (Some l') it' acc)))
     | None -> Ok (rev acc))

(** val total_cells : line list -> nat **)

let total_cells ls =
  fold_right (fun l n0 -> add (llen l) n0) O ls

(** val reflow_fuel : line list -> nat **)

let reflow_fuel ls =
  S (S (add (total_cells ls) (mul (S (S O)) (length ls))))

(** val reflowM : line list -> nat -> line list res **)

let reflowM ls ncols =
  bind (reflow_go (reflow_fuel ls) ncols None ls []) (fun out0 ->
    if forallb (fun l -> Nat.eqb (llen l) ncols) out0
    then Ok out0
    else Panic (S (S (S (S (S (S (S (S (S (S (S (S (S (S (S (S (S (S (S (S (S
           (S (S (S (S (S O)))))))))))))))))))))))))))

(** val limit_of : n option -> (n * n) option **)

let limit_of = function
| Some n0 -> Some (n0, (hard_of n0))
| None -> None

(** val buffer_new : nat -> nat -> n option -> pen option -> buffer **)

let buffer_new c r l p =
  let p0 = match p with
           | Some p0 -> p0
           | None -> default_pen in
  { lines = (repeat (blank_line c p0) r); bcols = c; brows = r; blimit =
  (limit_of l); trim_needed = false }

(** val sb_len : buffer -> nat **)

let sb_len b =
  sub (length b.lines) b.brows

(** val view_ok : buffer -> bool **)

let view_ok b =
  Nat.leb b.brows (length b.lines)

(** val view : buffer -> line list **)

let view b =
  skipn (sb_len b) b.lines

(** val viewM : buffer -> line list res **)

let viewM b =
  if view_ok b
  then Ok (view b)
  else Panic (S (S (S (S (S (S (S (S (S (S (S (S (S (S (S (S (S (S (S (S (S
         (S (S (S (S (S (S (S (S (S O))))))))))))))))))))))))))))))

(** val with_row : buffer -> nat -> (line -> line res) -> buffer res **)

let with_row b r f =
  if (&&) (view_ok b) (Nat.ltb r b.brows)
  then (match nth_error b.lines (add (sb_len b) r) with
        | Some l ->
          bind (f l) (fun l' -> Ok
            (set (fun b0 -> b0.lines) (fun f0 ->
              let l0 = fun r0 -> f0 r0.lines in
              (fun x -> { lines = (l0 x); bcols = x.bcols; brows = x.brows;
              blimit = x.blimit; trim_needed = x.trim_needed })) (fun _ ->
              upd (add (sb_len b) r) (fun _ -> l') b.lines) b))
        | None ->
          Panic (S (S (S (S (S (S (S (S (S (S (S (S (S (S (S (S (S (S (S (S
            (S (S (S (S (S (S (S (S (S (S (S O))))))))))))))))))))))))))))))))
  else Panic (S (S (S (S (S (S (S (S (S (S (S (S (S (S (S (S (S (S (S (S (S
         (S (S (S (S (S (S (S (S (S (S O)))))))))))))))))))))))))))))))

(** val get_row : buffer -> nat -> line res **)

let get_row b r =
  if (&&) (view_ok b) (Nat.ltb r b.brows)
  then (match nth_error b.lines (add (sb_len b) r) with
        | Some l -> Ok l
        | None ->
          Panic (S (S (S (S (S (S (S (S (S (S (S (S (S (S (S (S (S (S (S (S
            (S (S (S (S (S (S (S (S (S (S (S (S
            O)))))))))))))))))))))))))))))))))
  else Panic (S (S (S (S (S (S (S (S (S (S (S (S (S (S (S (S (S (S (S (S (S
         (S (S (S (S (S (S (S (S (S (S (S O))))))))))))))))))))))))))))))))

(** val set_wrapped : bool -> line -> line res **)

let set_wrapped w l =
  Ok
    (set (fun l0 -> l0.wrapped) (fun f ->
      let b = fun r -> f r.wrapped in
      (fun x -> { cells = x.cells; wrapped = (b x) })) (fun _ -> w) l)

(** val with_view :
    buffer -> bool -> (line list -> line list) -> buffer res **)

let with_view b ok f =
  if (&&) (view_ok b) ok
  then Ok
         (set (fun b0 -> b0.lines) (fun f0 ->
           let l = fun r -> f0 r.lines in
           (fun x -> { lines = (l x); bcols = x.bcols; brows = x.brows;
           blimit = x.blimit; trim_needed = x.trim_needed })) (fun _ ->
           app (firstn (sb_len b) b.lines) (f (view b))) b)
  else Panic (S (S (S (S (S (S (S (S (S (S (S (S (S (S (S (S (S (S (S (S (S
         (S (S (S (S (S (S (S (S (S (S (S (S
         O)))))))))))))))))))))))))))))))))

(** val buf_clear : buffer -> nat -> nat -> pen -> buffer res **)

let buf_clear b a z0 p =
  with_view b ((&&) (Nat.leb a z0) (Nat.leb z0 b.brows))
    (fill_range a z0 (blank_line b.bcols p))

(** val buf_extend : buffer -> nat -> nat -> pen -> buffer **)

let buf_extend b n0 c p =
  set (fun b0 -> b0.lines) (fun f ->
    let l = fun r -> f r.lines in
    (fun x -> { lines = (l x); bcols = x.bcols; brows = x.brows; blimit =
    x.blimit; trim_needed = x.trim_needed })) (fun _ ->
    app b.lines (repeat (blank_line c p) n0)) b

(** val buf_print : buffer -> nat -> nat -> cell -> buffer res **)

let buf_print b col row c =
  with_row b row (line_printM col c)

(** val buf_wrap : buffer -> nat -> buffer res **)

let buf_wrap b row =
  with_row b row (set_wrapped true)

(** val buf_insert : buffer -> nat -> nat -> nat -> cell -> buffer res **)

let buf_insert b col row n0 c =
  bind
    (guard (Nat.leb col b.bcols) (S (S (S (S (S (S (S (S (S (S (S (S (S (S (S
      (S (S (S (S (S (S (S (S (S (S (S (S (S (S (S (S (S (S (S
      O))))))))))))))))))))))))))))))))))) (fun _ ->
    with_row b row (line_insertM col (Nat.min n0 (sub b.bcols col)) c))

(** val buf_delete : buffer -> nat -> nat -> nat -> pen -> buffer res **)

let buf_delete b col row n0 p =
  bind
    (guard (Nat.leb col b.bcols) (S (S (S (S (S (S (S (S (S (S (S (S (S (S (S
      (S (S (S (S (S (S (S (S (S (S (S (S (S (S (S (S (S (S (S (S
      O)))))))))))))))))))))))))))))))))))) (fun _ ->
    with_row b row (fun l ->
      bind (line_deleteM col (Nat.min n0 (sub b.bcols col)) p l) (fun l' ->
        set_wrapped false l')))

type erase_mode =
| NextChars of nat
| FromCursorToEndOfView
| FromStartOfViewToCursor
| WholeView
| FromCursorToEndOfLine
| FromStartOfLineToCursor
| WholeLine

(** val buf_erase :
    buffer -> nat -> nat -> erase_mode -> pen -> buffer res **)

let buf_erase b col row m p =
  match m with
  | NextChars n0 ->
    bind
      (guard (Nat.leb col b.bcols) (S (S (S (S (S (S (S (S (S (S (S (S (S (S
        (S (S (S (S (S (S (S (S (S (S (S (S (S (S (S (S (S (S (S (S (S (S
        O))))))))))))))))))))))))))))))))))))) (fun _ ->
      let n2 = Nat.min n0 (sub b.bcols col) in
      let e = add col n2 in
      with_row b row (fun l ->
        bind (line_clearM col e p l) (fun l' ->
          if Nat.eqb e b.bcols then set_wrapped false l' else Ok l')))
  | FromCursorToEndOfView ->
    bind
      (with_row b row (fun l ->
        line_clearM col b.bcols p
          (set (fun l0 -> l0.wrapped) (fun f ->
            let b0 = fun r -> f r.wrapped in
            (fun x -> { cells = x.cells; wrapped = (b0 x) })) (fun _ ->
            false) l))) (fun b1 -> buf_clear b1 (add row (S O)) b1.brows p)
  | FromStartOfViewToCursor ->
    bind (with_row b row (line_clearM O (Nat.min (add col (S O)) b.bcols) p))
      (fun b1 -> buf_clear b1 O row p)
  | WholeView -> buf_clear b O b.brows p
  | FromCursorToEndOfLine ->
    with_row b row (fun l ->
      bind (line_clearM col b.bcols p l) (fun l' -> set_wrapped false l'))
  | FromStartOfLineToCursor ->
    with_row b row (line_clearM O (Nat.min (add col (S O)) b.bcols) p)
  | WholeLine ->
    with_row b row (fun l ->
      bind (line_clearM O b.bcols p l) (fun l' -> set_wrapped false l'))

(** val buf_scroll_up : buffer -> nat -> nat -> nat -> pen -> buffer res **)

let buf_scroll_up b a z0 n0 p =
  bind
    (guard
      ((&&) ((&&) (Nat.leb a z0) (Nat.leb (S O) z0)) (Nat.leb (S O) b.brows))
      (S (S (S (S (S (S (S (S (S (S (S (S (S (S (S (S (S (S (S (S (S (S (S (S
      (S (S (S (S (S (S (S (S (S (S (S (S (S
      O)))))))))))))))))))))))))))))))))))))) (fun _ ->
    let n2 = Nat.min n0 (sub z0 a) in
    bind
      (if Nat.ltb (sub z0 (S O)) (sub b.brows (S O))
       then with_row b (sub z0 (S O)) (set_wrapped false)
       else Ok b) (fun b1 ->
      bind
        (if Nat.eqb a O
         then if Nat.eqb z0 b1.brows
              then Ok (buf_extend b1 n2 b1.bcols p)
              else bind
                     (guard (view_ok b1) (S (S (S (S (S (S (S (S (S (S (S (S
                       (S (S (S (S (S (S (S (S (S (S (S (S (S (S (S (S (S (S
                       (S (S (S (S (S (S (S (S
                       O))))))))))))))))))))))))))))))))))))))) (fun _ ->
                     let index = add (sb_len b1) z0 in
                     bind
                       (guard (Nat.leb index (length b1.lines)) (S (S (S (S
                         (S (S (S (S (S (S (S (S (S (S (S (S (S (S (S (S (S
                         (S (S (S (S (S (S (S (S (S (S (S (S (S (S (S (S (S
                         O))))))))))))))))))))))))))))))))))))))) (fun _ ->
                       Ok
                       (set (fun b0 -> b0.lines) (fun f ->
                         let l = fun r -> f r.lines in
                         (fun x -> { lines = (l x); bcols = x.bcols; brows =
                         x.brows; blimit = x.blimit; trim_needed =
                         x.trim_needed })) (fun _ ->
                         insert_n index n2 (blank_line b1.bcols p) b1.lines)
                         b1)))
         else bind (with_row b1 (sub a (S O)) (set_wrapped false)) (fun b' ->
                bind
                  (with_view b' (Nat.leb z0 b'.brows)
                    (on_range a z0 (rotl n2))) (fun b'' ->
                  buf_clear b'' (sub z0 n2) z0 p))) (fun b2 -> Ok
        (set (fun b0 -> b0.trim_needed) (fun f ->
          let b0 = fun r -> f r.trim_needed in
          (fun x -> { lines = x.lines; bcols = x.bcols; brows = x.brows;
          blimit = x.blimit; trim_needed = (b0 x) })) (fun _ -> true) b2))))

(** val buf_scroll_down : buffer -> nat -> nat -> nat -> pen -> buffer res **)

let buf_scroll_down b a z0 n0 p =
  bind
    (guard (Nat.leb a z0) (S (S (S (S (S (S (S (S (S (S (S (S (S (S (S (S (S
      (S (S (S (S (S (S (S (S (S (S (S (S (S (S (S (S (S (S (S (S (S (S
      O)))))))))))))))))))))))))))))))))))))))) (fun _ ->
    let n2 = Nat.min n0 (sub z0 a) in
    bind (with_view b (Nat.leb z0 b.brows) (on_range a z0 (rotr n2)))
      (fun b1 ->
      bind (buf_clear b1 a (add a n2) p) (fun b2 ->
        bind
          (if Nat.ltb O a
           then with_row b2 (sub a (S O)) (set_wrapped false)
           else Ok b2) (fun b3 ->
          bind
            (guard (Nat.leb (S O) z0) (S (S (S (S (S (S (S (S (S (S (S (S (S
              (S (S (S (S (S (S (S (S (S (S (S (S (S (S (S (S (S (S (S (S (S
              (S (S (S (S (S O))))))))))))))))))))))))))))))))))))))))
            (fun _ -> with_row b3 (sub z0 (S O)) (set_wrapped false))))))

(** val logpos_go : line list -> nat -> nat -> nat -> nat * nat **)

let rec logpos_go ls c off row =
  match ls with
  | [] -> (off, row)
  | l :: r ->
    if l.wrapped
    then logpos_go r c (add off c) row
    else logpos_go r c O (add row (S O))

(** val logical_position :
    buffer -> nat -> nat -> nat -> nat -> (nat * nat) res **)

let logical_position b pc pr c r =
  bind
    (guard (Nat.leb r (length b.lines)) (S (S (S (S (S (S (S (S (S (S (S (S
      (S (S (S (S (S (S (S (S (S (S (S (S (S (S (S (S (S (S (S (S (S (S (S (S
      (S (S (S (S O))))))))))))))))))))))))))))))))))))))))) (fun _ ->
    let vis_row_offset = sub (length b.lines) r in
    let abs_row = add pr vis_row_offset in
    let last_available_row = Nat.min abs_row (length b.lines) in
    let log_row = sub abs_row last_available_row in
    let (off, row) = logpos_go (firstn abs_row b.lines) c O log_row in
    Ok ((add pc off), row))

(** val relpos1 : nat -> line list -> nat -> nat -> nat -> nat -> nat res **)

let rec relpos1 fuel ls target last_row r rel_row =
  match fuel with
  | O -> Panic site_fuel
  | S f ->
    if (&&) (Nat.ltb r target) (Nat.ltb rel_row last_row)
    then (match nth_error ls rel_row with
          | Some l ->
            relpos1 f ls target last_row
              (if l.wrapped then r else add r (S O)) (add rel_row (S O))
          | None ->
            Panic (S (S (S (S (S (S (S (S (S (S (S (S (S (S (S (S (S (S (S (S
              (S (S (S (S (S (S (S (S (S (S (S (S (S (S (S (S (S (S (S (S (S
              O))))))))))))))))))))))))))))))))))))))))))
    else Ok rel_row

(** val relpos2 : nat -> line list -> nat -> nat -> nat -> (nat * nat) res **)

let rec relpos2 fuel ls c rel_col rel_row =
  match fuel with
  | O -> Panic site_fuel
  | S f ->
    if Nat.leb c rel_col
    then (match nth_error ls rel_row with
          | Some l ->
            if l.wrapped
            then relpos2 f ls c (sub rel_col c) (add rel_row (S O))
            else Ok (rel_col, rel_row)
          | None ->
            Panic (S (S (S (S (S (S (S (S (S (S (S (S (S (S (S (S (S (S (S (S
              (S (S (S (S (S (S (S (S (S (S (S (S (S (S (S (S (S (S (S (S (S
              (S O)))))))))))))))))))))))))))))))))))))))))))
    else Ok (rel_col, rel_row)

(** val relative_position :
    line list -> nat -> nat -> nat -> nat -> (nat * z) res **)

let relative_position ls pc pr c r =
  bind
    (guard
      ((&&) ((&&) (Nat.leb (S O) (length ls)) (Nat.leb r (length ls)))
        (Nat.leb (S O) c)) (S (S (S (S (S (S (S (S (S (S (S (S (S (S (S (S (S
      (S (S (S (S (S (S (S (S (S (S (S (S (S (S (S (S (S (S (S (S (S (S (S (S
      (S (S O)))))))))))))))))))))))))))))))))))))))))))) (fun _ ->
    let last_row = sub (length ls) (S O) in
    bind (relpos1 (S (length ls)) ls pr last_row O O) (fun rel_row ->
      bind (relpos2 (S (S (add pc (length ls)))) ls c pc rel_row) (fun pat ->
        let (rel_col, rel_row0) = pat in
        let rel_col0 = Nat.min rel_col (sub c (S O)) in
        let off = sub (length ls) r in
        Ok (rel_col0, (Z.sub (Z.of_nat rel_row0) (Z.of_nat off))))))

(** val buf_resize :
    buffer -> nat -> nat -> nat -> nat -> (buffer * (nat * nat)) res **)

let buf_resize b ncols nrows cc cr =
  let old_cols = b.bcols in
  let old_rows = b.brows in
  bind (logical_position b cc cr old_cols old_rows) (fun pat ->
    let (lc, lr) = pat in
    bind
      (if negb (Nat.eqb ncols old_cols)
       then bind (reflowM b.lines ncols) (fun ls ->
              let line_count = length ls in
              let ls0 =
                if Nat.ltb line_count old_rows
                then app ls
                       (repeat (blank_line ncols default_pen)
                         (sub old_rows line_count))
                else ls
              in
              bind (relative_position ls0 lc lr ncols old_rows) (fun pat0 ->
                let (rc, rr) = pat0 in
                if Z.leb Z0 rr
                then Ok (((ls0, rc), (Z.to_nat rr)), old_rows)
                else Ok (((ls0, rc), O), (add old_rows (Z.to_nat (Z.opp rr))))))
       else Ok (((b.lines, cc), cr), old_rows)) (fun pat0 ->
      let (p, old_rows1) = pat0 in
      let (p0, cr1) = p in
      let (ls1, cc1) = p0 in
      let line_count = length ls1 in
      bind
        (match Nat.compare nrows old_rows1 with
         | Eq -> Ok (ls1, cr1)
         | Lt ->
           let height_delta = sub old_rows1 nrows in
           bind
             (guard (Nat.leb (add cr1 (S O)) old_rows1) (S (S (S (S (S (S (S
               (S (S (S (S (S (S (S (S (S (S (S (S (S (S (S (S (S (S (S (S (S
               (S (S (S (S (S (S (S (S (S (S (S (S (S (S (S (S
               O))))))))))))))))))))))))))))))))))))))))))))) (fun _ ->
             let inverted_cursor_row = sub (sub old_rows1 (S O)) cr1 in
             let excess = Nat.min height_delta inverted_cursor_row in
             bind
               (if Nat.ltb O excess
                then bind
                       (guard (Nat.leb excess line_count) (S (S (S (S (S (S
                         (S (S (S (S (S (S (S (S (S (S (S (S (S (S (S (S (S
                         (S (S (S (S (S (S (S (S (S (S (S (S (S (S (S (S (S
                         (S (S (S (S (S
                         O))))))))))))))))))))))))))))))))))))))))))))))
                       (fun _ ->
                       let t = firstn (sub line_count excess) ls1 in
                       bind
                         (guard (Nat.leb (S O) (length t)) (S (S (S (S (S (S
                           (S (S (S (S (S (S (S (S (S (S (S (S (S (S (S (S (S
                           (S (S (S (S (S (S (S (S (S (S (S (S (S (S (S (S (S
                           (S (S (S (S (S (S
                           O)))))))))))))))))))))))))))))))))))))))))))))))
                         (fun _ -> Ok
                         (upd (sub (length t) (S O)) (fun l ->
                           set (fun l0 -> l0.wrapped) (fun f ->
                             let b0 = fun r -> f r.wrapped in
                             (fun x -> { cells = x.cells; wrapped = (b0 x) }))
                             (fun _ -> false) l) t)))
                else Ok ls1) (fun ls' ->
               bind
                 (guard (Nat.leb (sub height_delta excess) cr1) (S (S (S (S
                   (S (S (S (S (S (S (S (S (S (S (S (S (S (S (S (S (S (S (S
                   (S (S (S (S (S (S (S (S (S (S (S (S (S (S (S (S (S (S (S
                   (S (S (S (S (S
                   O))))))))))))))))))))))))))))))))))))))))))))))))
                 (fun _ -> Ok (ls', (sub cr1 (sub height_delta excess))))))
         | Gt ->
           let height_delta = sub nrows old_rows1 in
           let scrollback_size = sub line_count (Nat.min old_rows1 line_count)
           in
           let cursor_row_shift = Nat.min scrollback_size height_delta in
           let height_delta0 = sub height_delta cursor_row_shift in
           let cr' =
             if Nat.ltb cr1 old_rows1 then add cr1 cursor_row_shift else cr1
           in
           let ls' =
             if Nat.ltb O height_delta0
             then app ls1
                    (repeat (blank_line ncols default_pen) height_delta0)
             else ls1
           in
           Ok (ls', cr')) (fun pat1 ->
        let (ls2, cr2) = pat1 in
        Ok
        ((set (fun b0 -> b0.trim_needed) (fun f ->
           let b0 = fun r -> f r.trim_needed in
           (fun x -> { lines = x.lines; bcols = x.bcols; brows = x.brows;
           blimit = x.blimit; trim_needed = (b0 x) })) (fun _ -> true)
           (set (fun b0 -> b0.brows) (fun f ->
             let n0 = fun r -> f r.brows in
             (fun x -> { lines = x.lines; bcols = x.bcols; brows = (n0 x);
             blimit = x.blimit; trim_needed = x.trim_needed })) (fun _ ->
             nrows)
             (set (fun b0 -> b0.bcols) (fun f ->
               let n0 = fun r -> f r.bcols in
               (fun x -> { lines = x.lines; bcols = (n0 x); brows = x.brows;
               blimit = x.blimit; trim_needed = x.trim_needed })) (fun _ ->
               ncols)
               (set (fun b0 -> b0.lines) (fun f ->
                 let l = fun r -> f r.lines in
                 (fun x -> { lines = (l x); bcols = x.bcols; brows = x.brows;
                 blimit = x.blimit; trim_needed = x.trim_needed })) (fun _ ->
                 ls2) b)))), (cc1, cr2)))))

(** val buf_gc : buffer -> (buffer * line list) res **)

let buf_gc b =
  if b.trim_needed
  then let b0 =
         set (fun b0 -> b0.trim_needed) (fun f ->
           let b0 = fun r -> f r.trim_needed in
           (fun x -> { lines = x.lines; bcols = x.bcols; brows = x.brows;
           blimit = x.blimit; trim_needed = (b0 x) })) (fun _ -> false) b
       in
       (match b0.blimit with
        | Some p ->
          let (soft, hard) = p in
          bind
            (guard (view_ok b0) (S (S (S (S (S (S (S (S (S (S (S (S (S (S (S
              (S (S (S (S (S (S (S (S (S (S (S (S (S (S (S (S (S (S (S (S (S
              (S (S (S (S (S (S (S (S (S (S (S (S
              O))))))))))))))))))))))))))))))))))))))))))))))))) (fun _ ->
            let size = N.of_nat (sb_len b0) in
            if N.ltb hard size
            then bind
                   (guard (N.leb soft size) (S (S (S (S (S (S (S (S (S (S (S
                     (S (S (S (S (S (S (S (S (S (S (S (S (S (S (S (S (S (S (S
                     (S (S (S (S (S (S (S (S (S (S (S (S (S (S (S (S (S (S (S
                     O))))))))))))))))))))))))))))))))))))))))))))))))))
                   (fun _ ->
                   let excess = N.to_nat (N.sub size soft) in
                   Ok
                   ((set (fun b1 -> b1.lines) (fun f ->
                      let l = fun r -> f r.lines in
                      (fun x -> { lines = (l x); bcols = x.bcols; brows =
                      x.brows; blimit = x.blimit; trim_needed =
                      x.trim_needed })) (fun _ -> skipn excess b0.lines) b0),
                   (firstn excess b0.lines)))
            else Ok (b0, []))
        | None -> Ok (b0, []))
  else Ok (b, [])

(** val tabs_range : nat -> nat -> nat list **)

let tabs_range start stop =
  map (fun i -> add start (mul tAB_STEP i))
    (seq O (Nat.div (add (sub stop start) (sub tAB_STEP (S O))) tAB_STEP))

(** val tabs_new : nat -> nat list **)

let tabs_new c =
  tabs_range tAB_START c

(** val tabs_set : nat -> nat list -> nat list **)

let rec tabs_set pos l = match l with
| [] -> pos :: []
| t :: r ->
  if Nat.ltb pos t
  then pos :: l
  else if Nat.eqb pos t then l else t :: (tabs_set pos r)

(** val tabs_unset : nat -> nat list -> nat list **)

let rec tabs_unset pos = function
| [] -> []
| t :: r -> if Nat.eqb pos t then r else t :: (tabs_unset pos r)

(** val tabs_expand : nat -> nat -> nat list -> nat list **)

let tabs_expand start stop l =
  let start0 =
    if negb (Nat.eqb (Nat.modulo start (S (S (S (S (S (S (S (S O))))))))) O)
    then add start
           (sub (S (S (S (S (S (S (S (S O))))))))
             (Nat.modulo start (S (S (S (S (S (S (S (S O))))))))))
    else start
  in
  app l
    (map (fun i -> add start0 (mul (S (S (S (S (S (S (S (S O)))))))) i))
      (seq O
        (Nat.div (add (sub stop start0) (S (S (S (S (S (S (S O)))))))) (S (S
          (S (S (S (S (S (S O)))))))))))

(** val tabs_contract : nat -> nat list -> nat list **)

let tabs_contract pos l =
  take_while (fun t -> Nat.ltb t pos) l

(** val tabs_before : nat list -> nat -> nat -> nat option res **)

let tabs_before l pos n0 =
  bind
    (guard (Nat.leb (S O) n0) (S (S (S (S (S (S (S (S (S (S (S (S (S (S (S (S
      (S (S (S (S (S (S (S (S (S (S (S (S (S (S (S (S (S (S (S (S (S (S (S (S
      (S (S (S (S (S (S (S (S (S (S
      O))))))))))))))))))))))))))))))))))))))))))))))))))) (fun _ -> Ok
    (nth_error (skip_while (fun t -> Nat.leb pos t) (rev l)) (sub n0 (S O))))

(** val tabs_after : nat list -> nat -> nat -> nat option res **)

let tabs_after l pos n0 =
  bind
    (guard (Nat.leb (S O) n0) (S (S (S (S (S (S (S (S (S (S (S (S (S (S (S (S
      (S (S (S (S (S (S (S (S (S (S (S (S (S (S (S (S (S (S (S (S (S (S (S (S
      (S (S (S (S (S (S (S (S (S (S (S
      O)))))))))))))))))))))))))))))))))))))))))))))))))))) (fun _ -> Ok
    (nth_error (skip_while (fun t -> Nat.leb t pos) l) (sub n0 (S O))))

(** val dirty_new : nat -> bool list **)

let dirty_new n0 =
  repeat true n0

(** val dirty_add : bool list -> nat -> bool list res **)

let dirty_add d n0 =
  if Nat.ltb n0 (length d)
  then Ok (upd n0 (fun _ -> true) d)
  else Panic (S (S (S (S (S (S (S (S (S (S (S (S (S (S (S (S (S (S (S (S (S
         (S (S (S (S (S (S (S (S (S (S (S (S (S (S (S (S (S (S (S (S (S (S (S
         (S (S (S (S (S (S (S (S (S (S (S (S (S (S (S (S
         O))))))))))))))))))))))))))))))))))))))))))))))))))))))))))))

(** val dirty_extend : bool list -> nat -> nat -> bool list res **)

let dirty_extend d a z0 =
  if (&&) (Nat.leb a z0) (Nat.leb z0 (length d))
  then Ok (fill_range a z0 true d)
  else Panic (S (S (S (S (S (S (S (S (S (S (S (S (S (S (S (S (S (S (S (S (S
         (S (S (S (S (S (S (S (S (S (S (S (S (S (S (S (S (S (S (S (S (S (S (S
         (S (S (S (S (S (S (S (S (S (S (S (S (S (S (S (S (S
         O)))))))))))))))))))))))))))))))))))))))))))))))))))))))))))))

(** val dirty_resize : bool list -> nat -> bool list **)

let dirty_resize d n0 =
  app (firstn n0 d) (repeat false (sub n0 (length d)))

(** val dirty_clear : bool list -> bool list **)

let dirty_clear d =
  repeat false (length d)

(** val dirty_to_vec : bool list -> nat -> nat list **)

let rec dirty_to_vec d i =
  match d with
  | [] -> []
  | b :: r -> if b then i :: (dirty_to_vec r (S i)) else dirty_to_vec r (S i)

(** val opt_is_none : n option -> bool **)

let opt_is_none = function
| Some _ -> false
| None -> true

(** val opt_is : n option -> n -> bool **)

let opt_is o c =
  match o with
  | Some x -> N.eqb x c
  | None -> false

(** val as_u16 : param -> n **)

let as_u16 p =
  hd N0 p.parts

(** val pu16 : param list -> nat -> n **)

let pu16 ps k =
  match nth_error ps k with
  | Some p -> as_u16 p
  | None -> N0

(** val pparts : param -> n list **)

let pparts p =
  firstn (S p.cur_part) p.parts

(** val default_param : param **)

let default_param =
  { cur_part = O; parts = (repeat N0 mAX_PARAM_LEN) }

(** val rgb : n -> n -> n -> color **)

let rgb r g b =
  RGB ((N.modulo r (Npos (XO (XO (XO (XO (XO (XO (XO (XO XH)))))))))),
    (N.modulo g (Npos (XO (XO (XO (XO (XO (XO (XO (XO XH)))))))))),
    (N.modulo b (Npos (XO (XO (XO (XO (XO (XO (XO (XO XH)))))))))))

(** val sgr_single : n -> sgr_op option **)

let sgr_single v =
  if N.eqb v N0
  then Some Reset
  else if N.eqb v (Npos XH)
       then Some SetBoldIntensity
       else if N.eqb v (Npos (XO XH))
            then Some SetFaintIntensity
            else if N.eqb v (Npos (XI XH))
                 then Some SetItalic
                 else if N.eqb v (Npos (XO (XO XH)))
                      then Some SetUnderline
                      else if N.eqb v (Npos (XI (XO XH)))
                           then Some SetBlink
                           else if N.eqb v (Npos (XI (XI XH)))
                                then Some SetInverse
                                else if N.eqb v (Npos (XI (XO (XO XH))))
                                     then Some SetStrikethrough
                                     else if (||)
                                               (N.eqb v (Npos (XI (XO (XI (XO
                                                 XH))))))
                                               (N.eqb v (Npos (XO (XI (XI (XO
                                                 XH))))))
                                          then Some ResetIntensity
                                          else if N.eqb v (Npos (XI (XI (XI
                                                    (XO XH)))))
                                               then Some ResetItalic
                                               else if N.eqb v (Npos (XO (XO
                                                         (XO (XI XH)))))
                                                    then Some ResetUnderline
                                                    else if N.eqb v (Npos (XI
                                                              (XO (XO (XI
                                                              XH)))))
                                                         then Some ResetBlink
                                                         else if N.eqb v
                                                                   (Npos (XI
                                                                   (XI (XO
                                                                   (XI XH)))))
                                                              then Some
                                                                    ResetInverse
                                                              else if 
                                                                    N.eqb v
                                                                    (Npos (XI
                                                                    (XO (XI
                                                                    (XI
                                                                    XH)))))
                                                                   then 
                                                                    Some
                                                                    ResetStrikethrough
                                                                   else 
                                                                    if 
                                                                    (&&)
                                                                    (N.leb
                                                                    (Npos (XO
                                                                    (XI (XI
                                                                    (XI
                                                                    XH))))) v)
                                                                    (N.leb v
                                                                    (Npos (XI
                                                                    (XO (XI
                                                                    (XO (XO
                                                                    XH)))))))
                                                                    then 
                                                                    Some
                                                                    (SetForegroundColor
                                                                    (Indexed
                                                                    (N.modulo
                                                                    (N.sub v
                                                                    (Npos (XO
                                                                    (XI (XI
                                                                    (XI
                                                                    XH))))))
                                                                    (Npos (XO
                                                                    (XO (XO
                                                                    (XO (XO
                                                                    (XO (XO
                                                                    (XO
                                                                    XH))))))))))))
                                                                    else 
                                                                    if 
                                                                    N.eqb v
                                                                    (Npos (XI
                                                                    (XI (XI
                                                                    (XO (XO
                                                                    XH))))))
                                                                    then 
                                                                    Some
                                                                    ResetForegroundColor
                                                                    else 
                                                                    if 
                                                                    (&&)
                                                                    (N.leb
                                                                    (Npos (XO
                                                                    (XO (XO
                                                                    (XI (XO
                                                                    XH))))))
                                                                    v)
                                                                    (N.leb v
                                                                    (Npos (XI
                                                                    (XI (XI
                                                                    (XI (XO
                                                                    XH)))))))
                                                                    then 
                                                                    Some
                                                                    (SetBackgroundColor
                                                                    (Indexed
                                                                    (N.modulo
                                                                    (N.sub v
                                                                    (Npos (XO
                                                                    (XO (XO
                                                                    (XI (XO
                                                                    XH)))))))
                                                                    (Npos (XO
                                                                    (XO (XO
                                                                    (XO (XO
                                                                    (XO (XO
                                                                    (XO
                                                                    XH))))))))))))
                                                                    else 
                                                                    if 
                                                                    N.eqb v
                                                                    (Npos (XI
                                                                    (XO (XO
                                                                    (XO (XI
                                                                    XH))))))
                                                                    then 
                                                                    Some
                                                                    ResetBackgroundColor
                                                                    else 
                                                                    if 
                                                                    (&&)
                                                                    (N.leb
                                                                    (Npos (XO
                                                                    (XI (XO
                                                                    (XI (XI
                                                                    (XO
                                                                    XH)))))))
                                                                    v)
                                                                    (N.leb v
                                                                    (Npos (XI
                                                                    (XO (XO
                                                                    (XO (XO
                                                                    (XI
                                                                    XH))))))))
                                                                    then 
                                                                    Some
                                                                    (SetForegroundColor
                                                                    (Indexed
                                                                    (N.modulo
                                                                    (N.add
                                                                    (N.sub v
                                                                    (Npos (XO
                                                                    (XI (XO
                                                                    (XI (XI
                                                                    (XO
                                                                    XH))))))))
                                                                    (Npos (XO
                                                                    (XO (XO
                                                                    XH)))))
                                                                    (Npos (XO
                                                                    (XO (XO
                                                                    (XO (XO
                                                                    (XO (XO
                                                                    (XO
                                                                    XH))))))))))))
                                                                    else 
                                                                    if 
                                                                    (&&)
                                                                    (N.leb
                                                                    (Npos (XO
                                                                    (XO (XI
                                                                    (XO (XO
                                                                    (XI
                                                                    XH)))))))
                                                                    v)
                                                                    (N.leb v
                                                                    (Npos (XI
                                                                    (XI (XO
                                                                    (XI (XO
                                                                    (XI
                                                                    XH))))))))
                                                                    then 
                                                                    Some
                                                                    (SetBackgroundColor
                                                                    (Indexed
                                                                    (N.modulo
                                                                    (N.add
                                                                    (N.sub v
                                                                    (Npos (XO
                                                                    (XO (XI
                                                                    (XO (XO
                                                                    (XI
                                                                    XH))))))))
                                                                    (Npos (XO
                                                                    (XO (XO
                                                                    XH)))))
                                                                    (Npos (XO
                                                                    (XO (XO
                                                                    (XO (XO
                                                                    (XO (XO
                                                                    (XO
                                                                    XH))))))))))))
                                                                    else None

(** val sgr_ext : (color -> sgr_op) -> param list -> sgr_op option * nat **)

let sgr_ext mk rest = match rest with
| [] -> (None, (S O))
| p1 :: _ ->
  (match pparts p1 with
   | [] -> (None, (S O))
   | n0 :: l ->
     (match n0 with
      | N0 -> (None, (S O))
      | Npos p ->
        (match p with
         | XI p0 ->
           (match p0 with
            | XO p2 ->
              (match p2 with
               | XH ->
                 (match l with
                  | [] ->
                    (match nth_error rest (S O) with
                     | Some pi ->
                       ((Some
                         (mk (Indexed
                           (N.modulo (as_u16 pi) (Npos (XO (XO (XO (XO (XO
                             (XO (XO (XO XH))))))))))))), (S (S (S O))))
                     | None -> (None, (S (S O))))
                  | _ :: _ -> (None, (S O)))
               | _ -> (None, (S O)))
            | _ -> (None, (S O)))
         | XO p0 ->
           (match p0 with
            | XH ->
              (match l with
               | [] ->
                 (match nth_error rest (S (S (S O))) with
                  | Some pb ->
                    ((Some
                      (mk
                        (rgb (pu16 rest (S O)) (pu16 rest (S (S O)))
                          (as_u16 pb)))), (S (S (S (S (S O))))))
                  | None -> (None, (S (S O))))
               | _ :: _ -> (None, (S O)))
            | _ -> (None, (S O)))
         | XH -> (None, (S O)))))

(** val sgr_step : param -> param list -> sgr_op option * nat **)

let sgr_step p rest =
  match pparts p with
  | [] -> (None, (S O))
  | a :: l ->
    (match l with
     | [] ->
       if N.eqb a (Npos (XO (XI (XI (XO (XO XH))))))
       then sgr_ext (fun x -> SetForegroundColor x) rest
       else if N.eqb a (Npos (XO (XO (XO (XO (XI XH))))))
            then sgr_ext (fun x -> SetBackgroundColor x) rest
            else ((sgr_single a), (S O))
     | b :: l0 ->
       (match l0 with
        | [] -> (None, (S O))
        | r :: l1 ->
          (match l1 with
           | [] ->
             if (&&) (N.eqb a (Npos (XO (XI (XI (XO (XO XH)))))))
                  (N.eqb b (Npos (XI (XO XH))))
             then ((Some (SetForegroundColor (Indexed
                    (N.modulo r (Npos (XO (XO (XO (XO (XO (XO (XO (XO
                      XH))))))))))))), (S O))
             else if (&&) (N.eqb a (Npos (XO (XO (XO (XO (XI XH)))))))
                       (N.eqb b (Npos (XI (XO XH))))
                  then ((Some (SetBackgroundColor (Indexed
                         (N.modulo r (Npos (XO (XO (XO (XO (XO (XO (XO (XO
                           XH))))))))))))), (S O))
                  else (None, (S O))
           | r0 :: l2 ->
             (match l2 with
              | [] -> (None, (S O))
              | g :: l3 ->
                (match l3 with
                 | [] ->
                   if (&&) (N.eqb a (Npos (XO (XI (XI (XO (XO XH)))))))
                        (N.eqb b (Npos (XO XH)))
                   then ((Some (SetForegroundColor (rgb r r0 g))), (S O))
                   else if (&&) (N.eqb a (Npos (XO (XO (XO (XO (XI XH)))))))
                             (N.eqb b (Npos (XO XH)))
                        then ((Some (SetBackgroundColor (rgb r r0 g))), (S O))
                        else (None, (S O))
                 | bl :: l4 ->
                   (match l4 with
                    | [] ->
                      if (&&) (N.eqb a (Npos (XO (XI (XI (XO (XO XH)))))))
                           (N.eqb b (Npos (XO XH)))
                      then ((Some (SetForegroundColor (rgb r0 g bl))), (S O))
                      else if (&&)
                                (N.eqb a (Npos (XO (XO (XO (XO (XI XH)))))))
                                (N.eqb b (Npos (XO XH)))
                           then ((Some (SetBackgroundColor (rgb r0 g bl))),
                                  (S O))
                           else (None, (S O))
                    | _ :: _ -> (None, (S O))))))))

(** val sgr_go : nat -> param list -> sgr_op list **)

let rec sgr_go skip = function
| [] -> []
| p :: rest ->
  (match skip with
   | O ->
     let (op0, consumed) = sgr_step p rest in
     (match op0 with
      | Some o -> o :: (sgr_go (sub consumed (S O)) rest)
      | None -> sgr_go (sub consumed (S O)) rest)
   | S k -> sgr_go k rest)

(** val sgr_ops : param list -> sgr_op list **)

let sgr_ops ps =
  sgr_go O ps

(** val hi_threshold : n **)

let hi_threshold =
  Npos (XO (XO (XO (XO (XO (XI (XO XH)))))))

(** val hi_subst : n **)

let hi_subst =
  Npos (XI (XO (XO (XO (XO (XO XH))))))

(** val feed_arms : arm list **)

let feed_arms =
  (((((St Ground), (Npos (XO (XO (XO (XO (XO XH))))))), (Npos (XI (XI (XI (XI
    (XI (XI XH)))))))) :: []), (ARetPrint :: [])) :: ((((((St CsiParam),
    (Npos (XO (XO (XO (XO (XI XH))))))), (Npos (XI (XI (XO (XI (XI
    XH))))))) :: []), (AParam :: [])) :: (((((AnyState, (Npos (XI (XI (XO (XI
    XH)))))), (Npos (XI (XI (XO (XI XH)))))) :: []), ((ASetState
    Escape) :: (AClear :: []))) :: ((((((St Escape), (Npos (XI (XI (XO (XI
    (XI (XO XH)))))))), (Npos (XI (XI (XO (XI (XI (XO XH)))))))) :: []),
    ((ASetState CsiEntry) :: (AClear :: []))) :: ((((((St CsiParam), (Npos
    (XO (XO (XO (XO (XO (XO XH)))))))), (Npos (XO (XI (XI (XI (XI (XI
    XH)))))))) :: []), ((ASetState Ground) :: (ARetCsi :: []))) :: ((((((St
    CsiEntry), (Npos (XO (XO (XO (XO (XI XH))))))), (Npos (XI (XO (XO (XI (XI
    XH))))))) :: ((((St CsiEntry), (Npos (XI (XI (XO (XI (XI XH))))))), (Npos
    (XI (XI (XO (XI (XI XH))))))) :: [])), ((ASetState
    CsiParam) :: (AParam :: []))) :: ((((((St Ground), N0), (Npos (XI (XI (XI
    (XO XH)))))) :: ((((St Ground), (Npos (XI (XO (XO (XI XH)))))), (Npos (XI
    (XO (XO (XI XH)))))) :: ((((St Ground), (Npos (XO (XO (XI (XI XH)))))),
    (Npos (XI (XI (XI (XI XH)))))) :: []))), (ARetExecute :: [])) :: ((((((St
    CsiEntry), (Npos (XO (XO (XO (XO (XO (XO XH)))))))), (Npos (XO (XI (XI
    (XI (XI (XI XH)))))))) :: []), ((ASetState
    Ground) :: (ARetCsi :: []))) :: ((((((St OscString), (Npos (XO (XO (XO
    (XO (XO XH))))))), (Npos (XI (XI (XI (XI (XI (XI XH)))))))) :: []),
    (AOscPut :: [])) :: ((((((St Escape), (Npos (XO (XO (XO (XO (XO
    XH))))))), (Npos (XI (XI (XI (XI (XO XH))))))) :: []), ((ASetState
    EscapeIntermediate) :: (ACollect :: []))) :: ((((((St
    EscapeIntermediate), (Npos (XO (XO (XO (XO (XI XH))))))), (Npos (XO (XI
    (XI (XI (XI (XI XH)))))))) :: []), ((ASetState
    Ground) :: (ARetEsc :: []))) :: ((((((St CsiEntry), (Npos (XO (XO (XI (XI
    (XI XH))))))), (Npos (XI (XI (XI (XI (XI XH))))))) :: []), ((ASetState
    CsiParam) :: (ACollect :: []))) :: ((((((St DcsPassthrough), (Npos (XO
    (XO (XO (XO (XO XH))))))), (Npos (XO (XI (XI (XI (XI (XI
    XH)))))))) :: []), (APut :: [])) :: ((((((St CsiIgnore), (Npos (XO (XO
    (XO (XO (XO (XO XH)))))))), (Npos (XO (XI (XI (XI (XI (XI
    XH)))))))) :: []), ((ASetState Ground) :: [])) :: ((((((St CsiParam),
    (Npos (XO (XO (XI (XI (XI XH))))))), (Npos (XI (XI (XI (XI (XI
    XH))))))) :: []), ((ASetState CsiIgnore) :: [])) :: ((((((St Escape),
    (Npos (XO (XO (XO (XO (XI XH))))))), (Npos (XI (XI (XI (XI (XO (XO
    XH)))))))) :: ((((St Escape), (Npos (XI (XO (XO (XO (XI (XO XH)))))))),
    (Npos (XI (XI (XI (XO (XI (XO XH)))))))) :: ((((St Escape), (Npos (XI (XO
    (XO (XI (XI (XO XH)))))))), (Npos (XI (XO (XO (XI (XI (XO
    XH)))))))) :: ((((St Escape), (Npos (XO (XI (XO (XI (XI (XO XH)))))))),
    (Npos (XO (XI (XO (XI (XI (XO XH)))))))) :: ((((St Escape), (Npos (XO (XO
    (XI (XI (XI (XO XH)))))))), (Npos (XO (XO (XI (XI (XI (XO
    XH)))))))) :: ((((St Escape), (Npos (XO (XO (XO (XO (XO (XI XH)))))))),
    (Npos (XO (XI (XI (XI (XI (XI XH)))))))) :: [])))))), ((ASetState
    Ground) :: (ARetEsc :: []))) :: ((((((St Escape), (Npos (XI (XO (XI (XI
    (XI (XO XH)))))))), (Npos (XI (XO (XI (XI (XI (XO XH)))))))) :: []),
    ((ASetState OscString) :: [])) :: ((((((St OscString), (Npos (XI (XI
    XH)))), (Npos (XI (XI XH)))) :: []), ((ASetState
    Ground) :: [])) :: (((((AnyState, (Npos (XO (XO (XO (XI XH)))))), (Npos
    (XO (XO (XO (XI XH)))))) :: (((AnyState, (Npos (XO (XI (XO (XI XH)))))),
    (Npos (XO (XI (XO (XI XH)))))) :: (((AnyState, (Npos (XO (XO (XO (XO (XO
    (XO (XO XH))))))))), (Npos (XI (XI (XI (XI (XO (XO (XO
    XH))))))))) :: (((AnyState, (Npos (XI (XO (XO (XO (XI (XO (XO
    XH))))))))), (Npos (XI (XI (XI (XO (XI (XO (XO
    XH))))))))) :: (((AnyState, (Npos (XI (XO (XO (XI (XI (XO (XO
    XH))))))))), (Npos (XI (XO (XO (XI (XI (XO (XO
    XH))))))))) :: (((AnyState, (Npos (XO (XI (XO (XI (XI (XO (XO
    XH))))))))), (Npos (XO (XI (XO (XI (XI (XO (XO XH))))))))) :: [])))))),
    ((ASetState Ground) :: (ARetExecute :: []))) :: ((((((St Escape), (Npos
    (XO (XO (XO (XO (XI (XO XH)))))))), (Npos (XO (XO (XO (XO (XI (XO
    XH)))))))) :: []), ((ASetState DcsEntry) :: (AClear :: []))) :: ((((((St
    CsiParam), (Npos (XO (XO (XO (XO (XO XH))))))), (Npos (XI (XI (XI (XI (XO
    XH))))))) :: []), ((ASetState
    CsiIntermediate) :: (ACollect :: []))) :: ((((((St CsiIntermediate),
    (Npos (XO (XO (XO (XO (XO (XO XH)))))))), (Npos (XO (XI (XI (XI (XI (XI
    XH)))))))) :: []), ((ASetState Ground) :: (ARetCsi :: []))) :: ((((((St
    DcsParam), (Npos (XO (XO (XO (XO (XI XH))))))), (Npos (XI (XO (XO (XI (XI
    XH))))))) :: ((((St DcsParam), (Npos (XI (XI (XO (XI (XI XH))))))), (Npos
    (XI (XI (XO (XI (XI XH))))))) :: [])), (AParam :: [])) :: ((((((St
    DcsParam), (Npos (XO (XO (XO (XO (XO (XO XH)))))))), (Npos (XO (XI (XI
    (XI (XI (XI XH)))))))) :: []), ((ASetState
    DcsPassthrough) :: [])) :: ((((((St DcsEntry), (Npos (XO (XO (XI (XI (XI
    XH))))))), (Npos (XI (XI (XI (XI (XI XH))))))) :: []), ((ASetState
    DcsParam) :: (ACollect :: []))) :: ((((((St CsiParam), N0), (Npos (XI (XI
    (XI (XO XH)))))) :: ((((St CsiParam), (Npos (XI (XO (XO (XI XH)))))),
    (Npos (XI (XO (XO (XI XH)))))) :: ((((St CsiParam), (Npos (XO (XO (XI (XI
    XH)))))), (Npos (XI (XI (XI (XI XH)))))) :: []))),
    (ARetExecute :: [])) :: ((((((St Escape), N0), (Npos (XI (XI (XI (XO
    XH)))))) :: ((((St Escape), (Npos (XI (XO (XO (XI XH)))))), (Npos (XI (XO
    (XO (XI XH)))))) :: ((((St Escape), (Npos (XO (XO (XI (XI XH)))))), (Npos
    (XI (XI (XI (XI XH)))))) :: []))), (ARetExecute :: [])) :: ((((((St
    DcsEntry), (Npos (XO (XO (XO (XO (XO XH))))))), (Npos (XI (XI (XI (XI (XO
    XH))))))) :: []), ((ASetState
    DcsIntermediate) :: (ACollect :: []))) :: ((((((St DcsIntermediate),
    (Npos (XO (XO (XO (XO (XO (XO XH)))))))), (Npos (XO (XI (XI (XI (XI (XI
    XH)))))))) :: []), ((ASetState DcsPassthrough) :: [])) :: ((((((St
    DcsPassthrough), N0), (Npos (XI (XI (XI (XO XH)))))) :: ((((St
    DcsPassthrough), (Npos (XI (XO (XO (XI XH)))))), (Npos (XI (XO (XO (XI
    XH)))))) :: ((((St DcsPassthrough), (Npos (XO (XO (XI (XI XH)))))), (Npos
    (XI (XI (XI (XI XH)))))) :: []))), (APut :: [])) :: ((((((St CsiEntry),
    N0), (Npos (XI (XI (XI (XO XH)))))) :: ((((St CsiEntry), (Npos (XI (XO
    (XO (XI XH)))))), (Npos (XI (XO (XO (XI XH)))))) :: ((((St CsiEntry),
    (Npos (XO (XO (XI (XI XH)))))), (Npos (XI (XI (XI (XI XH)))))) :: []))),
    (ARetExecute :: [])) :: ((((((St DcsEntry), (Npos (XO (XO (XO (XO (XO (XO
    XH)))))))), (Npos (XO (XI (XI (XI (XI (XI XH)))))))) :: []), ((ASetState
    DcsPassthrough) :: [])) :: ((((((St CsiIntermediate), (Npos (XO (XO (XO
    (XO (XO XH))))))), (Npos (XI (XI (XI (XI (XO XH))))))) :: []),
    (ACollect :: [])) :: ((((((St EscapeIntermediate), (Npos (XO (XO (XO (XO
    (XO XH))))))), (Npos (XI (XI (XI (XI (XO XH))))))) :: []),
    (ACollect :: [])) :: ((((((St CsiIntermediate), (Npos (XO (XO (XO (XO (XI
    XH))))))), (Npos (XI (XI (XI (XI (XI XH))))))) :: []), ((ASetState
    CsiIgnore) :: [])) :: ((((((St CsiEntry), (Npos (XO (XO (XO (XO (XO
    XH))))))), (Npos (XI (XI (XI (XI (XO XH))))))) :: []), ((ASetState
    CsiIntermediate) :: (ACollect :: []))) :: ((((((St EscapeIntermediate),
    N0), (Npos (XI (XI (XI (XO XH)))))) :: ((((St EscapeIntermediate), (Npos
    (XI (XO (XO (XI XH)))))), (Npos (XI (XO (XO (XI XH)))))) :: ((((St
    EscapeIntermediate), (Npos (XO (XO (XI (XI XH)))))), (Npos (XI (XI (XI
    (XI XH)))))) :: []))), (ARetExecute :: [])) :: ((((((St Escape), (Npos
    (XO (XO (XO (XI (XI (XO XH)))))))), (Npos (XO (XO (XO (XI (XI (XO
    XH)))))))) :: ((((St Escape), (Npos (XO (XI (XI (XI (XI (XO XH)))))))),
    (Npos (XO (XI (XI (XI (XI (XO XH)))))))) :: ((((St Escape), (Npos (XI (XI
    (XI (XI (XI (XO XH)))))))), (Npos (XI (XI (XI (XI (XI (XO
    XH)))))))) :: []))), ((ASetState
    SosPmApcString) :: [])) :: (((((AnyState, (Npos (XO (XO (XO (XI (XI (XO
    (XO XH))))))))), (Npos (XO (XO (XO (XI (XI (XO (XO
    XH))))))))) :: (((AnyState, (Npos (XO (XI (XI (XI (XI (XO (XO
    XH))))))))), (Npos (XO (XI (XI (XI (XI (XO (XO
    XH))))))))) :: (((AnyState, (Npos (XI (XI (XI (XI (XI (XO (XO
    XH))))))))), (Npos (XI (XI (XI (XI (XI (XO (XO XH))))))))) :: []))),
    ((ASetState SosPmApcString) :: [])) :: (((((AnyState, (Npos (XO (XO (XI
    (XI (XI (XO (XO XH))))))))), (Npos (XO (XO (XI (XI (XI (XO (XO
    XH))))))))) :: []), ((ASetState Ground) :: [])) :: (((((AnyState, (Npos
    (XI (XO (XI (XI (XI (XO (XO XH))))))))), (Npos (XI (XO (XI (XI (XI (XO
    (XO XH))))))))) :: []), ((ASetState OscString) :: [])) :: (((((AnyState,
    (Npos (XO (XO (XO (XO (XI (XO (XO XH))))))))), (Npos (XO (XO (XO (XO (XI
    (XO (XO XH))))))))) :: []), ((ASetState
    DcsEntry) :: (AClear :: []))) :: (((((AnyState, (Npos (XI (XI (XO (XI (XI
    (XO (XO XH))))))))), (Npos (XI (XI (XO (XI (XI (XO (XO
    XH))))))))) :: []), ((ASetState CsiEntry) :: (AClear :: []))) :: ((((((St
    DcsEntry), (Npos (XO (XO (XO (XO (XI XH))))))), (Npos (XI (XO (XO (XI (XI
    XH))))))) :: ((((St DcsEntry), (Npos (XI (XI (XO (XI (XI XH))))))), (Npos
    (XI (XI (XO (XI (XI XH))))))) :: [])), ((ASetState
    DcsParam) :: (AParam :: []))) :: ((((((St DcsIntermediate), (Npos (XO (XO
    (XO (XO (XO XH))))))), (Npos (XI (XI (XI (XI (XO XH))))))) :: []),
    (ACollect :: [])) :: ((((((St CsiIntermediate), N0), (Npos (XI (XI (XI
    (XO XH)))))) :: ((((St CsiIntermediate), (Npos (XI (XO (XO (XI XH)))))),
    (Npos (XI (XO (XO (XI XH)))))) :: ((((St CsiIntermediate), (Npos (XO (XO
    (XI (XI XH)))))), (Npos (XI (XI (XI (XI XH)))))) :: []))),
    (ARetExecute :: [])) :: ((((((St DcsEntry), (Npos (XO (XI (XO (XI (XI
    XH))))))), (Npos (XO (XI (XO (XI (XI XH))))))) :: []), ((ASetState
    DcsIgnore) :: [])) :: ((((((St DcsIntermediate), (Npos (XO (XO (XO (XO
    (XI XH))))))), (Npos (XI (XI (XI (XI (XI XH))))))) :: []), ((ASetState
    DcsIgnore) :: [])) :: ((((((St CsiIgnore), N0), (Npos (XI (XI (XI (XO
    XH)))))) :: ((((St CsiIgnore), (Npos (XI (XO (XO (XI XH)))))), (Npos (XI
    (XO (XO (XI XH)))))) :: ((((St CsiIgnore), (Npos (XO (XO (XI (XI
    XH)))))), (Npos (XI (XI (XI (XI XH)))))) :: []))),
    (ARetExecute :: [])) :: ((((((St DcsParam), (Npos (XO (XO (XO (XO (XO
    XH))))))), (Npos (XI (XI (XI (XI (XO XH))))))) :: []), ((ASetState
    DcsIntermediate) :: (ACollect :: []))) :: ((((((St CsiEntry), (Npos (XO
    (XI (XO (XI (XI XH))))))), (Npos (XO (XI (XO (XI (XI XH))))))) :: []),
    ((ASetState CsiIgnore) :: [])) :: ((((((St DcsParam), (Npos (XO (XI (XO
    (XI (XI XH))))))), (Npos (XO (XI (XO (XI (XI XH))))))) :: ((((St
    DcsParam), (Npos (XO (XO (XI (XI (XI XH))))))), (Npos (XI (XI (XI (XI (XI
    XH))))))) :: [])), ((ASetState
    DcsIgnore) :: [])) :: [])))))))))))))))))))))))))))))))))))))))))))))))))))

(** val execute_gen : n -> func option **)

let execute_gen input =
  if N.eqb input (Npos (XO (XO (XO XH))))
  then Some Bs
  else if N.eqb input (Npos (XI (XO (XO XH))))
       then Some Ht
       else if N.eqb input (Npos (XO (XI (XO XH))))
            then Some Lf
            else if N.eqb input (Npos (XI (XI (XO XH))))
                 then Some Lf
                 else if N.eqb input (Npos (XO (XO (XI XH))))
                      then Some Lf
                      else if N.eqb input (Npos (XI (XO (XI XH))))
                           then Some Cr
                           else if N.eqb input (Npos (XO (XI (XI XH))))
                                then Some So
                                else if N.eqb input (Npos (XI (XI (XI XH))))
                                     then Some Si
                                     else if N.eqb input (Npos (XO (XO (XI
                                               (XO (XO (XO (XO XH))))))))
                                          then Some Lf
                                          else if N.eqb input (Npos (XI (XO
                                                    (XI (XO (XO (XO (XO
                                                    XH))))))))
                                               then Some Nel
                                               else if N.eqb input (Npos (XO
                                                         (XO (XO (XI (XO (XO
                                                         (XO XH))))))))
                                                    then Some Hts
                                                    else if N.eqb input (Npos
                                                              (XI (XO (XI (XI
                                                              (XO (XO (XO
                                                              XH))))))))
                                                         then Some Ri
                                                         else None

(** val ansi_mode_gen : n -> ansi_mode option **)

let ansi_mode_gen v =
  if N.eqb v (Npos (XO (XO XH)))
  then Some Insert
  else if N.eqb v (Npos (XO (XO (XI (XO XH))))) then Some NewLine else None

(** val dec_mode_gen : n -> dec_mode option **)

let dec_mode_gen v =
  if N.eqb v (Npos XH)
  then Some CursorKeys
  else if N.eqb v (Npos (XO (XI XH)))
       then Some Origin
       else if N.eqb v (Npos (XI (XI XH)))
            then Some AutoWrap
            else if N.eqb v (Npos (XI (XO (XO (XI XH)))))
                 then Some TextCursorEnable
                 else if N.eqb v (Npos (XI (XI (XI (XI (XO XH))))))
                      then Some AltScreenBuffer
                      else if N.eqb v (Npos (XI (XI (XI (XO (XI (XO (XO (XO
                                (XO (XO XH)))))))))))
                           then Some AltScreenBuffer
                           else if N.eqb v (Npos (XO (XO (XO (XI (XI (XO (XO
                                     (XO (XO (XO XH)))))))))))
                                then Some SaveCursor
                                else if N.eqb v (Npos (XI (XO (XO (XI (XI (XO
                                          (XO (XO (XO (XO XH)))))))))))
                                     then Some SaveCursorAltScreenBuffer
                                     else None

(** val esc_dispatch_gen : n option -> n -> pstate option * func option **)

let esc_dispatch_gen inter0 input =
  if (&&)
       ((&&) (opt_is_none inter0)
         (N.leb (Npos (XO (XO (XO (XO (XO (XO XH))))))) input))
       (N.leb input (Npos (XI (XI (XI (XI (XI (XO XH))))))))
  then (None,
         (execute_gen
           (N.add
             (N.modulo input (Npos (XO (XO (XO (XO (XO (XO (XO (XO
               XH)))))))))) (Npos (XO (XO (XO (XO (XO (XO XH))))))))))
  else if (&&) (opt_is_none inter0)
            (N.eqb input (Npos (XI (XI (XI (XO (XI XH)))))))
       then (None, (Some Decsc))
       else if (&&) (opt_is_none inter0)
                 (N.eqb input (Npos (XO (XO (XO (XI (XI XH)))))))
            then (None, (Some Decrc))
            else if (&&) (opt_is_none inter0)
                      (N.eqb input (Npos (XI (XI (XO (XO (XO (XI XH))))))))
                 then ((Some Ground), (Some Ris))
                 else if (&&)
                           (opt_is inter0 (Npos (XI (XI (XO (XO (XO XH)))))))
                           (N.eqb input (Npos (XO (XO (XO (XI (XI XH)))))))
                      then (None, (Some Decaln))
                      else if (&&)
                                (opt_is inter0 (Npos (XO (XO (XO (XI (XO
                                  XH)))))))
                                (N.eqb input (Npos (XO (XO (XO (XO (XI
                                  XH)))))))
                           then (None, (Some (Gzd4 CsDrawing)))
                           else if opt_is inter0 (Npos (XO (XO (XO (XI (XO
                                     XH))))))
                                then (None, (Some (Gzd4 CsAscii)))
                                else if (&&)
                                          (opt_is inter0 (Npos (XI (XO (XO
                                            (XI (XO XH)))))))
                                          (N.eqb input (Npos (XO (XO (XO (XO
                                            (XI XH)))))))
                                     then (None, (Some (G1d4 CsDrawing)))
                                     else if opt_is inter0 (Npos (XI (XO (XO
                                               (XI (XO XH))))))
                                          then (None, (Some (G1d4 CsAscii)))
                                          else (None, None)

(** val csi_dispatch_gen :
    n option -> n -> param list -> nat -> func option **)

let csi_dispatch_gen inter0 input ps cp =
  if (&&) (opt_is_none inter0)
       (N.eqb input (Npos (XO (XO (XO (XO (XO (XO XH))))))))
  then Some (Ich (pu16 ps O))
  else if (&&) (opt_is_none inter0)
            (N.eqb input (Npos (XI (XO (XO (XO (XO (XO XH))))))))
       then Some (Cuu (pu16 ps O))
       else if (&&) (opt_is_none inter0)
                 (N.eqb input (Npos (XO (XI (XO (XO (XO (XO XH))))))))
            then Some (Cud (pu16 ps O))
            else if (&&) (opt_is_none inter0)
                      (N.eqb input (Npos (XI (XI (XO (XO (XO (XO XH))))))))
                 then Some (Cuf (pu16 ps O))
                 else if (&&) (opt_is_none inter0)
                           (N.eqb input (Npos (XO (XO (XI (XO (XO (XO
                             XH))))))))
                      then Some (Cub (pu16 ps O))
                      else if (&&) (opt_is_none inter0)
                                (N.eqb input (Npos (XI (XO (XI (XO (XO (XO
                                  XH))))))))
                           then Some (Cnl (pu16 ps O))
                           else if (&&) (opt_is_none inter0)
                                     (N.eqb input (Npos (XO (XI (XI (XO (XO
                                       (XO XH))))))))
                                then Some (Cpl (pu16 ps O))
                                else if (&&) (opt_is_none inter0)
                                          (N.eqb input (Npos (XI (XI (XI (XO
                                            (XO (XO XH))))))))
                                     then Some (Cha (pu16 ps O))
                                     else if (&&) (opt_is_none inter0)
                                               (N.eqb input (Npos (XO (XO (XO
                                                 (XI (XO (XO XH))))))))
                                          then Some (Cup ((pu16 ps O),
                                                 (pu16 ps (S O))))
                                          else if (&&) (opt_is_none inter0)
                                                    (N.eqb input (Npos (XI
                                                      (XO (XO (XI (XO (XO
                                                      XH))))))))
                                               then Some (Cht (pu16 ps O))
                                               else if (&&)
                                                         (opt_is_none inter0)
                                                         (N.eqb input (Npos
                                                           (XO (XI (XO (XI
                                                           (XO (XO XH))))))))
                                                    then let scrut = pu16 ps O
                                                         in
                                                         if N.eqb scrut N0
                                                         then Some (Ed
                                                                EdBelow)
                                                         else if N.eqb scrut
                                                                   (Npos XH)
                                                              then Some (Ed
                                                                    EdAbove)
                                                              else if 
                                                                    N.eqb
                                                                    scrut
                                                                    (Npos (XO
                                                                    XH))
                                                                   then 
                                                                    Some (Ed
                                                                    EdAll)
                                                                   else 
                                                                    if 
                                                                    N.eqb
                                                                    scrut
                                                                    (Npos (XI
                                                                    XH))
                                                                    then 
                                                                    Some (Ed
                                                                    EdSavedLines)
                                                                    else None
                                                    else if (&&)
                                                              (opt_is_none
                                                                inter0)
                                                              (N.eqb input
                                                                (Npos (XI (XI
                                                                (XO (XI (XO
                                                                (XO XH))))))))
                                                         then let scrut =
                                                                pu16 ps O
                                                              in
                                                              if N.eqb scrut
                                                                   N0
                                                              then Some (El
                                                                    ElToRight)
                                                              else if 
                                                                    N.eqb
                                                                    scrut
                                                                    (Npos XH)
                                                                   then 
                                                                    Some (El
                                                                    ElToLeft)
                                                                   else 
                                                                    if 
                                                                    N.eqb
                                                                    scrut
                                                                    (Npos (XO
                                                                    XH))
                                                                    then 
                                                                    Some (El
                                                                    ElAll)
                                                                    else None
                                                         else if (&&)
                                                                   (opt_is_none
                                                                    inter0)
                                                                   (N.eqb
                                                                    input
                                                                    (Npos (XO
                                                                    (XO (XI
                                                                    (XI (XO
                                                                    (XO
                                                                    XH))))))))
                                                              then Some (Il
                                                                    (pu16 ps
                                                                    O))
                                                              else if 
                                                                    (&&)
                                                                    (opt_is_none
                                                                    inter0)
                                                                    (N.eqb
                                                                    input
                                                                    (Npos (XI
                                                                    (XO (XI
                                                                    (XI (XO
                                                                    (XO
                                                                    XH))))))))
                                                                   then 
                                                                    Some (Dl
                                                                    (pu16 ps
                                                                    O))
                                                                   else 
                                                                    if 
                                                                    (&&)
                                                                    (opt_is_none
                                                                    inter0)
                                                                    (N.eqb
                                                                    input
                                                                    (Npos (XO
                                                                    (XO (XO
                                                                    (XO (XI
                                                                    (XO
                                                                    XH))))))))
                                                                    then 
                                                                    Some (Dch
                                                                    (pu16 ps
                                                                    O))
                                                                    else 
                                                                    if 
                                                                    (&&)
                                                                    (opt_is_none
                                                                    inter0)
                                                                    (N.eqb
                                                                    input
                                                                    (Npos (XI
                                                                    (XI (XO
                                                                    (XO (XI
                                                                    (XO
                                                                    XH))))))))
                                                                    then 
                                                                    Some (Su
                                                                    (pu16 ps
                                                                    O))
                                                                    else 
                                                                    if 
                                                                    (&&)
                                                                    (opt_is_none
                                                                    inter0)
                                                                    (N.eqb
                                                                    input
                                                                    (Npos (XO
                                                                    (XO (XI
                                                                    (XO (XI
                                                                    (XO
                                                                    XH))))))))
                                                                    then 
                                                                    Some (Sd
                                                                    (pu16 ps
                                                                    O))
                                                                    else 
                                                                    if 
                                                                    (&&)
                                                                    (opt_is_none
                                                                    inter0)
                                                                    (N.eqb
                                                                    input
                                                                    (Npos (XI
                                                                    (XI (XI
                                                                    (XO (XI
                                                                    (XO
                                                                    XH))))))))
                                                                    then 
                                                                    let scrut =
                                                                    pu16 ps O
                                                                    in
                                                                    if 
                                                                    N.eqb
                                                                    scrut N0
                                                                    then 
                                                                    Some (Ctc
                                                                    CtcSet)
                                                                    else 
                                                                    if 
                                                                    N.eqb
                                                                    scrut
                                                                    (Npos (XO
                                                                    XH))
                                                                    then 
                                                                    Some (Ctc
                                                                    CtcClearCurrentColumn)
                                                                    else 
                                                                    if 
                                                                    N.eqb
                                                                    scrut
                                                                    (Npos (XI
                                                                    (XO XH)))
                                                                    then 
                                                                    Some (Ctc
                                                                    CtcClearAll)
                                                                    else None
                                                                    else 
                                                                    if 
                                                                    (&&)
                                                                    (opt_is_none
                                                                    inter0)
                                                                    (N.eqb
                                                                    input
                                                                    (Npos (XO
                                                                    (XO (XO
                                                                    (XI (XI
                                                                    (XO
                                                                    XH))))))))
                                                                    then 
                                                                    Some (Ech
                                                                    (pu16 ps
                                                                    O))
                                                                    else 
                                                                    if 
                                                                    (&&)
                                                                    (opt_is_none
                                                                    inter0)
                                                                    (N.eqb
                                                                    input
                                                                    (Npos (XO
                                                                    (XI (XO
                                                                    (XI (XI
                                                                    (XO
                                                                    XH))))))))
                                                                    then 
                                                                    Some (Cbt
                                                                    (pu16 ps
                                                                    O))
                                                                    else 
                                                                    if 
                                                                    (&&)
                                                                    (opt_is_none
                                                                    inter0)
                                                                    (N.eqb
                                                                    input
                                                                    (Npos (XO
                                                                    (XO (XO
                                                                    (XO (XO
                                                                    (XI
                                                                    XH))))))))
                                                                    then 
                                                                    Some (Cha
                                                                    (pu16 ps
                                                                    O))
                                                                    else 
                                                                    if 
                                                                    (&&)
                                                                    (opt_is_none
                                                                    inter0)
                                                                    (N.eqb
                                                                    input
                                                                    (Npos (XI
                                                                    (XO (XO
                                                                    (XO (XO
                                                                    (XI
                                                                    XH))))))))
                                                                    then 
                                                                    Some (Cuf
                                                                    (pu16 ps
                                                                    O))
                                                                    else 
                                                                    if 
                                                                    (&&)
                                                                    (opt_is_none
                                                                    inter0)
                                                                    (N.eqb
                                                                    input
                                                                    (Npos (XO
                                                                    (XI (XO
                                                                    (XO (XO
                                                                    (XI
                                                                    XH))))))))
                                                                    then 
                                                                    Some (Rep
                                                                    (pu16 ps
                                                                    O))
                                                                    else 
                                                                    if 
                                                                    (&&)
                                                                    (opt_is_none
                                                                    inter0)
                                                                    (N.eqb
                                                                    input
                                                                    (Npos (XO
                                                                    (XO (XI
                                                                    (XO (XO
                                                                    (XI
                                                                    XH))))))))
                                                                    then 
                                                                    Some (Vpa
                                                                    (pu16 ps
                                                                    O))
                                                                    else 
                                                                    if 
                                                                    (&&)
                                                                    (opt_is_none
                                                                    inter0)
                                                                    (N.eqb
                                                                    input
                                                                    (Npos (XI
                                                                    (XO (XI
                                                                    (XO (XO
                                                                    (XI
                                                                    XH))))))))
                                                                    then 
                                                                    Some (Vpr
                                                                    (pu16 ps
                                                                    O))
                                                                    else 
                                                                    if 
                                                                    (&&)
                                                                    (opt_is_none
                                                                    inter0)
                                                                    (N.eqb
                                                                    input
                                                                    (Npos (XO
                                                                    (XI (XI
                                                                    (XO (XO
                                                                    (XI
                                                                    XH))))))))
                                                                    then 
                                                                    Some (Cup
                                                                    ((pu16 ps
                                                                    O),
                                                                    (pu16 ps
                                                                    (S O))))
                                                                    else 
                                                                    if 
                                                                    (&&)
                                                                    (opt_is_none
                                                                    inter0)
                                                                    (N.eqb
                                                                    input
                                                                    (Npos (XI
                                                                    (XI (XI
                                                                    (XO (XO
                                                                    (XI
                                                                    XH))))))))
                                                                    then 
                                                                    let scrut =
                                                                    pu16 ps O
                                                                    in
                                                                    if 
                                                                    N.eqb
                                                                    scrut N0
                                                                    then 
                                                                    Some (Tbc
                                                                    TbcCurrentColumn)
                                                                    else 
                                                                    if 
                                                                    N.eqb
                                                                    scrut
                                                                    (Npos (XI
                                                                    XH))
                                                                    then 
                                                                    Some (Tbc
                                                                    TbcAll)
                                                                    else None
                                                                    else 
                                                                    if 
                                                                    (&&)
                                                                    (opt_is_none
                                                                    inter0)
                                                                    (N.eqb
                                                                    input
                                                                    (Npos (XO
                                                                    (XO (XO
                                                                    (XI (XO
                                                                    (XI
                                                                    XH))))))))
                                                                    then 
                                                                    Some (Sm
                                                                    (filter_map
                                                                    (fun p ->
                                                                    ansi_mode_gen
                                                                    (pu16
                                                                    (p :: [])
                                                                    O))
                                                                    (firstn
                                                                    (S cp) ps)))
                                                                    else 
                                                                    if 
                                                                    (&&)
                                                                    (opt_is_none
                                                                    inter0)
                                                                    (N.eqb
                                                                    input
                                                                    (Npos (XO
                                                                    (XO (XI
                                                                    (XI (XO
                                                                    (XI
                                                                    XH))))))))
                                                                    then 
                                                                    Some (Rm
                                                                    (filter_map
                                                                    (fun p ->
                                                                    ansi_mode_gen
                                                                    (pu16
                                                                    (p :: [])
                                                                    O))
                                                                    (firstn
                                                                    (S cp) ps)))
                                                                    else 
                                                                    if 
                                                                    (&&)
                                                                    (opt_is_none
                                                                    inter0)
                                                                    (N.eqb
                                                                    input
                                                                    (Npos (XI
                                                                    (XO (XI
                                                                    (XI (XO
                                                                    (XI
                                                                    XH))))))))
                                                                    then 
                                                                    Some (Sgr
                                                                    (sgr_ops
                                                                    (firstn
                                                                    (S cp) ps)))
                                                                    else 
                                                                    if 
                                                                    (&&)
                                                                    (opt_is_none
                                                                    inter0)
                                                                    (N.eqb
                                                                    input
                                                                    (Npos (XO
                                                                    (XI (XO
                                                                    (XO (XI
                                                                    (XI
                                                                    XH))))))))
                                                                    then 
                                                                    Some
                                                                    (Decstbm
                                                                    ((pu16 ps
                                                                    O),
                                                                    (pu16 ps
                                                                    (S O))))
                                                                    else 
                                                                    if 
                                                                    (&&)
                                                                    (opt_is_none
                                                                    inter0)
                                                                    (N.eqb
                                                                    input
                                                                    (Npos (XI
                                                                    (XI (XO
                                                                    (XO (XI
                                                                    (XI
                                                                    XH))))))))
                                                                    then 
                                                                    Some Scosc
                                                                    else 
                                                                    if 
                                                                    (&&)
                                                                    (opt_is_none
                                                                    inter0)
                                                                    (N.eqb
                                                                    input
                                                                    (Npos (XO
                                                                    (XO (XI
                                                                    (XO (XI
                                                                    (XI
                                                                    XH))))))))
                                                                    then 
                                                                    if 
                                                                    N.eqb
                                                                    (pu16 ps
                                                                    O) (Npos
                                                                    (XO (XO
                                                                    (XO XH))))
                                                                    then 
                                                                    let rows0 =
                                                                    pu16 ps
                                                                    (S O)
                                                                    in
                                                                    let cols0 =
                                                                    pu16 ps
                                                                    (S (S O))
                                                                    in
                                                                    Some
                                                                    (Xtwinops
                                                                    (XtwinopsResize
                                                                    (cols0,
                                                                    rows0)))
                                                                    else None
                                                                    else 
                                                                    if 
                                                                    (&&)
                                                                    (opt_is_none
                                                                    inter0)
                                                                    (N.eqb
                                                                    input
                                                                    (Npos (XI
                                                                    (XO (XI
                                                                    (XO (XI
                                                                    (XI
                                                                    XH))))))))
                                                                    then 
                                                                    Some Scorc
                                                                    else 
                                                                    if 
                                                                    (&&)
                                                                    (opt_is
                                                                    inter0
                                                                    (Npos (XI
                                                                    (XO (XO
                                                                    (XO (XO
                                                                    XH)))))))
                                                                    (N.eqb
                                                                    input
                                                                    (Npos (XO
                                                                    (XO (XO
                                                                    (XO (XI
                                                                    (XI
                                                                    XH))))))))
                                                                    then 
                                                                    Some
                                                                    Decstr
                                                                    else 
                                                                    if 
                                                                    (&&)
                                                                    (opt_is
                                                                    inter0
                                                                    (Npos (XI
                                                                    (XI (XI
                                                                    (XI (XI
                                                                    XH)))))))
                                                                    (N.eqb
                                                                    input
                                                                    (Npos (XO
                                                                    (XO (XO
                                                                    (XI (XO
                                                                    (XI
                                                                    XH))))))))
                                                                    then 
                                                                    Some
                                                                    (Decset
                                                                    (filter_map
                                                                    (fun p ->
                                                                    dec_mode_gen
                                                                    (pu16
                                                                    (p :: [])
                                                                    O))
                                                                    (firstn
                                                                    (S cp) ps)))
                                                                    else 
                                                                    if 
                                                                    (&&)
                                                                    (opt_is
                                                                    inter0
                                                                    (Npos (XI
                                                                    (XI (XI
                                                                    (XI (XI
                                                                    XH)))))))
                                                                    (N.eqb
                                                                    input
                                                                    (Npos (XO
                                                                    (XO (XI
                                                                    (XI (XO
                                                                    (XI
                                                                    XH))))))))
                                                                    then 
                                                                    Some
                                                                    (Decrst
                                                                    (filter_map
                                                                    (fun p ->
                                                                    dec_mode_gen
                                                                    (pu16
                                                                    (p :: [])
                                                                    O))
                                                                    (firstn
                                                                    (S cp) ps)))
                                                                    else None

(** val init_parser : parser0 **)

let init_parser =
  { pst = Ground; params = (repeat default_param pARAMS_LEN); cur_param = O;
    inter = None }

(** val param_clear_ok : param -> bool **)

let param_clear_ok p =
  Nat.ltb p.cur_part (length p.parts)

(** val param_clear : param -> param **)

let param_clear p =
  { cur_part = O; parts = (fill_range O (S p.cur_part) N0 p.parts) }

(** val param_add_part : param -> param **)

let param_add_part p =
  set (fun p0 -> p0.cur_part) (fun f ->
    let n0 = fun r -> f r.cur_part in
    (fun x -> { cur_part = (n0 x); parts = x.parts })) (fun _ ->
    Nat.min (add p.cur_part (S O)) aDD_PART_CAP) p

(** val param_add_digit_ok : param -> bool **)

let param_add_digit_ok p =
  Nat.ltb p.cur_part (length p.parts)

(** val param_add_digit : n -> param -> param **)

let param_add_digit d p =
  set (fun p0 -> p0.parts) (fun f ->
    let l = fun r -> f r.parts in
    (fun x -> { cur_part = x.cur_part; parts = (l x) })) (fun _ ->
    upd p.cur_part (fun n0 -> add_digit_gen n0 d) p.parts) p

(** val clear_ok : parser0 -> bool **)

let clear_ok p =
  (&&) (Nat.ltb p.cur_param (length p.params))
    (forallb param_clear_ok (firstn (S p.cur_param) p.params))

(** val clear : parser0 -> parser0 **)

let clear p =
  set (fun p0 -> p0.inter) (fun f ->
    let o = fun r -> f r.inter in
    (fun x -> { pst = x.pst; params = x.params; cur_param = x.cur_param;
    inter = (o x) })) (fun _ -> None)
    (set (fun p0 -> p0.cur_param) (fun f ->
      let n0 = fun r -> f r.cur_param in
      (fun x -> { pst = x.pst; params = x.params; cur_param = (n0 x); inter =
      x.inter })) (fun _ -> O)
      (set (fun p0 -> p0.params) (fun f ->
        let l = fun r -> f r.params in
        (fun x -> { pst = x.pst; params = (l x); cur_param = x.cur_param;
        inter = x.inter })) (fun _ ->
        app (map param_clear (firstn (S p.cur_param) p.params))
          (skipn (S p.cur_param) p.params)) p))

(** val clearM : parser0 -> parser0 res **)

let clearM p =
  if clear_ok p then Ok (clear p) else Panic (S O)

(** val collect : parser0 -> n -> parser0 **)

let collect p input =
  set (fun p0 -> p0.inter) (fun f ->
    let o = fun r -> f r.inter in
    (fun x -> { pst = x.pst; params = x.params; cur_param = x.cur_param;
    inter = (o x) })) (fun _ -> Some input) p

(** val param_ok : parser0 -> n -> bool **)

let param_ok p input =
  if N.eqb input pARAM_SEP
  then true
  else if N.eqb input pART_SEP
       then Nat.ltb p.cur_param (length p.params)
       else (&&)
              ((&&) (Nat.ltb p.cur_param (length p.params))
                (match nth_error p.params p.cur_param with
                 | Some q -> param_add_digit_ok q
                 | None -> false))
              (N.leb dIGIT_BASE
                (N.modulo input (Npos (XO (XO (XO (XO (XO (XO (XO (XO
                  XH)))))))))))

(** val param_step : parser0 -> n -> parser0 **)

let param_step p input =
  if N.eqb input pARAM_SEP
  then let c = add p.cur_param (S O) in
       set (fun p0 -> p0.cur_param) (fun f ->
         let n0 = fun r -> f r.cur_param in
         (fun x -> { pst = x.pst; params = x.params; cur_param = (n0 x);
         inter = x.inter })) (fun _ ->
         if Nat.eqb c pARAMS_LEN then sub pARAMS_LEN (S O) else c) p
  else if N.eqb input pART_SEP
       then set (fun p0 -> p0.params) (fun f ->
              let l = fun r -> f r.params in
              (fun x -> { pst = x.pst; params = (l x); cur_param =
              x.cur_param; inter = x.inter })) (fun _ ->
              upd p.cur_param param_add_part p.params) p
       else set (fun p0 -> p0.params) (fun f ->
              let l = fun r -> f r.params in
              (fun x -> { pst = x.pst; params = (l x); cur_param =
              x.cur_param; inter = x.inter })) (fun _ ->
              upd p.cur_param
                (param_add_digit
                  (N.sub
                    (N.modulo input (Npos (XO (XO (XO (XO (XO (XO (XO (XO
                      XH)))))))))) dIGIT_BASE)) p.params) p

(** val paramM : parser0 -> n -> parser0 res **)

let paramM p input =
  if param_ok p input then Ok (param_step p input) else Panic (S (S O))

(** val csi_dispatchM : parser0 -> n -> func option res **)

let csi_dispatchM p input =
  if Nat.ltb p.cur_param (length p.params)
  then Ok (csi_dispatch_gen p.inter input p.params p.cur_param)
  else Panic (S (S (S O)))

(** val esc_dispatch : parser0 -> n -> parser0 * func option **)

let esc_dispatch p input =
  let (st, f) = esc_dispatch_gen p.inter input in
  ((match st with
    | Some s ->
      set (fun p0 -> p0.pst) (fun f0 ->
        let p0 = fun r -> f0 r.pst in
        (fun x -> { pst = (p0 x); params = x.params; cur_param = x.cur_param;
        inter = x.inter })) (fun _ -> s) p
    | None -> p), f)

(** val spat_matches : spat -> pstate -> bool **)

let spat_matches sp s =
  match sp with
  | AnyState -> true
  | St s' -> pstate_eqb s' s

(** val pat_matches : pstate -> n -> ((spat * n) * n) -> bool **)

let pat_matches s c = function
| (p0, hi) ->
  let (sp, lo) = p0 in
  (&&) ((&&) (spat_matches sp s) (N.leb lo c)) (N.leb c hi)

(** val find_arm : pstate -> n -> arm list -> act list **)

let rec find_arm s c = function
| [] -> []
| a :: r ->
  let (pats, acts) = a in
  if existsb (pat_matches s c) pats then acts else find_arm s c r

(** val run_acts : act list -> parser0 -> n -> (parser0 * func option) res **)

let rec run_acts acts p input =
  match acts with
  | [] -> Ok (p, None)
  | a :: r ->
    (match a with
     | ASetState s ->
       run_acts r
         (set (fun p0 -> p0.pst) (fun f ->
           let p0 = fun r0 -> f r0.pst in
           (fun x -> { pst = (p0 x); params = x.params; cur_param =
           x.cur_param; inter = x.inter })) (fun _ -> s) p) input
     | AClear -> bind (clearM p) (fun p' -> run_acts r p' input)
     | ACollect -> run_acts r (collect p input) input
     | AParam -> bind (paramM p input) (fun p' -> run_acts r p' input)
     | ARetExecute -> Ok (p, (execute_gen input))
     | ARetCsi -> bind (csi_dispatchM p input) (fun f -> Ok (p, f))
     | ARetEsc -> Ok (esc_dispatch p input)
     | ARetPrint -> Ok (p, (Some (Print input)))
     | _ -> run_acts r p input)

(** val input2 : n -> n **)

let input2 input =
  if N.leb hi_threshold input then hi_subst else input

(** val feedM : parser0 -> n -> (parser0 * func option) res **)

let feedM p input =
  run_acts (find_arm p.pst (input2 input) feed_arms) p input

(** val digits_fuel : nat -> n -> n list -> n list **)

let rec digits_fuel fuel n0 acc =
  match fuel with
  | O -> acc
  | S f ->
    let acc' =
      (N.add (Npos (XO (XO (XO (XO (XI XH))))))
        (N.modulo n0 (Npos (XO (XI (XO XH)))))) :: acc
    in
    if N.eqb (N.div n0 (Npos (XO (XI (XO XH))))) N0
    then acc'
    else digits_fuel f (N.div n0 (Npos (XO (XI (XO XH))))) acc'

(** val show_N : n -> n list **)

let show_N n0 =
  digits_fuel (S (S (S (S (S (S (S (S (S (S (S (S (S (S (S (S (S (S (S (S
    O)))))))))))))))))))) n0 []

(** val show_nat : nat -> n list **)

let show_nat n0 =
  show_N (N.of_nat n0)

(** val join_with : n list -> n list list -> n list **)

let rec join_with sep = function
| [] -> []
| x :: r ->
  (match r with
   | [] -> x
   | _ :: _ -> app x (app sep (join_with sep r)))

(** val param_show : param -> n list **)

let param_show p =
  join_with ((Npos (XO (XI (XO (XI (XI XH)))))) :: []) (map show_N (pparts p))

(** val inter_str : parser0 -> n list **)

let inter_str p =
  match p.inter with
  | Some c -> c :: []
  | None -> []

(** val params_str : parser0 -> n list **)

let params_str p =
  join_with ((Npos (XI (XI (XO (XI (XI XH)))))) :: [])
    (map param_show (firstn (S p.cur_param) p.params))

(** val parser_dump : parser0 -> n list **)

let parser_dump p =
  match p.pst with
  | Ground -> []
  | Escape -> (Npos (XI (XI (XO (XI XH))))) :: []
  | EscapeIntermediate -> (Npos (XI (XI (XO (XI XH))))) :: (inter_str p)
  | CsiEntry -> (Npos (XI (XI (XO (XI (XI (XO (XO XH)))))))) :: []
  | CsiParam ->
    (Npos (XI (XI (XO (XI (XI (XO (XO
      XH)))))))) :: (app (inter_str p) (params_str p))
  | CsiIntermediate ->
    (Npos (XI (XI (XO (XI (XI (XO (XO XH)))))))) :: (inter_str p)
  | CsiIgnore ->
    (Npos (XI (XI (XO (XI (XI (XO (XO XH)))))))) :: ((Npos (XO (XI (XO (XI
      (XI XH)))))) :: [])
  | DcsEntry -> (Npos (XO (XO (XO (XO (XI (XO (XO XH)))))))) :: []
  | DcsParam ->
    (Npos (XO (XO (XO (XO (XI (XO (XO
      XH)))))))) :: (app (inter_str p) (params_str p))
  | DcsIntermediate ->
    (Npos (XO (XO (XO (XO (XI (XO (XO XH)))))))) :: (inter_str p)
  | DcsPassthrough ->
    (Npos (XO (XO (XO (XO (XI (XO (XO
      XH)))))))) :: (app (inter_str p) ((Npos (XO (XO (XO (XO (XO (XO
                      XH))))))) :: []))
  | DcsIgnore ->
    (Npos (XO (XO (XO (XO (XI (XO (XO XH)))))))) :: ((Npos (XO (XI (XO (XI
      (XI XH)))))) :: [])
  | OscString -> (Npos (XI (XO (XI (XI (XI (XO (XO XH)))))))) :: []
  | SosPmApcString -> (Npos (XO (XO (XO (XI (XI (XO (XO XH)))))))) :: []

(** val parser_dumpM : parser0 -> n list res **)

let parser_dumpM p =
  if Nat.ltb p.cur_param (length p.params)
  then Ok (parser_dump p)
  else Panic (S (S (S (S O))))

(** val default_ctx : saved_ctx **)

let default_ctx =
  { sc_col = O; sc_row = O; sc_pen = default_pen; sc_origin = false; sc_awm =
    true }

(** val term_new_gen : nat -> nat -> n option -> term **)

let term_new_gen cols_ rows_ limit_ =
  let primary_buffer0 = buffer_new cols_ rows_ limit_ None in
  let alternate_buffer0 = buffer_new cols_ rows_ (Some N0) None in
  let dirty_lines_ = dirty_new rows_ in
  { cols = cols_; rows = rows_; buf = primary_buffer0; other =
  alternate_buffer0; active = Primary; sb_limit = limit_; cur_col = O;
  cur_row = O; cur_vis = true; tpen = default_pen; cs0 = CsAscii; cs1 =
  CsAscii; acs = O; tabs = (tabs_new cols_); ins = false; org = false; awm =
  true; nlm = false; ckm = false; pend = false; top = O; bot =
  (sub rows_ (S O)); sctx = default_ctx; asctx = default_ctx; dirty =
  dirty_lines_; xtw = false }

(** val hard_reset_gen : term -> term **)

let hard_reset_gen t =
  let primary_buffer0 = buffer_new t.cols t.rows t.sb_limit None in
  let alternate_buffer0 = buffer_new t.cols t.rows (Some N0) None in
  set (fun t0 -> t0.dirty) (fun f ->
    let l = fun r -> f r.dirty in
    (fun x -> { cols = x.cols; rows = x.rows; buf = x.buf; other = x.other;
    active = x.active; sb_limit = x.sb_limit; cur_col = x.cur_col; cur_row =
    x.cur_row; cur_vis = x.cur_vis; tpen = x.tpen; cs0 = x.cs0; cs1 = x.cs1;
    acs = x.acs; tabs = x.tabs; ins = x.ins; org = x.org; awm = x.awm; nlm =
    x.nlm; ckm = x.ckm; pend = x.pend; top = x.top; bot = x.bot; sctx =
    x.sctx; asctx = x.asctx; dirty = (l x); xtw = x.xtw })) (fun _ ->
    dirty_new t.rows)
    (set (fun t0 -> t0.asctx) (fun f ->
      let s = fun r -> f r.asctx in
      (fun x -> { cols = x.cols; rows = x.rows; buf = x.buf; other = x.other;
      active = x.active; sb_limit = x.sb_limit; cur_col = x.cur_col;
      cur_row = x.cur_row; cur_vis = x.cur_vis; tpen = x.tpen; cs0 = x.cs0;
      cs1 = x.cs1; acs = x.acs; tabs = x.tabs; ins = x.ins; org = x.org;
      awm = x.awm; nlm = x.nlm; ckm = x.ckm; pend = x.pend; top = x.top;
      bot = x.bot; sctx = x.sctx; asctx = (s x); dirty = x.dirty; xtw =
      x.xtw })) (fun _ -> default_ctx)
      (set (fun t0 -> t0.sctx) (fun f ->
        let s = fun r -> f r.sctx in
        (fun x -> { cols = x.cols; rows = x.rows; buf = x.buf; other =
        x.other; active = x.active; sb_limit = x.sb_limit; cur_col =
        x.cur_col; cur_row = x.cur_row; cur_vis = x.cur_vis; tpen = x.tpen;
        cs0 = x.cs0; cs1 = x.cs1; acs = x.acs; tabs = x.tabs; ins = x.ins;
        org = x.org; awm = x.awm; nlm = x.nlm; ckm = x.ckm; pend = x.pend;
        top = x.top; bot = x.bot; sctx = (s x); asctx = x.asctx; dirty =
        x.dirty; xtw = x.xtw })) (fun _ -> default_ctx)
        (set (fun t0 -> t0.bot) (fun f ->
          let n0 = fun r -> f r.bot in
          (fun x -> { cols = x.cols; rows = x.rows; buf = x.buf; other =
          x.other; active = x.active; sb_limit = x.sb_limit; cur_col =
          x.cur_col; cur_row = x.cur_row; cur_vis = x.cur_vis; tpen = x.tpen;
          cs0 = x.cs0; cs1 = x.cs1; acs = x.acs; tabs = x.tabs; ins = x.ins;
          org = x.org; awm = x.awm; nlm = x.nlm; ckm = x.ckm; pend = x.pend;
          top = x.top; bot = (n0 x); sctx = x.sctx; asctx = x.asctx; dirty =
          x.dirty; xtw = x.xtw })) (fun _ -> sub t.rows (S O))
          (set (fun t0 -> t0.top) (fun f ->
            let n0 = fun r -> f r.top in
            (fun x -> { cols = x.cols; rows = x.rows; buf = x.buf; other =
            x.other; active = x.active; sb_limit = x.sb_limit; cur_col =
            x.cur_col; cur_row = x.cur_row; cur_vis = x.cur_vis; tpen =
            x.tpen; cs0 = x.cs0; cs1 = x.cs1; acs = x.acs; tabs = x.tabs;
            ins = x.ins; org = x.org; awm = x.awm; nlm = x.nlm; ckm = x.ckm;
            pend = x.pend; top = (n0 x); bot = x.bot; sctx = x.sctx; asctx =
            x.asctx; dirty = x.dirty; xtw = x.xtw })) (fun _ -> O)
            (set (fun t0 -> t0.pend) (fun f ->
              let b = fun r -> f r.pend in
              (fun x -> { cols = x.cols; rows = x.rows; buf = x.buf; other =
              x.other; active = x.active; sb_limit = x.sb_limit; cur_col =
              x.cur_col; cur_row = x.cur_row; cur_vis = x.cur_vis; tpen =
              x.tpen; cs0 = x.cs0; cs1 = x.cs1; acs = x.acs; tabs = x.tabs;
              ins = x.ins; org = x.org; awm = x.awm; nlm = x.nlm; ckm =
              x.ckm; pend = (b x); top = x.top; bot = x.bot; sctx = x.sctx;
              asctx = x.asctx; dirty = x.dirty; xtw = x.xtw })) (fun _ ->
              false)
              (set (fun t0 -> t0.ckm) (fun f ->
                let b = fun r -> f r.ckm in
                (fun x -> { cols = x.cols; rows = x.rows; buf = x.buf;
                other = x.other; active = x.active; sb_limit = x.sb_limit;
                cur_col = x.cur_col; cur_row = x.cur_row; cur_vis =
                x.cur_vis; tpen = x.tpen; cs0 = x.cs0; cs1 = x.cs1; acs =
                x.acs; tabs = x.tabs; ins = x.ins; org = x.org; awm = x.awm;
                nlm = x.nlm; ckm = (b x); pend = x.pend; top = x.top; bot =
                x.bot; sctx = x.sctx; asctx = x.asctx; dirty = x.dirty; xtw =
                x.xtw })) (fun _ -> false)
                (set (fun t0 -> t0.nlm) (fun f ->
                  let b = fun r -> f r.nlm in
                  (fun x -> { cols = x.cols; rows = x.rows; buf = x.buf;
                  other = x.other; active = x.active; sb_limit = x.sb_limit;
                  cur_col = x.cur_col; cur_row = x.cur_row; cur_vis =
                  x.cur_vis; tpen = x.tpen; cs0 = x.cs0; cs1 = x.cs1; acs =
                  x.acs; tabs = x.tabs; ins = x.ins; org = x.org; awm =
                  x.awm; nlm = (b x); ckm = x.ckm; pend = x.pend; top =
                  x.top; bot = x.bot; sctx = x.sctx; asctx = x.asctx; dirty =
                  x.dirty; xtw = x.xtw })) (fun _ -> false)
                  (set (fun t0 -> t0.awm) (fun f ->
                    let b = fun r -> f r.awm in
                    (fun x -> { cols = x.cols; rows = x.rows; buf = x.buf;
                    other = x.other; active = x.active; sb_limit =
                    x.sb_limit; cur_col = x.cur_col; cur_row = x.cur_row;
                    cur_vis = x.cur_vis; tpen = x.tpen; cs0 = x.cs0; cs1 =
                    x.cs1; acs = x.acs; tabs = x.tabs; ins = x.ins; org =
                    x.org; awm = (b x); nlm = x.nlm; ckm = x.ckm; pend =
                    x.pend; top = x.top; bot = x.bot; sctx = x.sctx; asctx =
                    x.asctx; dirty = x.dirty; xtw = x.xtw })) (fun _ -> true)
                    (set (fun t0 -> t0.org) (fun f ->
                      let b = fun r -> f r.org in
                      (fun x -> { cols = x.cols; rows = x.rows; buf = x.buf;
                      other = x.other; active = x.active; sb_limit =
                      x.sb_limit; cur_col = x.cur_col; cur_row = x.cur_row;
                      cur_vis = x.cur_vis; tpen = x.tpen; cs0 = x.cs0; cs1 =
                      x.cs1; acs = x.acs; tabs = x.tabs; ins = x.ins; org =
                      (b x); awm = x.awm; nlm = x.nlm; ckm = x.ckm; pend =
                      x.pend; top = x.top; bot = x.bot; sctx = x.sctx;
                      asctx = x.asctx; dirty = x.dirty; xtw = x.xtw }))
                      (fun _ -> false)
                      (set (fun t0 -> t0.ins) (fun f ->
                        let b = fun r -> f r.ins in
                        (fun x -> { cols = x.cols; rows = x.rows; buf =
                        x.buf; other = x.other; active = x.active; sb_limit =
                        x.sb_limit; cur_col = x.cur_col; cur_row = x.cur_row;
                        cur_vis = x.cur_vis; tpen = x.tpen; cs0 = x.cs0;
                        cs1 = x.cs1; acs = x.acs; tabs = x.tabs; ins = 
                        (b x); org = x.org; awm = x.awm; nlm = x.nlm; ckm =
                        x.ckm; pend = x.pend; top = x.top; bot = x.bot;
                        sctx = x.sctx; asctx = x.asctx; dirty = x.dirty;
                        xtw = x.xtw })) (fun _ -> false)
                        (set (fun t0 -> t0.acs) (fun f ->
                          let n0 = fun r -> f r.acs in
                          (fun x -> { cols = x.cols; rows = x.rows; buf =
                          x.buf; other = x.other; active = x.active;
                          sb_limit = x.sb_limit; cur_col = x.cur_col;
                          cur_row = x.cur_row; cur_vis = x.cur_vis; tpen =
                          x.tpen; cs0 = x.cs0; cs1 = x.cs1; acs = (n0 x);
                          tabs = x.tabs; ins = x.ins; org = x.org; awm =
                          x.awm; nlm = x.nlm; ckm = x.ckm; pend = x.pend;
                          top = x.top; bot = x.bot; sctx = x.sctx; asctx =
                          x.asctx; dirty = x.dirty; xtw = x.xtw })) (fun _ ->
                          O)
                          (set (fun t0 -> t0.cs1) (fun f ->
                            let c = fun r -> f r.cs1 in
                            (fun x -> { cols = x.cols; rows = x.rows; buf =
                            x.buf; other = x.other; active = x.active;
                            sb_limit = x.sb_limit; cur_col = x.cur_col;
                            cur_row = x.cur_row; cur_vis = x.cur_vis; tpen =
                            x.tpen; cs0 = x.cs0; cs1 = (c x); acs = x.acs;
                            tabs = x.tabs; ins = x.ins; org = x.org; awm =
                            x.awm; nlm = x.nlm; ckm = x.ckm; pend = x.pend;
                            top = x.top; bot = x.bot; sctx = x.sctx; asctx =
                            x.asctx; dirty = x.dirty; xtw = x.xtw }))
                            (fun _ -> CsAscii)
                            (set (fun t0 -> t0.cs0) (fun f ->
                              let c = fun r -> f r.cs0 in
                              (fun x -> { cols = x.cols; rows = x.rows; buf =
                              x.buf; other = x.other; active = x.active;
                              sb_limit = x.sb_limit; cur_col = x.cur_col;
                              cur_row = x.cur_row; cur_vis = x.cur_vis;
                              tpen = x.tpen; cs0 = (c x); cs1 = x.cs1; acs =
                              x.acs; tabs = x.tabs; ins = x.ins; org = x.org;
                              awm = x.awm; nlm = x.nlm; ckm = x.ckm; pend =
                              x.pend; top = x.top; bot = x.bot; sctx =
                              x.sctx; asctx = x.asctx; dirty = x.dirty; xtw =
                              x.xtw })) (fun _ -> CsAscii)
                              (set (fun t0 -> t0.tpen) (fun f ->
                                let p = fun r -> f r.tpen in
                                (fun x -> { cols = x.cols; rows = x.rows;
                                buf = x.buf; other = x.other; active =
                                x.active; sb_limit = x.sb_limit; cur_col =
                                x.cur_col; cur_row = x.cur_row; cur_vis =
                                x.cur_vis; tpen = (p x); cs0 = x.cs0; cs1 =
                                x.cs1; acs = x.acs; tabs = x.tabs; ins =
                                x.ins; org = x.org; awm = x.awm; nlm = x.nlm;
                                ckm = x.ckm; pend = x.pend; top = x.top;
                                bot = x.bot; sctx = x.sctx; asctx = x.asctx;
                                dirty = x.dirty; xtw = x.xtw })) (fun _ ->
                                default_pen)
                                (set (fun t0 -> t0.cur_vis) (fun f ->
                                  let b = fun r -> f r.cur_vis in
                                  (fun x -> { cols = x.cols; rows = x.rows;
                                  buf = x.buf; other = x.other; active =
                                  x.active; sb_limit = x.sb_limit; cur_col =
                                  x.cur_col; cur_row = x.cur_row; cur_vis =
                                  (b x); tpen = x.tpen; cs0 = x.cs0; cs1 =
                                  x.cs1; acs = x.acs; tabs = x.tabs; ins =
                                  x.ins; org = x.org; awm = x.awm; nlm =
                                  x.nlm; ckm = x.ckm; pend = x.pend; top =
                                  x.top; bot = x.bot; sctx = x.sctx; asctx =
                                  x.asctx; dirty = x.dirty; xtw = x.xtw }))
                                  (fun _ -> true)
                                  (set (fun t0 -> t0.cur_row) (fun f ->
                                    let n0 = fun r -> f r.cur_row in
                                    (fun x -> { cols = x.cols; rows = x.rows;
                                    buf = x.buf; other = x.other; active =
                                    x.active; sb_limit = x.sb_limit;
                                    cur_col = x.cur_col; cur_row = (n0 x);
                                    cur_vis = x.cur_vis; tpen = x.tpen; cs0 =
                                    x.cs0; cs1 = x.cs1; acs = x.acs; tabs =
                                    x.tabs; ins = x.ins; org = x.org; awm =
                                    x.awm; nlm = x.nlm; ckm = x.ckm; pend =
                                    x.pend; top = x.top; bot = x.bot; sctx =
                                    x.sctx; asctx = x.asctx; dirty = x.dirty;
                                    xtw = x.xtw })) (fun _ -> O)
                                    (set (fun t0 -> t0.cur_col) (fun f ->
                                      let n0 = fun r -> f r.cur_col in
                                      (fun x -> { cols = x.cols; rows =
                                      x.rows; buf = x.buf; other = x.other;
                                      active = x.active; sb_limit =
                                      x.sb_limit; cur_col = (n0 x); cur_row =
                                      x.cur_row; cur_vis = x.cur_vis; tpen =
                                      x.tpen; cs0 = x.cs0; cs1 = x.cs1; acs =
                                      x.acs; tabs = x.tabs; ins = x.ins;
                                      org = x.org; awm = x.awm; nlm = x.nlm;
                                      ckm = x.ckm; pend = x.pend; top =
                                      x.top; bot = x.bot; sctx = x.sctx;
                                      asctx = x.asctx; dirty = x.dirty; xtw =
                                      x.xtw })) (fun _ -> O)
                                      (set (fun t0 -> t0.tabs) (fun f ->
                                        let l = fun r -> f r.tabs in
                                        (fun x -> { cols = x.cols; rows =
                                        x.rows; buf = x.buf; other = x.other;
                                        active = x.active; sb_limit =
                                        x.sb_limit; cur_col = x.cur_col;
                                        cur_row = x.cur_row; cur_vis =
                                        x.cur_vis; tpen = x.tpen; cs0 =
                                        x.cs0; cs1 = x.cs1; acs = x.acs;
                                        tabs = (l x); ins = x.ins; org =
                                        x.org; awm = x.awm; nlm = x.nlm;
                                        ckm = x.ckm; pend = x.pend; top =
                                        x.top; bot = x.bot; sctx = x.sctx;
                                        asctx = x.asctx; dirty = x.dirty;
                                        xtw = x.xtw })) (fun _ ->
                                        tabs_new t.cols)
                                        (set (fun t0 -> t0.active) (fun f ->
                                          let b = fun r -> f r.active in
                                          (fun x -> { cols = x.cols; rows =
                                          x.rows; buf = x.buf; other =
                                          x.other; active = (b x); sb_limit =
                                          x.sb_limit; cur_col = x.cur_col;
                                          cur_row = x.cur_row; cur_vis =
                                          x.cur_vis; tpen = x.tpen; cs0 =
                                          x.cs0; cs1 = x.cs1; acs = x.acs;
                                          tabs = x.tabs; ins = x.ins; org =
                                          x.org; awm = x.awm; nlm = x.nlm;
                                          ckm = x.ckm; pend = x.pend; top =
                                          x.top; bot = x.bot; sctx = x.sctx;
                                          asctx = x.asctx; dirty = x.dirty;
                                          xtw = x.xtw })) (fun _ -> Primary)
                                          (set (fun t0 -> t0.other) (fun f ->
                                            let b = fun r -> f r.other in
                                            (fun x -> { cols = x.cols; rows =
                                            x.rows; buf = x.buf; other =
                                            (b x); active = x.active;
                                            sb_limit = x.sb_limit; cur_col =
                                            x.cur_col; cur_row = x.cur_row;
                                            cur_vis = x.cur_vis; tpen =
                                            x.tpen; cs0 = x.cs0; cs1 = x.cs1;
                                            acs = x.acs; tabs = x.tabs; ins =
                                            x.ins; org = x.org; awm = x.awm;
                                            nlm = x.nlm; ckm = x.ckm; pend =
                                            x.pend; top = x.top; bot = x.bot;
                                            sctx = x.sctx; asctx = x.asctx;
                                            dirty = x.dirty; xtw = x.xtw }))
                                            (fun _ -> alternate_buffer0)
                                            (set (fun t0 -> t0.buf) (fun f ->
                                              let b = fun r -> f r.buf in
                                              (fun x -> { cols = x.cols;
                                              rows = x.rows; buf = (b x);
                                              other = x.other; active =
                                              x.active; sb_limit =
                                              x.sb_limit; cur_col =
                                              x.cur_col; cur_row = x.cur_row;
                                              cur_vis = x.cur_vis; tpen =
                                              x.tpen; cs0 = x.cs0; cs1 =
                                              x.cs1; acs = x.acs; tabs =
                                              x.tabs; ins = x.ins; org =
                                              x.org; awm = x.awm; nlm =
                                              x.nlm; ckm = x.ckm; pend =
                                              x.pend; top = x.top; bot =
                                              x.bot; sctx = x.sctx; asctx =
                                              x.asctx; dirty = x.dirty; xtw =
                                              x.xtw })) (fun _ ->
                                              primary_buffer0) t)))))))))))))))))))))

(** val soft_reset_gen : term -> term **)

let soft_reset_gen t =
  set (fun t0 -> t0.sctx) (fun f ->
    let s = fun r -> f r.sctx in
    (fun x -> { cols = x.cols; rows = x.rows; buf = x.buf; other = x.other;
    active = x.active; sb_limit = x.sb_limit; cur_col = x.cur_col; cur_row =
    x.cur_row; cur_vis = x.cur_vis; tpen = x.tpen; cs0 = x.cs0; cs1 = x.cs1;
    acs = x.acs; tabs = x.tabs; ins = x.ins; org = x.org; awm = x.awm; nlm =
    x.nlm; ckm = x.ckm; pend = x.pend; top = x.top; bot = x.bot; sctx =
    (s x); asctx = x.asctx; dirty = x.dirty; xtw = x.xtw })) (fun _ ->
    default_ctx)
    (set (fun t0 -> t0.acs) (fun f ->
      let n0 = fun r -> f r.acs in
      (fun x -> { cols = x.cols; rows = x.rows; buf = x.buf; other = x.other;
      active = x.active; sb_limit = x.sb_limit; cur_col = x.cur_col;
      cur_row = x.cur_row; cur_vis = x.cur_vis; tpen = x.tpen; cs0 = x.cs0;
      cs1 = x.cs1; acs = (n0 x); tabs = x.tabs; ins = x.ins; org = x.org;
      awm = x.awm; nlm = x.nlm; ckm = x.ckm; pend = x.pend; top = x.top;
      bot = x.bot; sctx = x.sctx; asctx = x.asctx; dirty = x.dirty; xtw =
      x.xtw })) (fun _ -> O)
      (set (fun t0 -> t0.cs1) (fun f ->
        let c = fun r -> f r.cs1 in
        (fun x -> { cols = x.cols; rows = x.rows; buf = x.buf; other =
        x.other; active = x.active; sb_limit = x.sb_limit; cur_col =
        x.cur_col; cur_row = x.cur_row; cur_vis = x.cur_vis; tpen = x.tpen;
        cs0 = x.cs0; cs1 = (c x); acs = x.acs; tabs = x.tabs; ins = x.ins;
        org = x.org; awm = x.awm; nlm = x.nlm; ckm = x.ckm; pend = x.pend;
        top = x.top; bot = x.bot; sctx = x.sctx; asctx = x.asctx; dirty =
        x.dirty; xtw = x.xtw })) (fun _ -> CsAscii)
        (set (fun t0 -> t0.cs0) (fun f ->
          let c = fun r -> f r.cs0 in
          (fun x -> { cols = x.cols; rows = x.rows; buf = x.buf; other =
          x.other; active = x.active; sb_limit = x.sb_limit; cur_col =
          x.cur_col; cur_row = x.cur_row; cur_vis = x.cur_vis; tpen = x.tpen;
          cs0 = (c x); cs1 = x.cs1; acs = x.acs; tabs = x.tabs; ins = x.ins;
          org = x.org; awm = x.awm; nlm = x.nlm; ckm = x.ckm; pend = x.pend;
          top = x.top; bot = x.bot; sctx = x.sctx; asctx = x.asctx; dirty =
          x.dirty; xtw = x.xtw })) (fun _ -> CsAscii)
          (set (fun t0 -> t0.tpen) (fun f ->
            let p = fun r -> f r.tpen in
            (fun x -> { cols = x.cols; rows = x.rows; buf = x.buf; other =
            x.other; active = x.active; sb_limit = x.sb_limit; cur_col =
            x.cur_col; cur_row = x.cur_row; cur_vis = x.cur_vis; tpen =
            (p x); cs0 = x.cs0; cs1 = x.cs1; acs = x.acs; tabs = x.tabs;
            ins = x.ins; org = x.org; awm = x.awm; nlm = x.nlm; ckm = x.ckm;
            pend = x.pend; top = x.top; bot = x.bot; sctx = x.sctx; asctx =
            x.asctx; dirty = x.dirty; xtw = x.xtw })) (fun _ -> default_pen)
            (set (fun t0 -> t0.org) (fun f ->
              let b = fun r -> f r.org in
              (fun x -> { cols = x.cols; rows = x.rows; buf = x.buf; other =
              x.other; active = x.active; sb_limit = x.sb_limit; cur_col =
              x.cur_col; cur_row = x.cur_row; cur_vis = x.cur_vis; tpen =
              x.tpen; cs0 = x.cs0; cs1 = x.cs1; acs = x.acs; tabs = x.tabs;
              ins = x.ins; org = (b x); awm = x.awm; nlm = x.nlm; ckm =
              x.ckm; pend = x.pend; top = x.top; bot = x.bot; sctx = x.sctx;
              asctx = x.asctx; dirty = x.dirty; xtw = x.xtw })) (fun _ ->
              false)
              (set (fun t0 -> t0.ins) (fun f ->
                let b = fun r -> f r.ins in
                (fun x -> { cols = x.cols; rows = x.rows; buf = x.buf;
                other = x.other; active = x.active; sb_limit = x.sb_limit;
                cur_col = x.cur_col; cur_row = x.cur_row; cur_vis =
                x.cur_vis; tpen = x.tpen; cs0 = x.cs0; cs1 = x.cs1; acs =
                x.acs; tabs = x.tabs; ins = (b x); org = x.org; awm = x.awm;
                nlm = x.nlm; ckm = x.ckm; pend = x.pend; top = x.top; bot =
                x.bot; sctx = x.sctx; asctx = x.asctx; dirty = x.dirty; xtw =
                x.xtw })) (fun _ -> false)
                (set (fun t0 -> t0.bot) (fun f ->
                  let n0 = fun r -> f r.bot in
                  (fun x -> { cols = x.cols; rows = x.rows; buf = x.buf;
                  other = x.other; active = x.active; sb_limit = x.sb_limit;
                  cur_col = x.cur_col; cur_row = x.cur_row; cur_vis =
                  x.cur_vis; tpen = x.tpen; cs0 = x.cs0; cs1 = x.cs1; acs =
                  x.acs; tabs = x.tabs; ins = x.ins; org = x.org; awm =
                  x.awm; nlm = x.nlm; ckm = x.ckm; pend = x.pend; top =
                  x.top; bot = (n0 x); sctx = x.sctx; asctx = x.asctx;
                  dirty = x.dirty; xtw = x.xtw })) (fun _ ->
                  sub t.rows (S O))
                  (set (fun t0 -> t0.top) (fun f ->
                    let n0 = fun r -> f r.top in
                    (fun x -> { cols = x.cols; rows = x.rows; buf = x.buf;
                    other = x.other; active = x.active; sb_limit =
                    x.sb_limit; cur_col = x.cur_col; cur_row = x.cur_row;
                    cur_vis = x.cur_vis; tpen = x.tpen; cs0 = x.cs0; cs1 =
                    x.cs1; acs = x.acs; tabs = x.tabs; ins = x.ins; org =
                    x.org; awm = x.awm; nlm = x.nlm; ckm = x.ckm; pend =
                    x.pend; top = (n0 x); bot = x.bot; sctx = x.sctx; asctx =
                    x.asctx; dirty = x.dirty; xtw = x.xtw })) (fun _ -> O)
                    (set (fun t0 -> t0.cur_vis) (fun f ->
                      let b = fun r -> f r.cur_vis in
                      (fun x -> { cols = x.cols; rows = x.rows; buf = x.buf;
                      other = x.other; active = x.active; sb_limit =
                      x.sb_limit; cur_col = x.cur_col; cur_row = x.cur_row;
                      cur_vis = (b x); tpen = x.tpen; cs0 = x.cs0; cs1 =
                      x.cs1; acs = x.acs; tabs = x.tabs; ins = x.ins; org =
                      x.org; awm = x.awm; nlm = x.nlm; ckm = x.ckm; pend =
                      x.pend; top = x.top; bot = x.bot; sctx = x.sctx;
                      asctx = x.asctx; dirty = x.dirty; xtw = x.xtw }))
                      (fun _ -> true) t)))))))))

(** val save_cursor_gen : term -> term **)

let save_cursor_gen t =
  set (fun t0 -> t0.sctx) (fun f ->
    let s = fun r -> f r.sctx in
    (fun x -> { cols = x.cols; rows = x.rows; buf = x.buf; other = x.other;
    active = x.active; sb_limit = x.sb_limit; cur_col = x.cur_col; cur_row =
    x.cur_row; cur_vis = x.cur_vis; tpen = x.tpen; cs0 = x.cs0; cs1 = x.cs1;
    acs = x.acs; tabs = x.tabs; ins = x.ins; org = x.org; awm = x.awm; nlm =
    x.nlm; ckm = x.ckm; pend = x.pend; top = x.top; bot = x.bot; sctx =
    (s x); asctx = x.asctx; dirty = x.dirty; xtw = x.xtw }))
    (set (fun s -> s.sc_awm) (fun f ->
      let b = fun r -> f r.sc_awm in
      (fun x -> { sc_col = x.sc_col; sc_row = x.sc_row; sc_pen = x.sc_pen;
      sc_origin = x.sc_origin; sc_awm = (b x) })) (fun _ -> t.awm))
    (set (fun t0 -> t0.sctx) (fun f ->
      let s = fun r -> f r.sctx in
      (fun x -> { cols = x.cols; rows = x.rows; buf = x.buf; other = x.other;
      active = x.active; sb_limit = x.sb_limit; cur_col = x.cur_col;
      cur_row = x.cur_row; cur_vis = x.cur_vis; tpen = x.tpen; cs0 = x.cs0;
      cs1 = x.cs1; acs = x.acs; tabs = x.tabs; ins = x.ins; org = x.org;
      awm = x.awm; nlm = x.nlm; ckm = x.ckm; pend = x.pend; top = x.top;
      bot = x.bot; sctx = (s x); asctx = x.asctx; dirty = x.dirty; xtw =
      x.xtw }))
      (set (fun s -> s.sc_origin) (fun f ->
        let b = fun r -> f r.sc_origin in
        (fun x -> { sc_col = x.sc_col; sc_row = x.sc_row; sc_pen = x.sc_pen;
        sc_origin = (b x); sc_awm = x.sc_awm })) (fun _ -> t.org))
      (set (fun t0 -> t0.sctx) (fun f ->
        let s = fun r -> f r.sctx in
        (fun x -> { cols = x.cols; rows = x.rows; buf = x.buf; other =
        x.other; active = x.active; sb_limit = x.sb_limit; cur_col =
        x.cur_col; cur_row = x.cur_row; cur_vis = x.cur_vis; tpen = x.tpen;
        cs0 = x.cs0; cs1 = x.cs1; acs = x.acs; tabs = x.tabs; ins = x.ins;
        org = x.org; awm = x.awm; nlm = x.nlm; ckm = x.ckm; pend = x.pend;
        top = x.top; bot = x.bot; sctx = (s x); asctx = x.asctx; dirty =
        x.dirty; xtw = x.xtw }))
        (set (fun s -> s.sc_pen) (fun f ->
          let p = fun r -> f r.sc_pen in
          (fun x -> { sc_col = x.sc_col; sc_row = x.sc_row; sc_pen = 
          (p x); sc_origin = x.sc_origin; sc_awm = x.sc_awm })) (fun _ ->
          t.tpen))
        (set (fun t0 -> t0.sctx) (fun f ->
          let s = fun r -> f r.sctx in
          (fun x -> { cols = x.cols; rows = x.rows; buf = x.buf; other =
          x.other; active = x.active; sb_limit = x.sb_limit; cur_col =
          x.cur_col; cur_row = x.cur_row; cur_vis = x.cur_vis; tpen = x.tpen;
          cs0 = x.cs0; cs1 = x.cs1; acs = x.acs; tabs = x.tabs; ins = x.ins;
          org = x.org; awm = x.awm; nlm = x.nlm; ckm = x.ckm; pend = x.pend;
          top = x.top; bot = x.bot; sctx = (s x); asctx = x.asctx; dirty =
          x.dirty; xtw = x.xtw }))
          (set (fun s -> s.sc_row) (fun f ->
            let n0 = fun r -> f r.sc_row in
            (fun x -> { sc_col = x.sc_col; sc_row = (n0 x); sc_pen =
            x.sc_pen; sc_origin = x.sc_origin; sc_awm = x.sc_awm }))
            (fun _ -> t.cur_row))
          (set (fun t0 -> t0.sctx) (fun f ->
            let s = fun r -> f r.sctx in
            (fun x -> { cols = x.cols; rows = x.rows; buf = x.buf; other =
            x.other; active = x.active; sb_limit = x.sb_limit; cur_col =
            x.cur_col; cur_row = x.cur_row; cur_vis = x.cur_vis; tpen =
            x.tpen; cs0 = x.cs0; cs1 = x.cs1; acs = x.acs; tabs = x.tabs;
            ins = x.ins; org = x.org; awm = x.awm; nlm = x.nlm; ckm = x.ckm;
            pend = x.pend; top = x.top; bot = x.bot; sctx = (s x); asctx =
            x.asctx; dirty = x.dirty; xtw = x.xtw }))
            (set (fun s -> s.sc_col) (fun f ->
              let n0 = fun r -> f r.sc_col in
              (fun x -> { sc_col = (n0 x); sc_row = x.sc_row; sc_pen =
              x.sc_pen; sc_origin = x.sc_origin; sc_awm = x.sc_awm }))
              (fun _ -> Nat.min t.cur_col (sub t.cols (S O)))) t))))

(** val restore_cursor_gen : term -> term **)

let restore_cursor_gen t =
  set (fun t0 -> t0.pend) (fun f ->
    let b = fun r -> f r.pend in
    (fun x -> { cols = x.cols; rows = x.rows; buf = x.buf; other = x.other;
    active = x.active; sb_limit = x.sb_limit; cur_col = x.cur_col; cur_row =
    x.cur_row; cur_vis = x.cur_vis; tpen = x.tpen; cs0 = x.cs0; cs1 = x.cs1;
    acs = x.acs; tabs = x.tabs; ins = x.ins; org = x.org; awm = x.awm; nlm =
    x.nlm; ckm = x.ckm; pend = (b x); top = x.top; bot = x.bot; sctx =
    x.sctx; asctx = x.asctx; dirty = x.dirty; xtw = x.xtw })) (fun _ ->
    false)
    (set (fun t0 -> t0.awm) (fun f ->
      let b = fun r -> f r.awm in
      (fun x -> { cols = x.cols; rows = x.rows; buf = x.buf; other = x.other;
      active = x.active; sb_limit = x.sb_limit; cur_col = x.cur_col;
      cur_row = x.cur_row; cur_vis = x.cur_vis; tpen = x.tpen; cs0 = x.cs0;
      cs1 = x.cs1; acs = x.acs; tabs = x.tabs; ins = x.ins; org = x.org;
      awm = (b x); nlm = x.nlm; ckm = x.ckm; pend = x.pend; top = x.top;
      bot = x.bot; sctx = x.sctx; asctx = x.asctx; dirty = x.dirty; xtw =
      x.xtw })) (fun _ -> t.sctx.sc_awm)
      (set (fun t0 -> t0.org) (fun f ->
        let b = fun r -> f r.org in
        (fun x -> { cols = x.cols; rows = x.rows; buf = x.buf; other =
        x.other; active = x.active; sb_limit = x.sb_limit; cur_col =
        x.cur_col; cur_row = x.cur_row; cur_vis = x.cur_vis; tpen = x.tpen;
        cs0 = x.cs0; cs1 = x.cs1; acs = x.acs; tabs = x.tabs; ins = x.ins;
        org = (b x); awm = x.awm; nlm = x.nlm; ckm = x.ckm; pend = x.pend;
        top = x.top; bot = x.bot; sctx = x.sctx; asctx = x.asctx; dirty =
        x.dirty; xtw = x.xtw })) (fun _ -> t.sctx.sc_origin)
        (set (fun t0 -> t0.tpen) (fun f ->
          let p = fun r -> f r.tpen in
          (fun x -> { cols = x.cols; rows = x.rows; buf = x.buf; other =
          x.other; active = x.active; sb_limit = x.sb_limit; cur_col =
          x.cur_col; cur_row = x.cur_row; cur_vis = x.cur_vis; tpen = 
          (p x); cs0 = x.cs0; cs1 = x.cs1; acs = x.acs; tabs = x.tabs; ins =
          x.ins; org = x.org; awm = x.awm; nlm = x.nlm; ckm = x.ckm; pend =
          x.pend; top = x.top; bot = x.bot; sctx = x.sctx; asctx = x.asctx;
          dirty = x.dirty; xtw = x.xtw })) (fun _ -> t.sctx.sc_pen)
          (set (fun t0 -> t0.cur_row) (fun f ->
            let n0 = fun r -> f r.cur_row in
            (fun x -> { cols = x.cols; rows = x.rows; buf = x.buf; other =
            x.other; active = x.active; sb_limit = x.sb_limit; cur_col =
            x.cur_col; cur_row = (n0 x); cur_vis = x.cur_vis; tpen = x.tpen;
            cs0 = x.cs0; cs1 = x.cs1; acs = x.acs; tabs = x.tabs; ins =
            x.ins; org = x.org; awm = x.awm; nlm = x.nlm; ckm = x.ckm; pend =
            x.pend; top = x.top; bot = x.bot; sctx = x.sctx; asctx = x.asctx;
            dirty = x.dirty; xtw = x.xtw })) (fun _ -> t.sctx.sc_row)
            (set (fun t0 -> t0.cur_col) (fun f ->
              let n0 = fun r -> f r.cur_col in
              (fun x -> { cols = x.cols; rows = x.rows; buf = x.buf; other =
              x.other; active = x.active; sb_limit = x.sb_limit; cur_col =
              (n0 x); cur_row = x.cur_row; cur_vis = x.cur_vis; tpen =
              x.tpen; cs0 = x.cs0; cs1 = x.cs1; acs = x.acs; tabs = x.tabs;
              ins = x.ins; org = x.org; awm = x.awm; nlm = x.nlm; ckm =
              x.ckm; pend = x.pend; top = x.top; bot = x.bot; sctx = x.sctx;
              asctx = x.asctx; dirty = x.dirty; xtw = x.xtw })) (fun _ ->
              t.sctx.sc_col) t)))))

(** val as_usize : n -> nat -> nat **)

let as_usize =
  as_usize_gen

(** val translate : charset -> n -> n res **)

let translate cs c =
  match cs with
  | CsAscii -> Ok c
  | CsDrawing ->
    if (&&) (N.leb gFX_LO c) (N.ltb c gFX_HI_EXCL)
    then bind
           (guard (N.leb gFX_OFF c) (S (S (S (S (S (S (S (S (S (S (S (S (S (S
             (S (S (S (S (S (S (S (S (S (S (S (S (S (S (S (S (S (S (S (S (S
             (S (S (S (S (S (S (S (S (S (S (S (S (S (S (S (S (S (S (S (S (S
             (S (S (S (S (S (S (S (S (S (S (S (S (S (S
             O)))))))))))))))))))))))))))))))))))))))))))))))))))))))))))))))))))))))
           (fun _ ->
           match nth_error sPECIAL_GFX_CHARS (N.to_nat (N.sub c gFX_OFF)) with
           | Some g -> Ok g
           | None ->
             Panic (S (S (S (S (S (S (S (S (S (S (S (S (S (S (S (S (S (S (S
               (S (S (S (S (S (S (S (S (S (S (S (S (S (S (S (S (S (S (S (S (S
               (S (S (S (S (S (S (S (S (S (S (S (S (S (S (S (S (S (S (S (S (S
               (S (S (S (S (S (S (S (S (S
               O)))))))))))))))))))))))))))))))))))))))))))))))))))))))))))))))))))))))
    else Ok c

(** val active_cs : term -> charset res **)

let active_cs t =
  match t.acs with
  | O -> Ok t.cs0
  | S n0 ->
    (match n0 with
     | O -> Ok t.cs1
     | S _ ->
       Panic (S (S (S (S (S (S (S (S (S (S (S (S (S (S (S (S (S (S (S (S (S
         (S (S (S (S (S (S (S (S (S (S (S (S (S (S (S (S (S (S (S (S (S (S (S
         (S (S (S (S (S (S (S (S (S (S (S (S (S (S (S (S (S (S (S (S (S (S (S
         (S (S (S (S
         O))))))))))))))))))))))))))))))))))))))))))))))))))))))))))))))))))))))))

(** val on_buf : term -> (buffer -> buffer res) -> term res **)

let on_buf t f =
  bind (f t.buf) (fun b -> Ok
    (set (fun t0 -> t0.buf) (fun f0 ->
      let b0 = fun r -> f0 r.buf in
      (fun x -> { cols = x.cols; rows = x.rows; buf = (b0 x); other =
      x.other; active = x.active; sb_limit = x.sb_limit; cur_col = x.cur_col;
      cur_row = x.cur_row; cur_vis = x.cur_vis; tpen = x.tpen; cs0 = x.cs0;
      cs1 = x.cs1; acs = x.acs; tabs = x.tabs; ins = x.ins; org = x.org;
      awm = x.awm; nlm = x.nlm; ckm = x.ckm; pend = x.pend; top = x.top;
      bot = x.bot; sctx = x.sctx; asctx = x.asctx; dirty = x.dirty; xtw =
      x.xtw })) (fun _ -> b) t))

(** val mark : term -> nat -> term res **)

let mark t n0 =
  bind (dirty_add t.dirty n0) (fun d -> Ok
    (set (fun t0 -> t0.dirty) (fun f ->
      let l = fun r -> f r.dirty in
      (fun x -> { cols = x.cols; rows = x.rows; buf = x.buf; other = x.other;
      active = x.active; sb_limit = x.sb_limit; cur_col = x.cur_col;
      cur_row = x.cur_row; cur_vis = x.cur_vis; tpen = x.tpen; cs0 = x.cs0;
      cs1 = x.cs1; acs = x.acs; tabs = x.tabs; ins = x.ins; org = x.org;
      awm = x.awm; nlm = x.nlm; ckm = x.ckm; pend = x.pend; top = x.top;
      bot = x.bot; sctx = x.sctx; asctx = x.asctx; dirty = (l x); xtw =
      x.xtw })) (fun _ -> d) t))

(** val mark_range : term -> nat -> nat -> term res **)

let mark_range t a z0 =
  bind (dirty_extend t.dirty a z0) (fun d -> Ok
    (set (fun t0 -> t0.dirty) (fun f ->
      let l = fun r -> f r.dirty in
      (fun x -> { cols = x.cols; rows = x.rows; buf = x.buf; other = x.other;
      active = x.active; sb_limit = x.sb_limit; cur_col = x.cur_col;
      cur_row = x.cur_row; cur_vis = x.cur_vis; tpen = x.tpen; cs0 = x.cs0;
      cs1 = x.cs1; acs = x.acs; tabs = x.tabs; ins = x.ins; org = x.org;
      awm = x.awm; nlm = x.nlm; ckm = x.ckm; pend = x.pend; top = x.top;
      bot = x.bot; sctx = x.sctx; asctx = x.asctx; dirty = (l x); xtw =
      x.xtw })) (fun _ -> d) t))

(** val save_cursor : term -> term **)

let save_cursor =
  save_cursor_gen

(** val restore_cursor : term -> term **)

let restore_cursor =
  restore_cursor_gen

(** val do_move_cursor_to_col : term -> nat -> term **)

let do_move_cursor_to_col t c =
  set (fun t0 -> t0.pend) (fun f ->
    let b = fun r -> f r.pend in
    (fun x -> { cols = x.cols; rows = x.rows; buf = x.buf; other = x.other;
    active = x.active; sb_limit = x.sb_limit; cur_col = x.cur_col; cur_row =
    x.cur_row; cur_vis = x.cur_vis; tpen = x.tpen; cs0 = x.cs0; cs1 = x.cs1;
    acs = x.acs; tabs = x.tabs; ins = x.ins; org = x.org; awm = x.awm; nlm =
    x.nlm; ckm = x.ckm; pend = (b x); top = x.top; bot = x.bot; sctx =
    x.sctx; asctx = x.asctx; dirty = x.dirty; xtw = x.xtw })) (fun _ ->
    false)
    (set (fun t0 -> t0.cur_col) (fun f ->
      let n0 = fun r -> f r.cur_col in
      (fun x -> { cols = x.cols; rows = x.rows; buf = x.buf; other = x.other;
      active = x.active; sb_limit = x.sb_limit; cur_col = (n0 x); cur_row =
      x.cur_row; cur_vis = x.cur_vis; tpen = x.tpen; cs0 = x.cs0; cs1 =
      x.cs1; acs = x.acs; tabs = x.tabs; ins = x.ins; org = x.org; awm =
      x.awm; nlm = x.nlm; ckm = x.ckm; pend = x.pend; top = x.top; bot =
      x.bot; sctx = x.sctx; asctx = x.asctx; dirty = x.dirty; xtw = x.xtw }))
      (fun _ -> c) t)

(** val move_cursor_to_col : term -> nat -> term **)

let move_cursor_to_col t c =
  if Nat.leb t.cols c
  then do_move_cursor_to_col t (sub t.cols (S O))
  else do_move_cursor_to_col t c

(** val do_move_cursor_to_row : term -> nat -> term **)

let do_move_cursor_to_row t r =
  set (fun t0 -> t0.pend) (fun f ->
    let b = fun r0 -> f r0.pend in
    (fun x -> { cols = x.cols; rows = x.rows; buf = x.buf; other = x.other;
    active = x.active; sb_limit = x.sb_limit; cur_col = x.cur_col; cur_row =
    x.cur_row; cur_vis = x.cur_vis; tpen = x.tpen; cs0 = x.cs0; cs1 = x.cs1;
    acs = x.acs; tabs = x.tabs; ins = x.ins; org = x.org; awm = x.awm; nlm =
    x.nlm; ckm = x.ckm; pend = (b x); top = x.top; bot = x.bot; sctx =
    x.sctx; asctx = x.asctx; dirty = x.dirty; xtw = x.xtw })) (fun _ ->
    false)
    (set (fun t0 -> t0.cur_row) (fun f ->
      let n0 = fun r0 -> f r0.cur_row in
      (fun x -> { cols = x.cols; rows = x.rows; buf = x.buf; other = x.other;
      active = x.active; sb_limit = x.sb_limit; cur_col = x.cur_col;
      cur_row = (n0 x); cur_vis = x.cur_vis; tpen = x.tpen; cs0 = x.cs0;
      cs1 = x.cs1; acs = x.acs; tabs = x.tabs; ins = x.ins; org = x.org;
      awm = x.awm; nlm = x.nlm; ckm = x.ckm; pend = x.pend; top = x.top;
      bot = x.bot; sctx = x.sctx; asctx = x.asctx; dirty = x.dirty; xtw =
      x.xtw })) (fun _ -> r)
      (set (fun t0 -> t0.cur_col) (fun f ->
        let n0 = fun r0 -> f r0.cur_col in
        (fun x -> { cols = x.cols; rows = x.rows; buf = x.buf; other =
        x.other; active = x.active; sb_limit = x.sb_limit; cur_col = 
        (n0 x); cur_row = x.cur_row; cur_vis = x.cur_vis; tpen = x.tpen;
        cs0 = x.cs0; cs1 = x.cs1; acs = x.acs; tabs = x.tabs; ins = x.ins;
        org = x.org; awm = x.awm; nlm = x.nlm; ckm = x.ckm; pend = x.pend;
        top = x.top; bot = x.bot; sctx = x.sctx; asctx = x.asctx; dirty =
        x.dirty; xtw = x.xtw })) (fun _ ->
        Nat.min t.cur_col (sub t.cols (S O))) t))

(** val actual_top_margin : term -> nat **)

let actual_top_margin t =
  if t.org then t.top else O

(** val actual_bottom_margin : term -> nat **)

let actual_bottom_margin t =
  if t.org then t.bot else sub t.rows (S O)

(** val move_cursor_to_row : term -> nat -> term **)

let move_cursor_to_row t r =
  let tp = actual_top_margin t in
  let bt = actual_bottom_margin t in
  do_move_cursor_to_row t (Nat.min (Nat.max (add tp r) tp) bt)

(** val move_cursor_to_rel_col : term -> z -> term **)

let move_cursor_to_rel_col t rel =
  let new_col = Z.add (Z.of_nat t.cur_col) rel in
  if Z.ltb new_col Z0
  then do_move_cursor_to_col t O
  else if Nat.leb t.cols (Z.to_nat new_col)
       then do_move_cursor_to_col t (sub t.cols (S O))
       else do_move_cursor_to_col t (Z.to_nat new_col)

(** val move_cursor_home : term -> term **)

let move_cursor_home t =
  let t0 = do_move_cursor_to_col t O in
  do_move_cursor_to_row t0 (actual_top_margin t0)

(** val move_cursor_to_next_tab : term -> nat -> term res **)

let move_cursor_to_next_tab t n0 =
  bind (tabs_after t.tabs t.cur_col n0) (fun o -> Ok
    (move_cursor_to_col t
      (match o with
       | Some c -> c
       | None -> sub t.cols (S O))))

(** val move_cursor_to_prev_tab : term -> nat -> term res **)

let move_cursor_to_prev_tab t n0 =
  bind (tabs_before t.tabs t.cur_col n0) (fun o -> Ok
    (move_cursor_to_col t (match o with
                           | Some c -> c
                           | None -> O)))

(** val scroll_up_in_region : term -> nat -> term res **)

let scroll_up_in_region t n0 =
  bind
    (on_buf t (fun b -> buf_scroll_up b t.top (add t.bot (S O)) n0 t.tpen))
    (fun t1 -> mark_range t1 t.top (add t.bot (S O)))

(** val scroll_down_in_region : term -> nat -> term res **)

let scroll_down_in_region t n0 =
  bind
    (on_buf t (fun b -> buf_scroll_down b t.top (add t.bot (S O)) n0 t.tpen))
    (fun t1 -> mark_range t1 t.top (add t.bot (S O)))

(** val move_cursor_down_with_scroll : term -> term res **)

let move_cursor_down_with_scroll t =
  if Nat.eqb t.cur_row t.bot
  then scroll_up_in_region t (S O)
  else if Nat.ltb t.cur_row (sub t.rows (S O))
       then Ok (do_move_cursor_to_row t (add t.cur_row (S O)))
       else Ok t

(** val cursor_down : term -> nat -> term **)

let cursor_down t n0 =
  let new_y =
    if Nat.ltb t.bot t.cur_row
    then Nat.min (sub t.rows (S O)) (add t.cur_row n0)
    else Nat.min t.bot (add t.cur_row n0)
  in
  do_move_cursor_to_row t new_y

(** val cursor_up : term -> nat -> term **)

let cursor_up t n0 =
  let new_y =
    if Nat.ltb t.cur_row t.top
    then sub t.cur_row n0
    else Nat.max (sub t.cur_row n0) t.top
  in
  do_move_cursor_to_row t new_y

(** val set_tab : term -> term **)

let set_tab t =
  if (&&) (Nat.ltb O t.cur_col) (Nat.ltb t.cur_col t.cols)
  then set (fun t0 -> t0.tabs) (fun f ->
         let l = fun r -> f r.tabs in
         (fun x -> { cols = x.cols; rows = x.rows; buf = x.buf; other =
         x.other; active = x.active; sb_limit = x.sb_limit; cur_col =
         x.cur_col; cur_row = x.cur_row; cur_vis = x.cur_vis; tpen = x.tpen;
         cs0 = x.cs0; cs1 = x.cs1; acs = x.acs; tabs = (l x); ins = x.ins;
         org = x.org; awm = x.awm; nlm = x.nlm; ckm = x.ckm; pend = x.pend;
         top = x.top; bot = x.bot; sctx = x.sctx; asctx = x.asctx; dirty =
         x.dirty; xtw = x.xtw })) (fun _ -> tabs_set t.cur_col t.tabs) t
  else t

(** val clear_tab : term -> term **)

let clear_tab t =
  set (fun t0 -> t0.tabs) (fun f ->
    let l = fun r -> f r.tabs in
    (fun x -> { cols = x.cols; rows = x.rows; buf = x.buf; other = x.other;
    active = x.active; sb_limit = x.sb_limit; cur_col = x.cur_col; cur_row =
    x.cur_row; cur_vis = x.cur_vis; tpen = x.tpen; cs0 = x.cs0; cs1 = x.cs1;
    acs = x.acs; tabs = (l x); ins = x.ins; org = x.org; awm = x.awm; nlm =
    x.nlm; ckm = x.ckm; pend = x.pend; top = x.top; bot = x.bot; sctx =
    x.sctx; asctx = x.asctx; dirty = x.dirty; xtw = x.xtw })) (fun _ ->
    tabs_unset t.cur_col t.tabs) t

(** val clear_all_tabs : term -> term **)

let clear_all_tabs t =
  set (fun t0 -> t0.tabs) (fun f ->
    let l = fun r -> f r.tabs in
    (fun x -> { cols = x.cols; rows = x.rows; buf = x.buf; other = x.other;
    active = x.active; sb_limit = x.sb_limit; cur_col = x.cur_col; cur_row =
    x.cur_row; cur_vis = x.cur_vis; tpen = x.tpen; cs0 = x.cs0; cs1 = x.cs1;
    acs = x.acs; tabs = (l x); ins = x.ins; org = x.org; awm = x.awm; nlm =
    x.nlm; ckm = x.ckm; pend = x.pend; top = x.top; bot = x.bot; sctx =
    x.sctx; asctx = x.asctx; dirty = x.dirty; xtw = x.xtw })) (fun _ -> []) t

(** val switch_to_alternate_buffer : term -> term res **)

let switch_to_alternate_buffer t =
  match t.active with
  | Primary ->
    let t1 =
      set (fun t0 -> t0.buf) (fun f ->
        let b = fun r -> f r.buf in
        (fun x -> { cols = x.cols; rows = x.rows; buf = (b x); other =
        x.other; active = x.active; sb_limit = x.sb_limit; cur_col =
        x.cur_col; cur_row = x.cur_row; cur_vis = x.cur_vis; tpen = x.tpen;
        cs0 = x.cs0; cs1 = x.cs1; acs = x.acs; tabs = x.tabs; ins = x.ins;
        org = x.org; awm = x.awm; nlm = x.nlm; ckm = x.ckm; pend = x.pend;
        top = x.top; bot = x.bot; sctx = x.sctx; asctx = x.asctx; dirty =
        x.dirty; xtw = x.xtw })) (fun _ ->
        buffer_new t.cols t.rows (Some N0) (Some t.tpen))
        (set (fun t0 -> t0.other) (fun f ->
          let b = fun r -> f r.other in
          (fun x -> { cols = x.cols; rows = x.rows; buf = x.buf; other =
          (b x); active = x.active; sb_limit = x.sb_limit; cur_col =
          x.cur_col; cur_row = x.cur_row; cur_vis = x.cur_vis; tpen = x.tpen;
          cs0 = x.cs0; cs1 = x.cs1; acs = x.acs; tabs = x.tabs; ins = x.ins;
          org = x.org; awm = x.awm; nlm = x.nlm; ckm = x.ckm; pend = x.pend;
          top = x.top; bot = x.bot; sctx = x.sctx; asctx = x.asctx; dirty =
          x.dirty; xtw = x.xtw })) (fun _ -> t.buf)
          (set (fun t0 -> t0.asctx) (fun f ->
            let s = fun r -> f r.asctx in
            (fun x -> { cols = x.cols; rows = x.rows; buf = x.buf; other =
            x.other; active = x.active; sb_limit = x.sb_limit; cur_col =
            x.cur_col; cur_row = x.cur_row; cur_vis = x.cur_vis; tpen =
            x.tpen; cs0 = x.cs0; cs1 = x.cs1; acs = x.acs; tabs = x.tabs;
            ins = x.ins; org = x.org; awm = x.awm; nlm = x.nlm; ckm = x.ckm;
            pend = x.pend; top = x.top; bot = x.bot; sctx = x.sctx; asctx =
            (s x); dirty = x.dirty; xtw = x.xtw })) (fun _ -> t.sctx)
            (set (fun t0 -> t0.sctx) (fun f ->
              let s = fun r -> f r.sctx in
              (fun x -> { cols = x.cols; rows = x.rows; buf = x.buf; other =
              x.other; active = x.active; sb_limit = x.sb_limit; cur_col =
              x.cur_col; cur_row = x.cur_row; cur_vis = x.cur_vis; tpen =
              x.tpen; cs0 = x.cs0; cs1 = x.cs1; acs = x.acs; tabs = x.tabs;
              ins = x.ins; org = x.org; awm = x.awm; nlm = x.nlm; ckm =
              x.ckm; pend = x.pend; top = x.top; bot = x.bot; sctx = 
              (s x); asctx = x.asctx; dirty = x.dirty; xtw = x.xtw }))
              (fun _ -> t.asctx)
              (set (fun t0 -> t0.active) (fun f ->
                let b = fun r -> f r.active in
                (fun x -> { cols = x.cols; rows = x.rows; buf = x.buf;
                other = x.other; active = (b x); sb_limit = x.sb_limit;
                cur_col = x.cur_col; cur_row = x.cur_row; cur_vis =
                x.cur_vis; tpen = x.tpen; cs0 = x.cs0; cs1 = x.cs1; acs =
                x.acs; tabs = x.tabs; ins = x.ins; org = x.org; awm = x.awm;
                nlm = x.nlm; ckm = x.ckm; pend = x.pend; top = x.top; bot =
                x.bot; sctx = x.sctx; asctx = x.asctx; dirty = x.dirty; xtw =
                x.xtw })) (fun _ -> Alternate) t))))
    in
    mark_range t1 O t1.rows
  | Alternate -> Ok t

(** val switch_to_primary_buffer : term -> term res **)

let switch_to_primary_buffer t =
  match t.active with
  | Primary -> Ok t
  | Alternate ->
    let t1 =
      set (fun t0 -> t0.other) (fun f ->
        let b = fun r -> f r.other in
        (fun x -> { cols = x.cols; rows = x.rows; buf = x.buf; other = 
        (b x); active = x.active; sb_limit = x.sb_limit; cur_col = x.cur_col;
        cur_row = x.cur_row; cur_vis = x.cur_vis; tpen = x.tpen; cs0 = x.cs0;
        cs1 = x.cs1; acs = x.acs; tabs = x.tabs; ins = x.ins; org = x.org;
        awm = x.awm; nlm = x.nlm; ckm = x.ckm; pend = x.pend; top = x.top;
        bot = x.bot; sctx = x.sctx; asctx = x.asctx; dirty = x.dirty; xtw =
        x.xtw })) (fun _ -> t.buf)
        (set (fun t0 -> t0.buf) (fun f ->
          let b = fun r -> f r.buf in
          (fun x -> { cols = x.cols; rows = x.rows; buf = (b x); other =
          x.other; active = x.active; sb_limit = x.sb_limit; cur_col =
          x.cur_col; cur_row = x.cur_row; cur_vis = x.cur_vis; tpen = x.tpen;
          cs0 = x.cs0; cs1 = x.cs1; acs = x.acs; tabs = x.tabs; ins = x.ins;
          org = x.org; awm = x.awm; nlm = x.nlm; ckm = x.ckm; pend = x.pend;
          top = x.top; bot = x.bot; sctx = x.sctx; asctx = x.asctx; dirty =
          x.dirty; xtw = x.xtw })) (fun _ -> t.other)
          (set (fun t0 -> t0.asctx) (fun f ->
            let s = fun r -> f r.asctx in
            (fun x -> { cols = x.cols; rows = x.rows; buf = x.buf; other =
            x.other; active = x.active; sb_limit = x.sb_limit; cur_col =
            x.cur_col; cur_row = x.cur_row; cur_vis = x.cur_vis; tpen =
            x.tpen; cs0 = x.cs0; cs1 = x.cs1; acs = x.acs; tabs = x.tabs;
            ins = x.ins; org = x.org; awm = x.awm; nlm = x.nlm; ckm = x.ckm;
            pend = x.pend; top = x.top; bot = x.bot; sctx = x.sctx; asctx =
            (s x); dirty = x.dirty; xtw = x.xtw })) (fun _ -> t.sctx)
            (set (fun t0 -> t0.sctx) (fun f ->
              let s = fun r -> f r.sctx in
              (fun x -> { cols = x.cols; rows = x.rows; buf = x.buf; other =
              x.other; active = x.active; sb_limit = x.sb_limit; cur_col =
              x.cur_col; cur_row = x.cur_row; cur_vis = x.cur_vis; tpen =
              x.tpen; cs0 = x.cs0; cs1 = x.cs1; acs = x.acs; tabs = x.tabs;
              ins = x.ins; org = x.org; awm = x.awm; nlm = x.nlm; ckm =
              x.ckm; pend = x.pend; top = x.top; bot = x.bot; sctx = 
              (s x); asctx = x.asctx; dirty = x.dirty; xtw = x.xtw }))
              (fun _ -> t.asctx)
              (set (fun t0 -> t0.active) (fun f ->
                let b = fun r -> f r.active in
                (fun x -> { cols = x.cols; rows = x.rows; buf = x.buf;
                other = x.other; active = (b x); sb_limit = x.sb_limit;
                cur_col = x.cur_col; cur_row = x.cur_row; cur_vis =
                x.cur_vis; tpen = x.tpen; cs0 = x.cs0; cs1 = x.cs1; acs =
                x.acs; tabs = x.tabs; ins = x.ins; org = x.org; awm = x.awm;
                nlm = x.nlm; ckm = x.ckm; pend = x.pend; top = x.top; bot =
                x.bot; sctx = x.sctx; asctx = x.asctx; dirty = x.dirty; xtw =
                x.xtw })) (fun _ -> Primary) t))))
    in
    mark_range t1 O t1.rows

(** val reflow : term -> term res **)

let reflow t =
  let t0 =
    if negb (Nat.eqb t.cols t.buf.bcols)
    then set (fun t0 -> t0.pend) (fun f ->
           let b = fun r -> f r.pend in
           (fun x -> { cols = x.cols; rows = x.rows; buf = x.buf; other =
           x.other; active = x.active; sb_limit = x.sb_limit; cur_col =
           x.cur_col; cur_row = x.cur_row; cur_vis = x.cur_vis; tpen =
           x.tpen; cs0 = x.cs0; cs1 = x.cs1; acs = x.acs; tabs = x.tabs;
           ins = x.ins; org = x.org; awm = x.awm; nlm = x.nlm; ckm = x.ckm;
           pend = (b x); top = x.top; bot = x.bot; sctx = x.sctx; asctx =
           x.asctx; dirty = x.dirty; xtw = x.xtw })) (fun _ -> false) t
    else t
  in
  bind (buf_resize t0.buf t0.cols t0.rows t0.cur_col t0.cur_row) (fun pat ->
    let (b, p) = pat in
    let (c, r) = p in
    let t1 =
      set (fun t1 -> t1.cur_row) (fun f ->
        let n0 = fun r0 -> f r0.cur_row in
        (fun x -> { cols = x.cols; rows = x.rows; buf = x.buf; other =
        x.other; active = x.active; sb_limit = x.sb_limit; cur_col =
        x.cur_col; cur_row = (n0 x); cur_vis = x.cur_vis; tpen = x.tpen;
        cs0 = x.cs0; cs1 = x.cs1; acs = x.acs; tabs = x.tabs; ins = x.ins;
        org = x.org; awm = x.awm; nlm = x.nlm; ckm = x.ckm; pend = x.pend;
        top = x.top; bot = x.bot; sctx = x.sctx; asctx = x.asctx; dirty =
        x.dirty; xtw = x.xtw })) (fun _ -> r)
        (set (fun t1 -> t1.cur_col) (fun f ->
          let n0 = fun r0 -> f r0.cur_col in
          (fun x -> { cols = x.cols; rows = x.rows; buf = x.buf; other =
          x.other; active = x.active; sb_limit = x.sb_limit; cur_col =
          (n0 x); cur_row = x.cur_row; cur_vis = x.cur_vis; tpen = x.tpen;
          cs0 = x.cs0; cs1 = x.cs1; acs = x.acs; tabs = x.tabs; ins = x.ins;
          org = x.org; awm = x.awm; nlm = x.nlm; ckm = x.ckm; pend = x.pend;
          top = x.top; bot = x.bot; sctx = x.sctx; asctx = x.asctx; dirty =
          x.dirty; xtw = x.xtw })) (fun _ -> c)
          (set (fun t1 -> t1.buf) (fun f ->
            let b0 = fun r0 -> f r0.buf in
            (fun x -> { cols = x.cols; rows = x.rows; buf = (b0 x); other =
            x.other; active = x.active; sb_limit = x.sb_limit; cur_col =
            x.cur_col; cur_row = x.cur_row; cur_vis = x.cur_vis; tpen =
            x.tpen; cs0 = x.cs0; cs1 = x.cs1; acs = x.acs; tabs = x.tabs;
            ins = x.ins; org = x.org; awm = x.awm; nlm = x.nlm; ckm = x.ckm;
            pend = x.pend; top = x.top; bot = x.bot; sctx = x.sctx; asctx =
            x.asctx; dirty = x.dirty; xtw = x.xtw })) (fun _ -> b) t0))
    in
    let t2 =
      set (fun t2 -> t2.dirty) (fun f ->
        let l = fun r0 -> f r0.dirty in
        (fun x -> { cols = x.cols; rows = x.rows; buf = x.buf; other =
        x.other; active = x.active; sb_limit = x.sb_limit; cur_col =
        x.cur_col; cur_row = x.cur_row; cur_vis = x.cur_vis; tpen = x.tpen;
        cs0 = x.cs0; cs1 = x.cs1; acs = x.acs; tabs = x.tabs; ins = x.ins;
        org = x.org; awm = x.awm; nlm = x.nlm; ckm = x.ckm; pend = x.pend;
        top = x.top; bot = x.bot; sctx = x.sctx; asctx = x.asctx; dirty =
        (l x); xtw = x.xtw })) (fun _ -> dirty_resize t1.dirty t1.rows) t1
    in
    bind (mark_range t2 O t2.rows) (fun t3 ->
      let t4 =
        if Nat.leb t3.cols t3.sctx.sc_col
        then set (fun t4 -> t4.sctx) (fun f ->
               let s = fun r0 -> f r0.sctx in
               (fun x -> { cols = x.cols; rows = x.rows; buf = x.buf; other =
               x.other; active = x.active; sb_limit = x.sb_limit; cur_col =
               x.cur_col; cur_row = x.cur_row; cur_vis = x.cur_vis; tpen =
               x.tpen; cs0 = x.cs0; cs1 = x.cs1; acs = x.acs; tabs = x.tabs;
               ins = x.ins; org = x.org; awm = x.awm; nlm = x.nlm; ckm =
               x.ckm; pend = x.pend; top = x.top; bot = x.bot; sctx = 
               (s x); asctx = x.asctx; dirty = x.dirty; xtw = x.xtw }))
               (fun _ ->
               set (fun s -> s.sc_col) (fun f ->
                 let n0 = fun r0 -> f r0.sc_col in
                 (fun x -> { sc_col = (n0 x); sc_row = x.sc_row; sc_pen =
                 x.sc_pen; sc_origin = x.sc_origin; sc_awm = x.sc_awm }))
                 (fun _ -> sub t3.cols (S O)) t3.sctx) t3
        else t3
      in
      let t5 =
        if Nat.leb t4.rows t4.sctx.sc_row
        then set (fun t5 -> t5.sctx) (fun f ->
               let s = fun r0 -> f r0.sctx in
               (fun x -> { cols = x.cols; rows = x.rows; buf = x.buf; other =
               x.other; active = x.active; sb_limit = x.sb_limit; cur_col =
               x.cur_col; cur_row = x.cur_row; cur_vis = x.cur_vis; tpen =
               x.tpen; cs0 = x.cs0; cs1 = x.cs1; acs = x.acs; tabs = x.tabs;
               ins = x.ins; org = x.org; awm = x.awm; nlm = x.nlm; ckm =
               x.ckm; pend = x.pend; top = x.top; bot = x.bot; sctx = 
               (s x); asctx = x.asctx; dirty = x.dirty; xtw = x.xtw }))
               (fun _ ->
               set (fun s -> s.sc_row) (fun f ->
                 let n0 = fun r0 -> f r0.sc_row in
                 (fun x -> { sc_col = x.sc_col; sc_row = (n0 x); sc_pen =
                 x.sc_pen; sc_origin = x.sc_origin; sc_awm = x.sc_awm }))
                 (fun _ -> sub t4.rows (S O)) t4.sctx) t4
        else t4
      in
      Ok t5))

(** val term_resize : term -> nat -> nat -> term res **)

let term_resize t c r =
  let t0 =
    match Nat.compare c t.cols with
    | Eq -> t
    | Lt ->
      set (fun t0 -> t0.tabs) (fun f ->
        let l = fun r0 -> f r0.tabs in
        (fun x -> { cols = x.cols; rows = x.rows; buf = x.buf; other =
        x.other; active = x.active; sb_limit = x.sb_limit; cur_col =
        x.cur_col; cur_row = x.cur_row; cur_vis = x.cur_vis; tpen = x.tpen;
        cs0 = x.cs0; cs1 = x.cs1; acs = x.acs; tabs = (l x); ins = x.ins;
        org = x.org; awm = x.awm; nlm = x.nlm; ckm = x.ckm; pend = x.pend;
        top = x.top; bot = x.bot; sctx = x.sctx; asctx = x.asctx; dirty =
        x.dirty; xtw = x.xtw })) (fun _ -> tabs_contract c t.tabs) t
    | Gt ->
      set (fun t0 -> t0.tabs) (fun f ->
        let l = fun r0 -> f r0.tabs in
        (fun x -> { cols = x.cols; rows = x.rows; buf = x.buf; other =
        x.other; active = x.active; sb_limit = x.sb_limit; cur_col =
        x.cur_col; cur_row = x.cur_row; cur_vis = x.cur_vis; tpen = x.tpen;
        cs0 = x.cs0; cs1 = x.cs1; acs = x.acs; tabs = (l x); ins = x.ins;
        org = x.org; awm = x.awm; nlm = x.nlm; ckm = x.ckm; pend = x.pend;
        top = x.top; bot = x.bot; sctx = x.sctx; asctx = x.asctx; dirty =
        x.dirty; xtw = x.xtw })) (fun _ -> tabs_expand t.cols c t.tabs) t
  in
  let t1 =
    match Nat.compare r t0.rows with
    | Eq -> t0
    | _ ->
      set (fun t1 -> t1.bot) (fun f ->
        let n0 = fun r0 -> f r0.bot in
        (fun x -> { cols = x.cols; rows = x.rows; buf = x.buf; other =
        x.other; active = x.active; sb_limit = x.sb_limit; cur_col =
        x.cur_col; cur_row = x.cur_row; cur_vis = x.cur_vis; tpen = x.tpen;
        cs0 = x.cs0; cs1 = x.cs1; acs = x.acs; tabs = x.tabs; ins = x.ins;
        org = x.org; awm = x.awm; nlm = x.nlm; ckm = x.ckm; pend = x.pend;
        top = x.top; bot = (n0 x); sctx = x.sctx; asctx = x.asctx; dirty =
        x.dirty; xtw = x.xtw })) (fun _ -> sub r (S O))
        (set (fun t1 -> t1.top) (fun f ->
          let n0 = fun r0 -> f r0.top in
          (fun x -> { cols = x.cols; rows = x.rows; buf = x.buf; other =
          x.other; active = x.active; sb_limit = x.sb_limit; cur_col =
          x.cur_col; cur_row = x.cur_row; cur_vis = x.cur_vis; tpen = x.tpen;
          cs0 = x.cs0; cs1 = x.cs1; acs = x.acs; tabs = x.tabs; ins = x.ins;
          org = x.org; awm = x.awm; nlm = x.nlm; ckm = x.ckm; pend = x.pend;
          top = (n0 x); bot = x.bot; sctx = x.sctx; asctx = x.asctx; dirty =
          x.dirty; xtw = x.xtw })) (fun _ -> O) t0)
  in
  reflow
    (set (fun t2 -> t2.rows) (fun f ->
      let n0 = fun r0 -> f r0.rows in
      (fun x -> { cols = x.cols; rows = (n0 x); buf = x.buf; other = x.other;
      active = x.active; sb_limit = x.sb_limit; cur_col = x.cur_col;
      cur_row = x.cur_row; cur_vis = x.cur_vis; tpen = x.tpen; cs0 = x.cs0;
      cs1 = x.cs1; acs = x.acs; tabs = x.tabs; ins = x.ins; org = x.org;
      awm = x.awm; nlm = x.nlm; ckm = x.ckm; pend = x.pend; top = x.top;
      bot = x.bot; sctx = x.sctx; asctx = x.asctx; dirty = x.dirty; xtw =
      x.xtw })) (fun _ -> r)
      (set (fun t2 -> t2.cols) (fun f ->
        let n0 = fun r0 -> f r0.cols in
        (fun x -> { cols = (n0 x); rows = x.rows; buf = x.buf; other =
        x.other; active = x.active; sb_limit = x.sb_limit; cur_col =
        x.cur_col; cur_row = x.cur_row; cur_vis = x.cur_vis; tpen = x.tpen;
        cs0 = x.cs0; cs1 = x.cs1; acs = x.acs; tabs = x.tabs; ins = x.ins;
        org = x.org; awm = x.awm; nlm = x.nlm; ckm = x.ckm; pend = x.pend;
        top = x.top; bot = x.bot; sctx = x.sctx; asctx = x.asctx; dirty =
        x.dirty; xtw = x.xtw })) (fun _ -> c) t1))

(** val print : term -> n -> term res **)

let print t c =
  bind (active_cs t) (fun cs ->
    bind (translate cs c) (fun c0 ->
      let cl = { ch = c0; cpen = t.tpen } in
      bind
        (if (&&) t.awm t.pend
         then let t0 = do_move_cursor_to_col t O in
              if Nat.eqb t0.cur_row t0.bot
              then bind (on_buf t0 (fun b -> buf_wrap b t0.cur_row))
                     (fun t1 -> scroll_up_in_region t1 (S O))
              else if Nat.ltb t0.cur_row (sub t0.rows (S O))
                   then bind (on_buf t0 (fun b -> buf_wrap b t0.cur_row))
                          (fun t1 -> Ok
                          (do_move_cursor_to_row t1 (add t1.cur_row (S O))))
                   else Ok t0
         else Ok t) (fun t0 ->
        let next_col = add t0.cur_col (S O) in
        bind
          (if Nat.leb t0.cols next_col
           then bind
                  (on_buf t0 (fun b ->
                    buf_print b (sub t0.cols (S O)) t0.cur_row cl))
                  (fun t1 ->
                  if t1.awm
                  then Ok
                         (set (fun t2 -> t2.pend) (fun f ->
                           let b = fun r -> f r.pend in
                           (fun x -> { cols = x.cols; rows = x.rows; buf =
                           x.buf; other = x.other; active = x.active;
                           sb_limit = x.sb_limit; cur_col = x.cur_col;
                           cur_row = x.cur_row; cur_vis = x.cur_vis; tpen =
                           x.tpen; cs0 = x.cs0; cs1 = x.cs1; acs = x.acs;
                           tabs = x.tabs; ins = x.ins; org = x.org; awm =
                           x.awm; nlm = x.nlm; ckm = x.ckm; pend = (b x);
                           top = x.top; bot = x.bot; sctx = x.sctx; asctx =
                           x.asctx; dirty = x.dirty; xtw = x.xtw }))
                           (fun _ -> true) (do_move_cursor_to_col t1 t1.cols))
                  else Ok t1)
           else bind
                  (if t0.ins
                   then on_buf t0 (fun b ->
                          buf_insert b t0.cur_col t0.cur_row (S O) cl)
                   else on_buf t0 (fun b ->
                          buf_print b t0.cur_col t0.cur_row cl)) (fun t1 ->
                  Ok (do_move_cursor_to_col t1 next_col))) (fun t1 ->
          mark t1 t1.cur_row))))

(** val print_n : nat -> term -> n -> term res **)

let rec print_n n0 t c =
  match n0 with
  | O -> Ok t
  | S k -> bind (print t c) (fun t0 -> print_n k t0 c)

(** val bs : term -> term **)

let bs t =
  if t.pend
  then move_cursor_to_rel_col t (Zneg (XO XH))
  else move_cursor_to_rel_col t (Zneg XH)

(** val lf : term -> term res **)

let lf t =
  bind (move_cursor_down_with_scroll t) (fun t0 -> Ok
    (if t0.nlm then do_move_cursor_to_col t0 O else t0))

(** val nel : term -> term res **)

let nel t =
  bind (move_cursor_down_with_scroll t) (fun t0 -> Ok
    (do_move_cursor_to_col t0 O))

(** val ri : term -> term res **)

let ri t =
  if Nat.eqb t.cur_row t.top
  then scroll_down_in_region t (S O)
  else if Nat.ltb O t.cur_row
       then Ok (do_move_cursor_to_row t (sub t.cur_row (S O)))
       else Ok t

(** val decaln_cols : buffer -> nat -> nat -> nat -> buffer res **)

let rec decaln_cols b row n0 col =
  match n0 with
  | O -> Ok b
  | S k ->
    bind
      (buf_print b col row { ch = (Npos (XI (XO (XI (XO (XO (XO XH)))))));
        cpen = default_pen }) (fun b0 -> decaln_cols b0 row k (S col))

(** val decaln_rows : term -> nat -> nat -> term res **)

let rec decaln_rows t n0 row =
  match n0 with
  | O -> Ok t
  | S k ->
    bind (on_buf t (fun b -> decaln_cols b row t.cols O)) (fun t0 ->
      bind (mark t0 row) (fun t1 -> decaln_rows t1 k (S row)))

(** val decaln : term -> term res **)

let decaln t =
  decaln_rows t t.rows O

(** val ich : term -> n -> term res **)

let ich t n0 =
  bind
    (on_buf t (fun b ->
      buf_insert b t.cur_col t.cur_row (as_usize n0 (S O)) (blank_cell t.tpen)))
    (fun t0 -> mark t0 t0.cur_row)

(** val cub : term -> n -> term **)

let cub t n0 =
  let rel = Z.opp (Z.of_nat (as_usize n0 (S O))) in
  move_cursor_to_rel_col t (if t.pend then Z.sub rel (Zpos XH) else rel)

(** val cup : term -> n -> n -> term **)

let cup t r c =
  let t0 = move_cursor_to_col t (sub (as_usize c (S O)) (S O)) in
  move_cursor_to_row t0 (sub (as_usize r (S O)) (S O))

(** val ed : term -> ed_scope -> term res **)

let ed t = function
| EdBelow ->
  bind
    (on_buf t (fun b ->
      buf_erase b t.cur_col t.cur_row FromCursorToEndOfView t.tpen))
    (fun t0 -> mark_range t0 t0.cur_row t0.rows)
| EdAbove ->
  bind
    (on_buf t (fun b ->
      buf_erase b t.cur_col t.cur_row FromStartOfViewToCursor t.tpen))
    (fun t0 -> mark_range t0 O (add t0.cur_row (S O)))
| EdAll ->
  bind (on_buf t (fun b -> buf_erase b t.cur_col t.cur_row WholeView t.tpen))
    (fun t0 -> mark_range t0 O t0.rows)
| EdSavedLines -> Ok t

(** val el : term -> el_scope -> term res **)

let el t s =
  let m =
    match s with
    | ElToRight -> FromCursorToEndOfLine
    | ElToLeft -> FromStartOfLineToCursor
    | ElAll -> WholeLine
  in
  bind (on_buf t (fun b -> buf_erase b t.cur_col t.cur_row m t.tpen))
    (fun t0 -> mark t0 t0.cur_row)

(** val il_dl_range : term -> nat * nat **)

let il_dl_range t =
  if Nat.leb t.cur_row t.bot
  then (t.cur_row, (add t.bot (S O)))
  else (t.cur_row, t.rows)

(** val il : term -> n -> term res **)

let il t n0 =
  let (a, z0) = il_dl_range t in
  bind
    (on_buf t (fun b -> buf_scroll_down b a z0 (as_usize n0 (S O)) t.tpen))
    (fun t0 -> mark_range t0 a z0)

(** val dl : term -> n -> term res **)

let dl t n0 =
  let (a, z0) = il_dl_range t in
  bind (on_buf t (fun b -> buf_scroll_up b a z0 (as_usize n0 (S O)) t.tpen))
    (fun t0 -> mark_range t0 a z0)

(** val dch : term -> n -> term res **)

let dch t n0 =
  let t0 =
    if Nat.leb t.cols t.cur_col
    then move_cursor_to_col t (sub t.cols (S O))
    else t
  in
  bind
    (on_buf t0 (fun b ->
      buf_delete b t0.cur_col t0.cur_row (as_usize n0 (S O)) t0.tpen))
    (fun t1 -> mark t1 t1.cur_row)

(** val ech : term -> n -> term res **)

let ech t n0 =
  bind
    (on_buf t (fun b ->
      buf_erase b t.cur_col t.cur_row (NextChars (as_usize n0 (S O))) t.tpen))
    (fun t0 -> mark t0 t0.cur_row)

(** val rep : term -> n -> term res **)

let rep t n0 =
  if Nat.ltb O t.cur_col
  then bind (get_row t.buf t.cur_row) (fun l ->
         match nth_error l.cells (sub t.cur_col (S O)) with
         | Some c -> print_n (as_usize n0 (S O)) t c.ch
         | None ->
           Panic (S (S (S (S (S (S (S (S (S (S (S (S (S (S (S (S (S (S (S (S
             (S (S (S (S (S (S (S (S (S (S (S (S (S (S (S (S (S (S (S (S (S
             (S (S (S (S (S (S (S (S (S (S (S (S (S (S (S (S (S (S (S (S (S
             (S (S (S (S (S (S (S (S (S (S
             O)))))))))))))))))))))))))))))))))))))))))))))))))))))))))))))))))))))))))
  else Ok t

(** val ctc : term -> ctc_op -> term **)

let ctc t = function
| CtcSet -> set_tab t
| CtcClearCurrentColumn -> clear_tab t
| CtcClearAll -> clear_all_tabs t

(** val tbc : term -> tbc_scope -> term **)

let tbc t = function
| TbcCurrentColumn -> clear_tab t
| TbcAll -> clear_all_tabs t

(** val sm_one : term -> ansi_mode -> term **)

let sm_one t = function
| Insert ->
  set (fun t0 -> t0.ins) (fun f ->
    let b = fun r -> f r.ins in
    (fun x -> { cols = x.cols; rows = x.rows; buf = x.buf; other = x.other;
    active = x.active; sb_limit = x.sb_limit; cur_col = x.cur_col; cur_row =
    x.cur_row; cur_vis = x.cur_vis; tpen = x.tpen; cs0 = x.cs0; cs1 = x.cs1;
    acs = x.acs; tabs = x.tabs; ins = (b x); org = x.org; awm = x.awm; nlm =
    x.nlm; ckm = x.ckm; pend = x.pend; top = x.top; bot = x.bot; sctx =
    x.sctx; asctx = x.asctx; dirty = x.dirty; xtw = x.xtw })) (fun _ -> true)
    t
| NewLine ->
  set (fun t0 -> t0.nlm) (fun f ->
    let b = fun r -> f r.nlm in
    (fun x -> { cols = x.cols; rows = x.rows; buf = x.buf; other = x.other;
    active = x.active; sb_limit = x.sb_limit; cur_col = x.cur_col; cur_row =
    x.cur_row; cur_vis = x.cur_vis; tpen = x.tpen; cs0 = x.cs0; cs1 = x.cs1;
    acs = x.acs; tabs = x.tabs; ins = x.ins; org = x.org; awm = x.awm; nlm =
    (b x); ckm = x.ckm; pend = x.pend; top = x.top; bot = x.bot; sctx =
    x.sctx; asctx = x.asctx; dirty = x.dirty; xtw = x.xtw })) (fun _ -> true)
    t

(** val rm_one : term -> ansi_mode -> term **)

let rm_one t = function
| Insert ->
  set (fun t0 -> t0.ins) (fun f ->
    let b = fun r -> f r.ins in
    (fun x -> { cols = x.cols; rows = x.rows; buf = x.buf; other = x.other;
    active = x.active; sb_limit = x.sb_limit; cur_col = x.cur_col; cur_row =
    x.cur_row; cur_vis = x.cur_vis; tpen = x.tpen; cs0 = x.cs0; cs1 = x.cs1;
    acs = x.acs; tabs = x.tabs; ins = (b x); org = x.org; awm = x.awm; nlm =
    x.nlm; ckm = x.ckm; pend = x.pend; top = x.top; bot = x.bot; sctx =
    x.sctx; asctx = x.asctx; dirty = x.dirty; xtw = x.xtw })) (fun _ ->
    false) t
| NewLine ->
  set (fun t0 -> t0.nlm) (fun f ->
    let b = fun r -> f r.nlm in
    (fun x -> { cols = x.cols; rows = x.rows; buf = x.buf; other = x.other;
    active = x.active; sb_limit = x.sb_limit; cur_col = x.cur_col; cur_row =
    x.cur_row; cur_vis = x.cur_vis; tpen = x.tpen; cs0 = x.cs0; cs1 = x.cs1;
    acs = x.acs; tabs = x.tabs; ins = x.ins; org = x.org; awm = x.awm; nlm =
    (b x); ckm = x.ckm; pend = x.pend; top = x.top; bot = x.bot; sctx =
    x.sctx; asctx = x.asctx; dirty = x.dirty; xtw = x.xtw })) (fun _ ->
    false) t

(** val pen_set : n -> pen -> pen **)

let pen_set m p =
  set (fun p0 -> p0.attrs) (fun f ->
    let n0 = fun r -> f r.attrs in
    (fun x -> { foreground = x.foreground; background = x.background;
    intensity = x.intensity; attrs = (n0 x) })) (fun _ ->
    N.coq_lor p.attrs m) p

(** val pen_unset : n -> pen -> pen **)

let pen_unset m p =
  set (fun p0 -> p0.attrs) (fun f ->
    let n0 = fun r -> f r.attrs in
    (fun x -> { foreground = x.foreground; background = x.background;
    intensity = x.intensity; attrs = (n0 x) })) (fun _ ->
    N.coq_land p.attrs
      (N.coq_lxor (Npos (XI (XI (XI (XI (XI (XI (XI XH)))))))) m)) p

(** val pen_has : n -> pen -> bool **)

let pen_has m p =
  negb (N.eqb (N.coq_land p.attrs m) N0)

(** val sgr_one : pen -> sgr_op -> pen **)

let sgr_one p = function
| Reset -> default_pen
| SetBoldIntensity ->
  set (fun p0 -> p0.intensity) (fun f ->
    let i = fun r -> f r.intensity in
    (fun x -> { foreground = x.foreground; background = x.background;
    intensity = (i x); attrs = x.attrs })) (fun _ -> Bold) p
| SetFaintIntensity ->
  set (fun p0 -> p0.intensity) (fun f ->
    let i = fun r -> f r.intensity in
    (fun x -> { foreground = x.foreground; background = x.background;
    intensity = (i x); attrs = x.attrs })) (fun _ -> Faint) p
| SetItalic -> pen_set iTALIC_MASK p
| SetUnderline -> pen_set uNDERLINE_MASK p
| SetBlink -> pen_set bLINK_MASK p
| SetInverse -> pen_set iNVERSE_MASK p
| SetStrikethrough -> pen_set sTRIKETHROUGH_MASK p
| ResetIntensity ->
  set (fun p0 -> p0.intensity) (fun f ->
    let i = fun r -> f r.intensity in
    (fun x -> { foreground = x.foreground; background = x.background;
    intensity = (i x); attrs = x.attrs })) (fun _ -> Normal) p
| ResetItalic -> pen_unset iTALIC_MASK p
| ResetUnderline -> pen_unset uNDERLINE_MASK p
| ResetBlink -> pen_unset bLINK_MASK p
| ResetInverse -> pen_unset iNVERSE_MASK p
| ResetStrikethrough -> pen_unset sTRIKETHROUGH_MASK p
| SetForegroundColor c ->
  set (fun p0 -> p0.foreground) (fun f ->
    let o = fun r -> f r.foreground in
    (fun x -> { foreground = (o x); background = x.background; intensity =
    x.intensity; attrs = x.attrs })) (fun _ -> Some c) p
| ResetForegroundColor ->
  set (fun p0 -> p0.foreground) (fun f ->
    let o = fun r -> f r.foreground in
    (fun x -> { foreground = (o x); background = x.background; intensity =
    x.intensity; attrs = x.attrs })) (fun _ -> None) p
| SetBackgroundColor c ->
  set (fun p0 -> p0.background) (fun f ->
    let o = fun r -> f r.background in
    (fun x -> { foreground = x.foreground; background = (o x); intensity =
    x.intensity; attrs = x.attrs })) (fun _ -> Some c) p
| ResetBackgroundColor ->
  set (fun p0 -> p0.background) (fun f ->
    let o = fun r -> f r.background in
    (fun x -> { foreground = x.foreground; background = (o x); intensity =
    x.intensity; attrs = x.attrs })) (fun _ -> None) p

(** val sgr : term -> sgr_op list -> term **)

let sgr t ops =
  set (fun t0 -> t0.tpen) (fun f ->
    let p = fun r -> f r.tpen in
    (fun x -> { cols = x.cols; rows = x.rows; buf = x.buf; other = x.other;
    active = x.active; sb_limit = x.sb_limit; cur_col = x.cur_col; cur_row =
    x.cur_row; cur_vis = x.cur_vis; tpen = (p x); cs0 = x.cs0; cs1 = x.cs1;
    acs = x.acs; tabs = x.tabs; ins = x.ins; org = x.org; awm = x.awm; nlm =
    x.nlm; ckm = x.ckm; pend = x.pend; top = x.top; bot = x.bot; sctx =
    x.sctx; asctx = x.asctx; dirty = x.dirty; xtw = x.xtw })) (fun _ ->
    fold_left sgr_one ops t.tpen) t

(** val decstbm : term -> n -> n -> term **)

let decstbm t tp bt =
  let tp0 = sub (as_usize tp (S O)) (S O) in
  let bt0 = sub (as_usize bt t.rows) (S O) in
  let t0 =
    if (&&) (Nat.ltb tp0 bt0) (Nat.ltb bt0 t.rows)
    then set (fun t0 -> t0.bot) (fun f ->
           let n0 = fun r -> f r.bot in
           (fun x -> { cols = x.cols; rows = x.rows; buf = x.buf; other =
           x.other; active = x.active; sb_limit = x.sb_limit; cur_col =
           x.cur_col; cur_row = x.cur_row; cur_vis = x.cur_vis; tpen =
           x.tpen; cs0 = x.cs0; cs1 = x.cs1; acs = x.acs; tabs = x.tabs;
           ins = x.ins; org = x.org; awm = x.awm; nlm = x.nlm; ckm = x.ckm;
           pend = x.pend; top = x.top; bot = (n0 x); sctx = x.sctx; asctx =
           x.asctx; dirty = x.dirty; xtw = x.xtw })) (fun _ -> bt0)
           (set (fun t0 -> t0.top) (fun f ->
             let n0 = fun r -> f r.top in
             (fun x -> { cols = x.cols; rows = x.rows; buf = x.buf; other =
             x.other; active = x.active; sb_limit = x.sb_limit; cur_col =
             x.cur_col; cur_row = x.cur_row; cur_vis = x.cur_vis; tpen =
             x.tpen; cs0 = x.cs0; cs1 = x.cs1; acs = x.acs; tabs = x.tabs;
             ins = x.ins; org = x.org; awm = x.awm; nlm = x.nlm; ckm = x.ckm;
             pend = x.pend; top = (n0 x); bot = x.bot; sctx = x.sctx; asctx =
             x.asctx; dirty = x.dirty; xtw = x.xtw })) (fun _ -> tp0) t)
    else t
  in
  move_cursor_home t0

(** val xtwinops : term -> xtwinops_op -> term res **)

let xtwinops t op0 =
  if t.xtw
  then let XtwinopsResize (c, r) = op0 in
       term_resize t (as_usize c t.cols) (as_usize r t.rows)
  else Ok t

(** val decset_one : term -> dec_mode -> term res **)

let decset_one t = function
| CursorKeys ->
  Ok
    (set (fun t0 -> t0.ckm) (fun f ->
      let b = fun r -> f r.ckm in
      (fun x -> { cols = x.cols; rows = x.rows; buf = x.buf; other = x.other;
      active = x.active; sb_limit = x.sb_limit; cur_col = x.cur_col;
      cur_row = x.cur_row; cur_vis = x.cur_vis; tpen = x.tpen; cs0 = x.cs0;
      cs1 = x.cs1; acs = x.acs; tabs = x.tabs; ins = x.ins; org = x.org;
      awm = x.awm; nlm = x.nlm; ckm = (b x); pend = x.pend; top = x.top;
      bot = x.bot; sctx = x.sctx; asctx = x.asctx; dirty = x.dirty; xtw =
      x.xtw })) (fun _ -> true) t)
| Origin ->
  Ok
    (move_cursor_home
      (set (fun t0 -> t0.org) (fun f ->
        let b = fun r -> f r.org in
        (fun x -> { cols = x.cols; rows = x.rows; buf = x.buf; other =
        x.other; active = x.active; sb_limit = x.sb_limit; cur_col =
        x.cur_col; cur_row = x.cur_row; cur_vis = x.cur_vis; tpen = x.tpen;
        cs0 = x.cs0; cs1 = x.cs1; acs = x.acs; tabs = x.tabs; ins = x.ins;
        org = (b x); awm = x.awm; nlm = x.nlm; ckm = x.ckm; pend = x.pend;
        top = x.top; bot = x.bot; sctx = x.sctx; asctx = x.asctx; dirty =
        x.dirty; xtw = x.xtw })) (fun _ -> true) t))
| AutoWrap ->
  Ok
    (set (fun t0 -> t0.awm) (fun f ->
      let b = fun r -> f r.awm in
      (fun x -> { cols = x.cols; rows = x.rows; buf = x.buf; other = x.other;
      active = x.active; sb_limit = x.sb_limit; cur_col = x.cur_col;
      cur_row = x.cur_row; cur_vis = x.cur_vis; tpen = x.tpen; cs0 = x.cs0;
      cs1 = x.cs1; acs = x.acs; tabs = x.tabs; ins = x.ins; org = x.org;
      awm = (b x); nlm = x.nlm; ckm = x.ckm; pend = x.pend; top = x.top;
      bot = x.bot; sctx = x.sctx; asctx = x.asctx; dirty = x.dirty; xtw =
      x.xtw })) (fun _ -> true) t)
| TextCursorEnable ->
  Ok
    (set (fun t0 -> t0.cur_vis) (fun f ->
      let b = fun r -> f r.cur_vis in
      (fun x -> { cols = x.cols; rows = x.rows; buf = x.buf; other = x.other;
      active = x.active; sb_limit = x.sb_limit; cur_col = x.cur_col;
      cur_row = x.cur_row; cur_vis = (b x); tpen = x.tpen; cs0 = x.cs0; cs1 =
      x.cs1; acs = x.acs; tabs = x.tabs; ins = x.ins; org = x.org; awm =
      x.awm; nlm = x.nlm; ckm = x.ckm; pend = x.pend; top = x.top; bot =
      x.bot; sctx = x.sctx; asctx = x.asctx; dirty = x.dirty; xtw = x.xtw }))
      (fun _ -> true) t)
| AltScreenBuffer -> bind (switch_to_alternate_buffer t) reflow
| SaveCursor -> Ok (save_cursor t)
| SaveCursorAltScreenBuffer ->
  bind (switch_to_alternate_buffer (save_cursor t)) reflow

(** val decrst_one : term -> dec_mode -> term res **)

let decrst_one t = function
| CursorKeys ->
  Ok
    (set (fun t0 -> t0.ckm) (fun f ->
      let b = fun r -> f r.ckm in
      (fun x -> { cols = x.cols; rows = x.rows; buf = x.buf; other = x.other;
      active = x.active; sb_limit = x.sb_limit; cur_col = x.cur_col;
      cur_row = x.cur_row; cur_vis = x.cur_vis; tpen = x.tpen; cs0 = x.cs0;
      cs1 = x.cs1; acs = x.acs; tabs = x.tabs; ins = x.ins; org = x.org;
      awm = x.awm; nlm = x.nlm; ckm = (b x); pend = x.pend; top = x.top;
      bot = x.bot; sctx = x.sctx; asctx = x.asctx; dirty = x.dirty; xtw =
      x.xtw })) (fun _ -> false) t)
| Origin ->
  Ok
    (move_cursor_home
      (set (fun t0 -> t0.org) (fun f ->
        let b = fun r -> f r.org in
        (fun x -> { cols = x.cols; rows = x.rows; buf = x.buf; other =
        x.other; active = x.active; sb_limit = x.sb_limit; cur_col =
        x.cur_col; cur_row = x.cur_row; cur_vis = x.cur_vis; tpen = x.tpen;
        cs0 = x.cs0; cs1 = x.cs1; acs = x.acs; tabs = x.tabs; ins = x.ins;
        org = (b x); awm = x.awm; nlm = x.nlm; ckm = x.ckm; pend = x.pend;
        top = x.top; bot = x.bot; sctx = x.sctx; asctx = x.asctx; dirty =
        x.dirty; xtw = x.xtw })) (fun _ -> false) t))
| AutoWrap ->
  Ok
    (set (fun t0 -> t0.awm) (fun f ->
      let b = fun r -> f r.awm in
      (fun x -> { cols = x.cols; rows = x.rows; buf = x.buf; other = x.other;
      active = x.active; sb_limit = x.sb_limit; cur_col = x.cur_col;
      cur_row = x.cur_row; cur_vis = x.cur_vis; tpen = x.tpen; cs0 = x.cs0;
      cs1 = x.cs1; acs = x.acs; tabs = x.tabs; ins = x.ins; org = x.org;
      awm = (b x); nlm = x.nlm; ckm = x.ckm; pend = x.pend; top = x.top;
      bot = x.bot; sctx = x.sctx; asctx = x.asctx; dirty = x.dirty; xtw =
      x.xtw })) (fun _ -> false) t)
| TextCursorEnable ->
  Ok
    (set (fun t0 -> t0.cur_vis) (fun f ->
      let b = fun r -> f r.cur_vis in
      (fun x -> { cols = x.cols; rows = x.rows; buf = x.buf; other = x.other;
      active = x.active; sb_limit = x.sb_limit; cur_col = x.cur_col;
      cur_row = x.cur_row; cur_vis = (b x); tpen = x.tpen; cs0 = x.cs0; cs1 =
      x.cs1; acs = x.acs; tabs = x.tabs; ins = x.ins; org = x.org; awm =
      x.awm; nlm = x.nlm; ckm = x.ckm; pend = x.pend; top = x.top; bot =
      x.bot; sctx = x.sctx; asctx = x.asctx; dirty = x.dirty; xtw = x.xtw }))
      (fun _ -> false) t)
| AltScreenBuffer -> bind (switch_to_primary_buffer t) reflow
| SaveCursor -> Ok (restore_cursor t)
| SaveCursorAltScreenBuffer ->
  bind (switch_to_primary_buffer t) (fun t0 -> reflow (restore_cursor t0))

(** val foldM : ('a1 -> 'a2 -> 'a1 res) -> 'a2 list -> 'a1 -> 'a1 res **)

let rec foldM f l a =
  match l with
  | [] -> Ok a
  | x :: r -> bind (f a x) (fun a' -> foldM f r a')

(** val execute : term -> func -> term res **)

let execute t = function
| Bs -> Ok (bs t)
| Cbt n0 -> move_cursor_to_prev_tab t (as_usize n0 (S O))
| Cha n0 -> Ok (move_cursor_to_col t (sub (as_usize n0 (S O)) (S O)))
| Cht n0 -> move_cursor_to_next_tab t (as_usize n0 (S O))
| Cnl n0 -> Ok (do_move_cursor_to_col (cursor_down t (as_usize n0 (S O))) O)
| Cpl n0 -> Ok (do_move_cursor_to_col (cursor_up t (as_usize n0 (S O))) O)
| Cr -> Ok (do_move_cursor_to_col t O)
| Ctc op0 -> Ok (ctc t op0)
| Cub n0 -> Ok (cub t n0)
| Cud n0 -> Ok (cursor_down t (as_usize n0 (S O)))
| Cuf n0 -> Ok (move_cursor_to_rel_col t (Z.of_nat (as_usize n0 (S O))))
| Cup (r, c) -> Ok (cup t r c)
| Cuu n0 -> Ok (cursor_up t (as_usize n0 (S O)))
| Dch n0 -> dch t n0
| Decaln -> decaln t
| Decrc -> Ok (restore_cursor t)
| Decrst ms -> foldM decrst_one ms t
| Decset ms -> foldM decset_one ms t
| Decstbm (tp, bt) -> Ok (decstbm t tp bt)
| Decstr -> Ok (soft_reset_gen t)
| Dl n0 -> dl t n0
| Ech n0 -> ech t n0
| Ed s -> ed t s
| El s -> el t s
| G1d4 c ->
  Ok
    (set (fun t0 -> t0.cs1) (fun f0 ->
      let c0 = fun r -> f0 r.cs1 in
      (fun x -> { cols = x.cols; rows = x.rows; buf = x.buf; other = x.other;
      active = x.active; sb_limit = x.sb_limit; cur_col = x.cur_col;
      cur_row = x.cur_row; cur_vis = x.cur_vis; tpen = x.tpen; cs0 = x.cs0;
      cs1 = (c0 x); acs = x.acs; tabs = x.tabs; ins = x.ins; org = x.org;
      awm = x.awm; nlm = x.nlm; ckm = x.ckm; pend = x.pend; top = x.top;
      bot = x.bot; sctx = x.sctx; asctx = x.asctx; dirty = x.dirty; xtw =
      x.xtw })) (fun _ -> c) t)
| Gzd4 c ->
  Ok
    (set (fun t0 -> t0.cs0) (fun f0 ->
      let c0 = fun r -> f0 r.cs0 in
      (fun x -> { cols = x.cols; rows = x.rows; buf = x.buf; other = x.other;
      active = x.active; sb_limit = x.sb_limit; cur_col = x.cur_col;
      cur_row = x.cur_row; cur_vis = x.cur_vis; tpen = x.tpen; cs0 = 
      (c0 x); cs1 = x.cs1; acs = x.acs; tabs = x.tabs; ins = x.ins; org =
      x.org; awm = x.awm; nlm = x.nlm; ckm = x.ckm; pend = x.pend; top =
      x.top; bot = x.bot; sctx = x.sctx; asctx = x.asctx; dirty = x.dirty;
      xtw = x.xtw })) (fun _ -> c) t)
| Ht -> move_cursor_to_next_tab t (S O)
| Hts -> Ok (set_tab t)
| Ich n0 -> ich t n0
| Il n0 -> il t n0
| Lf -> lf t
| Nel -> nel t
| Print c -> print t c
| Rep n0 -> rep t n0
| Ri -> ri t
| Ris -> Ok (hard_reset_gen t)
| Rm ms -> Ok (fold_left rm_one ms t)
| Scorc -> Ok (restore_cursor t)
| Sd n0 -> scroll_down_in_region t (as_usize n0 (S O))
| Sgr ops -> Ok (sgr t ops)
| Si ->
  Ok
    (set (fun t0 -> t0.acs) (fun f0 ->
      let n0 = fun r -> f0 r.acs in
      (fun x -> { cols = x.cols; rows = x.rows; buf = x.buf; other = x.other;
      active = x.active; sb_limit = x.sb_limit; cur_col = x.cur_col;
      cur_row = x.cur_row; cur_vis = x.cur_vis; tpen = x.tpen; cs0 = x.cs0;
      cs1 = x.cs1; acs = (n0 x); tabs = x.tabs; ins = x.ins; org = x.org;
      awm = x.awm; nlm = x.nlm; ckm = x.ckm; pend = x.pend; top = x.top;
      bot = x.bot; sctx = x.sctx; asctx = x.asctx; dirty = x.dirty; xtw =
      x.xtw })) (fun _ -> O) t)
| Sm ms -> Ok (fold_left sm_one ms t)
| So ->
  Ok
    (set (fun t0 -> t0.acs) (fun f0 ->
      let n0 = fun r -> f0 r.acs in
      (fun x -> { cols = x.cols; rows = x.rows; buf = x.buf; other = x.other;
      active = x.active; sb_limit = x.sb_limit; cur_col = x.cur_col;
      cur_row = x.cur_row; cur_vis = x.cur_vis; tpen = x.tpen; cs0 = x.cs0;
      cs1 = x.cs1; acs = (n0 x); tabs = x.tabs; ins = x.ins; org = x.org;
      awm = x.awm; nlm = x.nlm; ckm = x.ckm; pend = x.pend; top = x.top;
      bot = x.bot; sctx = x.sctx; asctx = x.asctx; dirty = x.dirty; xtw =
      x.xtw })) (fun _ -> S O) t)
| Su n0 -> scroll_up_in_region t (as_usize n0 (S O))
| Tbc s -> Ok (tbc t s)
| Vpa n0 -> Ok (move_cursor_to_row t (sub (as_usize n0 (S O)) (S O)))
| Vpr n0 -> Ok (cursor_down t (as_usize n0 (S O)))
| Xtwinops op0 -> xtwinops t op0
| _ -> Ok (save_cursor t)

(** val changes : term -> term * nat list **)

let changes t =
  ((set (fun t0 -> t0.dirty) (fun f ->
     let l = fun r -> f r.dirty in
     (fun x -> { cols = x.cols; rows = x.rows; buf = x.buf; other = x.other;
     active = x.active; sb_limit = x.sb_limit; cur_col = x.cur_col; cur_row =
     x.cur_row; cur_vis = x.cur_vis; tpen = x.tpen; cs0 = x.cs0; cs1 = x.cs1;
     acs = x.acs; tabs = x.tabs; ins = x.ins; org = x.org; awm = x.awm; nlm =
     x.nlm; ckm = x.ckm; pend = x.pend; top = x.top; bot = x.bot; sctx =
     x.sctx; asctx = x.asctx; dirty = (l x); xtw = x.xtw })) (fun _ ->
     dirty_clear t.dirty) t), (dirty_to_vec t.dirty O))

(** val term_gc : term -> (term * line list) res **)

let term_gc t =
  bind (buf_gc t.buf) (fun pat ->
    let (b, drained) = pat in
    let t0 =
      set (fun t0 -> t0.buf) (fun f ->
        let b0 = fun r -> f r.buf in
        (fun x -> { cols = x.cols; rows = x.rows; buf = (b0 x); other =
        x.other; active = x.active; sb_limit = x.sb_limit; cur_col =
        x.cur_col; cur_row = x.cur_row; cur_vis = x.cur_vis; tpen = x.tpen;
        cs0 = x.cs0; cs1 = x.cs1; acs = x.acs; tabs = x.tabs; ins = x.ins;
        org = x.org; awm = x.awm; nlm = x.nlm; ckm = x.ckm; pend = x.pend;
        top = x.top; bot = x.bot; sctx = x.sctx; asctx = x.asctx; dirty =
        x.dirty; xtw = x.xtw })) (fun _ -> b) t
    in
    (match t0.active with
     | Primary -> Ok (t0, drained)
     | Alternate -> Ok (t0, [])))

(** val primary_buffer : term -> buffer **)

let primary_buffer t =
  match t.active with
  | Primary -> t.buf
  | Alternate -> t.other

(** val alternate_buffer : term -> buffer **)

let alternate_buffer t =
  match t.active with
  | Primary -> t.other
  | Alternate -> t.buf

(** val str : string -> n list **)

let rec str = function
| EmptyString -> []
| String (a, r) -> (n_of_ascii a) :: (str r)

(** val cSI : n **)

let cSI =
  Npos (XI (XI (XO (XI (XI (XO (XO XH)))))))

(** val eSC : n **)

let eSC =
  Npos (XI (XI (XO (XI XH))))

(** val sgr_params : color -> n -> n list **)

let sgr_params c base =
  match c with
  | Indexed i ->
    if N.ltb i sGRP_T1
    then show_N (N.add base i)
    else if N.ltb i sGRP_T2
         then show_N (N.add (N.add base sGRP_O2) i)
         else app (show_N (N.add base sGRP_O3))
                (app
                  (str (String ((Ascii (false, true, false, true, true, true,
                    false, false)), (String ((Ascii (true, false, true,
                    false, true, true, false, false)), (String ((Ascii
                    (false, true, false, true, true, true, false, false)),
                    EmptyString))))))) (show_N i))
  | RGB (r, g, b) ->
    app (show_N (N.add base sGRP_O4))
      (app
        (str (String ((Ascii (false, true, false, true, true, true, false,
          false)), (String ((Ascii (false, true, false, false, true, true,
          false, false)), (String ((Ascii (false, true, false, true, true,
          true, false, false)), EmptyString)))))))
        (app (show_N r)
          (app ((Npos (XO (XI (XO (XI (XI XH)))))) :: [])
            (app (show_N g)
              (app ((Npos (XO (XI (XO (XI (XI XH)))))) :: []) (show_N b))))))

(** val pen_dump : pen -> n list **)

let pen_dump p =
  app (eSC :: ((Npos (XI (XI (XO (XI (XI (XO XH))))))) :: ((Npos (XO (XO (XO
    (XO (XI XH)))))) :: [])))
    (app
      (match p.foreground with
       | Some c ->
         (Npos (XI (XI (XO (XI (XI
           XH)))))) :: (sgr_params c (Npos (XO (XI (XI (XI XH))))))
       | None -> [])
      (app
        (match p.background with
         | Some c ->
           (Npos (XI (XI (XO (XI (XI
             XH)))))) :: (sgr_params c (Npos (XO (XO (XO (XI (XO XH)))))))
         | None -> [])
        (app
          (match p.intensity with
           | Normal -> []
           | Bold ->
             str (String ((Ascii (true, true, false, true, true, true, false,
               false)), (String ((Ascii (true, false, false, false, true,
               true, false, false)), EmptyString))))
           | Faint ->
             str (String ((Ascii (true, true, false, true, true, true, false,
               false)), (String ((Ascii (false, true, false, false, true,
               true, false, false)), EmptyString)))))
          (app
            (if pen_has iTALIC_MASK p
             then str (String ((Ascii (true, true, false, true, true, true,
                    false, false)), (String ((Ascii (true, true, false,
                    false, true, true, false, false)), EmptyString))))
             else [])
            (app
              (if pen_has uNDERLINE_MASK p
               then str (String ((Ascii (true, true, false, true, true, true,
                      false, false)), (String ((Ascii (false, false, true,
                      false, true, true, false, false)), EmptyString))))
               else [])
              (app
                (if pen_has bLINK_MASK p
                 then str (String ((Ascii (true, true, false, true, true,
                        true, false, false)), (String ((Ascii (true, false,
                        true, false, true, true, false, false)),
                        EmptyString))))
                 else [])
                (app
                  (if pen_has iNVERSE_MASK p
                   then str (String ((Ascii (true, true, false, true, true,
                          true, false, false)), (String ((Ascii (true, true,
                          true, false, true, true, false, false)),
                          EmptyString))))
                   else [])
                  (app
                    (if pen_has sTRIKETHROUGH_MASK p
                     then str (String ((Ascii (true, true, false, true, true,
                            true, false, false)), (String ((Ascii (true,
                            false, false, true, true, true, false, false)),
                            EmptyString))))
                     else []) ((Npos (XI (XO (XI (XI (XO (XI XH))))))) :: [])))))))))

(** val chunks_go : cell list -> cell list -> cell list list **)

let rec chunks_go cur = function
| [] -> (match cur with
         | [] -> []
         | _ :: _ -> (rev cur) :: [])
| c :: r ->
  (match cur with
   | [] -> chunks_go (c :: []) r
   | last :: _ ->
     if negb (pen_eqb last.cpen c.cpen)
     then (rev cur) :: (chunks_go (c :: []) r)
     else chunks_go (c :: cur) r)

(** val chunks : line -> cell list list **)

let chunks l =
  chunks_go [] l.cells

(** val rep_flush : n -> nat -> n list **)

let rep_flush prev count =
  if Nat.ltb (S (S (S (S (S O))))) count
  then prev :: (app (eSC :: ((Npos (XI (XI (XO (XI (XI (XO XH))))))) :: []))
                 (app (show_nat (sub count (S O))) ((Npos (XO (XI (XO (XO (XO
                   (XI XH))))))) :: [])))
  else repeat prev count

(** val rep_go : n -> nat -> cell list -> n list **)

let rec rep_go prev count = function
| [] -> rep_flush prev count
| c :: r ->
  if N.eqb c.ch prev
  then rep_go prev (S count) r
  else app (rep_flush prev count) (rep_go c.ch (S O) r)

(** val rep_encode : cell list -> n list res **)

let rep_encode = function
| [] ->
  Panic (S (S (S (S (S (S (S (S (S (S (S (S (S (S (S (S (S (S (S (S (S (S (S
    (S (S (S (S (S (S (S (S (S (S (S (S (S (S (S (S (S (S (S (S (S (S (S (S
    (S (S (S (S (S (S (S (S (S (S (S (S (S (S (S (S (S (S (S (S (S (S (S (S
    (S (S (S (S (S (S (S (S (S
    O))))))))))))))))))))))))))))))))))))))))))))))))))))))))))))))))))))))))))))))))
| c :: r -> Ok (rep_go c.ch (S O) r)

(** val dump_cutoff : line list -> nat -> bool -> nat -> nat **)

let rec dump_cutoff v i prev_wrapped cutoff =
  match v with
  | [] -> cutoff
  | l :: r ->
    let cutoff0 =
      if (||) ((||) prev_wrapped l.wrapped) (negb (line_is_blank l))
      then S i
      else cutoff
    in
    dump_cutoff r (S i) l.wrapped cutoff0

(** val dump_chunks : cell list list -> pen -> (n list * pen) res **)

let rec dump_chunks cks p =
  match cks with
  | [] -> Ok ([], p)
  | ck :: r ->
    (match ck with
     | [] ->
       Panic (S (S (S (S (S (S (S (S (S (S (S (S (S (S (S (S (S (S (S (S (S
         (S (S (S (S (S (S (S (S (S (S (S (S (S (S (S (S (S (S (S (S (S (S (S
         (S (S (S (S (S (S (S (S (S (S (S (S (S (S (S (S (S (S (S (S (S (S (S
         (S (S (S (S (S (S (S (S (S (S (S (S (S (S
         O)))))))))))))))))))))))))))))))))))))))))))))))))))))))))))))))))))))))))))))))))
     | c0 :: _ ->
       if negb (pen_eqb c0.cpen p)
       then let pre = pen_dump c0.cpen in
            let p' = c0.cpen in
            bind (rep_encode ck) (fun body ->
              bind (dump_chunks r p') (fun pat ->
                let (rest, p'') = pat in Ok ((app pre (app body rest)), p'')))
       else let pre = [] in
            bind (rep_encode ck) (fun body ->
              bind (dump_chunks r p) (fun pat ->
                let (rest, p'') = pat in Ok ((app pre (app body rest)), p''))))

(** val dump_rows : line list -> nat -> nat -> pen -> n list res **)

let rec dump_rows v i last p =
  match v with
  | [] -> Ok []
  | l :: r ->
    bind (dump_chunks (chunks l) p) (fun pat ->
      let (s, p') = pat in
      let nl =
        if (&&) (Nat.ltb i last) (negb l.wrapped)
        then (Npos (XI (XO (XI XH)))) :: ((Npos (XO (XI (XO XH)))) :: [])
        else []
      in
      bind (dump_rows r (S i) last p') (fun rest -> Ok (app s (app nl rest))))

(** val buf_dump : buffer -> n list res **)

let buf_dump b =
  bind (viewM b) (fun v ->
    bind
      (guard (Nat.leb (S O) b.brows) (S (S (S (S (S (S (S (S (S (S (S (S (S
        (S (S (S (S (S (S (S (S (S (S (S (S (S (S (S (S (S (S (S (S (S (S (S
        (S (S (S (S (S (S (S (S (S (S (S (S (S (S (S (S (S (S (S (S (S (S (S
        (S (S (S (S (S (S (S (S (S (S (S (S (S (S (S (S (S (S (S (S (S (S (S
        O)))))))))))))))))))))))))))))))))))))))))))))))))))))))))))))))))))))))))))))))))))
      (fun _ ->
      let cutoff = dump_cutoff v O false O in
      dump_rows (firstn cutoff v) O (sub b.brows (S O)) default_pen))

(** val ctx_is_default : saved_ctx -> bool **)

let ctx_is_default c =
  (&&)
    ((&&)
      ((&&) ((&&) (Nat.eqb c.sc_col O) (Nat.eqb c.sc_row O))
        (pen_is_default c.sc_pen)) (negb c.sc_origin)) c.sc_awm

(** val dump_ctx : saved_ctx -> n list **)

let dump_ctx c =
  if negb (ctx_is_default c)
  then app
         (if negb c.sc_awm
          then cSI :: (str (String ((Ascii (true, true, true, true, true,
                        true, false, false)), (String ((Ascii (true, true,
                        true, false, true, true, false, false)), (String
                        ((Ascii (false, false, true, true, false, true, true,
                        false)), EmptyString)))))))
          else [])
         (app
           (if c.sc_origin
            then cSI :: (str (String ((Ascii (true, true, true, true, true,
                          true, false, false)), (String ((Ascii (false, true,
                          true, false, true, true, false, false)), (String
                          ((Ascii (false, false, false, true, false, true,
                          true, false)), EmptyString)))))))
            else [])
           (cSI :: (app (show_nat (add c.sc_row (S O)))
                     (app ((Npos (XI (XI (XO (XI (XI XH)))))) :: [])
                       (app (show_nat (add c.sc_col (S O)))
                         (app ((Npos (XO (XO (XO (XI (XO (XO XH))))))) :: [])
                           (app (pen_dump c.sc_pen)
                             (app (eSC :: ((Npos (XI (XI (XI (XO (XI
                               XH)))))) :: []))
                               (app
                                 (if negb c.sc_awm
                                  then cSI :: (str (String ((Ascii (true,
                                                true, true, true, true, true,
                                                false, false)), (String
                                                ((Ascii (true, true, true,
                                                false, true, true, false,
                                                false)), (String ((Ascii
                                                (false, false, false, true,
                                                false, true, true, false)),
                                                EmptyString)))))))
                                  else [])
                                 (if c.sc_origin
                                  then cSI :: (str (String ((Ascii (true,
                                                true, true, true, true, true,
                                                false, false)), (String
                                                ((Ascii (false, true, true,
                                                false, true, true, false,
                                                false)), (String ((Ascii
                                                (false, false, true, true,
                                                false, true, true, false)),
                                                EmptyString)))))))
                                  else []))))))))))
  else []

(** val is_alt : term -> bool **)

let is_alt t =
  match t.active with
  | Primary -> false
  | Alternate -> true

(** val list_nat_eqb : nat list -> nat list -> bool **)

let list_nat_eqb =
  list_eqb Nat.eqb

(** val term_dump : term -> n list res **)

let term_dump t =
  match t.active with
  | Primary ->
    let primary_ctx = t.sctx in
    let alternate_ctx = t.asctx in
    bind (buf_dump (primary_buffer t)) (fun s1 ->
      let s2 =
        if negb (list_nat_eqb t.tabs (tabs_new t.cols))
        then cSI :: (app
                      (str (String ((Ascii (true, false, true, false, true,
                        true, false, false)), (String ((Ascii (true, true,
                        true, false, true, false, true, false)),
                        EmptyString)))))
                      (flat_map (fun tb ->
                        cSI :: (app (show_nat (add tb (S O))) ((Npos (XO (XO
                                 (XO (XO (XO (XI XH))))))) :: (eSC :: ((Npos
                                 (XI (XI (XO (XI (XI (XO XH))))))) :: ((Npos
                                 (XI (XI (XI (XO (XI (XO XH))))))) :: []))))))
                        t.tabs))
        else []
      in
      let s3 =
        app (dump_ctx primary_ctx) (eSC :: ((Npos (XI (XI (XO (XI (XI (XO
          XH))))))) :: ((Npos (XI (XO (XI (XI (XO (XI XH))))))) :: [])))
      in
      let s4a =
        if (||) (is_alt t) (negb (ctx_is_default alternate_ctx))
        then cSI :: (str (String ((Ascii (true, true, true, true, true, true,
                      false, false)), (String ((Ascii (true, false, false,
                      false, true, true, false, false)), (String ((Ascii
                      (false, false, false, false, true, true, false,
                      false)), (String ((Ascii (false, false, true, false,
                      true, true, false, false)), (String ((Ascii (true,
                      true, true, false, true, true, false, false)), (String
                      ((Ascii (false, false, false, true, false, true, true,
                      false)), EmptyString)))))))))))))
        else []
      in
      bind
        (if is_alt t
         then bind (buf_dump (alternate_buffer t)) (fun d -> Ok
                (cSI :: (app
                          (str (String ((Ascii (true, false, false, false,
                            true, true, false, false)), (String ((Ascii
                            (true, true, false, true, true, true, false,
                            false)), (String ((Ascii (true, false, false,
                            false, true, true, false, false)), (String
                            ((Ascii (false, false, false, true, false, false,
                            true, false)), EmptyString))))))))) d)))
         else Ok []) (fun s4b ->
        let s5 = dump_ctx alternate_ctx in
        let s6 =
          if (&&) (negb (is_alt t)) (negb (ctx_is_default alternate_ctx))
          then cSI :: (str (String ((Ascii (true, true, true, true, true,
                        true, false, false)), (String ((Ascii (true, false,
                        false, false, true, true, false, false)), (String
                        ((Ascii (false, false, false, false, true, true,
                        false, false)), (String ((Ascii (false, false, true,
                        false, true, true, false, false)), (String ((Ascii
                        (true, true, true, false, true, true, false, false)),
                        (String ((Ascii (false, false, true, true, false,
                        true, true, false)), EmptyString)))))))))))))
          else []
        in
        let s7 =
          if t.org
          then cSI :: (str (String ((Ascii (true, true, true, true, true,
                        true, false, false)), (String ((Ascii (false, true,
                        true, false, true, true, false, false)), (String
                        ((Ascii (false, false, false, true, false, true,
                        true, false)), EmptyString)))))))
          else []
        in
        let s8 =
          if (||) (Nat.ltb O t.top) (Nat.ltb t.bot (sub t.rows (S O)))
          then cSI :: (app (show_nat (add t.top (S O)))
                        (app ((Npos (XI (XI (XO (XI (XI XH)))))) :: [])
                          (app (show_nat (add t.bot (S O))) ((Npos (XO (XI
                            (XO (XO (XI (XI XH))))))) :: []))))
          else []
        in
        let col = t.cur_col in
        let row = t.cur_row in
        let s9 =
          if t.org
          then if (||) (Nat.ltb row t.top) (Nat.ltb t.bot row)
               then cSI :: (app ((Npos (XI (XO (XI (XO (XI (XI
                             XH))))))) :: [])
                             (app
                               (match Nat.compare col t.sctx.sc_col with
                                | Eq -> []
                                | Lt ->
                                  cSI :: (app
                                           (show_nat (sub t.sctx.sc_col col))
                                           ((Npos (XO (XO (XI (XO (XO (XO
                                           XH))))))) :: []))
                                | Gt ->
                                  cSI :: (app
                                           (show_nat (sub col t.sctx.sc_col))
                                           ((Npos (XI (XI (XO (XO (XO (XO
                                           XH))))))) :: [])))
                               (match Nat.compare row t.sctx.sc_row with
                                | Eq -> []
                                | Lt ->
                                  cSI :: (app
                                           (show_nat (sub t.sctx.sc_row row))
                                           ((Npos (XI (XO (XO (XO (XO (XO
                                           XH))))))) :: []))
                                | Gt ->
                                  cSI :: (app
                                           (show_nat (sub row t.sctx.sc_row))
                                           ((Npos (XO (XI (XO (XO (XO (XO
                                           XH))))))) :: [])))))
               else cSI :: (app (show_nat (add (sub row t.top) (S O)))
                             (app ((Npos (XI (XI (XO (XI (XI XH)))))) :: [])
                               (app (show_nat (add col (S O))) ((Npos (XO (XO
                                 (XO (XI (XO (XO XH))))))) :: []))))
          else cSI :: (app (show_nat (add row (S O)))
                        (app ((Npos (XI (XI (XO (XI (XI XH)))))) :: [])
                          (app (show_nat (add col (S O))) ((Npos (XO (XO (XO
                            (XI (XO (XO XH))))))) :: []))))
        in
        bind
          (if Nat.leb t.cols t.cur_col
           then bind (get_row t.buf t.cur_row) (fun l ->
                  match nth_error l.cells (sub t.cols (S O)) with
                  | Some c -> Ok (app (pen_dump c.cpen) (c.ch :: []))
                  | None ->
                    Panic (S (S (S (S (S (S (S (S (S (S (S (S (S (S (S (S (S
                      (S (S (S (S (S (S (S (S (S (S (S (S (S (S (S (S (S (S
                      (S (S (S (S (S (S (S (S (S (S (S (S (S (S (S (S (S (S
                      (S (S (S (S (S (S (S (S (S (S (S (S (S (S (S (S (S (S
                      (S (S (S (S (S (S (S (S (S (S (S (S
                      O))))))))))))))))))))))))))))))))))))))))))))))))))))))))))))))))))))))))))))))))))))
           else Ok []) (fun s9b ->
          let s9c =
            app (pen_dump t.tpen)
              (if negb t.cur_vis
               then cSI :: (str (String ((Ascii (true, true, true, true,
                             true, true, false, false)), (String ((Ascii
                             (false, true, false, false, true, true, false,
                             false)), (String ((Ascii (true, false, true,
                             false, true, true, false, false)), (String
                             ((Ascii (false, false, true, true, false, true,
                             true, false)), EmptyString)))))))))
               else [])
          in
          let s10 =
            app
              (match t.cs0 with
               | CsAscii -> []
               | CsDrawing ->
                 eSC :: (str (String ((Ascii (false, false, false, true,
                          false, true, false, false)), (String ((Ascii
                          (false, false, false, false, true, true, false,
                          false)), EmptyString))))))
              (app
                (match t.cs1 with
                 | CsAscii -> []
                 | CsDrawing ->
                   eSC :: (str (String ((Ascii (true, false, false, true,
                            false, true, false, false)), (String ((Ascii
                            (false, false, false, false, true, true, false,
                            false)), EmptyString))))))
                (if Nat.eqb t.acs (S O)
                 then (Npos (XO (XI (XI XH)))) :: []
                 else []))
          in
          let s11 =
            if t.ins
            then cSI :: (str (String ((Ascii (false, false, true, false,
                          true, true, false, false)), (String ((Ascii (false,
                          false, false, true, false, true, true, false)),
                          EmptyString)))))
            else []
          in
          let s12 =
            if negb t.awm
            then cSI :: (str (String ((Ascii (true, true, true, true, true,
                          true, false, false)), (String ((Ascii (true, true,
                          true, false, true, true, false, false)), (String
                          ((Ascii (false, false, true, true, false, true,
                          true, false)), EmptyString)))))))
            else []
          in
          let s13 =
            if t.nlm
            then cSI :: (str (String ((Ascii (false, true, false, false,
                          true, true, false, false)), (String ((Ascii (false,
                          false, false, false, true, true, false, false)),
                          (String ((Ascii (false, false, false, true, false,
                          true, true, false)), EmptyString)))))))
            else []
          in
          let s14 =
            if t.ckm
            then cSI :: (str (String ((Ascii (true, true, true, true, true,
                          true, false, false)), (String ((Ascii (true, false,
                          false, false, true, true, false, false)), (String
                          ((Ascii (false, false, false, true, false, true,
                          true, false)), EmptyString)))))))
            else []
          in
          Ok
          (app s1
            (app s2
              (app s3
                (app s4a
                  (app s4b
                    (app s5
                      (app s6
                        (app s7
                          (app s8
                            (app s9
                              (app s9b
                                (app s9c
                                  (app s10 (app s11 (app s12 (app s13 s14)))))))))))))))))))
  | Alternate ->
    let primary_ctx = t.asctx in
    let alternate_ctx = t.sctx in
    bind (buf_dump (primary_buffer t)) (fun s1 ->
      let s2 =
        if negb (list_nat_eqb t.tabs (tabs_new t.cols))
        then cSI :: (app
                      (str (String ((Ascii (true, false, true, false, true,
                        true, false, false)), (String ((Ascii (true, true,
                        true, false, true, false, true, false)),
                        EmptyString)))))
                      (flat_map (fun tb ->
                        cSI :: (app (show_nat (add tb (S O))) ((Npos (XO (XO
                                 (XO (XO (XO (XI XH))))))) :: (eSC :: ((Npos
                                 (XI (XI (XO (XI (XI (XO XH))))))) :: ((Npos
                                 (XI (XI (XI (XO (XI (XO XH))))))) :: []))))))
                        t.tabs))
        else []
      in
      let s3 =
        app (dump_ctx primary_ctx) (eSC :: ((Npos (XI (XI (XO (XI (XI (XO
          XH))))))) :: ((Npos (XI (XO (XI (XI (XO (XI XH))))))) :: [])))
      in
      let s4a =
        if (||) (is_alt t) (negb (ctx_is_default alternate_ctx))
        then cSI :: (str (String ((Ascii (true, true, true, true, true, true,
                      false, false)), (String ((Ascii (true, false, false,
                      false, true, true, false, false)), (String ((Ascii
                      (false, false, false, false, true, true, false,
                      false)), (String ((Ascii (false, false, true, false,
                      true, true, false, false)), (String ((Ascii (true,
                      true, true, false, true, true, false, false)), (String
                      ((Ascii (false, false, false, true, false, true, true,
                      false)), EmptyString)))))))))))))
        else []
      in
      bind
        (if is_alt t
         then bind (buf_dump (alternate_buffer t)) (fun d -> Ok
                (cSI :: (app
                          (str (String ((Ascii (true, false, false, false,
                            true, true, false, false)), (String ((Ascii
                            (true, true, false, true, true, true, false,
                            false)), (String ((Ascii (true, false, false,
                            false, true, true, false, false)), (String
                            ((Ascii (false, false, false, true, false, false,
                            true, false)), EmptyString))))))))) d)))
         else Ok []) (fun s4b ->
        let s5 = dump_ctx alternate_ctx in
        let s6 =
          if (&&) (negb (is_alt t)) (negb (ctx_is_default alternate_ctx))
          then cSI :: (str (String ((Ascii (true, true, true, true, true,
                        true, false, false)), (String ((Ascii (true, false,
                        false, false, true, true, false, false)), (String
                        ((Ascii (false, false, false, false, true, true,
                        false, false)), (String ((Ascii (false, false, true,
                        false, true, true, false, false)), (String ((Ascii
                        (true, true, true, false, true, true, false, false)),
                        (String ((Ascii (false, false, true, true, false,
                        true, true, false)), EmptyString)))))))))))))
          else []
        in
        let s7 =
          if t.org
          then cSI :: (str (String ((Ascii (true, true, true, true, true,
                        true, false, false)), (String ((Ascii (false, true,
                        true, false, true, true, false, false)), (String
                        ((Ascii (false, false, false, true, false, true,
                        true, false)), EmptyString)))))))
          else []
        in
        let s8 =
          if (||) (Nat.ltb O t.top) (Nat.ltb t.bot (sub t.rows (S O)))
          then cSI :: (app (show_nat (add t.top (S O)))
                        (app ((Npos (XI (XI (XO (XI (XI XH)))))) :: [])
                          (app (show_nat (add t.bot (S O))) ((Npos (XO (XI
                            (XO (XO (XI (XI XH))))))) :: []))))
          else []
        in
        let col = t.cur_col in
        let row = t.cur_row in
        let s9 =
          if t.org
          then if (||) (Nat.ltb row t.top) (Nat.ltb t.bot row)
               then cSI :: (app ((Npos (XI (XO (XI (XO (XI (XI
                             XH))))))) :: [])
                             (app
                               (match Nat.compare col t.sctx.sc_col with
                                | Eq -> []
                                | Lt ->
                                  cSI :: (app
                                           (show_nat (sub t.sctx.sc_col col))
                                           ((Npos (XO (XO (XI (XO (XO (XO
                                           XH))))))) :: []))
                                | Gt ->
                                  cSI :: (app
                                           (show_nat (sub col t.sctx.sc_col))
                                           ((Npos (XI (XI (XO (XO (XO (XO
                                           XH))))))) :: [])))
                               (match Nat.compare row t.sctx.sc_row with
                                | Eq -> []
                                | Lt ->
                                  cSI :: (app
                                           (show_nat (sub t.sctx.sc_row row))
                                           ((Npos (XI (XO (XO (XO (XO (XO
                                           XH))))))) :: []))
                                | Gt ->
                                  cSI :: (app
                                           (show_nat (sub row t.sctx.sc_row))
                                           ((Npos (XO (XI (XO (XO (XO (XO
                                           XH))))))) :: [])))))
               else cSI :: (app (show_nat (add (sub row t.top) (S O)))
                             (app ((Npos (XI (XI (XO (XI (XI XH)))))) :: [])
                               (app (show_nat (add col (S O))) ((Npos (XO (XO
                                 (XO (XI (XO (XO XH))))))) :: []))))
          else cSI :: (app (show_nat (add row (S O)))
                        (app ((Npos (XI (XI (XO (XI (XI XH)))))) :: [])
                          (app (show_nat (add col (S O))) ((Npos (XO (XO (XO
                            (XI (XO (XO XH))))))) :: []))))
        in
        bind
          (if Nat.leb t.cols t.cur_col
           then bind (get_row t.buf t.cur_row) (fun l ->
                  match nth_error l.cells (sub t.cols (S O)) with
                  | Some c -> Ok (app (pen_dump c.cpen) (c.ch :: []))
                  | None ->
                    Panic (S (S (S (S (S (S (S (S (S (S (S (S (S (S (S (S (S
                      (S (S (S (S (S (S (S (S (S (S (S (S (S (S (S (S (S (S
                      (S (S (S (S (S (S (S (S (S (S (S (S (S (S (S (S (S (S
                      (S (S (S (S (S (S (S (S (S (S (S (S (S (S (S (S (S (S
                      (S (S (S (S (S (S (S (S (S (S (S (S
                      O))))))))))))))))))))))))))))))))))))))))))))))))))))))))))))))))))))))))))))))))))))
           else Ok []) (fun s9b ->
          let s9c =
            app (pen_dump t.tpen)
              (if negb t.cur_vis
               then cSI :: (str (String ((Ascii (true, true, true, true,
                             true, true, false, false)), (String ((Ascii
                             (false, true, false, false, true, true, false,
                             false)), (String ((Ascii (true, false, true,
                             false, true, true, false, false)), (String
                             ((Ascii (false, false, true, true, false, true,
                             true, false)), EmptyString)))))))))
               else [])
          in
          let s10 =
            app
              (match t.cs0 with
               | CsAscii -> []
               | CsDrawing ->
                 eSC :: (str (String ((Ascii (false, false, false, true,
                          false, true, false, false)), (String ((Ascii
                          (false, false, false, false, true, true, false,
                          false)), EmptyString))))))
              (app
                (match t.cs1 with
                 | CsAscii -> []
                 | CsDrawing ->
                   eSC :: (str (String ((Ascii (true, false, false, true,
                            false, true, false, false)), (String ((Ascii
                            (false, false, false, false, true, true, false,
                            false)), EmptyString))))))
                (if Nat.eqb t.acs (S O)
                 then (Npos (XO (XI (XI XH)))) :: []
                 else []))
          in
          let s11 =
            if t.ins
            then cSI :: (str (String ((Ascii (false, false, true, false,
                          true, true, false, false)), (String ((Ascii (false,
                          false, false, true, false, true, true, false)),
                          EmptyString)))))
            else []
          in
          let s12 =
            if negb t.awm
            then cSI :: (str (String ((Ascii (true, true, true, true, true,
                          true, false, false)), (String ((Ascii (true, true,
                          true, false, true, true, false, false)), (String
                          ((Ascii (false, false, true, true, false, true,
                          true, false)), EmptyString)))))))
            else []
          in
          let s13 =
            if t.nlm
            then cSI :: (str (String ((Ascii (false, true, false, false,
                          true, true, false, false)), (String ((Ascii (false,
                          false, false, false, true, true, false, false)),
                          (String ((Ascii (false, false, false, true, false,
                          true, true, false)), EmptyString)))))))
            else []
          in
          let s14 =
            if t.ckm
            then cSI :: (str (String ((Ascii (true, true, true, true, true,
                          true, false, false)), (String ((Ascii (true, false,
                          false, false, true, true, false, false)), (String
                          ((Ascii (false, false, false, true, false, true,
                          true, false)), EmptyString)))))))
            else []
          in
          Ok
          (app s1
            (app s2
              (app s3
                (app s4a
                  (app s4b
                    (app s5
                      (app s6
                        (app s7
                          (app s8
                            (app s9
                              (app s9b
                                (app s9c
                                  (app s10 (app s11 (app s12 (app s13 s14)))))))))))))))))))

(** val is_whitespace : n -> bool **)

let is_whitespace c =
  (||)
    ((||)
      ((||)
        ((||)
          ((||)
            ((||)
              ((||)
                ((||)
                  ((||)
                    ((||)
                      ((&&) (N.leb (Npos (XI (XO (XO XH)))) c)
                        (N.leb c (Npos (XI (XO (XI XH))))))
                      (N.eqb c (Npos (XO (XO (XO (XO (XO XH))))))))
                    (N.eqb c (Npos (XI (XO (XI (XO (XO (XO (XO XH))))))))))
                  (N.eqb c (Npos (XO (XO (XO (XO (XO (XI (XO XH))))))))))
                (N.eqb c (Npos (XO (XO (XO (XO (XO (XO (XO (XI (XO (XI (XI
                  (XO XH)))))))))))))))
              ((&&)
                (N.leb (Npos (XO (XO (XO (XO (XO (XO (XO (XO (XO (XO (XO (XO
                  (XO XH)))))))))))))) c)
                (N.leb c (Npos (XO (XI (XO (XI (XO (XO (XO (XO (XO (XO (XO
                  (XO (XO XH)))))))))))))))))
            (N.eqb c (Npos (XO (XO (XO (XI (XO (XI (XO (XO (XO (XO (XO (XO
              (XO XH))))))))))))))))
          (N.eqb c (Npos (XI (XO (XO (XI (XO (XI (XO (XO (XO (XO (XO (XO (XO
            XH))))))))))))))))
        (N.eqb c (Npos (XI (XI (XI (XI (XO (XI (XO (XO (XO (XO (XO (XO (XO
          XH))))))))))))))))
      (N.eqb c (Npos (XI (XI (XI (XI (XI (XO (XI (XO (XO (XO (XO (XO (XO
        XH))))))))))))))))
    (N.eqb c (Npos (XO (XO (XO (XO (XO (XO (XO (XO (XO (XO (XO (XO (XI
      XH)))))))))))))))

(** val trim_end : n list -> n list **)

let trim_end s =
  rev (skip_while is_whitespace (rev s))

(** val line_text : line -> n list **)

let line_text l =
  map (fun c -> c.ch) l.cells

(** val text_go : line list -> n list -> n list list **)

let rec text_go ls cur =
  match ls with
  | [] -> (match cur with
           | [] -> []
           | _ :: _ -> (trim_end cur) :: [])
  | l :: r ->
    let cur0 = app cur (line_text l) in
    if l.wrapped then text_go r cur0 else (trim_end cur0) :: (text_go r [])

(** val buf_text : buffer -> n list list **)

let buf_text b =
  text_go b.lines []

(** val term_text : term -> n list list **)

let term_text t =
  buf_text (primary_buffer t)

(** val unwrap_push : n list -> line -> n list * n list option **)

let unwrap_push st l =
  if l.wrapped
  then ((app st (line_text l)), None)
  else ([], (Some (app st (trim_end (line_text l)))))

(** val unwrap_all : n list -> line list -> n list * n list list **)

let rec unwrap_all st = function
| [] -> (st, [])
| l :: r ->
  let (st', o) = unwrap_push st l in
  let (st'', out0) = unwrap_all st' r in
  (st'', (match o with
          | Some s -> s :: out0
          | None -> out0))

(** val strip_empty_tail : n list list -> n list list **)

let rec strip_empty_tail = function
| [] -> []
| x :: r ->
  (match strip_empty_tail r with
   | [] -> (match x with
            | [] -> []
            | _ :: _ -> x :: [])
   | l :: l0 -> x :: (l :: l0))

(** val collector_flush : n list -> line list -> n list list **)

let collector_flush st ls =
  let (st', out0) = unwrap_all st ls in
  strip_empty_tail (app out0 (match st' with
                              | [] -> []
                              | _ :: _ -> st' :: []))

type op =
| Feed of n
| Flush
| Resize of nat * nat

type out = { o_lines : nat list; o_drained : line list }

(** val no_out : out **)

let no_out =
  { o_lines = []; o_drained = [] }

(** val vt_new : nat -> nat -> n option -> vt **)

let vt_new c r limit =
  { vparser = init_parser; vterm = (term_new_gen c r limit) }

(** val vt_feed : vt -> n -> vt res **)

let vt_feed v c =
  bind (feedM v.vparser c) (fun pat ->
    let (p, f) = pat in
    (match f with
     | Some f0 ->
       bind (execute v.vterm f0) (fun t -> Ok { vparser = p; vterm = t })
     | None -> Ok { vparser = p; vterm = v.vterm }))

(** val vt_flush : vt -> (vt * out) res **)

let vt_flush v =
  let (t, ls) = changes v.vterm in
  bind (term_gc t) (fun pat ->
    let (t0, dr) = pat in
    Ok
    ((set (fun v0 -> v0.vterm) (fun f ->
       let t1 = fun r -> f r.vterm in
       (fun x -> { vparser = x.vparser; vterm = (t1 x) })) (fun _ -> t0) v),
    { o_lines = ls; o_drained = dr }))

(** val stepM : vt -> op -> (vt * out) res **)

let stepM v = function
| Feed c -> bind (vt_feed v c) (fun v' -> Ok (v', no_out))
| Flush -> vt_flush v
| Resize (c, r) ->
  bind (term_resize v.vterm c r) (fun t ->
    vt_flush
      (set (fun v0 -> v0.vterm) (fun f ->
        let t0 = fun r0 -> f r0.vterm in
        (fun x -> { vparser = x.vparser; vterm = (t0 x) })) (fun _ -> t) v))

(** val feed_chars : vt -> n list -> vt res **)

let rec feed_chars v = function
| [] -> Ok v
| c :: r -> bind (vt_feed v c) (fun v' -> feed_chars v' r)

(** val feed_str : vt -> n list -> (vt * out) res **)

let feed_str v s =
  bind (feed_chars v s) vt_flush

(** val vt_size : vt -> nat * nat **)

let vt_size v =
  (v.vterm.cols, v.vterm.rows)

(** val vt_view : vt -> line list res **)

let vt_view v =
  viewM v.vterm.buf

(** val vt_lines : vt -> line list **)

let vt_lines v =
  v.vterm.buf.lines

(** val vt_text : vt -> n list list **)

let vt_text v =
  term_text v.vterm

(** val vt_cursor : vt -> (nat * nat) * bool **)

let vt_cursor v =
  ((v.vterm.cur_col, v.vterm.cur_row), v.vterm.cur_vis)

(** val vt_ckm : vt -> bool **)

let vt_ckm v =
  v.vterm.ckm

(** val vt_dump : vt -> n list res **)

let vt_dump v =
  bind (term_dump v.vterm) (fun a ->
    bind (parser_dumpM v.vparser) (fun b -> Ok (app a b)))

(** val charset_eqb : charset -> charset -> bool **)

let charset_eqb a b =
  match a with
  | CsAscii -> (match b with
                | CsAscii -> true
                | CsDrawing -> false)
  | CsDrawing -> (match b with
                  | CsAscii -> false
                  | CsDrawing -> true)

(** val btype_eqb : btype -> btype -> bool **)

let btype_eqb a b =
  match a with
  | Primary -> (match b with
                | Primary -> true
                | Alternate -> false)
  | Alternate -> (match b with
                  | Primary -> false
                  | Alternate -> true)

(** val ctx_eqb : saved_ctx -> saved_ctx -> bool **)

let ctx_eqb a b =
  (&&)
    ((&&)
      ((&&) ((&&) (Nat.eqb a.sc_col b.sc_col) (Nat.eqb a.sc_row b.sc_row))
        (pen_eqb a.sc_pen b.sc_pen)) (eqb a.sc_origin b.sc_origin))
    (eqb a.sc_awm b.sc_awm)

(** val lines_eqb : line list -> line list -> bool **)

let lines_eqb =
  list_eqb line_eqb

(** val limit_eqb : (n * n) option -> (n * n) option -> bool **)

let limit_eqb a b =
  opt_eqb (fun x y -> (&&) (N.eqb (fst x) (fst y)) (N.eqb (snd x) (snd y))) a
    b

(** val buffer_eqb : buffer -> buffer -> bool **)

let buffer_eqb a b =
  (&&)
    ((&&)
      ((&&) ((&&) (lines_eqb a.lines b.lines) (Nat.eqb a.bcols b.bcols))
        (Nat.eqb a.brows b.brows)) (limit_eqb a.blimit b.blimit))
    (eqb a.trim_needed b.trim_needed)

(** val term_scalars_eqb : term -> term -> bool **)

let term_scalars_eqb a b =
  (&&)
    ((&&)
      ((&&)
        ((&&)
          ((&&)
            ((&&)
              ((&&)
                ((&&)
                  ((&&)
                    ((&&)
                      ((&&)
                        ((&&)
                          ((&&)
                            ((&&)
                              ((&&)
                                ((&&)
                                  ((&&)
                                    ((&&)
                                      ((&&)
                                        ((&&)
                                          ((&&)
                                            ((&&) (Nat.eqb a.cols b.cols)
                                              (Nat.eqb a.rows b.rows))
                                            (btype_eqb a.active b.active))
                                          (opt_eqb N.eqb a.sb_limit
                                            b.sb_limit))
                                        (Nat.eqb a.cur_col b.cur_col))
                                      (Nat.eqb a.cur_row b.cur_row))
                                    (eqb a.cur_vis b.cur_vis))
                                  (pen_eqb a.tpen b.tpen))
                                (charset_eqb a.cs0 b.cs0))
                              (charset_eqb a.cs1 b.cs1))
                            (Nat.eqb a.acs b.acs))
                          (list_eqb Nat.eqb a.tabs b.tabs)) (eqb a.ins b.ins))
                      (eqb a.org b.org)) (eqb a.awm b.awm)) (eqb a.nlm b.nlm))
                (eqb a.ckm b.ckm)) (eqb a.pend b.pend)) (Nat.eqb a.top b.top))
          (Nat.eqb a.bot b.bot)) (ctx_eqb a.sctx b.sctx))
      (ctx_eqb a.asctx b.asctx)) (eqb a.xtw b.xtw)

(** val term_eqb : term -> term -> bool **)

let term_eqb a b =
  (&&)
    ((&&) ((&&) (term_scalars_eqb a b) (buffer_eqb a.buf b.buf))
      (buffer_eqb a.other b.other)) (list_eqb eqb a.dirty b.dirty)

(** val param_eqb : param -> param -> bool **)

let param_eqb a b =
  (&&) (Nat.eqb a.cur_part b.cur_part) (list_eqb N.eqb a.parts b.parts)

(** val parser_eqb : parser0 -> parser0 -> bool **)

let parser_eqb a b =
  (&&)
    ((&&)
      ((&&) (pstate_eqb a.pst b.pst) (list_eqb param_eqb a.params b.params))
      (Nat.eqb a.cur_param b.cur_param)) (opt_eqb N.eqb a.inter b.inter)

(** val vt_eqb : vt -> vt -> bool **)

let vt_eqb a b =
  (&&) (parser_eqb a.vparser b.vparser) (term_eqb a.vterm b.vterm)

(** val tview : term -> line list **)

let tview t =
  view t.buf

(** val tsb : term -> line list **)

let tsb t =
  firstn (sb_len t.buf) t.buf.lines

(** val set_screen : term -> line list -> line list -> term **)

let set_screen t sb v =
  set (fun t0 -> t0.buf) (fun f ->
    let b = fun r -> f r.buf in
    (fun x -> { cols = x.cols; rows = x.rows; buf = (b x); other = x.other;
    active = x.active; sb_limit = x.sb_limit; cur_col = x.cur_col; cur_row =
    x.cur_row; cur_vis = x.cur_vis; tpen = x.tpen; cs0 = x.cs0; cs1 = x.cs1;
    acs = x.acs; tabs = x.tabs; ins = x.ins; org = x.org; awm = x.awm; nlm =
    x.nlm; ckm = x.ckm; pend = x.pend; top = x.top; bot = x.bot; sctx =
    x.sctx; asctx = x.asctx; dirty = x.dirty; xtw = x.xtw })) (fun _ ->
    set (fun b -> b.lines) (fun f ->
      let l = fun r -> f r.lines in
      (fun x -> { lines = (l x); bcols = x.bcols; brows = x.brows; blimit =
      x.blimit; trim_needed = x.trim_needed })) (fun _ -> app sb v) t.buf) t

(** val set_view : term -> line list -> term **)

let set_view t v =
  set_screen t (tsb t) v

(** val set_cursor : term -> nat -> nat -> bool -> term **)

let set_cursor t c r p =
  set (fun t0 -> t0.pend) (fun f ->
    let b = fun r0 -> f r0.pend in
    (fun x -> { cols = x.cols; rows = x.rows; buf = x.buf; other = x.other;
    active = x.active; sb_limit = x.sb_limit; cur_col = x.cur_col; cur_row =
    x.cur_row; cur_vis = x.cur_vis; tpen = x.tpen; cs0 = x.cs0; cs1 = x.cs1;
    acs = x.acs; tabs = x.tabs; ins = x.ins; org = x.org; awm = x.awm; nlm =
    x.nlm; ckm = x.ckm; pend = (b x); top = x.top; bot = x.bot; sctx =
    x.sctx; asctx = x.asctx; dirty = x.dirty; xtw = x.xtw })) (fun _ -> p)
    (set (fun t0 -> t0.cur_row) (fun f ->
      let n0 = fun r0 -> f r0.cur_row in
      (fun x -> { cols = x.cols; rows = x.rows; buf = x.buf; other = x.other;
      active = x.active; sb_limit = x.sb_limit; cur_col = x.cur_col;
      cur_row = (n0 x); cur_vis = x.cur_vis; tpen = x.tpen; cs0 = x.cs0;
      cs1 = x.cs1; acs = x.acs; tabs = x.tabs; ins = x.ins; org = x.org;
      awm = x.awm; nlm = x.nlm; ckm = x.ckm; pend = x.pend; top = x.top;
      bot = x.bot; sctx = x.sctx; asctx = x.asctx; dirty = x.dirty; xtw =
      x.xtw })) (fun _ -> r)
      (set (fun t0 -> t0.cur_col) (fun f ->
        let n0 = fun r0 -> f r0.cur_col in
        (fun x -> { cols = x.cols; rows = x.rows; buf = x.buf; other =
        x.other; active = x.active; sb_limit = x.sb_limit; cur_col = 
        (n0 x); cur_row = x.cur_row; cur_vis = x.cur_vis; tpen = x.tpen;
        cs0 = x.cs0; cs1 = x.cs1; acs = x.acs; tabs = x.tabs; ins = x.ins;
        org = x.org; awm = x.awm; nlm = x.nlm; ckm = x.ckm; pend = x.pend;
        top = x.top; bot = x.bot; sctx = x.sctx; asctx = x.asctx; dirty =
        x.dirty; xtw = x.xtw })) (fun _ -> c) t))

(** val buffer_vis_eqb : buffer -> buffer -> bool **)

let buffer_vis_eqb a b =
  (&&)
    ((&&) ((&&) (lines_eqb a.lines b.lines) (Nat.eqb a.bcols b.bcols))
      (Nat.eqb a.brows b.brows)) (limit_eqb a.blimit b.blimit)

(** val visible_eqb : term -> term -> bool **)

let visible_eqb a b =
  (&&) ((&&) (term_scalars_eqb a b) (buffer_vis_eqb a.buf b.buf))
    (buffer_vis_eqb a.other b.other)

(** val viscol : term -> nat **)

let viscol t =
  Nat.min t.cur_col (sub t.cols (S O))

(** val n1 : n -> nat **)

let n1 n0 =
  if N.eqb n0 N0 then S O else N.to_nat n0

(** val row_at : line list -> nat -> line **)

let row_at v r =
  nth r v { cells = []; wrapped = false }

(** val upd_row : nat -> (line -> line) -> line list -> line list **)

let upd_row =
  upd

(** val unwrap : line -> line **)

let unwrap l =
  set (fun l0 -> l0.wrapped) (fun f ->
    let b = fun r -> f r.wrapped in
    (fun x -> { cells = x.cells; wrapped = (b x) })) (fun _ -> false) l

(** val mark_wrapped : line -> line **)

let mark_wrapped l =
  set (fun l0 -> l0.wrapped) (fun f ->
    let b = fun r -> f r.wrapped in
    (fun x -> { cells = x.cells; wrapped = (b x) })) (fun _ -> true) l

(** val blanks : nat -> pen -> cell list **)

let blanks n0 p =
  repeat (blank_cell p) n0

(** val spec_scroll_up :
    nat -> nat -> nat -> pen -> nat -> line list -> line list * line list **)

let spec_scroll_up a z0 n0 p ncols v =
  let k = Nat.min n0 (sub z0 a) in
  let v1 =
    if Nat.ltb z0 (length v) then upd_row (sub z0 (S O)) unwrap v else v
  in
  let v2 = if Nat.ltb O a then upd_row (sub a (S O)) unwrap v1 else v1 in
  ((app (firstn a v2)
     (app (firstn (sub (sub z0 a) k) (skipn (add a k) v2))
       (app (repeat (blank_line ncols p) k) (skipn z0 v2)))),
  (if Nat.eqb a O then firstn k v2 else []))

(** val spec_scroll_down :
    nat -> nat -> nat -> pen -> nat -> line list -> line list **)

let spec_scroll_down a z0 n0 p ncols v =
  let k = Nat.min n0 (sub z0 a) in
  let v1 =
    app (firstn a v)
      (app (repeat (blank_line ncols p) k)
        (app (firstn (sub (sub z0 a) k) (skipn a v)) (skipn z0 v)))
  in
  let v2 = if Nat.ltb O a then upd_row (sub a (S O)) unwrap v1 else v1 in
  upd_row (sub z0 (S O)) unwrap v2

(** val apply_scroll_up : term -> nat -> nat -> nat -> term **)

let apply_scroll_up t a z0 n0 =
  let (v', pushed) = spec_scroll_up a z0 n0 t.tpen t.cols (tview t) in
  set_screen t (app (tsb t) pushed) v'

(** val apply_scroll_down : term -> nat -> nat -> nat -> term **)

let apply_scroll_down t a z0 n0 =
  set_view t (spec_scroll_down a z0 n0 t.tpen t.cols (tview t))

(** val vt100_glyphs : n list **)

let vt100_glyphs =
  (Npos (XO (XI (XI (XO (XO (XI (XI (XO (XO (XI (XI (XO (XO
    XH)))))))))))))) :: ((Npos (XO (XI (XO (XO (XI (XO (XO (XI (XI (XO (XI
    (XO (XO XH)))))))))))))) :: ((Npos (XI (XO (XO (XI (XO (XO (XO (XO (XO
    (XO (XI (XO (XO XH)))))))))))))) :: ((Npos (XO (XO (XI (XI (XO (XO (XO
    (XO (XO (XO (XI (XO (XO XH)))))))))))))) :: ((Npos (XI (XO (XI (XI (XO
    (XO (XO (XO (XO (XO (XI (XO (XO XH)))))))))))))) :: ((Npos (XO (XI (XO
    (XI (XO (XO (XO (XO (XO (XO (XI (XO (XO XH)))))))))))))) :: ((Npos (XO
    (XO (XO (XO (XI (XI (XO XH)))))))) :: ((Npos (XI (XO (XO (XO (XI (XI (XO
    XH)))))))) :: ((Npos (XO (XO (XI (XO (XO (XI (XO (XO (XO (XO (XI (XO (XO
    XH)))))))))))))) :: ((Npos (XI (XI (XO (XI (XO (XO (XO (XO (XO (XO (XI
    (XO (XO XH)))))))))))))) :: ((Npos (XO (XO (XO (XI (XI (XO (XO (XO (XI
    (XO (XI (XO (XO XH)))))))))))))) :: ((Npos (XO (XO (XO (XO (XI (XO (XO
    (XO (XI (XO (XI (XO (XO XH)))))))))))))) :: ((Npos (XO (XO (XI (XI (XO
    (XO (XO (XO (XI (XO (XI (XO (XO XH)))))))))))))) :: ((Npos (XO (XO (XI
    (XO (XI (XO (XO (XO (XI (XO (XI (XO (XO XH)))))))))))))) :: ((Npos (XO
    (XO (XI (XI (XI (XI (XO (XO (XI (XO (XI (XO (XO
    XH)))))))))))))) :: ((Npos (XO (XI (XO (XI (XI (XI (XO (XI (XI (XI (XO
    (XO (XO XH)))))))))))))) :: ((Npos (XI (XI (XO (XI (XI (XI (XO (XI (XI
    (XI (XO (XO (XO XH)))))))))))))) :: ((Npos (XO (XO (XO (XO (XO (XO (XO
    (XO (XI (XO (XI (XO (XO XH)))))))))))))) :: ((Npos (XO (XO (XI (XI (XI
    (XI (XO (XI (XI (XI (XO (XO (XO XH)))))))))))))) :: ((Npos (XI (XO (XI
    (XI (XI (XI (XO (XI (XI (XI (XO (XO (XO XH)))))))))))))) :: ((Npos (XO
    (XO (XI (XI (XI (XO (XO (XO (XI (XO (XI (XO (XO
    XH)))))))))))))) :: ((Npos (XO (XO (XI (XO (XO (XI (XO (XO (XI (XO (XI
    (XO (XO XH)))))))))))))) :: ((Npos (XO (XO (XI (XO (XI (XI (XO (XO (XI
    (XO (XI (XO (XO XH)))))))))))))) :: ((Npos (XO (XO (XI (XI (XO (XI (XO
    (XO (XI (XO (XI (XO (XO XH)))))))))))))) :: ((Npos (XO (XI (XO (XO (XO
    (XO (XO (XO (XI (XO (XI (XO (XO XH)))))))))))))) :: ((Npos (XO (XO (XI
    (XO (XO (XI (XI (XO (XO (XI (XO (XO (XO XH)))))))))))))) :: ((Npos (XI
    (XO (XI (XO (XO (XI (XI (XO (XO (XI (XO (XO (XO
    XH)))))))))))))) :: ((Npos (XO (XO (XO (XO (XO (XO (XI (XI (XI
    XH)))))))))) :: ((Npos (XO (XO (XO (XO (XO (XI (XI (XO (XO (XI (XO (XO
    (XO XH)))))))))))))) :: ((Npos (XI (XI (XO (XO (XO (XI (XO
    XH)))))))) :: ((Npos (XI (XO (XI (XO (XO (XO (XI (XI (XO (XI (XO (XO (XO
    XH)))))))))))))) :: []))))))))))))))))))))))))))))))

(** val spec_translate : charset -> n -> n **)

let spec_translate cs c =
  match cs with
  | CsAscii -> c
  | CsDrawing ->
    if (&&) (N.leb (Npos (XO (XO (XO (XO (XO (XI XH))))))) c)
         (N.leb c (Npos (XO (XI (XI (XI (XI (XI XH))))))))
    then nth (N.to_nat (N.sub c (Npos (XO (XO (XO (XO (XO (XI XH)))))))))
           vt100_glyphs c
    else c

(** val spec_active_cs : term -> charset **)

let spec_active_cs t =
  if Nat.eqb t.acs O then t.cs0 else t.cs1

(** val set_cell : nat -> cell -> line -> line **)

let set_cell col c l =
  set (fun l0 -> l0.cells) (fun f ->
    let l0 = fun r -> f r.cells in
    (fun x -> { cells = (l0 x); wrapped = x.wrapped })) (fun _ ->
    upd col (fun _ -> c) l.cells) l

(** val insert_cell : nat -> cell -> line -> line **)

let insert_cell col c l =
  set (fun l0 -> l0.cells) (fun f ->
    let l0 = fun r -> f r.cells in
    (fun x -> { cells = (l0 x); wrapped = x.wrapped })) (fun _ ->
    app (firstn col l.cells)
      (c :: (firstn (sub (sub (length l.cells) col) (S O))
              (skipn col l.cells)))) l

(** val spec_print_glyph : term -> n -> term **)

let spec_print_glyph t g =
  let cl = { ch = g; cpen = t.tpen } in
  let row = t.cur_row in
  let t1 =
    if (&&) t.awm t.pend
    then if Nat.eqb row t.bot
         then set_cursor
                (apply_scroll_up
                  (set_view t (upd_row row mark_wrapped (tview t))) t.top
                  (add t.bot (S O)) (S O)) O row false
         else if Nat.ltb row (sub t.rows (S O))
              then set_cursor
                     (set_view t (upd_row row mark_wrapped (tview t))) O
                     (add row (S O)) false
              else set_cursor t O row false
    else t
  in
  let col = t1.cur_col in
  let row0 = t1.cur_row in
  if Nat.leb t.cols (add col (S O))
  then let t2 =
         set_view t1
           (upd_row row0 (set_cell (sub t.cols (S O)) cl) (tview t1))
       in
       if t.awm then set_cursor t2 t.cols row0 true else t2
  else let t2 =
         set_view t1
           (upd_row row0
             (if t.ins then insert_cell col cl else set_cell col cl)
             (tview t1))
       in
       set_cursor t2 (add col (S O)) row0 false

(** val spec_print : term -> n -> term **)

let spec_print t c =
  spec_print_glyph t (spec_translate (spec_active_cs t) c)

(** val spec_rep : term -> n -> term **)

let spec_rep t n0 =
  if Nat.ltb O t.cur_col
  then let c =
         (nth (sub t.cur_col (S O)) (row_at (tview t) t.cur_row).cells
           default_cell).ch
       in
       Nat.iter (n1 n0) (fun t' -> spec_print t' c) t
  else t

(** val spec_up : term -> nat -> nat **)

let spec_up t n0 =
  if Nat.ltb t.cur_row t.top
  then sub t.cur_row n0
  else Nat.max (sub t.cur_row n0) t.top

(** val spec_down : term -> nat -> nat **)

let spec_down t n0 =
  if Nat.ltb t.bot t.cur_row
  then Nat.min (sub t.rows (S O)) (add t.cur_row n0)
  else Nat.min t.bot (add t.cur_row n0)

(** val spec_abs_row : term -> nat -> nat **)

let spec_abs_row t r =
  let tp = if t.org then t.top else O in
  let bt = if t.org then t.bot else sub t.rows (S O) in
  Nat.min (Nat.max (add tp r) tp) bt

(** val stops_after : nat list -> nat -> nat list **)

let stops_after l pos =
  filter (fun s -> Nat.ltb pos s) l

(** val stops_before : nat list -> nat -> nat list **)

let stops_before l pos =
  rev (filter (fun s -> Nat.ltb s pos) l)

(** val spec_next_tab : term -> nat -> nat **)

let spec_next_tab t n0 =
  Nat.min
    (nth (sub n0 (S O)) (stops_after t.tabs t.cur_col) (sub t.cols (S O)))
    (sub t.cols (S O))

(** val spec_prev_tab : term -> nat -> nat **)

let spec_prev_tab t n0 =
  Nat.min (nth (sub n0 (S O)) (stops_before t.tabs t.cur_col) O)
    (sub t.cols (S O))

(** val spec_home : term -> term **)

let spec_home t =
  set_cursor t O (if t.org then t.top else O) false

(** val spec_cursor : term -> func -> term option **)

let spec_cursor t f =
  let vc = viscol t in
  let row = t.cur_row in
  (match f with
   | Bs -> Some (set_cursor t (sub vc (S O)) row false)
   | Cbt n0 -> Some (set_cursor t (spec_prev_tab t (n1 n0)) row false)
   | Cha n0 ->
     Some
       (set_cursor t (Nat.min (sub (n1 n0) (S O)) (sub t.cols (S O))) row
         false)
   | Cht n0 -> Some (set_cursor t (spec_next_tab t (n1 n0)) row false)
   | Cnl n0 -> Some (set_cursor t O (spec_down t (n1 n0)) false)
   | Cpl n0 -> Some (set_cursor t O (spec_up t (n1 n0)) false)
   | Cr -> Some (set_cursor t O row false)
   | Cub n0 -> Some (set_cursor t (sub vc (n1 n0)) row false)
   | Cud n0 -> Some (set_cursor t vc (spec_down t (n1 n0)) false)
   | Cuf n0 ->
     Some
       (set_cursor t (Nat.min (sub t.cols (S O)) (add vc (n1 n0))) row false)
   | Cup (r, c) ->
     Some
       (set_cursor t (Nat.min (sub (n1 c) (S O)) (sub t.cols (S O)))
         (spec_abs_row t (sub (n1 r) (S O))) false)
   | Cuu n0 -> Some (set_cursor t vc (spec_up t (n1 n0)) false)
   | Decrst ms ->
     (match ms with
      | [] -> None
      | d :: l ->
        (match d with
         | Origin ->
           (match l with
            | [] ->
              Some
                (spec_home
                  (set (fun t0 -> t0.org) (fun f0 ->
                    let b = fun r -> f0 r.org in
                    (fun x -> { cols = x.cols; rows = x.rows; buf = x.buf;
                    other = x.other; active = x.active; sb_limit =
                    x.sb_limit; cur_col = x.cur_col; cur_row = x.cur_row;
                    cur_vis = x.cur_vis; tpen = x.tpen; cs0 = x.cs0; cs1 =
                    x.cs1; acs = x.acs; tabs = x.tabs; ins = x.ins; org =
                    (b x); awm = x.awm; nlm = x.nlm; ckm = x.ckm; pend =
                    x.pend; top = x.top; bot = x.bot; sctx = x.sctx; asctx =
                    x.asctx; dirty = x.dirty; xtw = x.xtw })) (fun _ ->
                    false) t))
            | _ :: _ -> None)
         | _ -> None))
   | Decset ms ->
     (match ms with
      | [] -> None
      | d :: l ->
        (match d with
         | Origin ->
           (match l with
            | [] ->
              Some
                (spec_home
                  (set (fun t0 -> t0.org) (fun f0 ->
                    let b = fun r -> f0 r.org in
                    (fun x -> { cols = x.cols; rows = x.rows; buf = x.buf;
                    other = x.other; active = x.active; sb_limit =
                    x.sb_limit; cur_col = x.cur_col; cur_row = x.cur_row;
                    cur_vis = x.cur_vis; tpen = x.tpen; cs0 = x.cs0; cs1 =
                    x.cs1; acs = x.acs; tabs = x.tabs; ins = x.ins; org =
                    (b x); awm = x.awm; nlm = x.nlm; ckm = x.ckm; pend =
                    x.pend; top = x.top; bot = x.bot; sctx = x.sctx; asctx =
                    x.asctx; dirty = x.dirty; xtw = x.xtw })) (fun _ -> true)
                    t))
            | _ :: _ -> None)
         | _ -> None))
   | Decstbm (tp, bt) ->
     let tp' = sub (n1 tp) (S O) in
     let bt' = sub (if N.eqb bt N0 then t.rows else N.to_nat bt) (S O) in
     let t1 =
       if (&&) (Nat.ltb tp' bt') (Nat.ltb bt' t.rows)
       then set (fun t0 -> t0.bot) (fun f0 ->
              let n0 = fun r -> f0 r.bot in
              (fun x -> { cols = x.cols; rows = x.rows; buf = x.buf; other =
              x.other; active = x.active; sb_limit = x.sb_limit; cur_col =
              x.cur_col; cur_row = x.cur_row; cur_vis = x.cur_vis; tpen =
              x.tpen; cs0 = x.cs0; cs1 = x.cs1; acs = x.acs; tabs = x.tabs;
              ins = x.ins; org = x.org; awm = x.awm; nlm = x.nlm; ckm =
              x.ckm; pend = x.pend; top = x.top; bot = (n0 x); sctx = x.sctx;
              asctx = x.asctx; dirty = x.dirty; xtw = x.xtw })) (fun _ ->
              bt')
              (set (fun t0 -> t0.top) (fun f0 ->
                let n0 = fun r -> f0 r.top in
                (fun x -> { cols = x.cols; rows = x.rows; buf = x.buf;
                other = x.other; active = x.active; sb_limit = x.sb_limit;
                cur_col = x.cur_col; cur_row = x.cur_row; cur_vis =
                x.cur_vis; tpen = x.tpen; cs0 = x.cs0; cs1 = x.cs1; acs =
                x.acs; tabs = x.tabs; ins = x.ins; org = x.org; awm = x.awm;
                nlm = x.nlm; ckm = x.ckm; pend = x.pend; top = (n0 x); bot =
                x.bot; sctx = x.sctx; asctx = x.asctx; dirty = x.dirty; xtw =
                x.xtw })) (fun _ -> tp') t)
       else t
     in
     Some (spec_home t1)
   | Ht -> Some (set_cursor t (spec_next_tab t (S O)) row false)
   | Lf ->
     if Nat.eqb row t.bot
     then None
     else let t1 =
            if Nat.ltb row (sub t.rows (S O))
            then set_cursor t vc (add row (S O)) false
            else t
          in
          Some (if t.nlm then set_cursor t1 O t1.cur_row false else t1)
   | Nel ->
     if Nat.eqb row t.bot
     then None
     else let t1 =
            if Nat.ltb row (sub t.rows (S O))
            then set_cursor t vc (add row (S O)) false
            else t
          in
          Some (set_cursor t1 O t1.cur_row false)
   | Ri ->
     if Nat.eqb row t.top
     then None
     else Some
            (if Nat.ltb O row
             then set_cursor t vc (sub row (S O)) false
             else t)
   | Vpa n0 ->
     Some (set_cursor t vc (spec_abs_row t (sub (n1 n0) (S O))) false)
   | Vpr n0 -> Some (set_cursor t vc (spec_down t (n1 n0)) false)
   | _ -> None)

(** val spec_ildl_range : term -> nat * nat **)

let spec_ildl_range t =
  if Nat.leb t.cur_row t.bot
  then (t.cur_row, (add t.bot (S O)))
  else (t.cur_row, t.rows)

(** val spec_scroll : term -> func -> term option **)

let spec_scroll t f =
  let row = t.cur_row in
  (match f with
   | Dl n0 ->
     let (a, z0) = spec_ildl_range t in Some (apply_scroll_up t a z0 (n1 n0))
   | Il n0 ->
     let (a, z0) = spec_ildl_range t in
     Some (apply_scroll_down t a z0 (n1 n0))
   | Lf ->
     if Nat.eqb row t.bot
     then let t1 = apply_scroll_up t t.top (add t.bot (S O)) (S O) in
          Some (if t.nlm then set_cursor t1 O row false else t1)
     else None
   | Nel ->
     if Nat.eqb row t.bot
     then Some
            (set_cursor (apply_scroll_up t t.top (add t.bot (S O)) (S O)) O
              row false)
     else None
   | Ri ->
     if Nat.eqb row t.top
     then Some (apply_scroll_down t t.top (add t.bot (S O)) (S O))
     else None
   | Sd n0 -> Some (apply_scroll_down t t.top (add t.bot (S O)) (n1 n0))
   | Su n0 -> Some (apply_scroll_up t t.top (add t.bot (S O)) (n1 n0))
   | _ -> None)

(** val may_touch_scrollback : func -> bool **)

let may_touch_scrollback = function
| Decrst _ -> true
| Decset _ -> true
| Dl _ -> true
| Lf -> true
| Nel -> true
| Print _ -> true
| Rep _ -> true
| Ris -> true
| Su _ -> true
| Xtwinops _ -> true
| _ -> false

(** val clear_cells : nat -> nat -> pen -> line -> line **)

let clear_cells a z0 p l =
  set (fun l0 -> l0.cells) (fun f ->
    let l0 = fun r -> f r.cells in
    (fun x -> { cells = (l0 x); wrapped = x.wrapped })) (fun _ ->
    app (firstn a l.cells) (app (blanks (sub z0 a) p) (skipn z0 l.cells))) l

(** val spec_edit : term -> func -> term option **)

let spec_edit t f =
  let col = t.cur_col in
  let row = t.cur_row in
  let p = t.tpen in
  let nc = t.cols in
  let v = tview t in
  (match f with
   | Dch n0 ->
     let col' = Nat.min col (sub nc (S O)) in
     let k = Nat.min (n1 n0) (sub nc col') in
     let t1 = if Nat.leb nc col then set_cursor t col' row false else t in
     Some
     (set_view t1
       (upd_row row (fun l ->
         unwrap
           (set (fun l0 -> l0.cells) (fun f0 ->
             let l0 = fun r -> f0 r.cells in
             (fun x -> { cells = (l0 x); wrapped = x.wrapped })) (fun _ ->
             app (firstn col' l.cells)
               (app (skipn (add col' k) l.cells) (blanks k p))) l)) v))
   | Decaln ->
     Some
       (set_view t
         (map (fun l ->
           set (fun l0 -> l0.cells) (fun f0 ->
             let l0 = fun r -> f0 r.cells in
             (fun x -> { cells = (l0 x); wrapped = x.wrapped })) (fun _ ->
             repeat { ch = (Npos (XI (XO (XI (XO (XO (XO XH))))))); cpen =
               default_pen } nc) l) v))
   | Ech n0 ->
     let k = Nat.min (n1 n0) (sub nc col) in
     Some
     (set_view t
       (upd_row row (fun l ->
         let l' = clear_cells col (add col k) p l in
         if Nat.eqb (add col k) nc then unwrap l' else l') v))
   | Ed s ->
     (match s with
      | EdBelow ->
        let v1 = upd_row row (fun l -> unwrap (clear_cells col nc p l)) v in
        Some
        (set_view t
          (app (firstn (add row (S O)) v1)
            (repeat (blank_line nc p) (sub (sub t.rows row) (S O)))))
      | EdAbove ->
        let v1 = upd_row row (clear_cells O (Nat.min (add col (S O)) nc) p) v
        in
        Some (set_view t (app (repeat (blank_line nc p) row) (skipn row v1)))
      | EdAll -> Some (set_view t (repeat (blank_line nc p) t.rows))
      | EdSavedLines -> Some t)
   | El s ->
     (match s with
      | ElToRight ->
        Some
          (set_view t
            (upd_row row (fun l -> unwrap (clear_cells col nc p l)) v))
      | ElToLeft ->
        Some
          (set_view t
            (upd_row row (clear_cells O (Nat.min (add col (S O)) nc) p) v))
      | ElAll ->
        Some
          (set_view t
            (upd_row row (fun l -> unwrap (clear_cells O nc p l)) v)))
   | Ich n0 ->
     let k = Nat.min (n1 n0) (sub nc col) in
     Some
     (set_view t
       (upd_row row (fun l ->
         set (fun l0 -> l0.cells) (fun f0 ->
           let l0 = fun r -> f0 r.cells in
           (fun x -> { cells = (l0 x); wrapped = x.wrapped })) (fun _ ->
           app (firstn col l.cells)
             (app (blanks k p)
               (firstn (sub (sub nc col) k) (skipn col l.cells)))) l) v))
   | _ -> None)

(** val is_italic : pen -> bool **)

let is_italic p =
  pen_has iTALIC_MASK p

(** val is_underline : pen -> bool **)

let is_underline p =
  pen_has uNDERLINE_MASK p

(** val is_strikethrough : pen -> bool **)

let is_strikethrough p =
  pen_has sTRIKETHROUGH_MASK p

(** val is_blink : pen -> bool **)

let is_blink p =
  pen_has bLINK_MASK p

(** val is_inverse : pen -> bool **)

let is_inverse p =
  pen_has iNVERSE_MASK p

type pen_obs = { o_fg : color option; o_bg : color option; o_int : inten;
                 o_italic : bool; o_underline : bool; o_blink : bool;
                 o_inverse : bool; o_strike : bool }

(** val observe : pen -> pen_obs **)

let observe p =
  { o_fg = p.foreground; o_bg = p.background; o_int = p.intensity; o_italic =
    (is_italic p); o_underline = (is_underline p); o_blink = (is_blink p);
    o_inverse = (is_inverse p); o_strike = (is_strikethrough p) }

(** val default_obs : pen_obs **)

let default_obs =
  { o_fg = None; o_bg = None; o_int = Normal; o_italic = false; o_underline =
    false; o_blink = false; o_inverse = false; o_strike = false }

(** val spec_sgr_one : pen_obs -> sgr_op -> pen_obs **)

let spec_sgr_one o op0 =
  let { o_fg = fg; o_bg = bg; o_int = i; o_italic = it; o_underline = un;
    o_blink = bl; o_inverse = inv; o_strike = st } = o
  in
  (match op0 with
   | Reset -> default_obs
   | SetBoldIntensity ->
     { o_fg = fg; o_bg = bg; o_int = Bold; o_italic = it; o_underline = un;
       o_blink = bl; o_inverse = inv; o_strike = st }
   | SetFaintIntensity ->
     { o_fg = fg; o_bg = bg; o_int = Faint; o_italic = it; o_underline = un;
       o_blink = bl; o_inverse = inv; o_strike = st }
   | SetItalic ->
     { o_fg = fg; o_bg = bg; o_int = i; o_italic = true; o_underline = un;
       o_blink = bl; o_inverse = inv; o_strike = st }
   | SetUnderline ->
     { o_fg = fg; o_bg = bg; o_int = i; o_italic = it; o_underline = true;
       o_blink = bl; o_inverse = inv; o_strike = st }
   | SetBlink ->
     { o_fg = fg; o_bg = bg; o_int = i; o_italic = it; o_underline = un;
       o_blink = true; o_inverse = inv; o_strike = st }
   | SetInverse ->
     { o_fg = fg; o_bg = bg; o_int = i; o_italic = it; o_underline = un;
       o_blink = bl; o_inverse = true; o_strike = st }
   | SetStrikethrough ->
     { o_fg = fg; o_bg = bg; o_int = i; o_italic = it; o_underline = un;
       o_blink = bl; o_inverse = inv; o_strike = true }
   | ResetIntensity ->
     { o_fg = fg; o_bg = bg; o_int = Normal; o_italic = it; o_underline = un;
       o_blink = bl; o_inverse = inv; o_strike = st }
   | ResetItalic ->
     { o_fg = fg; o_bg = bg; o_int = i; o_italic = false; o_underline = un;
       o_blink = bl; o_inverse = inv; o_strike = st }
   | ResetUnderline ->
     { o_fg = fg; o_bg = bg; o_int = i; o_italic = it; o_underline = false;
       o_blink = bl; o_inverse = inv; o_strike = st }
   | ResetBlink ->
     { o_fg = fg; o_bg = bg; o_int = i; o_italic = it; o_underline = un;
       o_blink = false; o_inverse = inv; o_strike = st }
   | ResetInverse ->
     { o_fg = fg; o_bg = bg; o_int = i; o_italic = it; o_underline = un;
       o_blink = bl; o_inverse = false; o_strike = st }
   | ResetStrikethrough ->
     { o_fg = fg; o_bg = bg; o_int = i; o_italic = it; o_underline = un;
       o_blink = bl; o_inverse = inv; o_strike = false }
   | SetForegroundColor c ->
     { o_fg = (Some c); o_bg = bg; o_int = i; o_italic = it; o_underline =
       un; o_blink = bl; o_inverse = inv; o_strike = st }
   | ResetForegroundColor ->
     { o_fg = None; o_bg = bg; o_int = i; o_italic = it; o_underline = un;
       o_blink = bl; o_inverse = inv; o_strike = st }
   | SetBackgroundColor c ->
     { o_fg = fg; o_bg = (Some c); o_int = i; o_italic = it; o_underline =
       un; o_blink = bl; o_inverse = inv; o_strike = st }
   | ResetBackgroundColor ->
     { o_fg = fg; o_bg = None; o_int = i; o_italic = it; o_underline = un;
       o_blink = bl; o_inverse = inv; o_strike = st })

(** val obs_eqb : pen_obs -> pen_obs -> bool **)

let obs_eqb a b =
  (&&)
    ((&&)
      ((&&)
        ((&&)
          ((&&)
            ((&&)
              ((&&) (opt_eqb color_eqb a.o_fg b.o_fg)
                (opt_eqb color_eqb a.o_bg b.o_bg))
              (inten_eqb a.o_int b.o_int)) (eqb a.o_italic b.o_italic))
          (eqb a.o_underline b.o_underline)) (eqb a.o_blink b.o_blink))
      (eqb a.o_inverse b.o_inverse)) (eqb a.o_strike b.o_strike)

(** val spec_sgr_code : n -> sgr_op option **)

let spec_sgr_code v = match v with
| N0 -> Some Reset
| Npos p ->
  (match p with
   | XI p0 ->
     (match p0 with
      | XI p1 ->
        (match p1 with
         | XI p2 ->
           (match p2 with
            | XO p3 ->
              (match p3 with
               | XI _ ->
                 if (&&) (N.leb (Npos (XO (XI (XI (XI XH))))) v)
                      (N.leb v (Npos (XI (XO (XI (XO (XO XH)))))))
                 then Some (SetForegroundColor (Indexed
                        (N.sub v (Npos (XO (XI (XI (XI XH))))))))
                 else if (&&) (N.leb (Npos (XO (XO (XO (XI (XO XH)))))) v)
                           (N.leb v (Npos (XI (XI (XI (XI (XO XH)))))))
                      then Some (SetBackgroundColor (Indexed
                             (N.sub v (Npos (XO (XO (XO (XI (XO XH)))))))))
                      else if (&&)
                                (N.leb (Npos (XO (XI (XO (XI (XI (XO
                                  XH))))))) v)
                                (N.leb v (Npos (XI (XO (XO (XO (XO (XI
                                  XH))))))))
                           then Some (SetForegroundColor (Indexed
                                  (N.add
                                    (N.sub v (Npos (XO (XI (XO (XI (XI (XO
                                      XH)))))))) (Npos (XO (XO (XO XH)))))))
                           else if (&&)
                                     (N.leb (Npos (XO (XO (XI (XO (XO (XI
                                       XH))))))) v)
                                     (N.leb v (Npos (XI (XI (XO (XI (XO (XI
                                       XH))))))))
                                then Some (SetBackgroundColor (Indexed
                                       (N.add
                                         (N.sub v (Npos (XO (XO (XI (XO (XO
                                           (XI XH)))))))) (Npos (XO (XO (XO
                                         XH)))))))
                                else None
               | XO p4 ->
                 (match p4 with
                  | XH -> Some ResetForegroundColor
                  | _ ->
                    if (&&) (N.leb (Npos (XO (XI (XI (XI XH))))) v)
                         (N.leb v (Npos (XI (XO (XI (XO (XO XH)))))))
                    then Some (SetForegroundColor (Indexed
                           (N.sub v (Npos (XO (XI (XI (XI XH))))))))
                    else if (&&) (N.leb (Npos (XO (XO (XO (XI (XO XH)))))) v)
                              (N.leb v (Npos (XI (XI (XI (XI (XO XH)))))))
                         then Some (SetBackgroundColor (Indexed
                                (N.sub v (Npos (XO (XO (XO (XI (XO XH)))))))))
                         else if (&&)
                                   (N.leb (Npos (XO (XI (XO (XI (XI (XO
                                     XH))))))) v)
                                   (N.leb v (Npos (XI (XO (XO (XO (XO (XI
                                     XH))))))))
                              then Some (SetForegroundColor (Indexed
                                     (N.add
                                       (N.sub v (Npos (XO (XI (XO (XI (XI (XO
                                         XH)))))))) (Npos (XO (XO (XO XH)))))))
                              else if (&&)
                                        (N.leb (Npos (XO (XO (XI (XO (XO (XI
                                          XH))))))) v)
                                        (N.leb v (Npos (XI (XI (XO (XI (XO
                                          (XI XH))))))))
                                   then Some (SetBackgroundColor (Indexed
                                          (N.add
                                            (N.sub v (Npos (XO (XO (XI (XO
                                              (XO (XI XH)))))))) (Npos (XO
                                            (XO (XO XH)))))))
                                   else None)
               | XH -> Some ResetItalic)
            | _ ->
              if (&&) (N.leb (Npos (XO (XI (XI (XI XH))))) v)
                   (N.leb v (Npos (XI (XO (XI (XO (XO XH)))))))
              then Some (SetForegroundColor (Indexed
                     (N.sub v (Npos (XO (XI (XI (XI XH))))))))
              else if (&&) (N.leb (Npos (XO (XO (XO (XI (XO XH)))))) v)
                        (N.leb v (Npos (XI (XI (XI (XI (XO XH)))))))
                   then Some (SetBackgroundColor (Indexed
                          (N.sub v (Npos (XO (XO (XO (XI (XO XH)))))))))
                   else if (&&)
                             (N.leb (Npos (XO (XI (XO (XI (XI (XO XH))))))) v)
                             (N.leb v (Npos (XI (XO (XO (XO (XO (XI XH))))))))
                        then Some (SetForegroundColor (Indexed
                               (N.add
                                 (N.sub v (Npos (XO (XI (XO (XI (XI (XO
                                   XH)))))))) (Npos (XO (XO (XO XH)))))))
                        else if (&&)
                                  (N.leb (Npos (XO (XO (XI (XO (XO (XI
                                    XH))))))) v)
                                  (N.leb v (Npos (XI (XI (XO (XI (XO (XI
                                    XH))))))))
                             then Some (SetBackgroundColor (Indexed
                                    (N.add
                                      (N.sub v (Npos (XO (XO (XI (XO (XO (XI
                                        XH)))))))) (Npos (XO (XO (XO XH)))))))
                             else None)
         | XO p2 ->
           (match p2 with
            | XI p3 ->
              (match p3 with
               | XH -> Some ResetInverse
               | _ ->
                 if (&&) (N.leb (Npos (XO (XI (XI (XI XH))))) v)
                      (N.leb v (Npos (XI (XO (XI (XO (XO XH)))))))
                 then Some (SetForegroundColor (Indexed
                        (N.sub v (Npos (XO (XI (XI (XI XH))))))))
                 else if (&&) (N.leb (Npos (XO (XO (XO (XI (XO XH)))))) v)
                           (N.leb v (Npos (XI (XI (XI (XI (XO XH)))))))
                      then Some (SetBackgroundColor (Indexed
                             (N.sub v (Npos (XO (XO (XO (XI (XO XH)))))))))
                      else if (&&)
                                (N.leb (Npos (XO (XI (XO (XI (XI (XO
                                  XH))))))) v)
                                (N.leb v (Npos (XI (XO (XO (XO (XO (XI
                                  XH))))))))
                           then Some (SetForegroundColor (Indexed
                                  (N.add
                                    (N.sub v (Npos (XO (XI (XO (XI (XI (XO
                                      XH)))))))) (Npos (XO (XO (XO XH)))))))
                           else if (&&)
                                     (N.leb (Npos (XO (XO (XI (XO (XO (XI
                                       XH))))))) v)
                                     (N.leb v (Npos (XI (XI (XO (XI (XO (XI
                                       XH))))))))
                                then Some (SetBackgroundColor (Indexed
                                       (N.add
                                         (N.sub v (Npos (XO (XO (XI (XO (XO
                                           (XI XH)))))))) (Npos (XO (XO (XO
                                         XH)))))))
                                else None)
            | _ ->
              if (&&) (N.leb (Npos (XO (XI (XI (XI XH))))) v)
                   (N.leb v (Npos (XI (XO (XI (XO (XO XH)))))))
              then Some (SetForegroundColor (Indexed
                     (N.sub v (Npos (XO (XI (XI (XI XH))))))))
              else if (&&) (N.leb (Npos (XO (XO (XO (XI (XO XH)))))) v)
                        (N.leb v (Npos (XI (XI (XI (XI (XO XH)))))))
                   then Some (SetBackgroundColor (Indexed
                          (N.sub v (Npos (XO (XO (XO (XI (XO XH)))))))))
                   else if (&&)
                             (N.leb (Npos (XO (XI (XO (XI (XI (XO XH))))))) v)
                             (N.leb v (Npos (XI (XO (XO (XO (XO (XI XH))))))))
                        then Some (SetForegroundColor (Indexed
                               (N.add
                                 (N.sub v (Npos (XO (XI (XO (XI (XI (XO
                                   XH)))))))) (Npos (XO (XO (XO XH)))))))
                        else if (&&)
                                  (N.leb (Npos (XO (XO (XI (XO (XO (XI
                                    XH))))))) v)
                                  (N.leb v (Npos (XI (XI (XO (XI (XO (XI
                                    XH))))))))
                             then Some (SetBackgroundColor (Indexed
                                    (N.add
                                      (N.sub v (Npos (XO (XO (XI (XO (XO (XI
                                        XH)))))))) (Npos (XO (XO (XO XH)))))))
                             else None)
         | XH -> Some SetInverse)
      | XO p1 ->
        (match p1 with
         | XI p2 ->
           (match p2 with
            | XI p3 ->
              (match p3 with
               | XH -> Some ResetStrikethrough
               | _ ->
                 if (&&) (N.leb (Npos (XO (XI (XI (XI XH))))) v)
                      (N.leb v (Npos (XI (XO (XI (XO (XO XH)))))))
                 then Some (SetForegroundColor (Indexed
                        (N.sub v (Npos (XO (XI (XI (XI XH))))))))
                 else if (&&) (N.leb (Npos (XO (XO (XO (XI (XO XH)))))) v)
                           (N.leb v (Npos (XI (XI (XI (XI (XO XH)))))))
                      then Some (SetBackgroundColor (Indexed
                             (N.sub v (Npos (XO (XO (XO (XI (XO XH)))))))))
                      else if (&&)
                                (N.leb (Npos (XO (XI (XO (XI (XI (XO
                                  XH))))))) v)
                                (N.leb v (Npos (XI (XO (XO (XO (XO (XI
                                  XH))))))))
                           then Some (SetForegroundColor (Indexed
                                  (N.add
                                    (N.sub v (Npos (XO (XI (XO (XI (XI (XO
                                      XH)))))))) (Npos (XO (XO (XO XH)))))))
                           else if (&&)
                                     (N.leb (Npos (XO (XO (XI (XO (XO (XI
                                       XH))))))) v)
                                     (N.leb v (Npos (XI (XI (XO (XI (XO (XI
                                       XH))))))))
                                then Some (SetBackgroundColor (Indexed
                                       (N.add
                                         (N.sub v (Npos (XO (XO (XI (XO (XO
                                           (XI XH)))))))) (Npos (XO (XO (XO
                                         XH)))))))
                                else None)
            | XO p3 ->
              (match p3 with
               | XH -> Some ResetIntensity
               | _ ->
                 if (&&) (N.leb (Npos (XO (XI (XI (XI XH))))) v)
                      (N.leb v (Npos (XI (XO (XI (XO (XO XH)))))))
                 then Some (SetForegroundColor (Indexed
                        (N.sub v (Npos (XO (XI (XI (XI XH))))))))
                 else if (&&) (N.leb (Npos (XO (XO (XO (XI (XO XH)))))) v)
                           (N.leb v (Npos (XI (XI (XI (XI (XO XH)))))))
                      then Some (SetBackgroundColor (Indexed
                             (N.sub v (Npos (XO (XO (XO (XI (XO XH)))))))))
                      else if (&&)
                                (N.leb (Npos (XO (XI (XO (XI (XI (XO
                                  XH))))))) v)
                                (N.leb v (Npos (XI (XO (XO (XO (XO (XI
                                  XH))))))))
                           then Some (SetForegroundColor (Indexed
                                  (N.add
                                    (N.sub v (Npos (XO (XI (XO (XI (XI (XO
                                      XH)))))))) (Npos (XO (XO (XO XH)))))))
                           else if (&&)
                                     (N.leb (Npos (XO (XO (XI (XO (XO (XI
                                       XH))))))) v)
                                     (N.leb v (Npos (XI (XI (XO (XI (XO (XI
                                       XH))))))))
                                then Some (SetBackgroundColor (Indexed
                                       (N.add
                                         (N.sub v (Npos (XO (XO (XI (XO (XO
                                           (XI XH)))))))) (Npos (XO (XO (XO
                                         XH)))))))
                                else None)
            | XH ->
              if (&&) (N.leb (Npos (XO (XI (XI (XI XH))))) v)
                   (N.leb v (Npos (XI (XO (XI (XO (XO XH)))))))
              then Some (SetForegroundColor (Indexed
                     (N.sub v (Npos (XO (XI (XI (XI XH))))))))
              else if (&&) (N.leb (Npos (XO (XO (XO (XI (XO XH)))))) v)
                        (N.leb v (Npos (XI (XI (XI (XI (XO XH)))))))
                   then Some (SetBackgroundColor (Indexed
                          (N.sub v (Npos (XO (XO (XO (XI (XO XH)))))))))
                   else if (&&)
                             (N.leb (Npos (XO (XI (XO (XI (XI (XO XH))))))) v)
                             (N.leb v (Npos (XI (XO (XO (XO (XO (XI XH))))))))
                        then Some (SetForegroundColor (Indexed
                               (N.add
                                 (N.sub v (Npos (XO (XI (XO (XI (XI (XO
                                   XH)))))))) (Npos (XO (XO (XO XH)))))))
                        else if (&&)
                                  (N.leb (Npos (XO (XO (XI (XO (XO (XI
                                    XH))))))) v)
                                  (N.leb v (Npos (XI (XI (XO (XI (XO (XI
                                    XH))))))))
                             then Some (SetBackgroundColor (Indexed
                                    (N.add
                                      (N.sub v (Npos (XO (XO (XI (XO (XO (XI
                                        XH)))))))) (Npos (XO (XO (XO XH)))))))
                             else None)
         | XO p2 ->
           (match p2 with
            | XI p3 ->
              (match p3 with
               | XH -> Some ResetBlink
               | _ ->
                 if (&&) (N.leb (Npos (XO (XI (XI (XI XH))))) v)
                      (N.leb v (Npos (XI (XO (XI (XO (XO XH)))))))
                 then Some (SetForegroundColor (Indexed
                        (N.sub v (Npos (XO (XI (XI (XI XH))))))))
                 else if (&&) (N.leb (Npos (XO (XO (XO (XI (XO XH)))))) v)
                           (N.leb v (Npos (XI (XI (XI (XI (XO XH)))))))
                      then Some (SetBackgroundColor (Indexed
                             (N.sub v (Npos (XO (XO (XO (XI (XO XH)))))))))
                      else if (&&)
                                (N.leb (Npos (XO (XI (XO (XI (XI (XO
                                  XH))))))) v)
                                (N.leb v (Npos (XI (XO (XO (XO (XO (XI
                                  XH))))))))
                           then Some (SetForegroundColor (Indexed
                                  (N.add
                                    (N.sub v (Npos (XO (XI (XO (XI (XI (XO
                                      XH)))))))) (Npos (XO (XO (XO XH)))))))
                           else if (&&)
                                     (N.leb (Npos (XO (XO (XI (XO (XO (XI
                                       XH))))))) v)
                                     (N.leb v (Npos (XI (XI (XO (XI (XO (XI
                                       XH))))))))
                                then Some (SetBackgroundColor (Indexed
                                       (N.add
                                         (N.sub v (Npos (XO (XO (XI (XO (XO
                                           (XI XH)))))))) (Npos (XO (XO (XO
                                         XH)))))))
                                else None)
            | XO p3 ->
              (match p3 with
               | XI p4 ->
                 (match p4 with
                  | XH -> Some ResetBackgroundColor
                  | _ ->
                    if (&&) (N.leb (Npos (XO (XI (XI (XI XH))))) v)
                         (N.leb v (Npos (XI (XO (XI (XO (XO XH)))))))
                    then Some (SetForegroundColor (Indexed
                           (N.sub v (Npos (XO (XI (XI (XI XH))))))))
                    else if (&&) (N.leb (Npos (XO (XO (XO (XI (XO XH)))))) v)
                              (N.leb v (Npos (XI (XI (XI (XI (XO XH)))))))
                         then Some (SetBackgroundColor (Indexed
                                (N.sub v (Npos (XO (XO (XO (XI (XO XH)))))))))
                         else if (&&)
                                   (N.leb (Npos (XO (XI (XO (XI (XI (XO
                                     XH))))))) v)
                                   (N.leb v (Npos (XI (XO (XO (XO (XO (XI
                                     XH))))))))
                              then Some (SetForegroundColor (Indexed
                                     (N.add
                                       (N.sub v (Npos (XO (XI (XO (XI (XI (XO
                                         XH)))))))) (Npos (XO (XO (XO XH)))))))
                              else if (&&)
                                        (N.leb (Npos (XO (XO (XI (XO (XO (XI
                                          XH))))))) v)
                                        (N.leb v (Npos (XI (XI (XO (XI (XO
                                          (XI XH))))))))
                                   then Some (SetBackgroundColor (Indexed
                                          (N.add
                                            (N.sub v (Npos (XO (XO (XI (XO
                                              (XO (XI XH)))))))) (Npos (XO
                                            (XO (XO XH)))))))
                                   else None)
               | _ ->
                 if (&&) (N.leb (Npos (XO (XI (XI (XI XH))))) v)
                      (N.leb v (Npos (XI (XO (XI (XO (XO XH)))))))
                 then Some (SetForegroundColor (Indexed
                        (N.sub v (Npos (XO (XI (XI (XI XH))))))))
                 else if (&&) (N.leb (Npos (XO (XO (XO (XI (XO XH)))))) v)
                           (N.leb v (Npos (XI (XI (XI (XI (XO XH)))))))
                      then Some (SetBackgroundColor (Indexed
                             (N.sub v (Npos (XO (XO (XO (XI (XO XH)))))))))
                      else if (&&)
                                (N.leb (Npos (XO (XI (XO (XI (XI (XO
                                  XH))))))) v)
                                (N.leb v (Npos (XI (XO (XO (XO (XO (XI
                                  XH))))))))
                           then Some (SetForegroundColor (Indexed
                                  (N.add
                                    (N.sub v (Npos (XO (XI (XO (XI (XI (XO
                                      XH)))))))) (Npos (XO (XO (XO XH)))))))
                           else if (&&)
                                     (N.leb (Npos (XO (XO (XI (XO (XO (XI
                                       XH))))))) v)
                                     (N.leb v (Npos (XI (XI (XO (XI (XO (XI
                                       XH))))))))
                                then Some (SetBackgroundColor (Indexed
                                       (N.add
                                         (N.sub v (Npos (XO (XO (XI (XO (XO
                                           (XI XH)))))))) (Npos (XO (XO (XO
                                         XH)))))))
                                else None)
            | XH -> Some SetStrikethrough)
         | XH -> Some SetBlink)
      | XH -> Some SetItalic)
   | XO p0 ->
     (match p0 with
      | XI p1 ->
        (match p1 with
         | XI p2 ->
           (match p2 with
            | XO p3 ->
              (match p3 with
               | XH -> Some ResetIntensity
               | _ ->
                 if (&&) (N.leb (Npos (XO (XI (XI (XI XH))))) v)
                      (N.leb v (Npos (XI (XO (XI (XO (XO XH)))))))
                 then Some (SetForegroundColor (Indexed
                        (N.sub v (Npos (XO (XI (XI (XI XH))))))))
                 else if (&&) (N.leb (Npos (XO (XO (XO (XI (XO XH)))))) v)
                           (N.leb v (Npos (XI (XI (XI (XI (XO XH)))))))
                      then Some (SetBackgroundColor (Indexed
                             (N.sub v (Npos (XO (XO (XO (XI (XO XH)))))))))
                      else if (&&)
                                (N.leb (Npos (XO (XI (XO (XI (XI (XO
                                  XH))))))) v)
                                (N.leb v (Npos (XI (XO (XO (XO (XO (XI
                                  XH))))))))
                           then Some (SetForegroundColor (Indexed
                                  (N.add
                                    (N.sub v (Npos (XO (XI (XO (XI (XI (XO
                                      XH)))))))) (Npos (XO (XO (XO XH)))))))
                           else if (&&)
                                     (N.leb (Npos (XO (XO (XI (XO (XO (XI
                                       XH))))))) v)
                                     (N.leb v (Npos (XI (XI (XO (XI (XO (XI
                                       XH))))))))
                                then Some (SetBackgroundColor (Indexed
                                       (N.add
                                         (N.sub v (Npos (XO (XO (XI (XO (XO
                                           (XI XH)))))))) (Npos (XO (XO (XO
                                         XH)))))))
                                else None)
            | _ ->
              if (&&) (N.leb (Npos (XO (XI (XI (XI XH))))) v)
                   (N.leb v (Npos (XI (XO (XI (XO (XO XH)))))))
              then Some (SetForegroundColor (Indexed
                     (N.sub v (Npos (XO (XI (XI (XI XH))))))))
              else if (&&) (N.leb (Npos (XO (XO (XO (XI (XO XH)))))) v)
                        (N.leb v (Npos (XI (XI (XI (XI (XO XH)))))))
                   then Some (SetBackgroundColor (Indexed
                          (N.sub v (Npos (XO (XO (XO (XI (XO XH)))))))))
                   else if (&&)
                             (N.leb (Npos (XO (XI (XO (XI (XI (XO XH))))))) v)
                             (N.leb v (Npos (XI (XO (XO (XO (XO (XI XH))))))))
                        then Some (SetForegroundColor (Indexed
                               (N.add
                                 (N.sub v (Npos (XO (XI (XO (XI (XI (XO
                                   XH)))))))) (Npos (XO (XO (XO XH)))))))
                        else if (&&)
                                  (N.leb (Npos (XO (XO (XI (XO (XO (XI
                                    XH))))))) v)
                                  (N.leb v (Npos (XI (XI (XO (XI (XO (XI
                                    XH))))))))
                             then Some (SetBackgroundColor (Indexed
                                    (N.add
                                      (N.sub v (Npos (XO (XO (XI (XO (XO (XI
                                        XH)))))))) (Npos (XO (XO (XO XH)))))))
                             else None)
         | _ ->
           if (&&) (N.leb (Npos (XO (XI (XI (XI XH))))) v)
                (N.leb v (Npos (XI (XO (XI (XO (XO XH)))))))
           then Some (SetForegroundColor (Indexed
                  (N.sub v (Npos (XO (XI (XI (XI XH))))))))
           else if (&&) (N.leb (Npos (XO (XO (XO (XI (XO XH)))))) v)
                     (N.leb v (Npos (XI (XI (XI (XI (XO XH)))))))
                then Some (SetBackgroundColor (Indexed
                       (N.sub v (Npos (XO (XO (XO (XI (XO XH)))))))))
                else if (&&)
                          (N.leb (Npos (XO (XI (XO (XI (XI (XO XH))))))) v)
                          (N.leb v (Npos (XI (XO (XO (XO (XO (XI XH))))))))
                     then Some (SetForegroundColor (Indexed
                            (N.add
                              (N.sub v (Npos (XO (XI (XO (XI (XI (XO
                                XH)))))))) (Npos (XO (XO (XO XH)))))))
                     else if (&&)
                               (N.leb (Npos (XO (XO (XI (XO (XO (XI XH)))))))
                                 v)
                               (N.leb v (Npos (XI (XI (XO (XI (XO (XI
                                 XH))))))))
                          then Some (SetBackgroundColor (Indexed
                                 (N.add
                                   (N.sub v (Npos (XO (XO (XI (XO (XO (XI
                                     XH)))))))) (Npos (XO (XO (XO XH)))))))
                          else None)
      | XO p1 ->
        (match p1 with
         | XI _ ->
           if (&&) (N.leb (Npos (XO (XI (XI (XI XH))))) v)
                (N.leb v (Npos (XI (XO (XI (XO (XO XH)))))))
           then Some (SetForegroundColor (Indexed
                  (N.sub v (Npos (XO (XI (XI (XI XH))))))))
           else if (&&) (N.leb (Npos (XO (XO (XO (XI (XO XH)))))) v)
                     (N.leb v (Npos (XI (XI (XI (XI (XO XH)))))))
                then Some (SetBackgroundColor (Indexed
                       (N.sub v (Npos (XO (XO (XO (XI (XO XH)))))))))
                else if (&&)
                          (N.leb (Npos (XO (XI (XO (XI (XI (XO XH))))))) v)
                          (N.leb v (Npos (XI (XO (XO (XO (XO (XI XH))))))))
                     then Some (SetForegroundColor (Indexed
                            (N.add
                              (N.sub v (Npos (XO (XI (XO (XI (XI (XO
                                XH)))))))) (Npos (XO (XO (XO XH)))))))
                     else if (&&)
                               (N.leb (Npos (XO (XO (XI (XO (XO (XI XH)))))))
                                 v)
                               (N.leb v (Npos (XI (XI (XO (XI (XO (XI
                                 XH))))))))
                          then Some (SetBackgroundColor (Indexed
                                 (N.add
                                   (N.sub v (Npos (XO (XO (XI (XO (XO (XI
                                     XH)))))))) (Npos (XO (XO (XO XH)))))))
                          else None
         | XO p2 ->
           (match p2 with
            | XI p3 ->
              (match p3 with
               | XH -> Some ResetUnderline
               | _ ->
                 if (&&) (N.leb (Npos (XO (XI (XI (XI XH))))) v)
                      (N.leb v (Npos (XI (XO (XI (XO (XO XH)))))))
                 then Some (SetForegroundColor (Indexed
                        (N.sub v (Npos (XO (XI (XI (XI XH))))))))
                 else if (&&) (N.leb (Npos (XO (XO (XO (XI (XO XH)))))) v)
                           (N.leb v (Npos (XI (XI (XI (XI (XO XH)))))))
                      then Some (SetBackgroundColor (Indexed
                             (N.sub v (Npos (XO (XO (XO (XI (XO XH)))))))))
                      else if (&&)
                                (N.leb (Npos (XO (XI (XO (XI (XI (XO
                                  XH))))))) v)
                                (N.leb v (Npos (XI (XO (XO (XO (XO (XI
                                  XH))))))))
                           then Some (SetForegroundColor (Indexed
                                  (N.add
                                    (N.sub v (Npos (XO (XI (XO (XI (XI (XO
                                      XH)))))))) (Npos (XO (XO (XO XH)))))))
                           else if (&&)
                                     (N.leb (Npos (XO (XO (XI (XO (XO (XI
                                       XH))))))) v)
                                     (N.leb v (Npos (XI (XI (XO (XI (XO (XI
                                       XH))))))))
                                then Some (SetBackgroundColor (Indexed
                                       (N.add
                                         (N.sub v (Npos (XO (XO (XI (XO (XO
                                           (XI XH)))))))) (Npos (XO (XO (XO
                                         XH)))))))
                                else None)
            | _ ->
              if (&&) (N.leb (Npos (XO (XI (XI (XI XH))))) v)
                   (N.leb v (Npos (XI (XO (XI (XO (XO XH)))))))
              then Some (SetForegroundColor (Indexed
                     (N.sub v (Npos (XO (XI (XI (XI XH))))))))
              else if (&&) (N.leb (Npos (XO (XO (XO (XI (XO XH)))))) v)
                        (N.leb v (Npos (XI (XI (XI (XI (XO XH)))))))
                   then Some (SetBackgroundColor (Indexed
                          (N.sub v (Npos (XO (XO (XO (XI (XO XH)))))))))
                   else if (&&)
                             (N.leb (Npos (XO (XI (XO (XI (XI (XO XH))))))) v)
                             (N.leb v (Npos (XI (XO (XO (XO (XO (XI XH))))))))
                        then Some (SetForegroundColor (Indexed
                               (N.add
                                 (N.sub v (Npos (XO (XI (XO (XI (XI (XO
                                   XH)))))))) (Npos (XO (XO (XO XH)))))))
                        else if (&&)
                                  (N.leb (Npos (XO (XO (XI (XO (XO (XI
                                    XH))))))) v)
                                  (N.leb v (Npos (XI (XI (XO (XI (XO (XI
                                    XH))))))))
                             then Some (SetBackgroundColor (Indexed
                                    (N.add
                                      (N.sub v (Npos (XO (XO (XI (XO (XO (XI
                                        XH)))))))) (Npos (XO (XO (XO XH)))))))
                             else None)
         | XH -> Some SetUnderline)
      | XH -> Some SetFaintIntensity)
   | XH -> Some SetBoldIntensity)

(** val byte : n -> n **)

let byte n0 =
  N.modulo n0 (Npos (XO (XO (XO (XO (XO (XO (XO (XO XH)))))))))

(** val first_part : n list -> n **)

let first_part l =
  hd N0 l

(** val spec_sgr : nat -> n list list -> sgr_op list **)

let rec spec_sgr fuel ps =
  match fuel with
  | O -> []
  | S fuel0 ->
    let cons_opt = fun o r -> match o with
                              | Some x -> x :: r
                              | None -> r in
    (match ps with
     | [] -> []
     | l :: rest ->
       (match l with
        | [] -> spec_sgr fuel0 rest
        | v :: l0 ->
          (match l0 with
           | [] ->
             if (||) (N.eqb v (Npos (XO (XI (XI (XO (XO XH)))))))
                  (N.eqb v (Npos (XO (XO (XO (XO (XI XH)))))))
             then let mk = fun c ->
                    if N.eqb v (Npos (XO (XI (XI (XO (XO XH))))))
                    then SetForegroundColor c
                    else SetBackgroundColor c
                  in
                  (match rest with
                   | [] -> spec_sgr fuel0 rest
                   | l1 :: rest' ->
                     (match l1 with
                      | [] -> spec_sgr fuel0 rest
                      | n0 :: l2 ->
                        (match n0 with
                         | N0 -> spec_sgr fuel0 rest
                         | Npos p ->
                           (match p with
                            | XI p0 ->
                              (match p0 with
                               | XO p1 ->
                                 (match p1 with
                                  | XH ->
                                    (match l2 with
                                     | [] ->
                                       (match rest' with
                                        | [] -> spec_sgr fuel0 rest'
                                        | i :: rest'0 ->
                                          (mk (Indexed (byte (first_part i)))) :: 
                                            (spec_sgr fuel0 rest'0))
                                     | _ :: _ -> spec_sgr fuel0 rest)
                                  | _ -> spec_sgr fuel0 rest)
                               | _ -> spec_sgr fuel0 rest)
                            | XO p0 ->
                              (match p0 with
                               | XH ->
                                 (match l2 with
                                  | [] ->
                                    (match rest' with
                                     | [] -> spec_sgr fuel0 rest'
                                     | r :: l3 ->
                                       (match l3 with
                                        | [] -> spec_sgr fuel0 rest'
                                        | g :: l4 ->
                                          (match l4 with
                                           | [] -> spec_sgr fuel0 rest'
                                           | b :: rest'0 ->
                                             (mk (RGB ((byte (first_part r)),
                                               (byte (first_part g)),
                                               (byte (first_part b))))) :: 
                                               (spec_sgr fuel0 rest'0))))
                                  | _ :: _ -> spec_sgr fuel0 rest)
                               | _ -> spec_sgr fuel0 rest)
                            | XH -> spec_sgr fuel0 rest))))
             else cons_opt (spec_sgr_code v) (spec_sgr fuel0 rest)
           | n0 :: l1 ->
             (match n0 with
              | N0 -> spec_sgr fuel0 rest
              | Npos p ->
                (match p with
                 | XI p0 ->
                   (match p0 with
                    | XO p1 ->
                      (match p1 with
                       | XH ->
                         (match l1 with
                          | [] -> spec_sgr fuel0 rest
                          | i :: l2 ->
                            (match l2 with
                             | [] ->
                               if N.eqb v (Npos (XO (XI (XI (XO (XO XH))))))
                               then (SetForegroundColor (Indexed
                                      (byte i))) :: (spec_sgr fuel0 rest)
                               else if N.eqb v (Npos (XO (XO (XO (XO (XI
                                         XH))))))
                                    then (SetBackgroundColor (Indexed
                                           (byte i))) :: (spec_sgr fuel0 rest)
                                    else spec_sgr fuel0 rest
                             | _ :: _ -> spec_sgr fuel0 rest))
                       | _ -> spec_sgr fuel0 rest)
                    | _ -> spec_sgr fuel0 rest)
                 | XO p0 ->
                   (match p0 with
                    | XH ->
                      (match l1 with
                       | [] -> spec_sgr fuel0 rest
                       | r :: l2 ->
                         (match l2 with
                          | [] -> spec_sgr fuel0 rest
                          | r0 :: l3 ->
                            (match l3 with
                             | [] -> spec_sgr fuel0 rest
                             | g :: l4 ->
                               (match l4 with
                                | [] ->
                                  if N.eqb v (Npos (XO (XI (XI (XO (XO
                                       XH))))))
                                  then (SetForegroundColor (RGB ((byte r),
                                         (byte r0),
                                         (byte g)))) :: (spec_sgr fuel0 rest)
                                  else if N.eqb v (Npos (XO (XO (XO (XO (XI
                                            XH))))))
                                       then (SetBackgroundColor (RGB
                                              ((byte r), (byte r0),
                                              (byte g)))) :: (spec_sgr fuel0
                                                               rest)
                                       else spec_sgr fuel0 rest
                                | b :: l5 ->
                                  (match l5 with
                                   | [] ->
                                     if N.eqb v (Npos (XO (XI (XI (XO (XO
                                          XH))))))
                                     then (SetForegroundColor (RGB
                                            ((byte r0), (byte g),
                                            (byte b)))) :: (spec_sgr fuel0
                                                             rest)
                                     else if N.eqb v (Npos (XO (XO (XO (XO
                                               (XI XH))))))
                                          then (SetBackgroundColor (RGB
                                                 ((byte r0), (byte g),
                                                 (byte b)))) :: (spec_sgr
                                                                  fuel0 rest)
                                          else spec_sgr fuel0 rest
                                   | _ :: _ -> spec_sgr fuel0 rest)))))
                    | _ -> spec_sgr fuel0 rest)
                 | XH -> spec_sgr fuel0 rest)))))

(** val spec_sgr_params : param list -> sgr_op list **)

let spec_sgr_params ps =
  spec_sgr (S (length ps)) (map pparts ps)

(** val is_stop : nat list -> nat -> bool **)

let is_stop l k =
  existsb (Nat.eqb k) l

(** val default_stop : nat -> nat -> bool **)

let default_stop c k =
  (&&) ((&&) (Nat.ltb O k) (Nat.ltb k c))
    (Nat.eqb (Nat.modulo k (S (S (S (S (S (S (S (S O))))))))) O)

(** val saved_of : term -> btype -> saved_ctx **)

let saved_of t s =
  if btype_eqb t.active s then t.sctx else t.asctx

(** val spec_saved_now : term -> saved_ctx **)

let spec_saved_now t =
  { sc_col = (viscol t); sc_row = t.cur_row; sc_pen = t.tpen; sc_origin =
    t.org; sc_awm = t.awm }

(** val spec_restore : term -> term **)

let spec_restore t =
  let c = t.sctx in
  set (fun t0 -> t0.pend) (fun f ->
    let b = fun r -> f r.pend in
    (fun x -> { cols = x.cols; rows = x.rows; buf = x.buf; other = x.other;
    active = x.active; sb_limit = x.sb_limit; cur_col = x.cur_col; cur_row =
    x.cur_row; cur_vis = x.cur_vis; tpen = x.tpen; cs0 = x.cs0; cs1 = x.cs1;
    acs = x.acs; tabs = x.tabs; ins = x.ins; org = x.org; awm = x.awm; nlm =
    x.nlm; ckm = x.ckm; pend = (b x); top = x.top; bot = x.bot; sctx =
    x.sctx; asctx = x.asctx; dirty = x.dirty; xtw = x.xtw })) (fun _ ->
    false)
    (set (fun t0 -> t0.awm) (fun f ->
      let b = fun r -> f r.awm in
      (fun x -> { cols = x.cols; rows = x.rows; buf = x.buf; other = x.other;
      active = x.active; sb_limit = x.sb_limit; cur_col = x.cur_col;
      cur_row = x.cur_row; cur_vis = x.cur_vis; tpen = x.tpen; cs0 = x.cs0;
      cs1 = x.cs1; acs = x.acs; tabs = x.tabs; ins = x.ins; org = x.org;
      awm = (b x); nlm = x.nlm; ckm = x.ckm; pend = x.pend; top = x.top;
      bot = x.bot; sctx = x.sctx; asctx = x.asctx; dirty = x.dirty; xtw =
      x.xtw })) (fun _ -> c.sc_awm)
      (set (fun t0 -> t0.org) (fun f ->
        let b = fun r -> f r.org in
        (fun x -> { cols = x.cols; rows = x.rows; buf = x.buf; other =
        x.other; active = x.active; sb_limit = x.sb_limit; cur_col =
        x.cur_col; cur_row = x.cur_row; cur_vis = x.cur_vis; tpen = x.tpen;
        cs0 = x.cs0; cs1 = x.cs1; acs = x.acs; tabs = x.tabs; ins = x.ins;
        org = (b x); awm = x.awm; nlm = x.nlm; ckm = x.ckm; pend = x.pend;
        top = x.top; bot = x.bot; sctx = x.sctx; asctx = x.asctx; dirty =
        x.dirty; xtw = x.xtw })) (fun _ -> c.sc_origin)
        (set (fun t0 -> t0.tpen) (fun f ->
          let p = fun r -> f r.tpen in
          (fun x -> { cols = x.cols; rows = x.rows; buf = x.buf; other =
          x.other; active = x.active; sb_limit = x.sb_limit; cur_col =
          x.cur_col; cur_row = x.cur_row; cur_vis = x.cur_vis; tpen = 
          (p x); cs0 = x.cs0; cs1 = x.cs1; acs = x.acs; tabs = x.tabs; ins =
          x.ins; org = x.org; awm = x.awm; nlm = x.nlm; ckm = x.ckm; pend =
          x.pend; top = x.top; bot = x.bot; sctx = x.sctx; asctx = x.asctx;
          dirty = x.dirty; xtw = x.xtw })) (fun _ -> c.sc_pen)
          (set (fun t0 -> t0.cur_row) (fun f ->
            let n0 = fun r -> f r.cur_row in
            (fun x -> { cols = x.cols; rows = x.rows; buf = x.buf; other =
            x.other; active = x.active; sb_limit = x.sb_limit; cur_col =
            x.cur_col; cur_row = (n0 x); cur_vis = x.cur_vis; tpen = x.tpen;
            cs0 = x.cs0; cs1 = x.cs1; acs = x.acs; tabs = x.tabs; ins =
            x.ins; org = x.org; awm = x.awm; nlm = x.nlm; ckm = x.ckm; pend =
            x.pend; top = x.top; bot = x.bot; sctx = x.sctx; asctx = x.asctx;
            dirty = x.dirty; xtw = x.xtw })) (fun _ -> c.sc_row)
            (set (fun t0 -> t0.cur_col) (fun f ->
              let n0 = fun r -> f r.cur_col in
              (fun x -> { cols = x.cols; rows = x.rows; buf = x.buf; other =
              x.other; active = x.active; sb_limit = x.sb_limit; cur_col =
              (n0 x); cur_row = x.cur_row; cur_vis = x.cur_vis; tpen =
              x.tpen; cs0 = x.cs0; cs1 = x.cs1; acs = x.acs; tabs = x.tabs;
              ins = x.ins; org = x.org; awm = x.awm; nlm = x.nlm; ckm =
              x.ckm; pend = x.pend; top = x.top; bot = x.bot; sctx = x.sctx;
              asctx = x.asctx; dirty = x.dirty; xtw = x.xtw })) (fun _ ->
              c.sc_col) t)))))

(** val line_ok : nat -> line -> bool **)

let line_ok c l =
  Nat.eqb (length l.cells) c

(** val last_unwrapped : line list -> bool **)

let last_unwrapped ls =
  match last_opt ls with
  | Some l -> negb l.wrapped
  | None -> false

(** val buffer_geom_ok : buffer -> bool **)

let buffer_geom_ok b =
  (&&)
    ((&&)
      ((&&) ((&&) (Nat.leb (S O) b.bcols) (Nat.leb (S O) b.brows))
        (Nat.leb b.brows (length b.lines)))
      (forallb (line_ok b.bcols) b.lines)) (last_unwrapped b.lines)

(** val geom_ok : term -> bool **)

let geom_ok t =
  (&&)
    ((&&)
      ((&&)
        ((&&)
          ((&&)
            ((&&)
              ((&&) ((&&) (Nat.leb (S O) t.cols) (Nat.leb (S O) t.rows))
                (Nat.eqb t.buf.bcols t.cols)) (Nat.eqb t.buf.brows t.rows))
            (buffer_geom_ok t.buf)) (Nat.ltb t.cur_row t.rows))
        (Nat.leb t.cur_col t.cols)) (eqb t.pend (Nat.eqb t.cur_col t.cols)))
    (Nat.eqb (length t.dirty) t.rows)

(** val strictly_increasing_below : nat -> nat option -> nat list -> bool **)

let rec strictly_increasing_below bound prev = function
| [] -> true
| x :: r ->
  (&&)
    ((&&) (Nat.ltb x bound)
      (match prev with
       | Some p -> Nat.ltb p x
       | None -> true)) (strictly_increasing_below bound (Some x) r)

(** val inrng : n -> n -> n -> bool **)

let inrng lo hi c =
  (&&) (N.leb lo c) (N.leb c hi)

type strkind =
| KOsc
| KDcs
| KSos

(** val payload_ok : strkind -> n -> bool **)

let payload_ok k c =
  (&&)
    ((||)
      ((||)
        (inrng (Npos (XO (XO (XO (XO (XO XH)))))) (Npos (XI (XI (XI (XI (XI
          (XI XH))))))) c)
        (N.leb (Npos (XO (XO (XO (XO (XO (XI (XO XH)))))))) c))
      ((&&) (inrng N0 (Npos (XI (XI (XI (XI XH))))) c)
        (negb
          ((||)
            ((||) (N.eqb c (Npos (XO (XO (XO (XI XH))))))
              (N.eqb c (Npos (XO (XI (XO (XI XH)))))))
            (N.eqb c (Npos (XI (XI (XO (XI XH))))))))))
    (negb (match k with
           | KOsc -> N.eqb c (Npos (XI (XI XH)))
           | _ -> false))

(** val skip_string : strkind -> n list -> n list option **)

let rec skip_string k = function
| [] -> None
| c :: r ->
  if N.eqb c (Npos (XO (XO (XI (XI (XI (XO (XO XH))))))))
  then Some r
  else if match k with
          | KOsc -> N.eqb c (Npos (XI (XI XH)))
          | _ -> false
       then Some r
       else if N.eqb c (Npos (XI (XI (XO (XI XH)))))
            then (match r with
                  | [] -> None
                  | n0 :: r' ->
                    (match n0 with
                     | N0 -> None
                     | Npos p ->
                       (match p with
                        | XO p0 ->
                          (match p0 with
                           | XO p1 ->
                             (match p1 with
                              | XI p2 ->
                                (match p2 with
                                 | XI p3 ->
                                   (match p3 with
                                    | XI p4 ->
                                      (match p4 with
                                       | XO p5 ->
                                         (match p5 with
                                          | XH -> Some r'
                                          | _ -> None)
                                       | _ -> None)
                                    | _ -> None)
                                 | _ -> None)
                              | _ -> None)
                           | _ -> None)
                        | _ -> None)))
            else if payload_ok k c then skip_string k r else None

(** val csi_finals_plain : n list **)

let csi_finals_plain =
  (Npos (XO (XO (XO (XO (XO (XO XH))))))) :: ((Npos (XI (XO (XO (XO (XO (XO
    XH))))))) :: ((Npos (XO (XI (XO (XO (XO (XO XH))))))) :: ((Npos (XI (XI
    (XO (XO (XO (XO XH))))))) :: ((Npos (XO (XO (XI (XO (XO (XO
    XH))))))) :: ((Npos (XI (XO (XI (XO (XO (XO XH))))))) :: ((Npos (XO (XI
    (XI (XO (XO (XO XH))))))) :: ((Npos (XI (XI (XI (XO (XO (XO
    XH))))))) :: ((Npos (XO (XO (XO (XI (XO (XO XH))))))) :: ((Npos (XI (XO
    (XO (XI (XO (XO XH))))))) :: ((Npos (XO (XI (XO (XI (XO (XO
    XH))))))) :: ((Npos (XI (XI (XO (XI (XO (XO XH))))))) :: ((Npos (XO (XO
    (XI (XI (XO (XO XH))))))) :: ((Npos (XI (XO (XI (XI (XO (XO
    XH))))))) :: ((Npos (XO (XO (XO (XO (XI (XO XH))))))) :: ((Npos (XI (XI
    (XO (XO (XI (XO XH))))))) :: ((Npos (XO (XO (XI (XO (XI (XO
    XH))))))) :: ((Npos (XI (XI (XI (XO (XI (XO XH))))))) :: ((Npos (XO (XO
    (XO (XI (XI (XO XH))))))) :: ((Npos (XO (XI (XO (XI (XI (XO
    XH))))))) :: ((Npos (XO (XO (XO (XO (XO (XI XH))))))) :: ((Npos (XI (XO
    (XO (XO (XO (XI XH))))))) :: ((Npos (XO (XI (XO (XO (XO (XI
    XH))))))) :: ((Npos (XO (XO (XI (XO (XO (XI XH))))))) :: ((Npos (XI (XO
    (XI (XO (XO (XI XH))))))) :: ((Npos (XO (XI (XI (XO (XO (XI
    XH))))))) :: ((Npos (XI (XI (XI (XO (XO (XI XH))))))) :: ((Npos (XO (XO
    (XO (XI (XO (XI XH))))))) :: ((Npos (XO (XO (XI (XI (XO (XI
    XH))))))) :: ((Npos (XI (XO (XI (XI (XO (XI XH))))))) :: ((Npos (XO (XI
    (XO (XO (XI (XI XH))))))) :: ((Npos (XI (XI (XO (XO (XI (XI
    XH))))))) :: ((Npos (XO (XO (XI (XO (XI (XI XH))))))) :: ((Npos (XI (XO
    (XI (XO (XI (XI XH))))))) :: [])))))))))))))))))))))))))))))))))

(** val mem_N : n -> n list -> bool **)

let mem_N x l =
  existsb (N.eqb x) l

(** val csi_implemented : n option -> n list -> n -> bool **)

let csi_implemented marker inters final =
  match marker with
  | Some n0 ->
    (match n0 with
     | N0 -> false
     | Npos p ->
       (match p with
        | XI p0 ->
          (match p0 with
           | XI p1 ->
             (match p1 with
              | XI p2 ->
                (match p2 with
                 | XI p3 ->
                   (match p3 with
                    | XI p4 ->
                      (match p4 with
                       | XH ->
                         (match inters with
                          | [] ->
                            (||)
                              (N.eqb final (Npos (XO (XO (XO (XI (XO (XI
                                XH))))))))
                              (N.eqb final (Npos (XO (XO (XI (XI (XO (XI
                                XH))))))))
                          | _ :: _ -> false)
                       | _ -> false)
                    | _ -> false)
                 | _ -> false)
              | _ -> false)
           | _ -> false)
        | _ -> false))
  | None ->
    (match inters with
     | [] -> mem_N final csi_finals_plain
     | n0 :: l ->
       (match n0 with
        | N0 -> false
        | Npos p ->
          (match p with
           | XI p0 ->
             (match p0 with
              | XO p1 ->
                (match p1 with
                 | XO p2 ->
                   (match p2 with
                    | XO p3 ->
                      (match p3 with
                       | XO p4 ->
                         (match p4 with
                          | XH ->
                            (match l with
                             | [] ->
                               N.eqb final (Npos (XO (XO (XO (XO (XI (XI
                                 XH)))))))
                             | _ :: _ -> false)
                          | _ -> false)
                       | _ -> false)
                    | _ -> false)
                 | _ -> false)
              | _ -> false)
           | _ -> false)))

(** val esc_implemented : n list -> n -> bool **)

let esc_implemented inters final =
  match inters with
  | [] ->
    mem_N final ((Npos (XO (XO (XI (XO (XO (XO XH))))))) :: ((Npos (XI (XO
      (XI (XO (XO (XO XH))))))) :: ((Npos (XO (XO (XO (XI (XO (XO
      XH))))))) :: ((Npos (XI (XO (XI (XI (XO (XO XH))))))) :: ((Npos (XI (XI
      (XI (XO (XI XH)))))) :: ((Npos (XO (XO (XO (XI (XI XH)))))) :: ((Npos
      (XI (XI (XO (XO (XO (XI XH))))))) :: ((Npos (XO (XO (XO (XO (XI (XO
      XH))))))) :: ((Npos (XO (XO (XO (XI (XI (XO XH))))))) :: ((Npos (XI (XI
      (XO (XI (XI (XO XH))))))) :: ((Npos (XI (XO (XI (XI (XI (XO
      XH))))))) :: ((Npos (XO (XI (XI (XI (XI (XO XH))))))) :: ((Npos (XI (XI
      (XI (XI (XI (XO XH))))))) :: [])))))))))))))
  | n0 :: l ->
    (match n0 with
     | N0 -> false
     | Npos p ->
       (match p with
        | XI p0 ->
          (match p0 with
           | XI p1 ->
             (match p1 with
              | XO p2 ->
                (match p2 with
                 | XO p3 ->
                   (match p3 with
                    | XO p4 ->
                      (match p4 with
                       | XH ->
                         (match l with
                          | [] ->
                            N.eqb final (Npos (XO (XO (XO (XI (XI XH))))))
                          | _ :: _ -> false)
                       | _ -> false)
                    | _ -> false)
                 | _ -> false)
              | _ -> false)
           | XO p1 ->
             (match p1 with
              | XO p2 ->
                (match p2 with
                 | XI p3 ->
                   (match p3 with
                    | XO p4 ->
                      (match p4 with
                       | XH -> (match l with
                                | [] -> true
                                | _ :: _ -> false)
                       | _ -> false)
                    | _ -> false)
                 | _ -> false)
              | _ -> false)
           | XH -> false)
        | XO p0 ->
          (match p0 with
           | XO p1 ->
             (match p1 with
              | XO p2 ->
                (match p2 with
                 | XI p3 ->
                   (match p3 with
                    | XO p4 ->
                      (match p4 with
                       | XH -> (match l with
                                | [] -> true
                                | _ :: _ -> false)
                       | _ -> false)
                    | _ -> false)
                 | _ -> false)
              | _ -> false)
           | _ -> false)
        | XH -> false))

(** val split_while : (n -> bool) -> n list -> n list * n list **)

let split_while f s =
  ((take_while f s), (skip_while f s))

(** val parse_csi : n list -> (((n option * n list) * n) * n list) option **)

let parse_csi s =
  let (ps, r1) =
    split_while
      (inrng (Npos (XO (XO (XO (XO (XI XH)))))) (Npos (XI (XI (XI (XI (XI
        XH))))))) s
  in
  let (is, r2) =
    split_while
      (inrng (Npos (XO (XO (XO (XO (XO XH)))))) (Npos (XI (XI (XI (XI (XO
        XH))))))) r1
  in
  (match r2 with
   | [] -> None
   | f :: rest ->
     if inrng (Npos (XO (XO (XO (XO (XO (XO XH))))))) (Npos (XO (XI (XI (XI
          (XI (XI XH))))))) f
     then let marker =
            match ps with
            | [] -> None
            | m :: _ ->
              if inrng (Npos (XO (XO (XI (XI (XI XH)))))) (Npos (XI (XI (XI
                   (XI (XI XH)))))) m
              then Some m
              else None
          in
          let tail = match marker with
                     | Some _ -> tl ps
                     | None -> ps in
          if (&&)
               (forallb (fun c ->
                 inrng (Npos (XO (XO (XO (XO (XI XH)))))) (Npos (XI (XI (XO
                   (XI (XI XH)))))) c) tail)
               (negb
                 (match ps with
                  | [] -> false
                  | n0 :: _ ->
                    (match n0 with
                     | N0 -> false
                     | Npos p ->
                       (match p with
                        | XO p0 ->
                          (match p0 with
                           | XI p1 ->
                             (match p1 with
                              | XO p2 ->
                                (match p2 with
                                 | XI p3 ->
                                   (match p3 with
                                    | XI p4 ->
                                      (match p4 with
                                       | XH -> true
                                       | _ -> false)
                                    | _ -> false)
                                 | _ -> false)
                              | _ -> false)
                           | _ -> false)
                        | _ -> false))))
          then Some (((marker, is), f), rest)
          else None
     else None)

(** val parse_esc : n list -> ((n list * n) * n list) option **)

let parse_esc s =
  let (is, r) =
    split_while
      (inrng (Npos (XO (XO (XO (XO (XO XH)))))) (Npos (XI (XI (XI (XI (XO
        XH))))))) s
  in
  (match r with
   | [] -> None
   | f :: rest ->
     if inrng (Npos (XO (XO (XO (XO (XI XH)))))) (Npos (XO (XI (XI (XI (XI
          (XI XH))))))) f
     then Some ((is, f), rest)
     else None)

(** val c0_unassigned : n -> bool **)

let c0_unassigned c =
  (||)
    ((||)
      ((||) (inrng N0 (Npos (XI (XI XH))) c)
        (inrng (Npos (XO (XO (XO (XO XH))))) (Npos (XI (XI (XI (XO XH))))) c))
      (N.eqb c (Npos (XI (XO (XO (XI XH)))))))
    (inrng (Npos (XO (XO (XI (XI XH))))) (Npos (XI (XI (XI (XI XH))))) c)

(** val c1_unassigned : n -> bool **)

let c1_unassigned c =
  (||)
    ((||)
      ((||)
        ((||)
          ((||)
            ((||)
              ((||)
                ((||)
                  ((||)
                    (inrng (Npos (XO (XO (XO (XO (XO (XO (XO XH)))))))) (Npos
                      (XI (XI (XO (XO (XO (XO (XO XH)))))))) c)
                    (N.eqb c (Npos (XO (XI (XI (XO (XO (XO (XO XH))))))))))
                  (N.eqb c (Npos (XI (XI (XI (XO (XO (XO (XO XH))))))))))
                (inrng (Npos (XI (XO (XO (XI (XO (XO (XO XH)))))))) (Npos (XO
                  (XO (XI (XI (XO (XO (XO XH)))))))) c))
              (N.eqb c (Npos (XO (XI (XI (XI (XO (XO (XO XH))))))))))
            (N.eqb c (Npos (XI (XI (XI (XI (XO (XO (XO XH))))))))))
          (inrng (Npos (XI (XO (XO (XO (XI (XO (XO XH)))))))) (Npos (XI (XI
            (XI (XO (XI (XO (XO XH)))))))) c))
        (N.eqb c (Npos (XI (XO (XO (XI (XI (XO (XO XH))))))))))
      (N.eqb c (Npos (XO (XI (XO (XI (XI (XO (XO XH))))))))))
    (N.eqb c (Npos (XO (XO (XI (XI (XI (XO (XO XH)))))))))

(** val inert_item : n list -> n list option **)

let inert_item = function
| [] -> None
| c :: r ->
  if (||) (c0_unassigned c) (c1_unassigned c)
  then Some r
  else if N.eqb c (Npos (XI (XO (XI (XI (XI (XO (XO XH))))))))
       then skip_string KOsc r
       else if N.eqb c (Npos (XO (XO (XO (XO (XI (XO (XO XH))))))))
            then skip_string KDcs r
            else if (||)
                      ((||)
                        (N.eqb c (Npos (XO (XO (XO (XI (XI (XO (XO XH)))))))))
                        (N.eqb c (Npos (XO (XI (XI (XI (XI (XO (XO XH))))))))))
                      (N.eqb c (Npos (XI (XI (XI (XI (XI (XO (XO XH)))))))))
                 then skip_string KSos r
                 else if N.eqb c (Npos (XI (XI (XO (XI (XI (XO (XO XH))))))))
                      then (match parse_csi r with
                            | Some p ->
                              let (p0, rest) = p in
                              let (p1, f) = p0 in
                              let (m, is) = p1 in
                              if csi_implemented m is f
                              then None
                              else Some rest
                            | None -> None)
                      else if N.eqb c (Npos (XI (XI (XO (XI XH)))))
                           then (match r with
                                 | [] ->
                                   (match parse_esc r with
                                    | Some p ->
                                      let (p0, rest) = p in
                                      let (is, f) = p0 in
                                      if esc_implemented is f
                                      then None
                                      else Some rest
                                    | None -> None)
                                 | n0 :: r' ->
                                   (match n0 with
                                    | N0 ->
                                      (match parse_esc r with
                                       | Some p ->
                                         let (p0, rest) = p in
                                         let (is, f) = p0 in
                                         if esc_implemented is f
                                         then None
                                         else Some rest
                                       | None -> None)
                                    | Npos p ->
                                      (match p with
                                       | XI p0 ->
                                         (match p0 with
                                          | XI p1 ->
                                            (match p1 with
                                             | XI p2 ->
                                               (match p2 with
                                                | XI p3 ->
                                                  (match p3 with
                                                   | XI p4 ->
                                                     (match p4 with
                                                      | XO p5 ->
                                                        (match p5 with
                                                         | XH ->
                                                           skip_string KSos r'
                                                         | _ ->
                                                           (match parse_esc r with
                                                            | Some p6 ->
                                                              let (p7, rest) =
                                                                p6
                                                              in
                                                              let (is, f) = p7
                                                              in
                                                              if esc_implemented
                                                                   is f
                                                              then None
                                                              else Some rest
                                                            | None -> None))
                                                      | _ ->
                                                        (match parse_esc r with
                                                         | Some p5 ->
                                                           let (p6, rest) = p5
                                                           in
                                                           let (is, f) = p6 in
                                                           if esc_implemented
                                                                is f
                                                           then None
                                                           else Some rest
                                                         | None -> None))
                                                   | _ ->
                                                     (match parse_esc r with
                                                      | Some p4 ->
                                                        let (p5, rest) = p4 in
                                                        let (is, f) = p5 in
                                                        if esc_implemented is
                                                             f
                                                        then None
                                                        else Some rest
                                                      | None -> None))
                                                | _ ->
                                                  (match parse_esc r with
                                                   | Some p3 ->
                                                     let (p4, rest) = p3 in
                                                     let (is, f) = p4 in
                                                     if esc_implemented is f
                                                     then None
                                                     else Some rest
                                                   | None -> None))
                                             | XO p2 ->
                                               (match p2 with
                                                | XI p3 ->
                                                  (match p3 with
                                                   | XI p4 ->
                                                     (match p4 with
                                                      | XO p5 ->
                                                        (match p5 with
                                                         | XH ->
                                                           (match parse_csi r' with
                                                            | Some p6 ->
                                                              let (p7, rest) =
                                                                p6
                                                              in
                                                              let (p8, f) = p7
                                                              in
                                                              let (m, is) = p8
                                                              in
                                                              if csi_implemented
                                                                   m is f
                                                              then None
                                                              else Some rest
                                                            | None -> None)
                                                         | _ ->
                                                           (match parse_esc r with
                                                            | Some p6 ->
                                                              let (p7, rest) =
                                                                p6
                                                              in
                                                              let (is, f) = p7
                                                              in
                                                              if esc_implemented
                                                                   is f
                                                              then None
                                                              else Some rest
                                                            | None -> None))
                                                      | _ ->
                                                        (match parse_esc r with
                                                         | Some p5 ->
                                                           let (p6, rest) = p5
                                                           in
                                                           let (is, f) = p6 in
                                                           if esc_implemented
                                                                is f
                                                           then None
                                                           else Some rest
                                                         | None -> None))
                                                   | _ ->
                                                     (match parse_esc r with
                                                      | Some p4 ->
                                                        let (p5, rest) = p4 in
                                                        let (is, f) = p5 in
                                                        if esc_implemented is
                                                             f
                                                        then None
                                                        else Some rest
                                                      | None -> None))
                                                | _ ->
                                                  (match parse_esc r with
                                                   | Some p3 ->
                                                     let (p4, rest) = p3 in
                                                     let (is, f) = p4 in
                                                     if esc_implemented is f
                                                     then None
                                                     else Some rest
                                                   | None -> None))
                                             | XH ->
                                               (match parse_esc r with
                                                | Some p2 ->
                                                  let (p3, rest) = p2 in
                                                  let (is, f) = p3 in
                                                  if esc_implemented is f
                                                  then None
                                                  else Some rest
                                                | None -> None))
                                          | XO p1 ->
                                            (match p1 with
                                             | XI p2 ->
                                               (match p2 with
                                                | XI p3 ->
                                                  (match p3 with
                                                   | XI p4 ->
                                                     (match p4 with
                                                      | XO p5 ->
                                                        (match p5 with
                                                         | XH ->
                                                           skip_string KOsc r'
                                                         | _ ->
                                                           (match parse_esc r with
                                                            | Some p6 ->
                                                              let (p7, rest) =
                                                                p6
                                                              in
                                                              let (is, f) = p7
                                                              in
                                                              if esc_implemented
                                                                   is f
                                                              then None
                                                              else Some rest
                                                            | None -> None))
                                                      | _ ->
                                                        (match parse_esc r with
                                                         | Some p5 ->
                                                           let (p6, rest) = p5
                                                           in
                                                           let (is, f) = p6 in
                                                           if esc_implemented
                                                                is f
                                                           then None
                                                           else Some rest
                                                         | None -> None))
                                                   | _ ->
                                                     (match parse_esc r with
                                                      | Some p4 ->
                                                        let (p5, rest) = p4 in
                                                        let (is, f) = p5 in
                                                        if esc_implemented is
                                                             f
                                                        then None
                                                        else Some rest
                                                      | None -> None))
                                                | _ ->
                                                  (match parse_esc r with
                                                   | Some p3 ->
                                                     let (p4, rest) = p3 in
                                                     let (is, f) = p4 in
                                                     if esc_implemented is f
                                                     then None
                                                     else Some rest
                                                   | None -> None))
                                             | _ ->
                                               (match parse_esc r with
                                                | Some p2 ->
                                                  let (p3, rest) = p2 in
                                                  let (is, f) = p3 in
                                                  if esc_implemented is f
                                                  then None
                                                  else Some rest
                                                | None -> None))
                                          | XH ->
                                            (match parse_esc r with
                                             | Some p1 ->
                                               let (p2, rest) = p1 in
                                               let (is, f) = p2 in
                                               if esc_implemented is f
                                               then None
                                               else Some rest
                                             | None -> None))
                                       | XO p0 ->
                                         (match p0 with
                                          | XI p1 ->
                                            (match p1 with
                                             | XI p2 ->
                                               (match p2 with
                                                | XI p3 ->
                                                  (match p3 with
                                                   | XI p4 ->
                                                     (match p4 with
                                                      | XO p5 ->
                                                        (match p5 with
                                                         | XH ->
                                                           skip_string KSos r'
                                                         | _ ->
                                                           (match parse_esc r with
                                                            | Some p6 ->
                                                              let (p7, rest) =
                                                                p6
                                                              in
                                                              let (is, f) = p7
                                                              in
                                                              if esc_implemented
                                                                   is f
                                                              then None
                                                              else Some rest
                                                            | None -> None))
                                                      | _ ->
                                                        (match parse_esc r with
                                                         | Some p5 ->
                                                           let (p6, rest) = p5
                                                           in
                                                           let (is, f) = p6 in
                                                           if esc_implemented
                                                                is f
                                                           then None
                                                           else Some rest
                                                         | None -> None))
                                                   | _ ->
                                                     (match parse_esc r with
                                                      | Some p4 ->
                                                        let (p5, rest) = p4 in
                                                        let (is, f) = p5 in
                                                        if esc_implemented is
                                                             f
                                                        then None
                                                        else Some rest
                                                      | None -> None))
                                                | _ ->
                                                  (match parse_esc r with
                                                   | Some p3 ->
                                                     let (p4, rest) = p3 in
                                                     let (is, f) = p4 in
                                                     if esc_implemented is f
                                                     then None
                                                     else Some rest
                                                   | None -> None))
                                             | _ ->
                                               (match parse_esc r with
                                                | Some p2 ->
                                                  let (p3, rest) = p2 in
                                                  let (is, f) = p3 in
                                                  if esc_implemented is f
                                                  then None
                                                  else Some rest
                                                | None -> None))
                                          | XO p1 ->
                                            (match p1 with
                                             | XO p2 ->
                                               (match p2 with
                                                | XI p3 ->
                                                  (match p3 with
                                                   | XI p4 ->
                                                     (match p4 with
                                                      | XO p5 ->
                                                        (match p5 with
                                                         | XH ->
                                                           skip_string KSos r'
                                                         | _ ->
                                                           (match parse_esc r with
                                                            | Some p6 ->
                                                              let (p7, rest) =
                                                                p6
                                                              in
                                                              let (is, f) = p7
                                                              in
                                                              if esc_implemented
                                                                   is f
                                                              then None
                                                              else Some rest
                                                            | None -> None))
                                                      | _ ->
                                                        (match parse_esc r with
                                                         | Some p5 ->
                                                           let (p6, rest) = p5
                                                           in
                                                           let (is, f) = p6 in
                                                           if esc_implemented
                                                                is f
                                                           then None
                                                           else Some rest
                                                         | None -> None))
                                                   | _ ->
                                                     (match parse_esc r with
                                                      | Some p4 ->
                                                        let (p5, rest) = p4 in
                                                        let (is, f) = p5 in
                                                        if esc_implemented is
                                                             f
                                                        then None
                                                        else Some rest
                                                      | None -> None))
                                                | XO p3 ->
                                                  (match p3 with
                                                   | XI p4 ->
                                                     (match p4 with
                                                      | XO p5 ->
                                                        (match p5 with
                                                         | XH ->
                                                           skip_string KDcs r'
                                                         | _ ->
                                                           (match parse_esc r with
                                                            | Some p6 ->
                                                              let (p7, rest) =
                                                                p6
                                                              in
                                                              let (is, f) = p7
                                                              in
                                                              if esc_implemented
                                                                   is f
                                                              then None
                                                              else Some rest
                                                            | None -> None))
                                                      | _ ->
                                                        (match parse_esc r with
                                                         | Some p5 ->
                                                           let (p6, rest) = p5
                                                           in
                                                           let (is, f) = p6 in
                                                           if esc_implemented
                                                                is f
                                                           then None
                                                           else Some rest
                                                         | None -> None))
                                                   | _ ->
                                                     (match parse_esc r with
                                                      | Some p4 ->
                                                        let (p5, rest) = p4 in
                                                        let (is, f) = p5 in
                                                        if esc_implemented is
                                                             f
                                                        then None
                                                        else Some rest
                                                      | None -> None))
                                                | XH ->
                                                  (match parse_esc r with
                                                   | Some p3 ->
                                                     let (p4, rest) = p3 in
                                                     let (is, f) = p4 in
                                                     if esc_implemented is f
                                                     then None
                                                     else Some rest
                                                   | None -> None))
                                             | _ ->
                                               (match parse_esc r with
                                                | Some p2 ->
                                                  let (p3, rest) = p2 in
                                                  let (is, f) = p3 in
                                                  if esc_implemented is f
                                                  then None
                                                  else Some rest
                                                | None -> None))
                                          | XH ->
                                            (match parse_esc r with
                                             | Some p1 ->
                                               let (p2, rest) = p1 in
                                               let (is, f) = p2 in
                                               if esc_implemented is f
                                               then None
                                               else Some rest
                                             | None -> None))
                                       | XH ->
                                         (match parse_esc r with
                                          | Some p0 ->
                                            let (p1, rest) = p0 in
                                            let (is, f) = p1 in
                                            if esc_implemented is f
                                            then None
                                            else Some rest
                                          | None -> None))))
                           else None

(** val inert_go : nat -> n list -> bool **)

let rec inert_go fuel s = match s with
| [] -> true
| _ :: _ ->
  (match fuel with
   | O -> false
   | S fuel0 ->
     (match inert_item s with
      | Some r -> inert_go fuel0 r
      | None -> false))

(** val inert_spec : n list -> bool **)

let inert_spec s = match s with
| [] -> false
| _ :: _ -> inert_go (length s) s

(** val last_N : n list -> n option **)

let last_N =
  last_opt

(** val kf_c20_csi : n option -> n list -> n -> bool **)

let kf_c20_csi marker inters final =
  let prefix = app (match marker with
                    | Some m -> m :: []
                    | None -> []) inters
  in
  (&&) (Nat.leb (S (S O)) (length prefix))
    (match last_N prefix with
     | Some n0 ->
       (match n0 with
        | N0 -> false
        | Npos p ->
          (match p with
           | XI p0 ->
             (match p0 with
              | XI p1 ->
                (match p1 with
                 | XI p2 ->
                   (match p2 with
                    | XI p3 ->
                      (match p3 with
                       | XI p4 ->
                         (match p4 with
                          | XH ->
                            (||)
                              (N.eqb final (Npos (XO (XO (XO (XI (XO (XI
                                XH))))))))
                              (N.eqb final (Npos (XO (XO (XI (XI (XO (XI
                                XH))))))))
                          | _ -> false)
                       | _ -> false)
                    | _ -> false)
                 | _ -> false)
              | XO p1 ->
                (match p1 with
                 | XO p2 ->
                   (match p2 with
                    | XO p3 ->
                      (match p3 with
                       | XO p4 ->
                         (match p4 with
                          | XH ->
                            N.eqb final (Npos (XO (XO (XO (XO (XI (XI
                              XH)))))))
                          | _ -> false)
                       | _ -> false)
                    | _ -> false)
                 | _ -> false)
              | XH -> false)
           | _ -> false))
     | None -> false)

(** val kf_c20_esc : n list -> n -> bool **)

let kf_c20_esc inters final =
  (&&) (Nat.leb (S (S O)) (length inters))
    (match last_N inters with
     | Some n0 ->
       (match n0 with
        | N0 -> false
        | Npos p ->
          (match p with
           | XI p0 ->
             (match p0 with
              | XI p1 ->
                (match p1 with
                 | XO p2 ->
                   (match p2 with
                    | XO p3 ->
                      (match p3 with
                       | XO p4 ->
                         (match p4 with
                          | XH ->
                            N.eqb final (Npos (XO (XO (XO (XI (XI XH))))))
                          | _ -> false)
                       | _ -> false)
                    | _ -> false)
                 | _ -> false)
              | XO p1 ->
                (match p1 with
                 | XO p2 ->
                   (match p2 with
                    | XI p3 ->
                      (match p3 with
                       | XO p4 -> (match p4 with
                                   | XH -> true
                                   | _ -> false)
                       | _ -> false)
                    | _ -> false)
                 | _ -> false)
              | XH -> false)
           | XO p0 ->
             (match p0 with
              | XO p1 ->
                (match p1 with
                 | XO p2 ->
                   (match p2 with
                    | XI p3 ->
                      (match p3 with
                       | XO p4 -> (match p4 with
                                   | XH -> true
                                   | _ -> false)
                       | _ -> false)
                    | _ -> false)
                 | _ -> false)
              | _ -> false)
           | XH -> false))
     | None -> false)

(** val kf_c20_go : nat -> n list -> bool **)

let rec kf_c20_go fuel s =
  match fuel with
  | O -> false
  | S fuel0 ->
    (match s with
     | [] -> false
     | c :: r ->
       let here =
         if N.eqb c (Npos (XI (XI (XO (XI (XI (XO (XO XH))))))))
         then (match parse_csi r with
               | Some p ->
                 let (p0, _) = p in
                 let (p1, f) = p0 in let (m, is) = p1 in kf_c20_csi m is f
               | None -> false)
         else if N.eqb c (Npos (XI (XI (XO (XI XH)))))
              then (match r with
                    | [] ->
                      (match parse_esc r with
                       | Some p ->
                         let (p0, _) = p in
                         let (is, f) = p0 in kf_c20_esc is f
                       | None -> false)
                    | n0 :: r' ->
                      (match n0 with
                       | N0 ->
                         (match parse_esc r with
                          | Some p ->
                            let (p0, _) = p in
                            let (is, f) = p0 in kf_c20_esc is f
                          | None -> false)
                       | Npos p ->
                         (match p with
                          | XI p0 ->
                            (match p0 with
                             | XI p1 ->
                               (match p1 with
                                | XO p2 ->
                                  (match p2 with
                                   | XI p3 ->
                                     (match p3 with
                                      | XI p4 ->
                                        (match p4 with
                                         | XO p5 ->
                                           (match p5 with
                                            | XH ->
                                              (match parse_csi r' with
                                               | Some p6 ->
                                                 let (p7, _) = p6 in
                                                 let (p8, f) = p7 in
                                                 let (m, is) = p8 in
                                                 kf_c20_csi m is f
                                               | None -> false)
                                            | _ ->
                                              (match parse_esc r with
                                               | Some p6 ->
                                                 let (p7, _) = p6 in
                                                 let (is, f) = p7 in
                                                 kf_c20_esc is f
                                               | None -> false))
                                         | _ ->
                                           (match parse_esc r with
                                            | Some p5 ->
                                              let (p6, _) = p5 in
                                              let (is, f) = p6 in
                                              kf_c20_esc is f
                                            | None -> false))
                                      | _ ->
                                        (match parse_esc r with
                                         | Some p4 ->
                                           let (p5, _) = p4 in
                                           let (is, f) = p5 in kf_c20_esc is f
                                         | None -> false))
                                   | _ ->
                                     (match parse_esc r with
                                      | Some p3 ->
                                        let (p4, _) = p3 in
                                        let (is, f) = p4 in kf_c20_esc is f
                                      | None -> false))
                                | _ ->
                                  (match parse_esc r with
                                   | Some p2 ->
                                     let (p3, _) = p2 in
                                     let (is, f) = p3 in kf_c20_esc is f
                                   | None -> false))
                             | _ ->
                               (match parse_esc r with
                                | Some p1 ->
                                  let (p2, _) = p1 in
                                  let (is, f) = p2 in kf_c20_esc is f
                                | None -> false))
                          | _ ->
                            (match parse_esc r with
                             | Some p0 ->
                               let (p1, _) = p0 in
                               let (is, f) = p1 in kf_c20_esc is f
                             | None -> false))))
              else false
       in
       (||) here
         (match inert_item s with
          | Some r' -> kf_c20_go fuel0 r'
          | None -> false))

(** val kf_c20 : n list -> bool **)

let kf_c20 s =
  kf_c20_go (length s) s

type akind =
| KIgnore
| KPrint
| KExecute
| KCollect
| KParam
| KEscDispatch
| KCsiDispatch
| KPut
| KOscPut

type trans = { t_next : pstate; t_kind : akind; t_clear : bool }

(** val inr : n -> n -> n -> bool **)

let inr lo hi c =
  (&&) (N.leb lo c) (N.leb c hi)

(** val c0_exec : n -> bool **)

let c0_exec c =
  (||)
    ((||) (inr N0 (Npos (XI (XI (XI (XO XH))))) c)
      (N.eqb c (Npos (XI (XO (XO (XI XH)))))))
    (inr (Npos (XO (XO (XI (XI XH))))) (Npos (XI (XI (XI (XI XH))))) c)

(** val entry_clears : pstate -> bool **)

let entry_clears = function
| Escape -> true
| CsiEntry -> true
| DcsEntry -> true
| _ -> false

(** val goto : pstate -> akind -> trans **)

let goto s k =
  { t_next = s; t_kind = k; t_clear = (entry_clears s) }

(** val stay : pstate -> akind -> trans **)

let stay s k =
  { t_next = s; t_kind = k; t_clear = false }

(** val anywhere : n -> trans option **)

let anywhere c =
  if (||) (N.eqb c (Npos (XO (XO (XO (XI XH))))))
       (N.eqb c (Npos (XO (XI (XO (XI XH))))))
  then Some (goto Ground KExecute)
  else if N.eqb c (Npos (XI (XI (XO (XI XH)))))
       then Some (goto Escape KIgnore)
       else if (||)
                 ((||)
                   ((||)
                     (inr (Npos (XO (XO (XO (XO (XO (XO (XO XH)))))))) (Npos
                       (XI (XI (XI (XI (XO (XO (XO XH)))))))) c)
                     (inr (Npos (XI (XO (XO (XO (XI (XO (XO XH)))))))) (Npos
                       (XI (XI (XI (XO (XI (XO (XO XH)))))))) c))
                   (N.eqb c (Npos (XI (XO (XO (XI (XI (XO (XO XH))))))))))
                 (N.eqb c (Npos (XO (XI (XO (XI (XI (XO (XO XH)))))))))
            then Some (goto Ground KExecute)
            else if N.eqb c (Npos (XO (XO (XI (XI (XI (XO (XO XH))))))))
                 then Some (goto Ground KIgnore)
                 else if (||)
                           ((||)
                             (N.eqb c (Npos (XO (XO (XO (XI (XI (XO (XO
                               XH)))))))))
                             (N.eqb c (Npos (XO (XI (XI (XI (XI (XO (XO
                               XH))))))))))
                           (N.eqb c (Npos (XI (XI (XI (XI (XI (XO (XO
                             XH)))))))))
                      then Some (goto SosPmApcString KIgnore)
                      else if N.eqb c (Npos (XO (XO (XO (XO (XI (XO (XO
                                XH))))))))
                           then Some (goto DcsEntry KIgnore)
                           else if N.eqb c (Npos (XI (XO (XI (XI (XI (XO (XO
                                     XH))))))))
                                then Some (goto OscString KIgnore)
                                else if N.eqb c (Npos (XI (XI (XO (XI (XI (XO
                                          (XO XH))))))))
                                     then Some (goto CsiEntry KIgnore)
                                     else None

(** val csi_param_char : n -> bool **)

let csi_param_char c =
  (||)
    ((||)
      (inr (Npos (XO (XO (XO (XO (XI XH)))))) (Npos (XI (XO (XO (XI (XI
        XH)))))) c) (N.eqb c (Npos (XI (XI (XO (XI (XI XH))))))))
    (N.eqb c (Npos (XO (XI (XO (XI (XI XH)))))))

(** val osc_bel_terminates : bool **)

let osc_bel_terminates =
  true

(** val state_row : pstate -> n -> trans **)

let state_row s c =
  match s with
  | Ground ->
    if c0_exec c
    then stay Ground KExecute
    else if inr (Npos (XO (XO (XO (XO (XO XH)))))) (Npos (XI (XI (XI (XI (XI
              (XI XH))))))) c
         then stay Ground KPrint
         else stay Ground KIgnore
  | Escape ->
    if c0_exec c
    then stay Escape KExecute
    else if inr (Npos (XO (XO (XO (XO (XO XH)))))) (Npos (XI (XI (XI (XI (XO
              XH)))))) c
         then goto EscapeIntermediate KCollect
         else if N.eqb c (Npos (XI (XI (XO (XI (XI (XO XH)))))))
              then goto CsiEntry KIgnore
              else if N.eqb c (Npos (XI (XO (XI (XI (XI (XO XH)))))))
                   then goto OscString KIgnore
                   else if N.eqb c (Npos (XO (XO (XO (XO (XI (XO XH)))))))
                        then goto DcsEntry KIgnore
                        else if (||)
                                  ((||)
                                    (N.eqb c (Npos (XO (XO (XO (XI (XI (XO
                                      XH))))))))
                                    (N.eqb c (Npos (XO (XI (XI (XI (XI (XO
                                      XH)))))))))
                                  (N.eqb c (Npos (XI (XI (XI (XI (XI (XO
                                    XH))))))))
                             then goto SosPmApcString KIgnore
                             else if inr (Npos (XO (XO (XO (XO (XI XH))))))
                                       (Npos (XO (XI (XI (XI (XI (XI
                                       XH))))))) c
                                  then goto Ground KEscDispatch
                                  else stay Escape KIgnore
  | EscapeIntermediate ->
    if c0_exec c
    then stay EscapeIntermediate KExecute
    else if inr (Npos (XO (XO (XO (XO (XO XH)))))) (Npos (XI (XI (XI (XI (XO
              XH)))))) c
         then stay EscapeIntermediate KCollect
         else if inr (Npos (XO (XO (XO (XO (XI XH)))))) (Npos (XO (XI (XI (XI
                   (XI (XI XH))))))) c
              then goto Ground KEscDispatch
              else stay EscapeIntermediate KIgnore
  | CsiEntry ->
    if c0_exec c
    then stay CsiEntry KExecute
    else if inr (Npos (XO (XO (XO (XO (XO XH)))))) (Npos (XI (XI (XI (XI (XO
              XH)))))) c
         then goto CsiIntermediate KCollect
         else if N.eqb c (Npos (XO (XI (XO (XI (XI XH))))))
              then goto CsiIgnore KIgnore
              else if (||)
                        (inr (Npos (XO (XO (XO (XO (XI XH)))))) (Npos (XI (XO
                          (XO (XI (XI XH)))))) c)
                        (N.eqb c (Npos (XI (XI (XO (XI (XI XH)))))))
                   then goto CsiParam KParam
                   else if inr (Npos (XO (XO (XI (XI (XI XH)))))) (Npos (XI
                             (XI (XI (XI (XI XH)))))) c
                        then goto CsiParam KCollect
                        else if inr (Npos (XO (XO (XO (XO (XO (XO XH)))))))
                                  (Npos (XO (XI (XI (XI (XI (XI XH))))))) c
                             then goto Ground KCsiDispatch
                             else stay CsiEntry KIgnore
  | CsiParam ->
    if c0_exec c
    then stay CsiParam KExecute
    else if csi_param_char c
         then stay CsiParam KParam
         else if inr (Npos (XO (XO (XI (XI (XI XH)))))) (Npos (XI (XI (XI (XI
                   (XI XH)))))) c
              then goto CsiIgnore KIgnore
              else if inr (Npos (XO (XO (XO (XO (XO XH)))))) (Npos (XI (XI
                        (XI (XI (XO XH)))))) c
                   then goto CsiIntermediate KCollect
                   else if inr (Npos (XO (XO (XO (XO (XO (XO XH))))))) (Npos
                             (XO (XI (XI (XI (XI (XI XH))))))) c
                        then goto Ground KCsiDispatch
                        else stay CsiParam KIgnore
  | CsiIntermediate ->
    if c0_exec c
    then stay CsiIntermediate KExecute
    else if inr (Npos (XO (XO (XO (XO (XO XH)))))) (Npos (XI (XI (XI (XI (XO
              XH)))))) c
         then stay CsiIntermediate KCollect
         else if inr (Npos (XO (XO (XO (XO (XI XH)))))) (Npos (XI (XI (XI (XI
                   (XI XH)))))) c
              then goto CsiIgnore KIgnore
              else if inr (Npos (XO (XO (XO (XO (XO (XO XH))))))) (Npos (XO
                        (XI (XI (XI (XI (XI XH))))))) c
                   then goto Ground KCsiDispatch
                   else stay CsiIntermediate KIgnore
  | CsiIgnore ->
    if c0_exec c
    then stay CsiIgnore KExecute
    else if inr (Npos (XO (XO (XO (XO (XO (XO XH))))))) (Npos (XO (XI (XI (XI
              (XI (XI XH))))))) c
         then goto Ground KIgnore
         else stay CsiIgnore KIgnore
  | DcsEntry ->
    if inr (Npos (XO (XO (XO (XO (XO XH)))))) (Npos (XI (XI (XI (XI (XO
         XH)))))) c
    then goto DcsIntermediate KCollect
    else if N.eqb c (Npos (XO (XI (XO (XI (XI XH))))))
         then goto DcsIgnore KIgnore
         else if (||)
                   (inr (Npos (XO (XO (XO (XO (XI XH)))))) (Npos (XI (XO (XO
                     (XI (XI XH)))))) c)
                   (N.eqb c (Npos (XI (XI (XO (XI (XI XH)))))))
              then goto DcsParam KParam
              else if inr (Npos (XO (XO (XI (XI (XI XH)))))) (Npos (XI (XI
                        (XI (XI (XI XH)))))) c
                   then goto DcsParam KCollect
                   else if inr (Npos (XO (XO (XO (XO (XO (XO XH))))))) (Npos
                             (XO (XI (XI (XI (XI (XI XH))))))) c
                        then goto DcsPassthrough KIgnore
                        else stay DcsEntry KIgnore
  | DcsParam ->
    if (||)
         (inr (Npos (XO (XO (XO (XO (XI XH)))))) (Npos (XI (XO (XO (XI (XI
           XH)))))) c) (N.eqb c (Npos (XI (XI (XO (XI (XI XH)))))))
    then stay DcsParam KParam
    else if (||) (N.eqb c (Npos (XO (XI (XO (XI (XI XH)))))))
              (inr (Npos (XO (XO (XI (XI (XI XH)))))) (Npos (XI (XI (XI (XI
                (XI XH)))))) c)
         then goto DcsIgnore KIgnore
         else if inr (Npos (XO (XO (XO (XO (XO XH)))))) (Npos (XI (XI (XI (XI
                   (XO XH)))))) c
              then goto DcsIntermediate KCollect
              else if inr (Npos (XO (XO (XO (XO (XO (XO XH))))))) (Npos (XO
                        (XI (XI (XI (XI (XI XH))))))) c
                   then goto DcsPassthrough KIgnore
                   else stay DcsParam KIgnore
  | DcsIntermediate ->
    if inr (Npos (XO (XO (XO (XO (XO XH)))))) (Npos (XI (XI (XI (XI (XO
         XH)))))) c
    then stay DcsIntermediate KCollect
    else if inr (Npos (XO (XO (XO (XO (XI XH)))))) (Npos (XI (XI (XI (XI (XI
              XH)))))) c
         then goto DcsIgnore KIgnore
         else if inr (Npos (XO (XO (XO (XO (XO (XO XH))))))) (Npos (XO (XI
                   (XI (XI (XI (XI XH))))))) c
              then goto DcsPassthrough KIgnore
              else stay DcsIntermediate KIgnore
  | DcsPassthrough ->
    if (||) (c0_exec c)
         (inr (Npos (XO (XO (XO (XO (XO XH)))))) (Npos (XO (XI (XI (XI (XI
           (XI XH))))))) c)
    then stay DcsPassthrough KPut
    else stay DcsPassthrough KIgnore
  | OscString ->
    if (&&) osc_bel_terminates (N.eqb c (Npos (XI (XI XH))))
    then goto Ground KIgnore
    else if inr (Npos (XO (XO (XO (XO (XO XH)))))) (Npos (XI (XI (XI (XI (XI
              (XI XH))))))) c
         then stay OscString KOscPut
         else stay OscString KIgnore
  | x -> stay x KIgnore

(** val fold_high : n -> n **)

let fold_high c =
  if N.leb (Npos (XO (XO (XO (XO (XO (XI (XO XH)))))))) c
  then Npos (XI (XO (XO (XO (XO (XO XH))))))
  else c

(** val williams : pstate -> n -> trans **)

let williams s c =
  let c0 = fold_high c in
  (match anywhere c0 with
   | Some t -> t
   | None -> state_row s c0)

(** val c0c1_table : (n * func) list **)

let c0c1_table =
  ((Npos (XO (XO (XO XH)))), Bs) :: (((Npos (XI (XO (XO XH)))),
    Ht) :: (((Npos (XO (XI (XO XH)))), Lf) :: (((Npos (XI (XI (XO XH)))),
    Lf) :: (((Npos (XO (XO (XI XH)))), Lf) :: (((Npos (XI (XO (XI XH)))),
    Cr) :: (((Npos (XO (XI (XI XH)))), So) :: (((Npos (XI (XI (XI XH)))),
    Si) :: (((Npos (XO (XO (XI (XO (XO (XO (XO XH)))))))), Lf) :: (((Npos (XI
    (XO (XI (XO (XO (XO (XO XH)))))))), Nel) :: (((Npos (XO (XO (XO (XI (XO
    (XO (XO XH)))))))), Hts) :: (((Npos (XI (XO (XI (XI (XO (XO (XO
    XH)))))))), Ri) :: [])))))))))))

(** val assoc_N : n -> (n * 'a1) list -> 'a1 option **)

let rec assoc_N k = function
| [] -> None
| p :: r -> let (k', v) = p in if N.eqb k k' then Some v else assoc_N k r

(** val execute_spec : n -> func option **)

let execute_spec c =
  assoc_N c c0c1_table

(** val ansi_mode_spec : n -> ansi_mode option **)

let ansi_mode_spec v =
  assoc_N v (((Npos (XO (XO XH))), Insert) :: (((Npos (XO (XO (XI (XO
    XH))))), NewLine) :: []))

(** val dec_mode_spec : n -> dec_mode option **)

let dec_mode_spec v =
  assoc_N v (((Npos XH), CursorKeys) :: (((Npos (XO (XI XH))),
    Origin) :: (((Npos (XI (XI XH))), AutoWrap) :: (((Npos (XI (XO (XO (XI
    XH))))), TextCursorEnable) :: (((Npos (XI (XI (XI (XI (XO XH)))))),
    AltScreenBuffer) :: (((Npos (XI (XI (XI (XO (XI (XO (XO (XO (XO (XO
    XH))))))))))), AltScreenBuffer) :: (((Npos (XO (XO (XO (XI (XI (XO (XO
    (XO (XO (XO XH))))))))))), SaveCursor) :: (((Npos (XI (XO (XO (XI (XI (XO
    (XO (XO (XO (XO XH))))))))))), SaveCursorAltScreenBuffer) :: []))))))))

(** val ed_spec : param list -> func option **)

let ed_spec ps =
  let p = fun k -> pu16 ps k in
  assoc_N (p O) ((N0, (Ed EdBelow)) :: (((Npos XH), (Ed EdAbove)) :: (((Npos
    (XO XH)), (Ed EdAll)) :: (((Npos (XI XH)), (Ed EdSavedLines)) :: []))))

(** val el_spec : param list -> func option **)

let el_spec ps =
  let p = fun k -> pu16 ps k in
  assoc_N (p O) ((N0, (El ElToRight)) :: (((Npos XH), (El
    ElToLeft)) :: (((Npos (XO XH)), (El ElAll)) :: [])))

(** val ctc_spec : param list -> func option **)

let ctc_spec ps =
  let p = fun k -> pu16 ps k in
  assoc_N (p O) ((N0, (Ctc CtcSet)) :: (((Npos (XO XH)), (Ctc
    CtcClearCurrentColumn)) :: (((Npos (XI (XO XH))), (Ctc
    CtcClearAll)) :: [])))

(** val tbc_spec : param list -> func option **)

let tbc_spec ps =
  let p = fun k -> pu16 ps k in
  assoc_N (p O) ((N0, (Tbc TbcCurrentColumn)) :: (((Npos (XI XH)), (Tbc
    TbcAll)) :: []))

(** val xtwinops_spec : param list -> func option **)

let xtwinops_spec ps =
  let p = fun k -> pu16 ps k in
  if N.eqb (p O) (Npos (XO (XO (XO XH))))
  then Some (Xtwinops (XtwinopsResize ((p (S (S O))), (p (S O)))))
  else None

(** val csi_plain : param list -> nat -> (n * func option) list **)

let csi_plain ps cp =
  let p = fun k -> pu16 ps k in
  let all = firstn (S cp) ps in
  ((Npos (XO (XO (XO (XO (XO (XO XH))))))), (Some (Ich (p O)))) :: (((Npos
  (XI (XO (XO (XO (XO (XO XH))))))), (Some (Cuu (p O)))) :: (((Npos (XO (XI
  (XO (XO (XO (XO XH))))))), (Some (Cud (p O)))) :: (((Npos (XI (XI (XO (XO
  (XO (XO XH))))))), (Some (Cuf (p O)))) :: (((Npos (XO (XO (XI (XO (XO (XO
  XH))))))), (Some (Cub (p O)))) :: (((Npos (XI (XO (XI (XO (XO (XO
  XH))))))), (Some (Cnl (p O)))) :: (((Npos (XO (XI (XI (XO (XO (XO
  XH))))))), (Some (Cpl (p O)))) :: (((Npos (XI (XI (XI (XO (XO (XO
  XH))))))), (Some (Cha (p O)))) :: (((Npos (XO (XO (XO (XI (XO (XO
  XH))))))), (Some (Cup ((p O), (p (S O)))))) :: (((Npos (XI (XO (XO (XI (XO
  (XO XH))))))), (Some (Cht (p O)))) :: (((Npos (XO (XI (XO (XI (XO (XO
  XH))))))), (ed_spec ps)) :: (((Npos (XI (XI (XO (XI (XO (XO XH))))))),
  (el_spec ps)) :: (((Npos (XO (XO (XI (XI (XO (XO XH))))))), (Some (Il
  (p O)))) :: (((Npos (XI (XO (XI (XI (XO (XO XH))))))), (Some (Dl
  (p O)))) :: (((Npos (XO (XO (XO (XO (XI (XO XH))))))), (Some (Dch
  (p O)))) :: (((Npos (XI (XI (XO (XO (XI (XO XH))))))), (Some (Su
  (p O)))) :: (((Npos (XO (XO (XI (XO (XI (XO XH))))))), (Some (Sd
  (p O)))) :: (((Npos (XI (XI (XI (XO (XI (XO XH))))))),
  (ctc_spec ps)) :: (((Npos (XO (XO (XO (XI (XI (XO XH))))))), (Some (Ech
  (p O)))) :: (((Npos (XO (XI (XO (XI (XI (XO XH))))))), (Some (Cbt
  (p O)))) :: (((Npos (XO (XO (XO (XO (XO (XI XH))))))), (Some (Cha
  (p O)))) :: (((Npos (XI (XO (XO (XO (XO (XI XH))))))), (Some (Cuf
  (p O)))) :: (((Npos (XO (XI (XO (XO (XO (XI XH))))))), (Some (Rep
  (p O)))) :: (((Npos (XO (XO (XI (XO (XO (XI XH))))))), (Some (Vpa
  (p O)))) :: (((Npos (XI (XO (XI (XO (XO (XI XH))))))), (Some (Vpr
  (p O)))) :: (((Npos (XO (XI (XI (XO (XO (XI XH))))))), (Some (Cup (
  (p O), (p (S O)))))) :: (((Npos (XI (XI (XI (XO (XO (XI XH))))))),
  (tbc_spec ps)) :: (((Npos (XO (XO (XO (XI (XO (XI XH))))))), (Some (Sm
  (filter_map (fun q -> ansi_mode_spec (as_u16 q)) all)))) :: (((Npos (XO (XO
  (XI (XI (XO (XI XH))))))), (Some (Rm
  (filter_map (fun q -> ansi_mode_spec (as_u16 q)) all)))) :: (((Npos (XI (XO
  (XI (XI (XO (XI XH))))))), (Some (Sgr (sgr_ops all)))) :: (((Npos (XO (XI
  (XO (XO (XI (XI XH))))))), (Some (Decstbm ((p O), (p (S O)))))) :: (((Npos
  (XI (XI (XO (XO (XI (XI XH))))))), (Some Scosc)) :: (((Npos (XO (XO (XI (XO
  (XI (XI XH))))))), (xtwinops_spec ps)) :: (((Npos (XI (XO (XI (XO (XI (XI
  XH))))))), (Some Scorc)) :: [])))))))))))))))))))))))))))))))))

(** val csi_spec : param list -> nat -> n option -> n -> func option **)

let csi_spec ps cp =
  let all = firstn (S cp) ps in
  (fun inter0 fin ->
  match inter0 with
  | Some i ->
    if (&&) (N.eqb i (Npos (XI (XO (XO (XO (XO XH)))))))
         (N.eqb fin (Npos (XO (XO (XO (XO (XI (XI XH))))))))
    then Some Decstr
    else if (&&) (N.eqb i (Npos (XI (XI (XI (XI (XI XH)))))))
              (N.eqb fin (Npos (XO (XO (XO (XI (XO (XI XH))))))))
         then Some (Decset
                (filter_map (fun q -> dec_mode_spec (as_u16 q)) all))
         else if (&&) (N.eqb i (Npos (XI (XI (XI (XI (XI XH)))))))
                   (N.eqb fin (Npos (XO (XO (XI (XI (XO (XI XH))))))))
              then Some (Decrst
                     (filter_map (fun q -> dec_mode_spec (as_u16 q)) all))
              else None
  | None ->
    (match assoc_N fin (csi_plain ps cp) with
     | Some f -> f
     | None -> None))

(** val esc_spec : n option -> n -> func option **)

let esc_spec inter0 fin =
  match inter0 with
  | Some i ->
    if (&&) (N.eqb i (Npos (XI (XI (XO (XO (XO XH)))))))
         (N.eqb fin (Npos (XO (XO (XO (XI (XI XH)))))))
    then Some Decaln
    else if N.eqb i (Npos (XO (XO (XO (XI (XO XH))))))
         then Some (Gzd4
                (if N.eqb fin (Npos (XO (XO (XO (XO (XI XH))))))
                 then CsDrawing
                 else CsAscii))
         else if N.eqb i (Npos (XI (XO (XO (XI (XO XH))))))
              then Some (G1d4
                     (if N.eqb fin (Npos (XO (XO (XO (XO (XI XH))))))
                      then CsDrawing
                      else CsAscii))
              else None
  | None ->
    if (&&) (N.leb (Npos (XO (XO (XO (XO (XO (XO XH))))))) fin)
         (N.leb fin (Npos (XI (XI (XI (XI (XI (XO XH))))))))
    then execute_spec (N.add fin (Npos (XO (XO (XO (XO (XO (XO XH))))))))
    else if N.eqb fin (Npos (XI (XI (XI (XO (XI XH))))))
         then Some Decsc
         else if N.eqb fin (Npos (XO (XO (XO (XI (XI XH))))))
              then Some Decrc
              else if N.eqb fin (Npos (XI (XI (XO (XO (XO (XI XH)))))))
                   then Some Ris
                   else None

(** val holds_C02_state : vt -> bool **)

let holds_C02_state v =
  let t = v.vterm in (&&) (geom_ok t) (buffer_geom_ok t.other)

(** val holds_C02_call : op -> vt -> nat list -> bool **)

let holds_C02_call o post ls =
  let t = post.vterm in
  (&&)
    ((&&) (holds_C02_state post) (strictly_increasing_below t.rows None ls))
    (match o with
     | Resize (c, r) -> (&&) (Nat.eqb t.cols c) (Nat.eqb t.rows r)
     | _ -> true)

(** val holds_C04 : vt -> func -> vt -> bool **)

let holds_C04 pre f post =
  let t = pre.vterm in
  (match f with
   | G1d4 c ->
     visible_eqb
       (set (fun t0 -> t0.cs1) (fun f0 ->
         let c0 = fun r -> f0 r.cs1 in
         (fun x -> { cols = x.cols; rows = x.rows; buf = x.buf; other =
         x.other; active = x.active; sb_limit = x.sb_limit; cur_col =
         x.cur_col; cur_row = x.cur_row; cur_vis = x.cur_vis; tpen = x.tpen;
         cs0 = x.cs0; cs1 = (c0 x); acs = x.acs; tabs = x.tabs; ins = x.ins;
         org = x.org; awm = x.awm; nlm = x.nlm; ckm = x.ckm; pend = x.pend;
         top = x.top; bot = x.bot; sctx = x.sctx; asctx = x.asctx; dirty =
         x.dirty; xtw = x.xtw })) (fun _ -> c) t) post.vterm
   | Gzd4 c ->
     visible_eqb
       (set (fun t0 -> t0.cs0) (fun f0 ->
         let c0 = fun r -> f0 r.cs0 in
         (fun x -> { cols = x.cols; rows = x.rows; buf = x.buf; other =
         x.other; active = x.active; sb_limit = x.sb_limit; cur_col =
         x.cur_col; cur_row = x.cur_row; cur_vis = x.cur_vis; tpen = x.tpen;
         cs0 = (c0 x); cs1 = x.cs1; acs = x.acs; tabs = x.tabs; ins = x.ins;
         org = x.org; awm = x.awm; nlm = x.nlm; ckm = x.ckm; pend = x.pend;
         top = x.top; bot = x.bot; sctx = x.sctx; asctx = x.asctx; dirty =
         x.dirty; xtw = x.xtw })) (fun _ -> c) t) post.vterm
   | Print c -> visible_eqb (spec_print t c) post.vterm
   | Rep n0 -> visible_eqb (spec_rep t n0) post.vterm
   | Si ->
     visible_eqb
       (set (fun t0 -> t0.acs) (fun f0 ->
         let n0 = fun r -> f0 r.acs in
         (fun x -> { cols = x.cols; rows = x.rows; buf = x.buf; other =
         x.other; active = x.active; sb_limit = x.sb_limit; cur_col =
         x.cur_col; cur_row = x.cur_row; cur_vis = x.cur_vis; tpen = x.tpen;
         cs0 = x.cs0; cs1 = x.cs1; acs = (n0 x); tabs = x.tabs; ins = x.ins;
         org = x.org; awm = x.awm; nlm = x.nlm; ckm = x.ckm; pend = x.pend;
         top = x.top; bot = x.bot; sctx = x.sctx; asctx = x.asctx; dirty =
         x.dirty; xtw = x.xtw })) (fun _ -> O) t) post.vterm
   | So ->
     visible_eqb
       (set (fun t0 -> t0.acs) (fun f0 ->
         let n0 = fun r -> f0 r.acs in
         (fun x -> { cols = x.cols; rows = x.rows; buf = x.buf; other =
         x.other; active = x.active; sb_limit = x.sb_limit; cur_col =
         x.cur_col; cur_row = x.cur_row; cur_vis = x.cur_vis; tpen = x.tpen;
         cs0 = x.cs0; cs1 = x.cs1; acs = (n0 x); tabs = x.tabs; ins = x.ins;
         org = x.org; awm = x.awm; nlm = x.nlm; ckm = x.ckm; pend = x.pend;
         top = x.top; bot = x.bot; sctx = x.sctx; asctx = x.asctx; dirty =
         x.dirty; xtw = x.xtw })) (fun _ -> S O) t) post.vterm
   | _ -> true)

(** val holds_C05 : vt -> func -> vt -> bool **)

let holds_C05 pre f post =
  match spec_cursor pre.vterm f with
  | Some t' -> visible_eqb t' post.vterm
  | None -> true

(** val holds_C06 : vt -> func -> vt -> bool **)

let holds_C06 pre f post =
  let t = pre.vterm in
  let t' = post.vterm in
  (&&)
    ((&&)
      (match spec_scroll t f with
       | Some e -> visible_eqb e t'
       | None -> true)
      (if may_touch_scrollback f
       then true
       else (&&) (lines_eqb (tsb t) (tsb t'))
              (buffer_vis_eqb t.other t'.other)))
    (match f with
     | Decrst _ -> true
     | Decset _ -> true
     | Decstbm (_, _) -> true
     | Decstr -> true
     | Ris -> true
     | Xtwinops _ -> true
     | _ -> (&&) (Nat.eqb t.top t'.top) (Nat.eqb t.bot t'.bot))

(** val holds_C07 : vt -> func -> vt -> bool **)

let holds_C07 pre f post =
  match spec_edit pre.vterm f with
  | Some t' -> visible_eqb t' post.vterm
  | None -> true

(** val sgr_op_eqb : sgr_op -> sgr_op -> bool **)

let sgr_op_eqb a b =
  match a with
  | Reset -> (match b with
              | Reset -> true
              | _ -> false)
  | SetBoldIntensity -> (match b with
                         | SetBoldIntensity -> true
                         | _ -> false)
  | SetFaintIntensity -> (match b with
                          | SetFaintIntensity -> true
                          | _ -> false)
  | SetItalic -> (match b with
                  | SetItalic -> true
                  | _ -> false)
  | SetUnderline -> (match b with
                     | SetUnderline -> true
                     | _ -> false)
  | SetBlink -> (match b with
                 | SetBlink -> true
                 | _ -> false)
  | SetInverse -> (match b with
                   | SetInverse -> true
                   | _ -> false)
  | SetStrikethrough -> (match b with
                         | SetStrikethrough -> true
                         | _ -> false)
  | ResetIntensity -> (match b with
                       | ResetIntensity -> true
                       | _ -> false)
  | ResetItalic -> (match b with
                    | ResetItalic -> true
                    | _ -> false)
  | ResetUnderline -> (match b with
                       | ResetUnderline -> true
                       | _ -> false)
  | ResetBlink -> (match b with
                   | ResetBlink -> true
                   | _ -> false)
  | ResetInverse -> (match b with
                     | ResetInverse -> true
                     | _ -> false)
  | ResetStrikethrough ->
    (match b with
     | ResetStrikethrough -> true
     | _ -> false)
  | SetForegroundColor c ->
    (match b with
     | SetForegroundColor d -> color_eqb c d
     | _ -> false)
  | ResetForegroundColor ->
    (match b with
     | ResetForegroundColor -> true
     | _ -> false)
  | SetBackgroundColor c ->
    (match b with
     | SetBackgroundColor d -> color_eqb c d
     | _ -> false)
  | ResetBackgroundColor ->
    (match b with
     | ResetBackgroundColor -> true
     | _ -> false)

(** val sgr_decode_ok : sgr_op list -> parser0 -> bool **)

let sgr_decode_ok ops p =
  list_eqb sgr_op_eqb ops (spec_sgr_params (firstn (S p.cur_param) p.params))

(** val holds_C03_sgr : func -> vt -> bool **)

let holds_C03_sgr f post =
  match f with
  | Sgr ops -> sgr_decode_ok ops post.vparser
  | _ -> true

(** val spec_emit : parser0 -> n -> func option **)

let spec_emit p c =
  match (williams p.pst c).t_kind with
  | KPrint -> Some (Print c)
  | KExecute -> execute_spec c
  | KEscDispatch -> esc_spec p.inter c
  | KCsiDispatch -> csi_spec p.params p.cur_param p.inter c
  | _ -> None

(** val spec_feed : parser0 -> n -> parser0 * func option **)

let spec_feed p c =
  let t = williams p.pst c in
  let p1 =
    if t.t_clear
    then clear p
    else (match t.t_kind with
          | KCollect -> collect p c
          | KParam -> param_step p c
          | _ -> p)
  in
  ((set (fun p0 -> p0.pst) (fun f ->
     let p0 = fun r -> f r.pst in
     (fun x -> { pst = (p0 x); params = x.params; cur_param = x.cur_param;
     inter = x.inter })) (fun _ -> t.t_next) p1), (spec_emit p c))

(** val spec_run : parser0 -> n list -> parser0 * func list **)

let rec spec_run p = function
| [] -> (p, [])
| c :: r ->
  let (p1, f) = spec_feed p c in
  let (p2, fs) = spec_run p1 r in
  (p2, (match f with
        | Some x -> x :: fs
        | None -> fs))

(** val holds_C08 : vt -> func -> vt -> bool **)

let holds_C08 pre f post =
  let t = pre.vterm in
  (match f with
   | Sgr ops ->
     (&&)
       ((&&)
         (obs_eqb (observe post.vterm.tpen)
           (fold_left spec_sgr_one ops (observe t.tpen)))
         (visible_eqb
           (set (fun t0 -> t0.tpen) (fun f0 ->
             let p = fun r -> f0 r.tpen in
             (fun x -> { cols = x.cols; rows = x.rows; buf = x.buf; other =
             x.other; active = x.active; sb_limit = x.sb_limit; cur_col =
             x.cur_col; cur_row = x.cur_row; cur_vis = x.cur_vis; tpen =
             (p x); cs0 = x.cs0; cs1 = x.cs1; acs = x.acs; tabs = x.tabs;
             ins = x.ins; org = x.org; awm = x.awm; nlm = x.nlm; ckm = x.ckm;
             pend = x.pend; top = x.top; bot = x.bot; sctx = x.sctx; asctx =
             x.asctx; dirty = x.dirty; xtw = x.xtw })) (fun _ ->
             post.vterm.tpen) t) post.vterm)) (sgr_decode_ok ops post.vparser)
   | _ ->
     (||) (pen_eqb t.tpen post.vterm.tpen)
       (match f with
        | Decrc -> true
        | Decrst _ -> true
        | Decstr -> true
        | Ris -> true
        | Scorc -> true
        | _ -> false))

(** val holds_C13 : vt -> bool **)

let holds_C13 post =
  let t = post.vterm in
  let n0 = length t.buf.lines in
  (match t.active with
   | Primary ->
     (match t.sb_limit with
      | Some l ->
        (&&)
          (N.leb (N.of_nat n0)
            (N.add (N.add (N.of_nat t.rows) l)
              (N.div l (Npos (XO (XI (XO XH)))))))
          (if N.eqb l N0 then Nat.eqb n0 t.rows else true)
      | None -> true)
   | Alternate -> Nat.eqb n0 t.rows)

(** val holds_C15 : line list -> vt -> nat list -> bool **)

let holds_C15 prev post ls =
  let v = tview post.vterm in
  forallb (fun r ->
    (||) (existsb (Nat.eqb r) ls)
      ((&&) (Nat.eqb (length prev) (length v))
        (list_eqb cell_eqb (row_at prev r).cells (row_at v r).cells)))
    (seq O (length v))

(** val is_alt_b : term -> bool **)

let is_alt_b t =
  btype_eqb t.active Alternate

(** val holds_C16 : vt -> func -> vt -> bool **)

let holds_C16 pre f post =
  let t = pre.vterm in
  let t' = post.vterm in
  if (&&) (is_alt_b t) (is_alt_b t')
  then buffer_vis_eqb t.other t'.other
  else if (&&) (negb (is_alt_b t)) (is_alt_b t')
       then (&&)
              ((&&) (buffer_vis_eqb t.buf t'.other)
                (lines_eqb t'.buf.lines
                  (repeat (blank_line t.cols t.tpen) t.rows)))
              (match f with
               | Decset ms ->
                 (match ms with
                  | [] -> true
                  | d :: l ->
                    (match d with
                     | AltScreenBuffer ->
                       (match l with
                        | [] -> ctx_eqb t'.asctx t.sctx
                        | _ :: _ -> true)
                     | SaveCursorAltScreenBuffer ->
                       (match l with
                        | [] -> ctx_eqb t'.asctx (spec_saved_now t)
                        | _ :: _ -> true)
                     | _ -> true))
               | _ -> true)
       else if (&&) (is_alt_b t) (negb (is_alt_b t'))
            then (match f with
                  | Decrst _ ->
                    if (&&) (Nat.eqb t.other.bcols t.cols)
                         (Nat.eqb t.other.brows t.rows)
                    then lines_eqb t'.buf.lines t.other.lines
                    else true
                  | _ -> true)
            else true

(** val clamp_ctx : saved_ctx -> nat -> nat -> saved_ctx **)

let clamp_ctx c ncols nrows =
  set (fun s -> s.sc_row) (fun f ->
    let n0 = fun r -> f r.sc_row in
    (fun x -> { sc_col = x.sc_col; sc_row = (n0 x); sc_pen = x.sc_pen;
    sc_origin = x.sc_origin; sc_awm = x.sc_awm })) (fun _ ->
    Nat.min c.sc_row (sub nrows (S O)))
    (set (fun s -> s.sc_col) (fun f ->
      let n0 = fun r -> f r.sc_col in
      (fun x -> { sc_col = (n0 x); sc_row = x.sc_row; sc_pen = x.sc_pen;
      sc_origin = x.sc_origin; sc_awm = x.sc_awm })) (fun _ ->
      Nat.min c.sc_col (sub ncols (S O))) c)

(** val other_screen : btype -> btype **)

let other_screen = function
| Primary -> Alternate
| Alternate -> Primary

(** val holds_C17 : vt -> func -> vt -> bool **)

let holds_C17 pre f post =
  let t = pre.vterm in
  let t' = post.vterm in
  let a = t.active in
  (match f with
   | Decrc ->
     (&&)
       ((&&) (visible_eqb (spec_restore t) t') (Nat.ltb t'.cur_col t'.cols))
       (Nat.ltb t'.cur_row t'.rows)
   | Decrst ms ->
     (match ms with
      | [] -> true
      | d :: l ->
        (match d with
         | SaveCursor ->
           (match l with
            | [] ->
              (&&)
                ((&&) (visible_eqb (spec_restore t) t')
                  (Nat.ltb t'.cur_col t'.cols)) (Nat.ltb t'.cur_row t'.rows)
            | _ :: _ -> true)
         | SaveCursorAltScreenBuffer ->
           (match l with
            | [] ->
              let c = saved_of t Primary in
              (&&)
                ((&&)
                  ((&&)
                    ((&&)
                      ((&&)
                        ((&&) (pen_eqb t'.tpen c.sc_pen)
                          (eqb t'.org c.sc_origin)) (eqb t'.awm c.sc_awm))
                      (negb t'.pend)) (Nat.ltb t'.cur_col t'.cols))
                  (Nat.ltb t'.cur_row t'.rows))
                (if (&&) (Nat.eqb (primary_buffer t).bcols t.cols)
                      (Nat.eqb (primary_buffer t).brows t.rows)
                 then (&&) (Nat.eqb t'.cur_col c.sc_col)
                        (Nat.eqb t'.cur_row c.sc_row)
                 else true)
            | _ :: _ -> true)
         | _ -> true))
   | Decsc ->
     visible_eqb
       (set (fun t0 -> t0.sctx) (fun f0 ->
         let s = fun r -> f0 r.sctx in
         (fun x -> { cols = x.cols; rows = x.rows; buf = x.buf; other =
         x.other; active = x.active; sb_limit = x.sb_limit; cur_col =
         x.cur_col; cur_row = x.cur_row; cur_vis = x.cur_vis; tpen = x.tpen;
         cs0 = x.cs0; cs1 = x.cs1; acs = x.acs; tabs = x.tabs; ins = x.ins;
         org = x.org; awm = x.awm; nlm = x.nlm; ckm = x.ckm; pend = x.pend;
         top = x.top; bot = x.bot; sctx = (s x); asctx = x.asctx; dirty =
         x.dirty; xtw = x.xtw })) (fun _ -> spec_saved_now t) t) t'
   | Decset ms ->
     (match ms with
      | [] -> true
      | d :: l ->
        (match d with
         | SaveCursor ->
           (match l with
            | [] ->
              visible_eqb
                (set (fun t0 -> t0.sctx) (fun f0 ->
                  let s = fun r -> f0 r.sctx in
                  (fun x -> { cols = x.cols; rows = x.rows; buf = x.buf;
                  other = x.other; active = x.active; sb_limit = x.sb_limit;
                  cur_col = x.cur_col; cur_row = x.cur_row; cur_vis =
                  x.cur_vis; tpen = x.tpen; cs0 = x.cs0; cs1 = x.cs1; acs =
                  x.acs; tabs = x.tabs; ins = x.ins; org = x.org; awm =
                  x.awm; nlm = x.nlm; ckm = x.ckm; pend = x.pend; top =
                  x.top; bot = x.bot; sctx = (s x); asctx = x.asctx; dirty =
                  x.dirty; xtw = x.xtw })) (fun _ -> spec_saved_now t) t) t'
            | _ :: _ -> true)
         | SaveCursorAltScreenBuffer ->
           (match l with
            | [] -> ctx_eqb (saved_of t' a) (spec_saved_now t)
            | _ :: _ -> true)
         | _ -> true))
   | Decstr ->
     (&&) (ctx_eqb (saved_of t' a) default_ctx)
       (ctx_eqb (saved_of t' (other_screen a)) (saved_of t (other_screen a)))
   | Ris -> (&&) (ctx_eqb t'.sctx default_ctx) (ctx_eqb t'.asctx default_ctx)
   | Scorc ->
     (&&)
       ((&&) (visible_eqb (spec_restore t) t') (Nat.ltb t'.cur_col t'.cols))
       (Nat.ltb t'.cur_row t'.rows)
   | Scosc ->
     visible_eqb
       (set (fun t0 -> t0.sctx) (fun f0 ->
         let s = fun r -> f0 r.sctx in
         (fun x -> { cols = x.cols; rows = x.rows; buf = x.buf; other =
         x.other; active = x.active; sb_limit = x.sb_limit; cur_col =
         x.cur_col; cur_row = x.cur_row; cur_vis = x.cur_vis; tpen = x.tpen;
         cs0 = x.cs0; cs1 = x.cs1; acs = x.acs; tabs = x.tabs; ins = x.ins;
         org = x.org; awm = x.awm; nlm = x.nlm; ckm = x.ckm; pend = x.pend;
         top = x.top; bot = x.bot; sctx = (s x); asctx = x.asctx; dirty =
         x.dirty; xtw = x.xtw })) (fun _ -> spec_saved_now t) t) t'
   | Xtwinops _ -> true
   | _ ->
     (&&) ((&&) (ctx_eqb t.sctx t'.sctx) (ctx_eqb t.asctx t'.asctx))
       (btype_eqb t.active t'.active))

(** val no_save_modes : dec_mode list -> bool **)

let no_save_modes ms =
  forallb (fun m ->
    match m with
    | SaveCursor -> false
    | SaveCursorAltScreenBuffer -> false
    | _ -> true) ms

(** val holds_C17_switch : vt -> func -> vt -> bool **)

let holds_C17_switch pre f post =
  let t = pre.vterm in
  let t' = post.vterm in
  (match f with
   | Decrst ms ->
     if no_save_modes ms
     then forallb (fun s ->
            ctx_eqb (clamp_ctx (saved_of t' s) t'.cols t'.rows)
              (clamp_ctx (saved_of t s) t'.cols t'.rows))
            (Primary :: (Alternate :: []))
     else true
   | Decset ms ->
     if no_save_modes ms
     then forallb (fun s ->
            ctx_eqb (clamp_ctx (saved_of t' s) t'.cols t'.rows)
              (clamp_ctx (saved_of t s) t'.cols t'.rows))
            (Primary :: (Alternate :: []))
     else true
   | _ -> true)

(** val holds_C17_resize : vt -> vt -> bool **)

let holds_C17_resize pre post =
  let t = pre.vterm in
  let t' = post.vterm in
  (&&) (ctx_eqb t'.sctx (clamp_ctx t.sctx t'.cols t'.rows))
    (ctx_eqb t'.asctx t.asctx)

(** val strictly_sorted : nat list -> bool **)

let rec strictly_sorted = function
| [] -> true
| a :: r ->
  (match r with
   | [] -> true
   | b :: _ -> (&&) (Nat.ltb a b) (strictly_sorted r))

(** val stops_agree : nat -> nat list -> (nat -> bool) -> bool **)

let stops_agree bound l f =
  (&&)
    ((&&)
      (forallb (fun k -> eqb (is_stop l k) (f k))
        (seq O (add bound (S (S O))))) (forallb (fun k -> Nat.ltb k bound) l))
    (strictly_sorted l)

(** val holds_C18 : vt -> func -> vt -> bool **)

let holds_C18 pre f post =
  let t = pre.vterm in
  let t' = post.vterm in
  let col = t.cur_col in
  (match f with
   | Ctc op0 ->
     (match op0 with
      | CtcSet ->
        stops_agree t.cols t'.tabs (fun k ->
          (||) (is_stop t.tabs k)
            ((&&) ((&&) (Nat.eqb k col) (Nat.ltb O col)) (Nat.ltb col t.cols)))
      | CtcClearCurrentColumn ->
        stops_agree t.cols t'.tabs (fun k ->
          (&&) (is_stop t.tabs k) (negb (Nat.eqb k col)))
      | CtcClearAll -> (match t'.tabs with
                        | [] -> true
                        | _ :: _ -> false))
   | Hts ->
     stops_agree t.cols t'.tabs (fun k ->
       (||) (is_stop t.tabs k)
         ((&&) ((&&) (Nat.eqb k col) (Nat.ltb O col)) (Nat.ltb col t.cols)))
   | Ris -> stops_agree t.cols t'.tabs (default_stop t.cols)
   | Tbc s ->
     (match s with
      | TbcCurrentColumn ->
        stops_agree t.cols t'.tabs (fun k ->
          (&&) (is_stop t.tabs k) (negb (Nat.eqb k col)))
      | TbcAll -> (match t'.tabs with
                   | [] -> true
                   | _ :: _ -> false))
   | Xtwinops _ -> true
   | _ -> list_eqb Nat.eqb t.tabs t'.tabs)

(** val holds_C18_resize : vt -> vt -> bool **)

let holds_C18_resize pre post =
  let t = pre.vterm in
  let t' = post.vterm in
  stops_agree t'.cols t'.tabs (fun k ->
    (||) ((&&) (is_stop t.tabs k) (Nat.ltb k t'.cols))
      ((&&)
        ((&&) ((&&) (Nat.leb t.cols k) (Nat.ltb k t'.cols))
          (Nat.eqb (Nat.modulo k (S (S (S (S (S (S (S (S O))))))))) O))
        (Nat.ltb O k)))

(** val tabs_are_default : term -> bool **)

let tabs_are_default t =
  stops_agree t.cols t.tabs (default_stop t.cols)

(** val holds_C19 : vt -> func -> vt -> bool **)

let holds_C19 pre f post =
  match f with
  | Ris ->
    vt_eqb post (vt_new pre.vterm.cols pre.vterm.rows pre.vterm.sb_limit)
  | _ -> true

(** val holds_C20 : vt -> n list -> vt -> bool **)

let holds_C20 pre cs post =
  match pre.vparser.pst with
  | Ground ->
    if inert_spec cs
    then (&&) (term_eqb pre.vterm post.vterm)
           (pstate_eqb post.vparser.pst Ground)
    else true
  | _ -> true

(** val claims_inert : vt -> n list -> bool **)

let claims_inert pre cs =
  match pre.vparser.pst with
  | Ground -> inert_spec cs
  | _ -> false

(** val known_C20 : n list -> bool **)

let known_C20 =
  kf_c20

(** val holds_C06_modes : vt -> func -> vt -> bool **)

let holds_C06_modes pre f post =
  match f with
  | Decrst _ ->
    (&&) (Nat.eqb pre.vterm.top post.vterm.top)
      (Nat.eqb pre.vterm.bot post.vterm.bot)
  | Decset _ ->
    (&&) (Nat.eqb pre.vterm.top post.vterm.top)
      (Nat.eqb pre.vterm.bot post.vterm.bot)
  | Rm _ ->
    (&&) (Nat.eqb pre.vterm.top post.vterm.top)
      (Nat.eqb pre.vterm.bot post.vterm.bot)
  | Sm _ ->
    (&&) (Nat.eqb pre.vterm.top post.vterm.top)
      (Nat.eqb pre.vterm.bot post.vterm.bot)
  | _ -> true

(** val holds_C06_resize : vt -> vt -> bool **)

let holds_C06_resize pre post =
  if Nat.eqb pre.vterm.rows post.vterm.rows
  then (&&) (Nat.eqb pre.vterm.top post.vterm.top)
         (Nat.eqb pre.vterm.bot post.vterm.bot)
  else (&&) (Nat.eqb post.vterm.top O)
         (Nat.eqb post.vterm.bot (sub post.vterm.rows (S O)))

(** val logical_go : line list -> cell list -> cell list list **)

let rec logical_go ls cur =
  match ls with
  | [] -> (match cur with
           | [] -> []
           | _ :: _ -> cur :: [])
  | l :: r ->
    let cur' = app cur l.cells in
    if l.wrapped then logical_go r cur' else cur' :: (logical_go r [])

(** val logical : line list -> cell list list **)

let logical ls =
  logical_go ls []

(** val trimd : cell list -> cell list **)

let trimd l =
  rev (skip_while cell_is_default (rev l))

(** val logical_t : line list -> cell list list **)

let logical_t ls =
  map trimd (logical ls)

(** val curs_go : line list -> nat -> nat -> nat -> nat -> nat * nat **)

let rec curs_go ls r k off ncols =
  match r with
  | O -> (k, off)
  | S r' ->
    (match ls with
     | [] -> (k, off)
     | l :: r0 ->
       if l.wrapped
       then curs_go r0 r' k (add off ncols) ncols
       else curs_go r0 r' (S k) O ncols)

(** val curs : buffer -> nat -> nat -> nat * nat **)

let curs b c r =
  let (k, off) = curs_go b.lines (add (sb_len b) r) O O b.bcols in
  (k, (add off c))

(** val cells_eqb : cell list -> cell list -> bool **)

let cells_eqb =
  list_eqb cell_eqb

(** val is_prefix : cell list -> cell list -> bool **)

let rec is_prefix a b =
  match a with
  | [] -> true
  | x :: a' ->
    (match b with
     | [] -> false
     | y :: b' -> (&&) (cell_eqb x y) (is_prefix a' b'))

(** val all_empty : cell list list -> bool **)

let all_empty l =
  forallb (fun x -> match x with
                    | [] -> true
                    | _ :: _ -> false) l

(** val tail_ok : cell list list -> cell list list -> bool **)

let rec tail_ok new0 old =
  match new0 with
  | [] -> true
  | x :: new' ->
    (match old with
     | [] -> all_empty new0
     | y :: old' ->
       if cells_eqb x y
       then tail_ok new' old'
       else (&&) (is_prefix x y) (all_empty new'))

(** val eq_upto_blank : cell list -> cell list -> bool **)

let eq_upto_blank a b =
  (&&) (is_prefix a b) (forallb cell_is_default (skipn (length a) b))

(** val resize_preserves :
    buffer -> nat -> nat -> buffer -> nat -> nat -> bool **)

let resize_preserves b c r b' c' r' =
  let l = logical_t b.lines in
  let l' = logical_t b'.lines in
  let (k, o) = curs b c r in
  let (k', o') = curs b' c' r' in
  let old_k = nth k l [] in
  let new_k = nth k l' [] in
  let m = length old_k in
  (&&)
    ((&&)
      ((&&)
        ((&&)
          ((&&) (Nat.eqb k' k)
            (list_eqb cells_eqb (firstn k l') (firstn k l)))
          (eq_upto_blank (firstn (Nat.min o m) new_k)
            (firstn (Nat.min o m) old_k))) (is_prefix new_k old_k))
      (if Nat.ltb o m then Nat.eqb o' o else true))
    (tail_ok (skipn (S k) l') (skipn (S k) l))

(** val split_crlf : n list -> n list -> n list list **)

let rec split_crlf s cur =
  match s with
  | [] -> (rev cur) :: []
  | c :: r ->
    (match c with
     | N0 -> split_crlf r (c :: cur)
     | Npos p ->
       (match p with
        | XI p0 ->
          (match p0 with
           | XO p1 ->
             (match p1 with
              | XI p2 ->
                (match p2 with
                 | XH ->
                   (match r with
                    | [] -> split_crlf r (c :: cur)
                    | n0 :: r0 ->
                      (match n0 with
                       | N0 -> split_crlf r (c :: cur)
                       | Npos p3 ->
                         (match p3 with
                          | XO p4 ->
                            (match p4 with
                             | XI p5 ->
                               (match p5 with
                                | XO p6 ->
                                  (match p6 with
                                   | XH -> (rev cur) :: (split_crlf r0 [])
                                   | _ -> split_crlf r (c :: cur))
                                | _ -> split_crlf r (c :: cur))
                             | _ -> split_crlf r (c :: cur))
                          | _ -> split_crlf r (c :: cur))))
                 | _ -> split_crlf r (c :: cur))
              | _ -> split_crlf r (c :: cur))
           | _ -> split_crlf r (c :: cur))
        | _ -> split_crlf r (c :: cur)))

(** val printable_c09 : n -> bool **)

let printable_c09 c =
  (||)
    ((&&) (N.leb (Npos (XO (XO (XO (XO (XO XH)))))) c)
      (N.leb c (Npos (XI (XI (XI (XI (XI (XI XH)))))))))
    (N.leb (Npos (XO (XO (XO (XO (XO (XI (XO XH)))))))) c)

(** val text_eqb : n list list -> n list list -> bool **)

let text_eqb =
  list_eqb (list_eqb N.eqb)

(** val holds_C09 : n list -> n list list -> n list list -> bool **)

let holds_C09 input txt unw =
  let ls = split_crlf input [] in
  if forallb (forallb printable_c09) ls
  then let expect = strip_empty_tail (map trim_end ls) in
       (&&) (text_eqb (strip_empty_tail txt) expect)
         (text_eqb (strip_empty_tail (map trim_end unw)) expect)
  else true

(** val holds_C10 : vt -> vt -> bool **)

let holds_C10 pre post =
  let t = pre.vterm in
  let t' = post.vterm in
  (match t.active with
   | Primary ->
     (match t.sb_limit with
      | Some _ -> true
      | None ->
        resize_preserves t.buf t.cur_col t.cur_row t'.buf t'.cur_col
          t'.cur_row)
   | Alternate -> true)

(** val holds_C16_resized : vt -> func -> vt -> bool **)

let holds_C16_resized pre f post =
  let t = pre.vterm in
  let t' = post.vterm in
  if (&&) (is_alt_b t) (negb (is_alt_b t'))
  then (match f with
        | Decrst ms ->
          (match ms with
           | [] -> true
           | d :: l ->
             (match d with
              | AltScreenBuffer ->
                (match l with
                 | [] ->
                   (match t.sb_limit with
                    | Some _ -> true
                    | None -> holds_C02_state post)
                 | _ :: _ -> true)
              | SaveCursorAltScreenBuffer ->
                (match l with
                 | [] ->
                   (match t.sb_limit with
                    | Some _ -> true
                    | None ->
                      let c = saved_of t Primary in
                      (&&)
                        (resize_preserves t.other c.sc_col c.sc_row t'.buf
                          t'.cur_col t'.cur_row) (holds_C02_state post))
                 | _ :: _ -> true)
              | _ -> true))
        | _ -> true)
  else true

(** val obs_buffer_eqb : buffer -> buffer -> bool **)

let obs_buffer_eqb a b =
  (&&) ((&&) (lines_eqb (view a) (view b)) (Nat.eqb a.bcols b.bcols))
    (Nat.eqb a.brows b.brows)

(** val obs_eqb_term : term -> term -> bool **)

let obs_eqb_term a b =
  (&&)
    ((&&)
      (term_scalars_eqb
        (set (fun t -> t.sb_limit) (fun f ->
          let o = fun r -> f r.sb_limit in
          (fun x -> { cols = x.cols; rows = x.rows; buf = x.buf; other =
          x.other; active = x.active; sb_limit = (o x); cur_col = x.cur_col;
          cur_row = x.cur_row; cur_vis = x.cur_vis; tpen = x.tpen; cs0 =
          x.cs0; cs1 = x.cs1; acs = x.acs; tabs = x.tabs; ins = x.ins; org =
          x.org; awm = x.awm; nlm = x.nlm; ckm = x.ckm; pend = x.pend; top =
          x.top; bot = x.bot; sctx = x.sctx; asctx = x.asctx; dirty =
          x.dirty; xtw = x.xtw })) (fun _ -> None) a)
        (set (fun t -> t.sb_limit) (fun f ->
          let o = fun r -> f r.sb_limit in
          (fun x -> { cols = x.cols; rows = x.rows; buf = x.buf; other =
          x.other; active = x.active; sb_limit = (o x); cur_col = x.cur_col;
          cur_row = x.cur_row; cur_vis = x.cur_vis; tpen = x.tpen; cs0 =
          x.cs0; cs1 = x.cs1; acs = x.acs; tabs = x.tabs; ins = x.ins; org =
          x.org; awm = x.awm; nlm = x.nlm; ckm = x.ckm; pend = x.pend; top =
          x.top; bot = x.bot; sctx = x.sctx; asctx = x.asctx; dirty =
          x.dirty; xtw = x.xtw })) (fun _ -> None) b))
      (obs_buffer_eqb a.buf b.buf))
    (match a.active with
     | Primary -> true
     | Alternate -> obs_buffer_eqb a.other b.other)

(** val obs_params : parser0 -> n list list **)

let obs_params p =
  map pparts (firstn (S p.cur_param) p.params)

(** val obs_eqb_parser : parser0 -> parser0 -> bool **)

let obs_eqb_parser a b =
  (&&) (pstate_eqb a.pst b.pst)
    (match a.pst with
     | EscapeIntermediate -> opt_eqb N.eqb a.inter b.inter
     | CsiParam ->
       (&&) (opt_eqb N.eqb a.inter b.inter)
         (list_eqb (list_eqb N.eqb) (obs_params a) (obs_params b))
     | CsiIntermediate -> opt_eqb N.eqb a.inter b.inter
     | DcsParam ->
       (&&) (opt_eqb N.eqb a.inter b.inter)
         (list_eqb (list_eqb N.eqb) (obs_params a) (obs_params b))
     | DcsIntermediate -> opt_eqb N.eqb a.inter b.inter
     | _ -> true)

(** val holds_C12 : vt -> vt -> bool **)

let holds_C12 a b =
  (&&) ((&&) (obs_eqb_term a.vterm b.vterm) (parser_eqb a.vparser b.vparser))
    (match a.vterm.sb_limit with
     | Some _ -> true
     | None ->
       (match a.vterm.active with
        | Primary -> lines_eqb a.vterm.buf.lines b.vterm.buf.lines
        | Alternate -> lines_eqb a.vterm.other.lines b.vterm.other.lines))

(** val known_C12 : vt -> bool **)

let known_C12 perchar =
  (&&) (is_alt_b perchar.vterm)
    (Nat.ltb perchar.vterm.rows (length perchar.vterm.buf.lines))

(** val holds_C12_lines : vt -> vt -> bool **)

let holds_C12_lines a b =
  Nat.eqb (length a.vterm.buf.lines) (length b.vterm.buf.lines)

(** val dumpable : term -> bool **)

let dumpable t =
  (&&)
    (N.leb (N.of_nat t.cols) (Npos (XO (XI (XI (XI (XI (XI (XI (XI (XI (XI
      (XI (XI (XI (XI (XI XH)))))))))))))))))
    (N.leb (N.of_nat t.rows) (Npos (XI (XI (XI (XI (XI (XI (XI (XI (XI (XI
      (XI (XI (XI (XI (XI XH)))))))))))))))))

(** val kf1_C11 : term -> bool **)

let kf1_C11 t =
  (&&) t.org ((||) (Nat.ltb t.cur_row t.top) (Nat.ltb t.bot t.cur_row))

(** val kf2_C11 : term -> bool **)

let kf2_C11 t =
  (&&) (is_alt_b t)
    (negb
      ((&&) (Nat.eqb t.other.bcols t.cols) (Nat.eqb t.other.brows t.rows)))

(** val kf3_C11 : term -> bool **)

let kf3_C11 t =
  negb (dumpable t)

(** val norm_C11 : term -> term **)

let norm_C11 t =
  set (fun t0 -> t0.asctx) (fun f ->
    let s = fun r -> f r.asctx in
    (fun x -> { cols = x.cols; rows = x.rows; buf = x.buf; other = x.other;
    active = x.active; sb_limit = x.sb_limit; cur_col = x.cur_col; cur_row =
    x.cur_row; cur_vis = x.cur_vis; tpen = x.tpen; cs0 = x.cs0; cs1 = x.cs1;
    acs = x.acs; tabs = x.tabs; ins = x.ins; org = x.org; awm = x.awm; nlm =
    x.nlm; ckm = x.ckm; pend = x.pend; top = x.top; bot = x.bot; sctx =
    x.sctx; asctx = (s x); dirty = x.dirty; xtw = x.xtw })) (fun _ ->
    clamp_ctx t.asctx t.cols t.rows)
    (set (fun t0 -> t0.sb_limit) (fun f ->
      let o = fun r -> f r.sb_limit in
      (fun x -> { cols = x.cols; rows = x.rows; buf = x.buf; other = x.other;
      active = x.active; sb_limit = (o x); cur_col = x.cur_col; cur_row =
      x.cur_row; cur_vis = x.cur_vis; tpen = x.tpen; cs0 = x.cs0; cs1 =
      x.cs1; acs = x.acs; tabs = x.tabs; ins = x.ins; org = x.org; awm =
      x.awm; nlm = x.nlm; ckm = x.ckm; pend = x.pend; top = x.top; bot =
      x.bot; sctx = x.sctx; asctx = x.asctx; dirty = x.dirty; xtw = x.xtw }))
      (fun _ -> None) t)

(** val holds_C11 : vt -> vt -> bool **)

let holds_C11 orig restored =
  let a = orig.vterm in
  let b = restored.vterm in
  (&&)
    ((&&) (obs_eqb_term (norm_C11 a) (norm_C11 b))
      (obs_eqb_parser orig.vparser restored.vparser))
    (match a.active with
     | Primary -> true
     | Alternate -> obs_buffer_eqb a.other b.other)

(** val holds_C14 : line list -> line list -> line list -> bool **)

let holds_C14 drained_L lines_L lines_inf =
  lines_eqb (app drained_L lines_L) lines_inf

type left_loc =
| InView of nat
| InScrollback
| Discarded
| Stays

(** val wrap_left : term -> left_loc **)

let wrap_left t =
  let r = t.cur_row in
  if Nat.eqb r t.bot
  then if Nat.ltb t.top r
       then InView (sub r (S O))
       else if Nat.eqb t.top O then InScrollback else Discarded
  else if Nat.ltb r (sub t.rows (S O)) then InView r else Stays

(** val line_at : term -> left_loc -> line option **)

let line_at t' = function
| InView i -> nth_error (tview t') i
| InScrollback -> last_opt (tsb t')
| _ -> None

(** val wrap_due : term -> func -> bool **)

let wrap_due t = function
| Print _ -> (&&) t.awm t.pend
| _ -> false

(** val kf1_C04 : vt -> func -> bool **)

let kf1_C04 pre f =
  let t = pre.vterm in
  (&&)
    ((&&) ((&&) (wrap_due t f) (Nat.eqb t.cur_row t.bot))
      (Nat.ltb t.bot (sub t.rows (S O))))
    ((||) (Nat.eqb t.top O) (Nat.ltb t.top t.bot))

(** val holds_C04_wrapmark : vt -> func -> vt -> bool **)

let holds_C04_wrapmark pre f post =
  let t = pre.vterm in
  let t' = post.vterm in
  if (&&) (wrap_due t f) (negb (kf1_C04 pre f))
  then (match wrap_left t with
        | Discarded -> true
        | Stays ->
          (&&) (Nat.eqb t'.cur_row t.cur_row)
            (match nth_error (tview t) t.cur_row with
             | Some l ->
               (match nth_error (tview t') t.cur_row with
                | Some l' -> eqb l.wrapped l'.wrapped
                | None -> false)
             | None -> false)
        | x -> (match line_at t' x with
                | Some l -> l.wrapped
                | None -> false))
  else true

(** val wrapmark_lost : vt -> func -> vt -> bool **)

let wrapmark_lost pre f post =
  (&&) (kf1_C04 pre f)
    (match line_at post.vterm (wrap_left pre.vterm) with
     | Some l -> negb l.wrapped
     | None -> false)

(** val text_at : cell list list -> cell list list -> nat -> bool **)

let text_at l l' k =
  (&&)
    ((&&) (list_eqb cells_eqb (firstn k l') (firstn k l))
      (is_prefix (nth k l' []) (nth k l [])))
    (tail_ok (skipn (S k) l') (skipn (S k) l))

(** val text_upto : cell list list -> cell list list -> nat -> nat -> bool **)

let text_upto l l' k o =
  let old_k = nth k l [] in
  let new_k = nth k l' [] in
  let m = length old_k in
  (&&) (text_at l l' k)
    (eq_upto_blank (firstn (Nat.min o m) new_k) (firstn (Nat.min o m) old_k))

(** val return_text_ok : cell list list -> cell list list -> bool **)

let return_text_ok l l' =
  (&&) (tail_ok l' l) (existsb (text_at l l') (seq O (S (length l))))

(** val holds_C16_return_text : vt -> func -> vt -> bool **)

let holds_C16_return_text pre f post =
  let t = pre.vterm in
  let t' = post.vterm in
  if (&&) (is_alt_b t) (negb (is_alt_b t'))
  then (match f with
        | Decrst ms ->
          let l = logical_t t.other.lines in
          let l' = logical_t t'.buf.lines in
          (&&)
            ((&&)
              ((&&) (return_text_ok l l')
                (if (&&) (Nat.eqb t.other.bcols t.cols)
                      (Nat.eqb t.other.brows t.rows)
                 then lines_eqb t'.buf.lines t.other.lines
                 else true)) (holds_C02_state post))
            (match ms with
             | [] -> true
             | d :: l0 ->
               (match d with
                | AltScreenBuffer ->
                  (match l0 with
                   | [] ->
                     (&&)
                       (let (k, o) = curs t.other t.cur_col t.cur_row in
                        text_upto l l' k o)
                       (if Nat.ltb t.cur_row t.other.brows
                        then resize_preserves t.other t.cur_col t.cur_row
                               t'.buf t'.cur_col t'.cur_row
                        else true)
                   | _ :: _ -> true)
                | SaveCursorAltScreenBuffer ->
                  (match l0 with
                   | [] ->
                     let c = saved_of t Primary in
                     resize_preserves t.other c.sc_col c.sc_row t'.buf
                       t'.cur_col t'.cur_row
                   | _ :: _ -> true)
                | _ -> true))
        | _ -> true)
  else true

(** val switches : dec_mode -> bool **)

let switches = function
| AltScreenBuffer -> true
| SaveCursorAltScreenBuffer -> true
| _ -> false

(** val holds_C16_return_list : vt -> func -> vt -> bool **)

let holds_C16_return_list pre f post =
  let t = pre.vterm in
  let t' = post.vterm in
  if (&&) (is_alt_b t) (negb (is_alt_b t'))
  then (match f with
        | Decrst ms ->
          (match ms with
           | [] -> true
           | m :: rest ->
             if forallb (fun x -> negb (switches x)) rest
             then let l = logical_t t.other.lines in
                  let l' = logical_t t'.buf.lines in
                  (match m with
                   | AltScreenBuffer ->
                     let (k, o) = curs t.other t.cur_col t.cur_row in
                     text_upto l l' k o
                   | SaveCursorAltScreenBuffer ->
                     let c = saved_of t Primary in
                     let (k, o) = curs t.other c.sc_col c.sc_row in
                     text_upto l l' k o
                   | _ -> true)
             else true)
        | _ -> true)
  else true

(** val split_switch :
    dec_mode list -> ((dec_mode list * dec_mode) * dec_mode list) option **)

let rec split_switch = function
| [] -> None
| m :: r ->
  if switches m
  then Some (([], m), r)
  else (match split_switch r with
        | Some p ->
          let (p0, b) = p in let (a, x) = p0 in Some (((m :: a), x), b)
        | None -> None)

(** val holds_C16_return_list_any : vt -> func -> vt -> bool **)

let holds_C16_return_list_any pre f post =
  let t = pre.vterm in
  let t' = post.vterm in
  if (&&) (is_alt_b t) (negb (is_alt_b t'))
  then (match f with
        | Decrst ms ->
          (match split_switch ms with
           | Some p ->
             let (p0, rest) = p in
             let (before, m) = p0 in
             if forallb (fun x -> negb (switches x)) rest
             then (match foldM decrst_one before t with
                   | Ok u ->
                     let l = logical_t t.other.lines in
                     let l' = logical_t t'.buf.lines in
                     (match m with
                      | AltScreenBuffer ->
                        let (k, o) = curs t.other u.cur_col u.cur_row in
                        text_upto l l' k o
                      | SaveCursorAltScreenBuffer ->
                        let c = saved_of u Primary in
                        let (k, o) = curs t.other c.sc_col c.sc_row in
                        text_upto l l' k o
                      | _ -> true)
                   | Panic _ -> true)
             else true
           | None -> true)
        | _ -> true)
  else true

(** val kf1_restorable : term -> bool **)

let kf1_restorable t =
  (&&)
    ((&&)
      ((&&) t.sctx.sc_origin ((||) t.sctx.sc_awm (negb ((||) t.awm t.pend))))
      (negb ((&&) (Nat.ltb t.cur_row t.top) (Nat.leb t.top t.sctx.sc_row))))
    (negb ((&&) (Nat.ltb t.bot t.cur_row) (Nat.leb t.sctx.sc_row t.bot)))

(** val kf1_C11_narrow : term -> bool **)

let kf1_C11_narrow t =
  (&&) (kf1_C11 t) (negb (kf1_restorable t))

(** val kf3b_C11 : term -> bool **)

let kf3b_C11 t =
  (&&) (negb (is_alt_b t))
    ((||)
      (N.leb (Npos (XI (XI (XI (XI (XI (XI (XI (XI (XI (XI (XI (XI (XI (XI
        (XI XH)))))))))))))))) (N.of_nat t.asctx.sc_col))
      (N.leb (Npos (XI (XI (XI (XI (XI (XI (XI (XI (XI (XI (XI (XI (XI (XI
        (XI XH)))))))))))))))) (N.of_nat t.asctx.sc_row)))

type row_claim =
| Unwrapped
| Keeps
| NoClaim

(** val extent_claim : nat -> nat -> nat -> row_claim **)

let extent_claim a z0 nc =
  if Nat.ltb a z0 then if Nat.leb nc z0 then Unwrapped else Keeps else NoClaim

(** val is_edit : func -> bool **)

let is_edit = function
| Dch _ -> true
| Decaln -> true
| Ech _ -> true
| Ed _ -> true
| El _ -> true
| Ich _ -> true
| _ -> false

(** val claim_at : term -> func -> nat -> row_claim **)

let claim_at t f r =
  let col = t.cur_col in
  let row = t.cur_row in
  let nc = t.cols in
  (match f with
   | Dch _ -> if Nat.eqb r row then Unwrapped else Keeps
   | Decaln -> Keeps
   | Ech n0 ->
     if Nat.eqb r row
     then extent_claim col (add col (Nat.min (n1 n0) (sub nc col))) nc
     else Keeps
   | Ed s ->
     (match s with
      | EdBelow ->
        if Nat.ltb r row
        then Keeps
        else if Nat.eqb r row then extent_claim col nc nc else Unwrapped
      | EdAbove ->
        if Nat.ltb r row
        then Unwrapped
        else if Nat.eqb r row
             then extent_claim O (Nat.min (add col (S O)) nc) nc
             else Keeps
      | EdAll -> Unwrapped
      | EdSavedLines -> Keeps)
   | El s ->
     if Nat.eqb r row
     then (match s with
           | ElToRight -> extent_claim col nc nc
           | ElToLeft -> extent_claim O (Nat.min (add col (S O)) nc) nc
           | ElAll -> extent_claim O nc nc)
     else Keeps
   | Ich _ -> Keeps
   | _ -> NoClaim)

(** val row_ok : row_claim -> line -> line -> bool **)

let row_ok c l l' =
  match c with
  | Unwrapped -> negb l'.wrapped
  | Keeps -> eqb l.wrapped l'.wrapped
  | NoClaim -> true

(** val holds_C07_wrapmark : vt -> func -> vt -> bool **)

let holds_C07_wrapmark pre f post =
  let t = pre.vterm in
  let t' = post.vterm in
  if is_edit f
  then forallb (fun r ->
         match nth_error (tview t) r with
         | Some l ->
           (match nth_error (tview t') r with
            | Some l' -> row_ok (claim_at t f r) l l'
            | None -> false)
         | None -> false) (seq O t.rows)
  else true

(** val kf1_C07 : vt -> func -> bool **)

let kf1_C07 pre f =
  let t = pre.vterm in
  (match f with
   | Ed s ->
     (match s with
      | EdAbove ->
        (&&) (Nat.leb t.cols (add t.cur_col (S O)))
          (row_at (tview t) t.cur_row).wrapped
      | _ -> false)
   | El s ->
     (match s with
      | ElToLeft ->
        (&&) (Nat.leb t.cols (add t.cur_col (S O)))
          (row_at (tview t) t.cur_row).wrapped
      | _ -> false)
   | _ -> false)

(** val wrapmark_kept : vt -> func -> vt -> bool **)

let wrapmark_kept pre f post =
  let t = pre.vterm in
  (&&) (kf1_C07 pre f)
    (match nth_error (tview post.vterm) t.cur_row with
     | Some l' ->
       (&&) (list_eqb cell_eqb l'.cells (blanks t.cols t.tpen)) l'.wrapped
     | None -> false)

(** val kf1_C17 : vt -> func -> bool **)

let kf1_C17 pre = function
| Decstr -> negb (ctx_eqb pre.vterm.sctx default_ctx)
| _ -> false
