(** C17 (save / restore cursor round-trips the full context, per screen): the gaps of the audit.

    1. ?1049h / ?1049l and the OTHER screen's saved context ([C17_1049h], [C17_1049l]).
    2. The power-on defaults and restore-without-save ([C17_defaults], [C17_restore_unsaved]).
    3. The run-level round trip: [C17_run_saved] (what any run does to the context saved on a
       screen, exactly), [C17_roundtrip] (no resize: exact), [C17_roundtrip_run] (with resizes),
       [C17_roundtrip_current_size_partial] / [..._refuted].
    4. DECSTR re-initialises the active screen's saved context ([C17_decstr_resets_saved]). *)

From Coq Require Import Lia ZArith ZifyBool ZifyNat ZifyN String List.
From Avt Require Import Oracles.Step Proofs.Inv Proofs.TermEasy Proofs.VisEq Proofs.Frames
  Proofs.Resize Proofs.StepC17 Proofs.StepC17Switch Proofs.InvTerm Proofs.InvStep.
Import ListNotations.
Ltac Zify.zify_post_hook ::= Z.div_mod_to_equations.

(** * 0. small facts *)

Lemma btype_eqb_eq a b : btype_eqb a b = true <-> a = b.
Proof. destruct a, b; cbn; split; intros H; try reflexivity; discriminate H. Qed.

Lemma btype_eqb_neq a b : btype_eqb a b = false <-> a <> b.
Proof. destruct a, b; cbn; split; intros H; try reflexivity; try discriminate H; try congruence. Qed.

Lemma clamp_default c r : clamp_ctx default_ctx c r = default_ctx.
Proof. reflexivity. Qed.

Lemma clamp_clamp_ge s c r c' r' :
  c' <= c -> r' <= r -> clamp_ctx (clamp_ctx s c r) c' r' = clamp_ctx s c' r'.
Proof.
  intros Hc Hr. destruct s as [sc sr sp so sa]. unfold clamp_ctx, set. cbn -[Nat.min Nat.sub].
  f_equal; lia.
Qed.

Lemma clamp_fields s c r :
  sc_col (clamp_ctx s c r) = Nat.min (sc_col s) (c - 1)
  /\ sc_row (clamp_ctx s c r) = Nat.min (sc_row s) (r - 1)
  /\ sc_pen (clamp_ctx s c r) = sc_pen s /\ sc_origin (clamp_ctx s c r) = sc_origin s
  /\ sc_awm (clamp_ctx s c r) = sc_awm s.
Proof. destruct s; repeat split. Qed.

Lemma clamp_inside s c r : CtxInv c r s -> clamp_ctx s c r = s.
Proof. intros [H1 H2]. apply clamp_id; lia. Qed.

Lemma saved_now_inv t : TInv t -> CtxInv (cols t) (rows t) (spec_saved_now t).
Proof.
  intros HT. destruct (saved_now_in t HT) as [H1 H2].
  pose proof (ti_cols t HT). pose proof (ti_rows t HT). split; lia.
Qed.

(** under the invariant the context of the ACTIVE screen lies inside the screen *)
Lemma saved_active_inside t : TInv t -> CtxInv (cols t) (rows t) (saved_of t (active t)).
Proof. intros HT. unfold saved_of. rewrite btype_eqb_refl. exact (ti_sctx t HT). Qed.

Lemma saved_of_active t s : active t = s -> saved_of t s = sctx t.
Proof. intros <-. unfold saved_of. now rewrite btype_eqb_refl. Qed.

Lemma saved_of_inactive t s : active t <> s -> saved_of t s = asctx t.
Proof. intros H. unfold saved_of. apply btype_eqb_neq in H. now rewrite H. Qed.

(** one executed function keeps the size (XTWINOPS is switched off in every reachable state) *)
Theorem size_frame t f t' :
  xtw t = false -> execute t f = Ok t' -> cols t' = cols t /\ rows t' = rows t.
Proof.
  intros Hx H. destruct (is_cb_fn f) eqn:E.
  - pose proof (exec_cb_tfr _ _ _ E H) as F. split; [exact (tfr_cols _ _ F)|exact (tfr_rows _ _ F)].
  - destruct f; try discriminate E.
    all: try (cbn [execute] in H;
              first [ apply decset_keepD in H | apply decrst_keepD in H ];
              unfold keepD in H; injection H; intros; split; assumption).
    all: try (rewrite (xtwinops_noop _ _ _ Hx H); split; reflexivity).
    all: split; non_cb H t.
Qed.

(** * 1. ?1049h / ?1049l: both screens' saved contexts *)

(** ?1049h.  From the primary screen: the primary's context is the one saved now, the alternate
    screen is shown and ITS context is the one it had, clamped into the current size (it may
    have been saved at a larger size: [C17_1049h_other_unchanged_refuted]).  While already on
    the alternate screen: no switch, the context is saved on the ALTERNATE screen, the
    primary's is untouched. *)
Theorem C17_1049h : forall t t',
  TInv t -> execute t (Decset [SaveCursorAltScreenBuffer]) = Ok t' ->
  active t' = Alternate /\ cols t' = cols t /\ rows t' = rows t
  /\ saved_of t' (active t) = spec_saved_now t
  /\ saved_of t' (other_screen (active t)) =
       match active t with
       | Primary => clamp_ctx (saved_of t Alternate) (cols t) (rows t)
       | Alternate => saved_of t Primary
       end.
Proof.
  intros t t' HT H. rewrite exec_decset_one, decset_scasb_eq in H.
  apply bind_ok in H as (t1 & H1 & H). rewrite save_cursor_eq in H1.
  destruct (SwRel_reflow _ _ H) as (Rc & Rr & Ra & Rk & Rs).
  destruct (set_sctx_fields t (spec_saved_now t)) as (S1 & S2 & S3 & S4 & S5 & _).
  apply switch_alt_inv in H1 as [[Ea ->]|[Ea [d ->]]]; rewrite S1 in Ea.
  - rewrite S1 in Ra. rewrite S2, S4, S5 in Rs. rewrite S3 in Rk. rewrite S4 in Rc. rewrite S5 in Rr.
    rewrite Ea in *. unfold saved_of. rewrite Ra, Rs, Rk, Ea. cbn [btype_eqb other_screen].
    repeat split; try assumption. apply clamp_inside, saved_now_inv, HT.
  - destruct (to_alt_fields (t <| sctx := spec_saved_now t |>) d) as (T1 & T2 & T3 & _ & _ & T6 & T7 & _).
    rewrite T1 in Ra. rewrite T2, T6, T7, S3, S4, S5 in Rs. rewrite T3, S2 in Rk.
    rewrite T6, S4 in Rc. rewrite T7, S5 in Rr.
    unfold saved_of. rewrite Ra, Rs, Rk, Ea. cbn [btype_eqb other_screen].
    repeat split; assumption.
Qed.
Print Assumptions C17_1049h.

(** the requested exact form holds whenever the alternate screen's context lies inside the
    current screen (always the case unless the terminal was resized after that save) *)
Theorem C17_1049h_primary : forall t t',
  TInv t -> active t = Primary -> CtxInv (cols t) (rows t) (saved_of t Alternate) ->
  execute t (Decset [SaveCursorAltScreenBuffer]) = Ok t' ->
  active t' = Alternate /\ saved_of t' Primary = spec_saved_now t
  /\ saved_of t' Alternate = saved_of t Alternate.
Proof.
  intros t t' HT Ea Hin H. destruct (C17_1049h t t' HT H) as (A1 & _ & _ & A4 & A5).
  rewrite Ea in A4, A5. cbn [other_screen] in A5. rewrite (clamp_inside _ _ _ Hin) in A5.
  repeat split; assumption.
Qed.
Print Assumptions C17_1049h_primary.

(** ?1049l.  From the alternate screen: the primary screen is shown, its context is the one it
    had (clamped into the current size, as every return to a resized primary does) and the
    alternate's is untouched.  While on the primary screen: no switch, both contexts are
    untouched - and the sequence still RESTORES the cursor from the primary's context. *)
Theorem C17_1049l : forall t t',
  TInv t -> execute t (Decrst [SaveCursorAltScreenBuffer]) = Ok t' ->
  active t' = Primary /\ cols t' = cols t /\ rows t' = rows t
  /\ saved_of t' Primary = clamp_ctx (saved_of t Primary) (cols t) (rows t)
  /\ saved_of t' Alternate = saved_of t Alternate
  /\ (active t = Primary -> saved_of t' Primary = saved_of t Primary).
Proof.
  intros t t' HT H. rewrite exec_decrst_one, decrst_scasb_eq in H.
  apply bind_ok in H as (t1 & H1 & H).
  destruct (SwRel_reflow _ _ H) as (Rc & Rr & Ra & Rk & Rs).
  destruct (restore_cursor_fields_eq t1) as (_ & _ & Q3 & Q4 & _ & _ & _ & _ & _ & _ & Q11 & Q12 & Q13).
  rewrite Q3 in Rc. rewrite Q4 in Rr. rewrite Q11 in Ra. rewrite Q13 in Rk. rewrite Q12, Q3, Q4 in Rs.
  apply switch_prim_inv in H1 as [[Ea ->]|[Ea [d ->]]].
  - unfold saved_of. rewrite Ra, Rs, Rk, Ea. cbn [btype_eqb].
    repeat split; try assumption. intros _. apply clamp_inside. exact (ti_sctx t HT).
  - destruct (to_prim_fields t d) as (T1 & T2 & T3 & _ & _ & T6 & T7 & _).
    rewrite T1 in Ra. rewrite T2, T6, T7 in Rs. rewrite T3 in Rk. rewrite T6 in Rc. rewrite T7 in Rr.
    unfold saved_of. rewrite Ra, Rs, Rk, Ea. cbn [btype_eqb].
    repeat split; try assumption. intros E; discriminate E.
Qed.
Print Assumptions C17_1049l.

(** ?1049l while the primary screen is shown acts as a plain restore *)
Theorem C17_1049l_on_primary : forall t t',
  TInv t -> active t = Primary -> execute t (Decrst [SaveCursorAltScreenBuffer]) = Ok t' ->
  active t' = Primary /\ sctx t' = sctx t /\ asctx t' = asctx t
  /\ cur_col t' = sc_col (sctx t) /\ cur_row t' = sc_row (sctx t) /\ tpen t' = sc_pen (sctx t)
  /\ org t' = sc_origin (sctx t) /\ awm t' = sc_awm (sctx t) /\ pend t' = false.
Proof.
  intros t t' HT Ea H.
  destruct (C17_1049l t t' HT H) as (A1 & _ & _ & _ & A5 & A6).
  destruct (C17_decrst_scasb t t' HT H) as (B1 & B2 & B3 & B4 & _ & _ & B7). cbv zeta in *.
  specialize (A6 Ea). unfold saved_of in *. rewrite A1, Ea in *. cbn [btype_eqb] in *.
  unfold primary_buffer in B7. rewrite Ea in B7.
  destruct (B7 (ti_bcols t HT) (ti_brows t HT)) as [B8 B9].
  repeat split; assumption.
Qed.
Print Assumptions C17_1049l_on_primary.

(** the literal request "[saved_of t' Alternate = saved_of t Alternate] after ?1049h from the
    primary screen" is FALSE of the model without the side condition:
      forall t t', TInv t -> active t = Primary ->
        execute t (Decset [SaveCursorAltScreenBuffer]) = Ok t' ->
        saved_of t' Alternate = saved_of t Alternate.
    Counterexample: save at column 50 on the alternate screen of an 80-column terminal, return
    to the primary screen (?47l), shrink to 10 columns, enter with ?1049h: the alternate
    context comes back with column 9. *)
Local Open Scope string_scope.
Definition cex_1049h_ops : list op :=
  map Feed ((27%N :: str "[?47h") ++ (27%N :: str "[1;51H") ++ [27%N; 55%N] ++ (27%N :: str "[?47l"))
  ++ [Resize 10 5].

Example C17_1049h_other_unchanged_refuted :
  match runM (vt_new 80 5 None) cex_1049h_ops with
  | Ok v =>
    match execute (vterm v) (Decset [SaveCursorAltScreenBuffer]) with
    | Ok t' =>
      active (vterm v) = Primary /\ cols (vterm v) = 10
      /\ sc_col (saved_of (vterm v) Alternate) = 50 /\ sc_col (saved_of t' Alternate) = 9
      /\ ctx_eqb (saved_of t' Alternate) (saved_of (vterm v) Alternate) = false
      /\ ctx_eqb (saved_of t' Alternate) (clamp_ctx (saved_of (vterm v) Alternate) 10 5) = true
    | Panic _ => False
    end
  | Panic _ => False
  end.
Proof. vm_compute. repeat split. Qed.

(** non-vacuity of [C17_1049h] / [C17_1049l]: contexts saved on BOTH screens (primary: column 2,
    alternate: column 3), then ?1049h from the primary at column 6 and ?1049l back *)
Definition ex_1049_input : list N :=
  str "ab" ++ [27%N; 55%N] ++ (27%N :: str "[?47h") ++ str "x" ++ [27%N; 55%N]
  ++ (27%N :: str "[?47l") ++ str "cde".

Example C17_1049_nonvacuous :
  match feed_str (vt_new 10 5 None) ex_1049_input with
  | Ok (v, _) =>
    let t := vterm v in
    match execute t (Decset [SaveCursorAltScreenBuffer]) with
    | Ok t' =>
      match execute t' (Decrst [SaveCursorAltScreenBuffer]) with
      | Ok t'' =>
        active t = Primary /\ sc_col (saved_of t Primary) = 2 /\ sc_col (saved_of t Alternate) = 3
        /\ cur_col t = 6
        /\ active t' = Alternate /\ sc_col (saved_of t' Primary) = 6 /\ sc_col (saved_of t' Alternate) = 3
        /\ active t'' = Primary /\ sc_col (saved_of t'' Primary) = 6 /\ sc_col (saved_of t'' Alternate) = 3
        /\ cur_col t'' = 6
      | Panic _ => False
      end
    | Panic _ => False
    end
  | Panic _ => False
  end.
Proof. vm_compute. repeat split. Qed.
Local Close Scope string_scope.

(** * 2. defaults *)

Theorem C17_defaults : forall c r l,
  sctx (vterm (vt_new c r l)) = default_ctx /\ asctx (vterm (vt_new c r l)) = default_ctx.
Proof. intros c r l. split; reflexivity. Qed.
Print Assumptions C17_defaults.

(** the four save spellings and the three restore spellings *)
Definition is_save (f : func) : Prop :=
  match f with
  | Decsc | Scosc | Decset [SaveCursor] | Decset [SaveCursorAltScreenBuffer] => True
  | _ => False
  end.

Definition is_restore (f : func) : Prop :=
  match f with Decrc | Scorc | Decrst [SaveCursor] => True | _ => False end.

Lemma restore_fields t f t' :
  is_restore f -> execute t f = Ok t' ->
  cur_col t' = sc_col (sctx t) /\ cur_row t' = sc_row (sctx t) /\ tpen t' = sc_pen (sctx t)
  /\ org t' = sc_origin (sctx t) /\ awm t' = sc_awm (sctx t) /\ pend t' = false
  /\ cols t' = cols t /\ rows t' = rows t.
Proof.
  intros Hf H. rewrite (exec_restore t f Hf) in H. apply Ok_inj in H as <-.
  destruct t; cbn. repeat split.
Qed.

(** restore when the active screen's context is the default one: column 0 of row 0 (absolute:
    origin mode is switched OFF by the restore), default pen, auto-wrap on *)
Theorem C17_restore_default : forall t f t',
  sctx t = default_ctx -> is_restore f -> execute t f = Ok t' ->
  cur_col t' = 0 /\ cur_row t' = 0 /\ tpen t' = default_pen /\ org t' = false /\ awm t' = true
  /\ pend t' = false.
Proof.
  intros t f t' Hd Hf H. destruct (restore_fields t f t' Hf H) as (A1 & A2 & A3 & A4 & A5 & A6 & _).
  rewrite Hd in *. repeat split; assumption.
Qed.
Print Assumptions C17_restore_default.

(** restore on a fresh terminal *)
Theorem C17_restore_unsaved : forall c r l f t',
  is_restore f -> execute (vterm (vt_new c r l)) f = Ok t' ->
  cur_col t' = 0 /\ cur_row t' = 0 /\ tpen t' = default_pen /\ org t' = false /\ awm t' = true
  /\ pend t' = false.
Proof.
  intros c r l f t' Hf H.
  exact (C17_restore_default (vterm (vt_new c r l)) f t' (proj1 (C17_defaults c r l)) Hf H).
Qed.
Print Assumptions C17_restore_unsaved.

(** * 3. runs *)

(** a run: executed control functions and resizes *)
Inductive rop := RF (f : func) | RResize (c r : nat).

Definition rop_ok (o : rop) : bool :=
  match o with RF _ => true | RResize c r => (1 <=? c) && (1 <=? r) end.

Definition rstep (t : term) (o : rop) : res term :=
  match o with RF f => execute t f | RResize c r => term_resize t c r end.

Definition rrun (os : list rop) (t : term) : res term := foldM rstep os t.

Lemma rrun_nil t : rrun [] t = Ok t.
Proof. reflexivity. Qed.
Lemma rrun_cons_f f os t : rrun (RF f :: os) t = (t1 <- execute t f ;; rrun os t1).
Proof. reflexivity. Qed.
Lemma rrun_cons_r c r os t : rrun (RResize c r :: os) t = (t1 <- term_resize t c r ;; rrun os t1).
Proof. reflexivity. Qed.

(** ** which screen is shown after a function (a function of the screen shown before) *)
Definition is_switch (m : dec_mode) : bool :=
  match m with AltScreenBuffer | SaveCursorAltScreenBuffer => true | _ => false end.

Definition decset_active1 (a : btype) (m : dec_mode) : btype := if is_switch m then Alternate else a.
Definition decrst_active1 (a : btype) (m : dec_mode) : btype := if is_switch m then Primary else a.

Fixpoint decset_active (a : btype) (ms : list dec_mode) : btype :=
  match ms with [] => a | m :: r => decset_active (decset_active1 a m) r end.
Fixpoint decrst_active (a : btype) (ms : list dec_mode) : btype :=
  match ms with [] => a | m :: r => decrst_active (decrst_active1 a m) r end.

Definition active_after (a : btype) (f : func) : btype :=
  match f with
  | Decset ms => decset_active a ms
  | Decrst ms => decrst_active a ms
  | Ris => Primary
  | _ => a
  end.

(** ** "nothing saves on screen [s]": a mode of a DECSET list saves on the screen shown at that
       point of the list (1048 and 1049 alike; 1049 saves BEFORE it switches).  DECRST never
       saves (1048 / 1049 reset RESTORE). *)
Definition mode_safe (s a : btype) (m : dec_mode) : bool :=
  match m with SaveCursor | SaveCursorAltScreenBuffer => negb (btype_eqb a s) | _ => true end.

Fixpoint decset_safe (s a : btype) (ms : list dec_mode) : bool :=
  match ms with [] => true | m :: r => mode_safe s a m && decset_safe s (decset_active1 a m) r end.

(** [strict = true]: no save on [s], no DECSTR while [s] is shown, no RIS;
    [strict = false]: no save on [s] (DECSTR and RIS allowed: they re-initialise) *)
Definition step_safe (strict : bool) (s a : btype) (f : func) : bool :=
  match f with
  | Decsc | Scosc => negb (btype_eqb a s)
  | Decstr => negb strict || negb (btype_eqb a s)
  | Ris => negb strict
  | Decset ms => decset_safe s a ms
  | _ => true
  end.

Fixpoint safe_run (strict : bool) (s a : btype) (os : list rop) : bool :=
  match os with
  | [] => true
  | RF f :: r => step_safe strict s a f && safe_run strict s (active_after a f) r
  | RResize _ _ :: r => safe_run strict s a r
  end.

(** the hypothesis of the round trip: starting with screen [a] shown, the run executes no DECSC /
    SCOSC / ?1048h / ?1049h while screen [s] is shown, no DECSTR while [s] is shown, no RIS *)
Definition no_save_reset_on (s a : btype) (os : list rop) : bool := safe_run true s a os.
Definition no_save_on (s a : btype) (os : list rop) : bool := safe_run false s a os.

(** ** what a run does to the context saved on [s]: whenever [s] is the screen shown after a step,
       its context is clamped into the size of that moment; DECSTR on [s] and RIS re-initialise it *)
Definition ctx_after (s a' : btype) (c r : nat) (k : saved_ctx) : saved_ctx :=
  if btype_eqb a' s then clamp_ctx k c r else k.

Definition step_ctx (s a : btype) (c r : nat) (k : saved_ctx) (f : func) : saved_ctx :=
  match f with
  | Decstr => if btype_eqb a s then default_ctx else k
  | Ris => default_ctx
  | _ => ctx_after s (active_after a f) c r k
  end.

Fixpoint run_active (a : btype) (os : list rop) : btype :=
  match os with
  | [] => a
  | RF f :: r => run_active (active_after a f) r
  | RResize _ _ :: r => run_active a r
  end.

Fixpoint run_size (c r : nat) (os : list rop) : nat * nat :=
  match os with
  | [] => (c, r)
  | RF _ :: rest => run_size c r rest
  | RResize c' r' :: rest => run_size c' r' rest
  end.

Fixpoint run_ctx (s a : btype) (c r : nat) (k : saved_ctx) (os : list rop) : saved_ctx :=
  match os with
  | [] => k
  | RF f :: rest => run_ctx s (active_after a f) c r (step_ctx s a c r k f) rest
  | RResize c' r' :: rest => run_ctx s a c' r' (ctx_after s a c' r' k) rest
  end.

(** ** one mode *)
Definition SavedStep (s : btype) (t t' : term) : Prop :=
  cols t' = cols t /\ rows t' = rows t
  /\ saved_of t' s = ctx_after s (active t') (cols t) (rows t) (saved_of t s).

Lemma same_saved s t t' :
  TInv t -> sctx t' = sctx t -> asctx t' = asctx t -> active t' = active t ->
  saved_of t' s = ctx_after s (active t) (cols t) (rows t) (saved_of t s).
Proof.
  intros HT Hs Ha Hact. unfold ctx_after, saved_of. rewrite Hs, Ha, Hact.
  destruct (btype_eqb (active t) s); [|reflexivity].
  symmetry. apply clamp_inside. exact (ti_sctx t HT).
Qed.

Lemma SavedStep_same s t t' :
  TInv t -> cols t' = cols t -> rows t' = rows t -> sctx t' = sctx t -> asctx t' = asctx t ->
  active t' = active t -> SavedStep s t t'.
Proof.
  intros HT Hc Hr Hs Ha Hact. split; [exact Hc|]. split; [exact Hr|].
  rewrite Hact. apply same_saved; assumption.
Qed.

Lemma switch_alt_saved t t1 :
  switch_to_alternate_buffer t = Ok t1 ->
  cols t1 = cols t /\ rows t1 = rows t /\ active t1 = Alternate
  /\ forall s, saved_of t1 s = saved_of t s.
Proof.
  intros H. apply switch_alt_inv in H as [[Ea ->]|[Ea [d ->]]].
  - repeat split. exact Ea.
  - destruct (to_alt_fields t d) as (T1 & T2 & T3 & _ & _ & T6 & T7 & _).
    repeat split; try assumption. intros s. unfold saved_of. rewrite T1, T2, T3, Ea.
    destruct s; reflexivity.
Qed.

Lemma switch_prim_saved t t1 :
  switch_to_primary_buffer t = Ok t1 ->
  cols t1 = cols t /\ rows t1 = rows t /\ active t1 = Primary
  /\ forall s, saved_of t1 s = saved_of t s.
Proof.
  intros H. apply switch_prim_inv in H as [[Ea ->]|[Ea [d ->]]].
  - repeat split. exact Ea.
  - destruct (to_prim_fields t d) as (T1 & T2 & T3 & _ & _ & T6 & T7 & _).
    repeat split; try assumption. intros s. unfold saved_of. rewrite T1, T2, T3, Ea.
    destruct s; reflexivity.
Qed.

Lemma reflow_saved s t u t' :
  cols u = cols t -> rows u = rows t -> saved_of u s = saved_of t s -> reflow u = Ok t' ->
  active t' = active u /\ SavedStep s t t'.
Proof.
  intros Hc Hr Hk H. destruct (SwRel_reflow _ _ H) as (Rc & Rr & Ra & Rk & Rs).
  split; [exact Ra|]. unfold SavedStep. rewrite Rc, Rr, Hc, Hr.
  split; [reflexivity|]. split; [reflexivity|].
  rewrite <- Hk. unfold ctx_after, saved_of. rewrite Ra, Rs, Rk, Hc, Hr.
  destruct (btype_eqb (active u) s); reflexivity.
Qed.

Lemma home_fields u :
  cols (move_cursor_home u) = cols u /\ rows (move_cursor_home u) = rows u
  /\ sctx (move_cursor_home u) = sctx u /\ asctx (move_cursor_home u) = asctx u
  /\ active (move_cursor_home u) = active u.
Proof.
  pose proof (tfr_cfr _ _ (cfr_home u)) as F.
  exact (conj (tfr_cols _ _ F) (conj (tfr_rows _ _ F) (conj (tfr_sctx _ _ F)
           (conj (tfr_asctx _ _ F) (tfr_active _ _ F))))).
Qed.

Lemma set_sctx_saved t k s :
  active t <> s -> saved_of (t <| sctx := k |>) s = saved_of t s.
Proof.
  intros Hn. destruct (set_sctx_fields t k) as (S1 & _ & S3 & _).
  unfold saved_of. rewrite S1, S3. apply btype_eqb_neq in Hn. rewrite Hn. reflexivity.
Qed.

Lemma decset_one_saved s t m t' :
  TInv t -> mode_safe s (active t) m = true -> decset_one t m = Ok t' ->
  active t' = decset_active1 (active t) m /\ SavedStep s t t'.
Proof.
  intros HT Hm H. destruct m; unfold decset_active1; cbn [is_switch].
  - cbn [decset_one] in H. apply Ok_inj in H as <-.
    split; [destruct t; reflexivity|]. apply SavedStep_same; [exact HT|..]; clear HT; destruct t; reflexivity.
  - cbn [decset_one] in H. apply Ok_inj in H as <-.
    destruct (home_fields (t <| org := true |>)) as (G1 & G2 & G3 & G4 & G5).
    split; [rewrite G5; destruct t; reflexivity|].
    apply SavedStep_same; [exact HT|rewrite G1|rewrite G2|rewrite G3|rewrite G4|rewrite G5];
      clear; destruct t; reflexivity.
  - cbn [decset_one] in H. apply Ok_inj in H as <-.
    split; [destruct t; reflexivity|]. apply SavedStep_same; [exact HT|..]; clear HT; destruct t; reflexivity.
  - cbn [decset_one] in H. apply Ok_inj in H as <-.
    split; [destruct t; reflexivity|]. apply SavedStep_same; [exact HT|..]; clear HT; destruct t; reflexivity.
  - rewrite decset_asb_eq in H. apply bind_ok in H as (t1 & H1 & H).
    destruct (switch_alt_saved _ _ H1) as (W1 & W2 & W3 & W4).
    destruct (reflow_saved s t t1 t' W1 W2 (W4 s) H) as [Ra St]. split; [congruence|exact St].
  - (* 1048 while [s] is not shown *)
    cbn [mode_safe] in Hm. apply Bool.negb_true_iff, btype_eqb_neq in Hm.
    cbn [decset_one] in H. apply Ok_inj in H as <-. rewrite save_cursor_eq.
    destruct (set_sctx_fields t (spec_saved_now t)) as (S1 & _ & _ & S4 & S5 & _).
    split; [exact S1|]. split; [exact S4|]. split; [exact S5|].
    rewrite S1, (set_sctx_saved t _ s Hm). unfold ctx_after.
    apply btype_eqb_neq in Hm. rewrite Hm. reflexivity.
  - (* 1049 while [s] is not shown: saved on the other screen, then the switch *)
    cbn [mode_safe] in Hm. apply Bool.negb_true_iff, btype_eqb_neq in Hm.
    rewrite decset_scasb_eq in H. apply bind_ok in H as (t1 & H1 & H). rewrite save_cursor_eq in H1.
    destruct (set_sctx_fields t (spec_saved_now t)) as (S1 & _ & _ & S4 & S5 & _).
    destruct (switch_alt_saved _ _ H1) as (W1 & W2 & W3 & W4).
    assert (Hk : saved_of t1 s = saved_of t s) by (rewrite W4; apply set_sctx_saved; exact Hm).
    destruct (reflow_saved s t t1 t' (eq_trans W1 S4) (eq_trans W2 S5) Hk H) as [Ra St].
    split; [congruence|exact St].
Qed.

Lemma decrst_one_saved s t m t' :
  TInv t -> decrst_one t m = Ok t' ->
  active t' = decrst_active1 (active t) m /\ SavedStep s t t'.
Proof.
  intros HT H. destruct m; unfold decrst_active1; cbn [is_switch].
  - cbn [decrst_one] in H. apply Ok_inj in H as <-.
    split; [destruct t; reflexivity|]. apply SavedStep_same; [exact HT|..]; clear HT; destruct t; reflexivity.
  - cbn [decrst_one] in H. apply Ok_inj in H as <-.
    destruct (home_fields (t <| org := false |>)) as (G1 & G2 & G3 & G4 & G5).
    split; [rewrite G5; destruct t; reflexivity|].
    apply SavedStep_same; [exact HT|rewrite G1|rewrite G2|rewrite G3|rewrite G4|rewrite G5];
      clear; destruct t; reflexivity.
  - cbn [decrst_one] in H. apply Ok_inj in H as <-.
    split; [destruct t; reflexivity|]. apply SavedStep_same; [exact HT|..]; clear HT; destruct t; reflexivity.
  - cbn [decrst_one] in H. apply Ok_inj in H as <-.
    split; [destruct t; reflexivity|]. apply SavedStep_same; [exact HT|..]; clear HT; destruct t; reflexivity.
  - rewrite decrst_asb_eq in H. apply bind_ok in H as (t1 & H1 & H).
    destruct (switch_prim_saved _ _ H1) as (W1 & W2 & W3 & W4).
    destruct (reflow_saved s t t1 t' W1 W2 (W4 s) H) as [Ra St]. split; [congruence|exact St].
  - (* 1048 reset = restore *)
    cbn [decrst_one] in H. apply Ok_inj in H as <-.
    destruct (restore_cursor_fields_eq t) as (_ & _ & Q3 & Q4 & _ & _ & _ & _ & _ & _ & Q11 & Q12 & Q13).
    split; [exact Q11|]. apply SavedStep_same; assumption.
  - (* 1049 reset: switch, restore, reflow *)
    rewrite decrst_scasb_eq in H. apply bind_ok in H as (t1 & H1 & H).
    destruct (switch_prim_saved _ _ H1) as (W1 & W2 & W3 & W4).
    destruct (restore_cursor_fields_eq t1) as (_ & _ & Q3 & Q4 & _ & _ & _ & _ & _ & _ & Q11 & Q12 & Q13).
    assert (Hk : saved_of (restore_cursor t1) s = saved_of t s).
    { rewrite <- W4. unfold saved_of. rewrite Q11, Q12, Q13. reflexivity. }
    destruct (reflow_saved s t (restore_cursor t1) t' (eq_trans Q3 W1) (eq_trans Q4 W2) Hk H) as [Ra St].
    split; [congruence|exact St].
Qed.

(** ** mode lists *)
Lemma decset_active_alt ms : decset_active Alternate ms = Alternate.
Proof. induction ms as [|m ms IH]; [reflexivity|]. cbn [decset_active]. unfold decset_active1. destruct (is_switch m); exact IH. Qed.

Lemma decrst_active_prim ms : decrst_active Primary ms = Primary.
Proof. induction ms as [|m ms IH]; [reflexivity|]. cbn [decrst_active]. unfold decrst_active1. destruct (is_switch m); exact IH. Qed.

Lemma SavedStep_trans s t t1 t' :
  TInv t -> SavedStep s t t1 -> SavedStep s t1 t' ->
  (active t' <> s -> active t1 = s -> active t = s) ->
  SavedStep s t t'.
Proof.
  intros HT (C1 & R1 & K1) (C2 & R2 & K2) Hmono.
  split; [congruence|]. split; [congruence|].
  rewrite K2, K1, C1, R1. unfold ctx_after.
  destruct (btype_eqb (active t') s) eqn:E2; destruct (btype_eqb (active t1) s) eqn:E1; try reflexivity.
  - apply clamp_idem.
  - apply btype_eqb_neq in E2. apply btype_eqb_eq in E1. specialize (Hmono E2 E1).
    apply clamp_inside. rewrite <- Hmono. apply saved_active_inside. exact HT.
Qed.

Lemma decset_one_TInv t m t' : TInv t -> decset_one t m = Ok t' -> TInv t'.
Proof.
  intros HT H. destruct (execute_ok t (Decset [m]) HT) as (t2 & E & HT2).
  rewrite exec_decset_one, H in E. apply Ok_inj in E as ->. exact HT2.
Qed.

Lemma decrst_one_TInv t m t' : TInv t -> decrst_one t m = Ok t' -> TInv t'.
Proof.
  intros HT H. destruct (execute_ok t (Decrst [m]) HT) as (t2 & E & HT2).
  rewrite exec_decrst_one, H in E. apply Ok_inj in E as ->. exact HT2.
Qed.

Lemma decset_saved s ms : forall t t',
  TInv t -> decset_safe s (active t) ms = true -> execute t (Decset ms) = Ok t' ->
  active t' = decset_active (active t) ms /\ SavedStep s t t'.
Proof.
  induction ms as [|m ms IH]; intros t t' HT Hs H.
  - rewrite exec_decset_nil in H. apply Ok_inj in H as <-. split; [reflexivity|].
    apply SavedStep_same; try reflexivity. exact HT.
  - rewrite exec_decset_cons in H. apply bind_ok in H as (t1 & H1 & H).
    cbn [decset_safe] in Hs. apply andb_prop in Hs as [Hm Hs].
    destruct (decset_one_saved s t m t1 HT Hm H1) as [A1 S1].
    rewrite <- A1 in Hs.
    destruct (IH t1 t' (decset_one_TInv _ _ _ HT H1) Hs H) as [A2 S2].
    cbn [decset_active]. rewrite <- A1. split; [exact A2|].
    apply (SavedStep_trans s t t1 t' HT S1 S2).
    intros Hn E1. rewrite A2, A1 in Hn. rewrite A1 in E1. unfold decset_active1 in *.
    destruct (is_switch m); [|exact E1].
    exfalso. apply Hn. rewrite decset_active_alt. exact E1.
Qed.

Lemma decrst_saved s ms : forall t t',
  TInv t -> execute t (Decrst ms) = Ok t' ->
  active t' = decrst_active (active t) ms /\ SavedStep s t t'.
Proof.
  induction ms as [|m ms IH]; intros t t' HT H.
  - rewrite exec_decrst_nil in H. apply Ok_inj in H as <-. split; [reflexivity|].
    apply SavedStep_same; try reflexivity. exact HT.
  - rewrite exec_decrst_cons in H. apply bind_ok in H as (t1 & H1 & H).
    destruct (decrst_one_saved s t m t1 HT H1) as [A1 S1].
    destruct (IH t1 t' (decrst_one_TInv _ _ _ HT H1) H) as [A2 S2].
    cbn [decrst_active]. rewrite <- A1. split; [exact A2|].
    apply (SavedStep_trans s t t1 t' HT S1 S2).
    intros Hn E1. rewrite A2, A1 in Hn. rewrite A1 in E1. unfold decrst_active1 in *.
    destruct (is_switch m); [|exact E1].
    exfalso. apply Hn. rewrite decrst_active_prim. exact E1.
Qed.

(** ** one executed function: the screen shown afterwards, the size, and the context saved on [s] *)
Lemma step_saved b s t f t' :
  TInv t -> step_safe b s (active t) f = true -> execute t f = Ok t' ->
  active t' = active_after (active t) f /\ cols t' = cols t /\ rows t' = rows t
  /\ saved_of t' s = step_ctx s (active t) (cols t) (rows t) (saved_of t s) f.
Proof.
  intros HT Hs H. pose proof (saved_frame t f t' H) as F.
  destruct (size_frame t f t' (ti_xtw t HT) H) as [Sc Sr].
  destruct f;
    try (destruct F as (F1 & F2 & F3); cbn [active_after step_ctx];
         split; [exact F3|]; split; [exact Sc|]; split; [exact Sr|];
         apply same_saved; assumption).
  - (* Decrst *)
    destruct (decrst_saved s ms t t' HT H) as [A (_ & _ & K)].
    cbn [active_after step_ctx]. rewrite <- A. repeat split; assumption.
  - (* Decsc, [s] not shown *)
    cbn [step_safe] in Hs. apply Bool.negb_true_iff in Hs.
    rewrite (exec_save t Decsc I) in H. apply Ok_inj in H as <-.
    destruct (set_sctx_fields t (spec_saved_now t)) as (S1 & _).
    cbn [active_after step_ctx]. split; [exact S1|]. split; [exact Sc|]. split; [exact Sr|].
    unfold ctx_after. rewrite Hs. apply set_sctx_saved. apply btype_eqb_neq. exact Hs.
  - (* Decset *)
    cbn [step_safe] in Hs.
    destruct (decset_saved s ms t t' HT Hs H) as [A (_ & _ & K)].
    cbn [active_after step_ctx]. rewrite <- A. repeat split; assumption.
  - (* Decstr *)
    cbn [execute] in H. apply Ok_inj in H as <-.
    cbn [active_after step_ctx]. split; [destruct t; reflexivity|].
    split; [exact Sc|]. split; [exact Sr|].
    unfold saved_of. clear.
    destruct t as [? ? ? ? act ? ? ? ? ? ? ? ? ? ? ? ? ? ? ? ? ? ? ? ? ?]; cbn.
    destruct (btype_eqb act s); reflexivity.
  - (* Ris *)
    cbn [execute] in H. apply Ok_inj in H as <-.
    cbn [active_after step_ctx]. split; [destruct t; reflexivity|].
    split; [exact Sc|]. split; [exact Sr|].
    unfold saved_of. clear. destruct t; cbn. destruct s; reflexivity.
  - (* Scosc, [s] not shown *)
    cbn [step_safe] in Hs. apply Bool.negb_true_iff in Hs.
    rewrite (exec_save t Scosc I) in H. apply Ok_inj in H as <-.
    destruct (set_sctx_fields t (spec_saved_now t)) as (S1 & _).
    cbn [active_after step_ctx]. split; [exact S1|]. split; [exact Sc|]. split; [exact Sr|].
    unfold ctx_after. rewrite Hs. apply set_sctx_saved. apply btype_eqb_neq. exact Hs.
  - (* Xtwinops: switched off *)
    rewrite (xtwinops_noop _ _ _ (ti_xtw t HT) H).
    cbn [active_after step_ctx]. repeat split. apply same_saved; try reflexivity. exact HT.
Qed.

(** ** one resize *)
Lemma resize_saved s t c r t' :
  term_resize t c r = Ok t' ->
  active t' = active t /\ cols t' = c /\ rows t' = r
  /\ saved_of t' s = ctx_after s (active t) c r (saved_of t s).
Proof.
  intros H. destruct (term_resize_fields _ _ _ _ H) as (Ec & Er & _ & Es & Ea & _ & Eact & _).
  repeat split; try assumption. unfold ctx_after, saved_of. rewrite Eact, Es, Ea.
  destruct (btype_eqb (active t) s); reflexivity.
Qed.

(** ** the whole run.  EXACT bookkeeping of the context saved on screen [s] by any run (control
       functions and resizes) that does not save on [s]: the invariant holds at the end, the
       screen shown and the size are the tracked ones and the context saved on [s] is
       [run_ctx], a function of the context at the start and of the run only *)
Theorem C17_run_saved : forall b s os t1 t2,
  TInv t1 -> forallb rop_ok os = true -> rrun os t1 = Ok t2 ->
  safe_run b s (active t1) os = true ->
  TInv t2 /\ active t2 = run_active (active t1) os
  /\ (cols t2, rows t2) = run_size (cols t1) (rows t1) os
  /\ saved_of t2 s = run_ctx s (active t1) (cols t1) (rows t1) (saved_of t1 s) os.
Proof.
  intros b s os. induction os as [|o os IH]; intros t1 t2 HT Hok H Hs.
  - rewrite rrun_nil in H. apply Ok_inj in H as <-. split; [exact HT|]. repeat split.
  - cbn [forallb] in Hok. apply andb_prop in Hok as [Ho Hok]. destruct o as [f|c r].
    + rewrite rrun_cons_f in H. apply bind_ok in H as (t' & H1 & H).
      cbn [safe_run] in Hs. apply andb_prop in Hs as [Hf Hs].
      destruct (step_saved b s t1 f t' HT Hf H1) as (A & Sc & Sr & K).
      assert (HT' : TInv t').
      { destruct (execute_ok t1 f HT) as (t'' & E & HT''). rewrite H1 in E.
        apply Ok_inj in E as ->. exact HT''. }
      rewrite <- A in Hs. destruct (IH t' t2 HT' Hok H Hs) as (I1 & I2 & I3 & I4).
      cbn [run_active run_size run_ctx]. rewrite <- A, <- K, <- Sc, <- Sr.
      split; [exact I1|]. split; [exact I2|]. split; [exact I3|exact I4].
    + rewrite rrun_cons_r in H. apply bind_ok in H as (t' & H1 & H).
      cbn [safe_run] in Hs. cbn [rop_ok] in Ho. apply andb_prop in Ho as [Hc Hr].
      apply Nat.leb_le in Hc, Hr.
      destruct (resize_saved s t1 c r t' H1) as (A & Sc & Sr & K).
      assert (HT' : TInv t').
      { destruct (term_resize_TInv t1 c r HT Hc Hr) as (t'' & E & HT'' & _). rewrite H1 in E.
        apply Ok_inj in E as ->. exact HT''. }
      rewrite <- A in Hs. destruct (IH t' t2 HT' Hok H Hs) as (I1 & I2 & I3 & I4).
      cbn [run_active run_size run_ctx]. rewrite <- K.
      rewrite A in I2. rewrite Sc, Sr in I3. rewrite A, Sc, Sr in I4. split; [exact I1|]. split; [exact I2|]. split; [exact I3|exact I4].
Qed.
Print Assumptions C17_run_saved.

(** ** pure facts about the tracked context *)
Lemma step_ctx_strict s a c r k f :
  step_safe true s a f = true -> step_ctx s a c r k f = ctx_after s (active_after a f) c r k.
Proof.
  intros H. destruct f; try reflexivity.
  - cbn [step_safe negb orb] in H. apply Bool.negb_true_iff in H.
    unfold step_ctx, ctx_after, active_after. rewrite H. reflexivity.
  - discriminate H.
Qed.

Lemma ctx_after_fields s a c r k :
  sc_pen (ctx_after s a c r k) = sc_pen k /\ sc_origin (ctx_after s a c r k) = sc_origin k
  /\ sc_awm (ctx_after s a c r k) = sc_awm k
  /\ sc_col (ctx_after s a c r k) <= sc_col k /\ sc_row (ctx_after s a c r k) <= sc_row k.
Proof.
  unfold ctx_after. destruct (btype_eqb a s); [|repeat split; lia].
  destruct (clamp_fields k c r) as (F1 & F2 & F3 & F4 & F5). rewrite F1, F2, F3, F4, F5.
  repeat split; lia.
Qed.

(** pen, origin mode and auto-wrap mode are never altered; the position only ever moves towards
    the origin (by the clamps) *)
Lemma run_ctx_fields s os : forall a c r k,
  safe_run true s a os = true ->
  let e := run_ctx s a c r k os in
  sc_pen e = sc_pen k /\ sc_origin e = sc_origin k /\ sc_awm e = sc_awm k
  /\ sc_col e <= sc_col k /\ sc_row e <= sc_row k.
Proof.
  induction os as [|o os IH]; intros a c r k Hs; cbv zeta.
  - cbn [run_ctx]. repeat split; lia.
  - destruct o as [f|c' r']; cbn [run_ctx]; cbn [safe_run] in Hs.
    + apply andb_prop in Hs as [Hf Hs]. rewrite (step_ctx_strict _ _ _ _ _ _ Hf).
      destruct (IH (active_after a f) c r (ctx_after s (active_after a f) c r k) Hs)
        as (I1 & I2 & I3 & I4 & I5).
      destruct (ctx_after_fields s (active_after a f) c r k) as (G1 & G2 & G3 & G4 & G5).
      rewrite I1, I2, I3. repeat split; try assumption; lia.
    + destruct (IH a c' r' (ctx_after s a c' r' k) Hs) as (I1 & I2 & I3 & I4 & I5).
      destruct (ctx_after_fields s a c' r' k) as (G1 & G2 & G3 & G4 & G5).
      rewrite I1, I2, I3. repeat split; try assumption; lia.
Qed.

Definition no_resize (os : list rop) : bool :=
  forallb (fun o => match o with RF _ => true | RResize _ _ => false end) os.

(** without a resize nothing is clamped *)
Lemma run_ctx_no_resize s os : forall a c r k,
  no_resize os = true -> safe_run true s a os = true -> clamp_ctx k c r = k ->
  run_ctx s a c r k os = k.
Proof.
  induction os as [|o os IH]; intros a c r k Hn Hs Hk; [reflexivity|].
  unfold no_resize in Hn. cbn [forallb] in Hn. apply andb_prop in Hn as [Ho Hn].
  destruct o as [f|c' r']; [|discriminate Ho].
  cbn [run_ctx]; cbn [safe_run] in Hs. apply andb_prop in Hs as [Hf Hs].
  rewrite (step_ctx_strict _ _ _ _ _ _ Hf).
  assert (E : ctx_after s (active_after a f) c r k = k).
  { unfold ctx_after. destruct (btype_eqb (active_after a f) s); [exact Hk|reflexivity]. }
  rewrite E. apply IH; assumption.
Qed.

Lemma run_size_no_resize os : forall c r, no_resize os = true -> run_size c r os = (c, r).
Proof.
  induction os as [|o os IH]; intros c r Hn; [reflexivity|].
  unfold no_resize in Hn. cbn [forallb] in Hn. apply andb_prop in Hn as [Ho Hn].
  destruct o as [f|c' r']; [|discriminate Ho]. cbn [run_size]. apply IH. exact Hn.
Qed.

(** every size of the run (the resizes) is at least [cf] x [rf] *)
Definition sizes_ge (cf rf : nat) (os : list rop) : bool :=
  forallb (fun o => match o with RF _ => true | RResize c r => (cf <=? c) && (rf <=? r) end) os.

Lemma run_ctx_clamp_ge s cf rf os : forall a c r k,
  safe_run true s a os = true -> cf <= c -> rf <= r -> sizes_ge cf rf os = true ->
  clamp_ctx (run_ctx s a c r k os) cf rf = clamp_ctx k cf rf.
Proof.
  induction os as [|o os IH]; intros a c r k Hs Hc Hr Hg; [reflexivity|].
  unfold sizes_ge in Hg. cbn [forallb] in Hg. apply andb_prop in Hg as [Ho Hg].
  destruct o as [f|c' r']; cbn [run_ctx]; cbn [safe_run] in Hs.
  - apply andb_prop in Hs as [Hf Hs]. rewrite (step_ctx_strict _ _ _ _ _ _ Hf).
    rewrite (IH _ c r _ Hs Hc Hr Hg). unfold ctx_after.
    destruct (btype_eqb (active_after a f) s); [apply clamp_clamp_ge; assumption|reflexivity].
  - apply andb_prop in Ho as [Hc' Hr']. apply Nat.leb_le in Hc', Hr'.
    rewrite (IH _ c' r' _ Hs Hc' Hr' Hg). unfold ctx_after.
    destruct (btype_eqb a s); [apply clamp_clamp_ge; assumption|reflexivity].
Qed.

(** when nothing saves on [s] and its context is the default one, it stays the default one
    (DECSTR and RIS allowed) *)
Lemma run_ctx_default s os : forall a c r,
  run_ctx s a c r default_ctx os = default_ctx.
Proof.
  induction os as [|o os IH]; intros a c r; [reflexivity|].
  destruct o as [f|c' r']; cbn [run_ctx].
  - assert (E : step_ctx s a c r default_ctx f = default_ctx).
    { unfold step_ctx, ctx_after.
      destruct f; try (destruct (btype_eqb _ s); reflexivity); reflexivity. }
    rewrite E. apply IH.
  - assert (E : ctx_after s a c' r' default_ctx = default_ctx).
    { unfold ctx_after. destruct (btype_eqb a s); reflexivity. }
    rewrite E. apply IH.
Qed.

(** ** the save *)
Lemma save_establishes t f t1 :
  TInv t -> is_save f -> execute t f = Ok t1 ->
  TInv t1 /\ cols t1 = cols t /\ rows t1 = rows t /\ saved_of t1 (active t) = spec_saved_now t.
Proof.
  intros HT Hf H.
  assert (HT1 : TInv t1).
  { destruct (execute_ok t f HT) as (t'' & E & HT''). rewrite H in E. apply Ok_inj in E as ->. exact HT''. }
  destruct (size_frame t f t1 (ti_xtw t HT) H) as [Sc Sr].
  split; [exact HT1|]. split; [exact Sc|]. split; [exact Sr|].
  assert (Hplain : match f with Decsc | Scosc | Decset [SaveCursor] => True | _ => False end ->
                   saved_of t1 (active t) = spec_saved_now t).
  { intros Hp. rewrite (exec_save t f Hp) in H. apply Ok_inj in H as <-.
    destruct (set_sctx_fields t (spec_saved_now t)) as (S1 & S2 & _).
    unfold saved_of. rewrite S1, S2, btype_eqb_refl. reflexivity. }
  destruct f; try contradiction; try (apply Hplain; exact I).
  destruct ms as [|m ms']; [contradiction|]. destruct m; try contradiction;
    (destruct ms' as [|m' ms'']; [|contradiction]).
  - apply Hplain; exact I.
  - destruct (C17_1049h t t1 HT H) as (_ & _ & _ & A4 & _). exact A4.
Qed.

(** ** the round trip.

    [t] any state satisfying the invariant, [s := active t] the screen shown; one of the four
    save spellings is executed ([t1]); then ANY run [os] of control functions and resizes in
    which nothing saves on [s], no DECSTR is executed while [s] is shown and no RIS at all
    ([no_save_reset_on]: the hypothesis of the property; screen switches by 47 / 1047 / 1049,
    saves and soft resets on the OTHER screen, restores, resizes are all allowed); at the end
    [s] is shown again ([t2]) and one of the three restore spellings is executed ([t3]).

    Then pen, origin mode and auto-wrap mode are exactly those in force at the save, and the
    position is the saved one clamped into every size at which [s] was shown in between
    ([run_ctx]: the exact value), hence inside the current screen and never beyond the saved
    position. *)
Theorem C17_roundtrip_run : forall t fsave t1 os t2 frest t3,
  TInv t -> is_save fsave -> execute t fsave = Ok t1 ->
  forallb rop_ok os = true -> rrun os t1 = Ok t2 ->
  no_save_reset_on (active t) (active t1) os = true ->
  active t2 = active t ->
  is_restore frest -> execute t2 frest = Ok t3 ->
  let e := run_ctx (active t) (active t1) (cols t) (rows t) (spec_saved_now t) os in
  cur_col t3 = sc_col e /\ cur_row t3 = sc_row e
  /\ tpen t3 = tpen t /\ org t3 = org t /\ awm t3 = awm t /\ pend t3 = false
  /\ cur_col t3 < cols t3 /\ cur_row t3 < rows t3
  /\ cur_col t3 <= viscol t /\ cur_row t3 <= cur_row t.
Proof.
  intros t fsave t1 os t2 frest t3 HT Hsv H1 Hok H2 Hsafe Hact Hrs H3. cbv zeta.
  destruct (save_establishes t fsave t1 HT Hsv H1) as (HT1 & Sc & Sr & K1).
  destruct (C17_run_saved true (active t) os t1 t2 HT1 Hok H2 Hsafe) as (HT2 & _ & _ & K2).
  rewrite K1, Sc, Sr in K2. rewrite (saved_of_active t2 _ Hact) in K2.
  destruct (restore_fields t2 frest t3 Hrs H3) as (A1 & A2 & A3 & A4 & A5 & A6 & A7 & A8).
  destruct (run_ctx_fields (active t) os (active t1) (cols t) (rows t) (spec_saved_now t) Hsafe)
    as (E1 & E2 & E3 & E4 & E5). cbv zeta in *.
  destruct (ti_sctx t2 HT2) as [B1 B2].
  rewrite A1, A2, A3, A4, A5, A7, A8, K2 in *. rewrite E1, E2, E3.
  repeat split; try assumption.
Qed.
Print Assumptions C17_roundtrip_run.

(** the run without resizes: the restore re-establishes EXACTLY the five components in force at
    the save (the column is the visible one: a pending wrap is saved as the last column) *)
Theorem C17_roundtrip : forall t fsave t1 fs t2 frest t3,
  TInv t -> is_save fsave -> execute t fsave = Ok t1 ->
  rrun (map RF fs) t1 = Ok t2 ->
  no_save_reset_on (active t) (active t1) (map RF fs) = true ->
  active t2 = active t ->
  is_restore frest -> execute t2 frest = Ok t3 ->
  cur_col t3 = viscol t /\ cur_row t3 = cur_row t
  /\ tpen t3 = tpen t /\ org t3 = org t /\ awm t3 = awm t /\ pend t3 = false
  /\ cols t3 = cols t /\ rows t3 = rows t.
Proof.
  intros t fsave t1 fs t2 frest t3 HT Hsv H1 H2 Hsafe Hact Hrs H3.
  assert (Hok : forallb rop_ok (map RF fs) = true).
  { apply forallb_forall. intros o Ho. apply in_map_iff in Ho as (f & <- & _). reflexivity. }
  assert (Hnr : no_resize (map RF fs) = true).
  { apply forallb_forall. intros o Ho. apply in_map_iff in Ho as (f & <- & _). reflexivity. }
  destruct (C17_roundtrip_run t fsave t1 (map RF fs) t2 frest t3 HT Hsv H1 Hok H2 Hsafe Hact Hrs H3)
    as (A1 & A2 & A3 & A4 & A5 & A6 & _). cbv zeta in *.
  rewrite (run_ctx_no_resize _ _ _ _ _ _ Hnr Hsafe (clamp_inside _ _ _ (saved_now_inv t HT))) in A1, A2.
  destruct (save_establishes t fsave t1 HT Hsv H1) as (HT1 & Sc & Sr & _).
  destruct (C17_run_saved true (active t) _ t1 t2 HT1 Hok H2 Hsafe) as (_ & _ & Sz & _).
  rewrite (run_size_no_resize _ _ _ Hnr) in Sz. injection Sz as Sz1 Sz2.
  destruct (restore_fields t2 frest t3 Hrs H3) as (_ & _ & _ & _ & _ & _ & A7 & A8).
  repeat split; try assumption; congruence.
Qed.
Print Assumptions C17_roundtrip.

(** the requested form with resizes, "the restored position is the saved one clamped into the
    CURRENT size",
      ... -> cur_col t3 = sc_col (clamp_ctx (spec_saved_now t) (cols t2) (rows t2)) /\ ...
    is FALSE of the model in general ([C17_roundtrip_current_size_refuted] below: shrink, then
    grow again - the saved column stays clamped by the smallest size at which the screen was
    shown).  It holds when no size of the run is smaller than the final one: *)
Theorem C17_roundtrip_current_size_partial : forall t fsave t1 os t2 frest t3,
  TInv t -> is_save fsave -> execute t fsave = Ok t1 ->
  forallb rop_ok os = true -> rrun os t1 = Ok t2 ->
  no_save_reset_on (active t) (active t1) os = true ->
  active t2 = active t ->
  cols t2 <= cols t -> rows t2 <= rows t -> sizes_ge (cols t2) (rows t2) os = true ->
  is_restore frest -> execute t2 frest = Ok t3 ->
  let e := clamp_ctx (spec_saved_now t) (cols t2) (rows t2) in
  cur_col t3 = sc_col e /\ cur_row t3 = sc_row e
  /\ tpen t3 = tpen t /\ org t3 = org t /\ awm t3 = awm t /\ pend t3 = false.
Proof.
  intros t fsave t1 os t2 frest t3 HT Hsv H1 Hok H2 Hsafe Hact Hc Hr Hg Hrs H3. cbv zeta.
  destruct (C17_roundtrip_run t fsave t1 os t2 frest t3 HT Hsv H1 Hok H2 Hsafe Hact Hrs H3)
    as (A1 & A2 & A3 & A4 & A5 & A6 & _). cbv zeta in *.
  destruct (save_establishes t fsave t1 HT Hsv H1) as (HT1 & Sc & Sr & K1).
  destruct (C17_run_saved true (active t) os t1 t2 HT1 Hok H2 Hsafe) as (HT2 & _ & _ & K2).
  rewrite K1, Sc, Sr in K2. rewrite (saved_of_active t2 _ Hact) in K2.
  pose proof (run_ctx_clamp_ge (active t) (cols t2) (rows t2) os (active t1) (cols t) (rows t)
                (spec_saved_now t) Hsafe Hc Hr Hg) as G.
  rewrite <- K2 in G. rewrite (clamp_inside _ _ _ (ti_sctx t2 HT2)) in G.
  rewrite <- G, K2. repeat split; assumption.
Qed.
Print Assumptions C17_roundtrip_current_size_partial.

(** "if nothing was saved": a context that is the default one stays the default one through any
    run that does not save on that screen (soft and hard resets allowed), so the restore gives
    the power-on defaults *)
Theorem C17_restore_unsaved_run : forall s os t1 t2 f t3,
  TInv t1 -> saved_of t1 s = default_ctx ->
  forallb rop_ok os = true -> rrun os t1 = Ok t2 -> no_save_on s (active t1) os = true ->
  active t2 = s -> is_restore f -> execute t2 f = Ok t3 ->
  cur_col t3 = 0 /\ cur_row t3 = 0 /\ tpen t3 = default_pen /\ org t3 = false /\ awm t3 = true
  /\ pend t3 = false.
Proof.
  intros s os t1 t2 f t3 HT Hd Hok H Hs Hact Hf H3.
  destruct (C17_run_saved false s os t1 t2 HT Hok H Hs) as (_ & _ & _ & K).
  rewrite Hd, run_ctx_default, (saved_of_active t2 s Hact) in K.
  exact (C17_restore_default t2 f t3 K Hf H3).
Qed.
Print Assumptions C17_restore_unsaved_run.

Theorem C17_restore_unsaved_new : forall c r l s os t2 f t3,
  1 <= c -> 1 <= r ->
  forallb rop_ok os = true -> rrun os (vterm (vt_new c r l)) = Ok t2 ->
  no_save_on s Primary os = true ->
  active t2 = s -> is_restore f -> execute t2 f = Ok t3 ->
  cur_col t3 = 0 /\ cur_row t3 = 0 /\ tpen t3 = default_pen /\ org t3 = false /\ awm t3 = true
  /\ pend t3 = false.
Proof.
  intros c r l s os t2 f t3 Hc Hr Hok H Hs Hact Hf H3.
  apply (C17_restore_unsaved_run s os (vterm (vt_new c r l)) t2 f t3); try assumption.
  - exact (term_new_TInv c r l Hc Hr).
  - destruct s; reflexivity.
Qed.
Print Assumptions C17_restore_unsaved_new.

(** ** the excursion ?1049h ... ?1049l: saved on entry, restored on exit (no resize in between).
       Whatever is executed in between (as above: nothing that saves on the primary screen, no
       DECSTR while the primary is shown, no RIS), ?1049l brings back the primary screen with
       exactly the cursor position, pen, origin mode and auto-wrap mode in force at ?1049h. *)
Definition PrimSize (t : term) : Prop :=
  bcols (primary_buffer t) = cols t /\ brows (primary_buffer t) = rows t.

Lemma PrimSize_prim t : TInv t -> active t = Primary -> PrimSize t.
Proof.
  intros HT Ea. unfold PrimSize, primary_buffer. rewrite Ea.
  exact (conj (ti_bcols t HT) (ti_brows t HT)).
Qed.

Lemma PrimSize_keep t t' :
  PrimSize t -> active t = Alternate -> active t' = Alternate -> other t' = other t ->
  cols t' = cols t -> rows t' = rows t -> PrimSize t'.
Proof.
  unfold PrimSize, primary_buffer. intros HJ Ea Ea' Ho Hc Hr.
  rewrite Ea in HJ. rewrite Ea', Ho, Hc, Hr. exact HJ.
Qed.

Lemma PrimSize_fields t t' :
  PrimSize t -> active t' = active t -> other t' = other t -> buf t' = buf t ->
  cols t' = cols t -> rows t' = rows t -> PrimSize t'.
Proof.
  unfold PrimSize, primary_buffer. intros HJ Ea Ho Hb Hc Hr.
  rewrite Ea, Ho, Hb, Hc, Hr. exact HJ.
Qed.

Lemma reflow_PrimSize u t' : reflow u = Ok t' -> TInv t' -> PrimSize u -> PrimSize t'.
Proof.
  intros H HT' HJ. destruct (active t') eqn:Ea'; [exact (PrimSize_prim t' HT' Ea')|].
  apply reflow_inv in H as (b & c & r & d & _ & ->).
  destruct (reflowed_fields u b c r d) as (F1 & F2 & _ & F4 & F5 & _).
  rewrite F1 in Ea'. exact (PrimSize_keep u _ HJ Ea' (eq_trans F1 Ea') F2 F4 F5).
Qed.

Lemma switch_alt_PrimSize t t1 :
  TInv t -> PrimSize t -> switch_to_alternate_buffer t = Ok t1 -> PrimSize t1.
Proof.
  intros HT HJ H. apply switch_alt_inv in H as [[Ea ->]|[Ea [d ->]]]; [exact HJ|].
  destruct (to_alt_fields t d) as (T1 & _ & _ & T4 & _ & T6 & T7 & _).
  unfold PrimSize, primary_buffer. rewrite T1, T4, T6, T7.
  exact (conj (ti_bcols t HT) (ti_brows t HT)).
Qed.

Lemma decset_one_PrimSize t m t' :
  TInv t -> PrimSize t -> decset_one t m = Ok t' -> PrimSize t'.
Proof.
  intros HT HJ H. pose proof (decset_one_TInv t m t' HT H) as HT'. destruct m.
  - cbn [decset_one] in H. apply Ok_inj in H as <-. apply (PrimSize_fields t _ HJ); clear; destruct t; reflexivity.
  - cbn [decset_one] in H. apply Ok_inj in H as <-.
    pose proof (cfr_home (t <| org := true |>)) as (F & Fb & _).
    apply (PrimSize_fields t _ HJ);
      [rewrite (tfr_active _ _ F)|rewrite (tfr_other _ _ F)|rewrite Fb
      |rewrite (tfr_cols _ _ F)|rewrite (tfr_rows _ _ F)]; clear; destruct t; reflexivity.
  - cbn [decset_one] in H. apply Ok_inj in H as <-. apply (PrimSize_fields t _ HJ); clear; destruct t; reflexivity.
  - cbn [decset_one] in H. apply Ok_inj in H as <-. apply (PrimSize_fields t _ HJ); clear; destruct t; reflexivity.
  - rewrite decset_asb_eq in H. apply bind_ok in H as (t1 & H1 & H).
    exact (reflow_PrimSize t1 t' H HT' (switch_alt_PrimSize t t1 HT HJ H1)).
  - cbn [decset_one] in H. apply Ok_inj in H as <-. rewrite save_cursor_eq.
    apply (PrimSize_fields t _ HJ); clear; destruct t; reflexivity.
  - rewrite decset_scasb_eq in H. apply bind_ok in H as (t1 & H1 & H).
    assert (HT0 : TInv (save_cursor t)).
    { apply (decset_one_TInv t SaveCursor); [exact HT|reflexivity]. }
    assert (HJ0 : PrimSize (save_cursor t)).
    { rewrite save_cursor_eq. apply (PrimSize_fields t _ HJ); clear; destruct t; reflexivity. }
    exact (reflow_PrimSize t1 t' H HT' (switch_alt_PrimSize _ t1 HT0 HJ0 H1)).
Qed.

Lemma decrst_one_PrimSize t m t' :
  TInv t -> PrimSize t -> decrst_one t m = Ok t' -> PrimSize t'.
Proof.
  intros HT HJ H. pose proof (decrst_one_TInv t m t' HT H) as HT'.
  destruct (decrst_one_saved Primary t m t' HT H) as [A _]. destruct m.
  - cbn [decrst_one] in H. apply Ok_inj in H as <-. apply (PrimSize_fields t _ HJ); clear; destruct t; reflexivity.
  - cbn [decrst_one] in H. apply Ok_inj in H as <-.
    pose proof (cfr_home (t <| org := false |>)) as (F & Fb & _).
    apply (PrimSize_fields t _ HJ);
      [rewrite (tfr_active _ _ F)|rewrite (tfr_other _ _ F)|rewrite Fb
      |rewrite (tfr_cols _ _ F)|rewrite (tfr_rows _ _ F)]; clear; destruct t; reflexivity.
  - cbn [decrst_one] in H. apply Ok_inj in H as <-. apply (PrimSize_fields t _ HJ); clear; destruct t; reflexivity.
  - cbn [decrst_one] in H. apply Ok_inj in H as <-. apply (PrimSize_fields t _ HJ); clear; destruct t; reflexivity.
  - exact (PrimSize_prim t' HT' A).
  - cbn [decrst_one] in H. apply Ok_inj in H as <-.
    destruct (restore_cursor_fields_eq t) as (Q1 & Q2 & Q3 & Q4 & _ & _ & _ & _ & _ & _ & Q11 & _).
    exact (PrimSize_fields t _ HJ Q11 Q2 Q1 Q3 Q4).
  - exact (PrimSize_prim t' HT' A).
Qed.

Lemma decset_PrimSize ms : forall t t',
  TInv t -> PrimSize t -> execute t (Decset ms) = Ok t' -> PrimSize t'.
Proof.
  induction ms as [|m ms IH]; intros t t' HT HJ H.
  - rewrite exec_decset_nil in H. apply Ok_inj in H as <-. exact HJ.
  - rewrite exec_decset_cons in H. apply bind_ok in H as (t1 & H1 & H).
    exact (IH t1 t' (decset_one_TInv _ _ _ HT H1) (decset_one_PrimSize _ _ _ HT HJ H1) H).
Qed.

Lemma decrst_PrimSize ms : forall t t',
  TInv t -> PrimSize t -> execute t (Decrst ms) = Ok t' -> PrimSize t'.
Proof.
  induction ms as [|m ms IH]; intros t t' HT HJ H.
  - rewrite exec_decrst_nil in H. apply Ok_inj in H as <-. exact HJ.
  - rewrite exec_decrst_cons in H. apply bind_ok in H as (t1 & H1 & H).
    exact (IH t1 t' (decrst_one_TInv _ _ _ HT H1) (decrst_one_PrimSize _ _ _ HT HJ H1) H).
Qed.

(** without a resize the parked primary buffer keeps the size of the terminal *)
Lemma exec_PrimSize t f t' : TInv t -> PrimSize t -> execute t f = Ok t' -> PrimSize t'.
Proof.
  intros HT HJ H.
  assert (HT' : TInv t').
  { destruct (execute_ok t f HT) as (t'' & E & HT''). rewrite H in E. apply Ok_inj in E as ->. exact HT''. }
  destruct (active t') eqn:Ea'; [exact (PrimSize_prim t' HT' Ea')|].
  destruct (size_frame t f t' (ti_xtw t HT) H) as [Sc Sr].
  pose proof (active_frame t f t' H) as Fa. pose proof (other_frame t f t' H) as Fo.
  destruct f;
    try (rewrite Fa in Ea'; exact (PrimSize_keep t t' HJ Ea' (eq_trans Fa Ea') Fo Sc Sr)).
  - exact (decrst_PrimSize ms t t' HT HJ H).
  - exact (decset_PrimSize ms t t' HT HJ H).
  - exfalso. cbn [execute] in H. apply Ok_inj in H as <-. revert Ea'. clear. destruct t; discriminate.
  - rewrite (xtwinops_noop _ _ _ (ti_xtw t HT) H). exact HJ.
Qed.

Lemma run_PrimSize fs : forall t1 t2,
  TInv t1 -> PrimSize t1 -> rrun (map RF fs) t1 = Ok t2 -> PrimSize t2.
Proof.
  induction fs as [|f fs IH]; intros t1 t2 HT HJ H.
  - cbn [map] in H. rewrite rrun_nil in H. apply Ok_inj in H as <-. exact HJ.
  - cbn [map] in H. rewrite rrun_cons_f in H. apply bind_ok in H as (t' & H1 & H).
    assert (HT' : TInv t').
    { destruct (execute_ok t1 f HT) as (t'' & E & HT''). rewrite H1 in E. apply Ok_inj in E as ->. exact HT''. }
    exact (IH t' t2 HT' (exec_PrimSize t1 f t' HT HJ H1) H).
Qed.

Theorem C17_roundtrip_1049 : forall t t1 fs t2 t3,
  TInv t -> active t = Primary ->
  execute t (Decset [SaveCursorAltScreenBuffer]) = Ok t1 ->
  rrun (map RF fs) t1 = Ok t2 ->
  no_save_reset_on Primary Alternate (map RF fs) = true ->
  execute t2 (Decrst [SaveCursorAltScreenBuffer]) = Ok t3 ->
  active t1 = Alternate /\ active t3 = Primary
  /\ cur_col t3 = viscol t /\ cur_row t3 = cur_row t
  /\ tpen t3 = tpen t /\ org t3 = org t /\ awm t3 = awm t /\ pend t3 = false.
Proof.
  intros t t1 fs t2 t3 HT Ea H1 H2 Hsafe H3.
  destruct (save_establishes t (Decset [SaveCursorAltScreenBuffer]) t1 HT I H1) as (HT1 & Sc & Sr & K1).
  rewrite Ea in K1.
  destruct (C17_1049h t t1 HT H1) as (Ea1 & _).
  assert (Hok : forallb rop_ok (map RF fs) = true).
  { apply forallb_forall. intros o Ho. apply in_map_iff in Ho as (f & <- & _). reflexivity. }
  assert (Hnr : no_resize (map RF fs) = true).
  { apply forallb_forall. intros o Ho. apply in_map_iff in Ho as (f & <- & _). reflexivity. }
  rewrite <- Ea1 in Hsafe.
  destruct (C17_run_saved true Primary _ t1 t2 HT1 Hok H2 Hsafe) as (HT2 & _ & _ & K2).
  rewrite K1, Sc, Sr in K2.
  rewrite (run_ctx_no_resize _ _ _ _ _ _ Hnr Hsafe (clamp_inside _ _ _ (saved_now_inv t HT))) in K2.
  pose proof (exec_PrimSize t _ t1 HT (PrimSize_prim t HT Ea) H1) as HJ1.
  destruct (run_PrimSize fs t1 t2 HT1 HJ1 H2) as [J1 J2].
  destruct (C17_decrst_scasb t2 t3 HT2 H3) as (B1 & B2 & B3 & B4 & _ & _ & B7). cbv zeta in *.
  destruct (B7 J1 J2) as [B8 B9]. rewrite K2 in *.
  destruct (C17_1049l t2 t3 HT2 H3) as (Ea3 & _).
  repeat split; assumption.
Qed.
Print Assumptions C17_roundtrip_1049.

(** * 4. DECSTR re-initialises the saved context of the screen shown (DEC STD 070; a known
      deviation from the literal quantifier of the property, which lists the soft reset among
      the inputs a round trip survives): save; DECSTR; restore gives the power-on defaults *)
Lemma decstr_sctx t t' : execute t Decstr = Ok t' -> sctx t' = default_ctx.
Proof. intros H. cbn [execute] in H. apply Ok_inj in H as <-. destruct t; reflexivity. Qed.

Theorem C17_decstr_resets_saved : forall t fsave t1 t2 frest t3,
  match fsave with Decsc | Scosc | Decset [SaveCursor] => True | _ => False end ->
  execute t fsave = Ok t1 -> execute t1 Decstr = Ok t2 ->
  is_restore frest -> execute t2 frest = Ok t3 ->
  cur_col t3 = 0 /\ cur_row t3 = 0 /\ tpen t3 = default_pen /\ org t3 = false /\ awm t3 = true
  /\ pend t3 = false.
Proof.
  intros t fsave t1 t2 frest t3 _ _ H2 Hf H3.
  exact (C17_restore_default t2 frest t3 (decstr_sctx t1 t2 H2) Hf H3).
Qed.
Print Assumptions C17_decstr_resets_saved.

(** * Examples (non-vacuity, refutations) *)
Local Open Scope string_scope.

(** [C17_roundtrip]: saved on the primary screen at column 2 of row 0 with a bold pen; the run
    moves, prints, visits the alternate screen (where it saves, soft-resets and enters ?1049h
    again: all on the OTHER screen), comes back, restores once in between, then changes the pen,
    the origin mode, the auto-wrap mode and the position; the restore brings all five back *)
Definition rt_fs : list func :=
  [Cup 3 5; Print 120; Decset [AltScreenBuffer]; Decsc; Decstr; Print 121;
   Decset [SaveCursorAltScreenBuffer]; Decrst [AltScreenBuffer]; Decrc; Sgr [Reset];
   Decset [Origin]; Decrst [AutoWrap]; Cup 2 2; Sgr [SetItalic]].

Example C17_roundtrip_nonvacuous :
  match feed_str (vt_new 10 5 None) (str "ab" ++ (27%N :: str "[1m")) with
  | Ok (v, _) =>
    let t := vterm v in
    match execute t Decsc with
    | Ok t1 =>
      match rrun (map RF rt_fs) t1 with
      | Ok t2 =>
        match execute t2 Decrc with
        | Ok t3 =>
          no_save_reset_on (active t) (active t1) (map RF rt_fs) = true /\ active t2 = active t
          /\ (viscol t, cur_row t, intensity (tpen t), attrs (tpen t), org t, awm t)
             = (2, 0, Bold, 0%N, false, true)
          /\ (cur_col t2, cur_row t2, intensity (tpen t2), attrs (tpen t2), org t2, awm t2)
             = (1, 1, Normal, 1%N, true, false)
          /\ (cur_col t3, cur_row t3, intensity (tpen t3), attrs (tpen t3), org t3, awm t3)
             = (2, 0, Bold, 0%N, false, true)
        | Panic _ => False
        end
      | Panic _ => False
      end
    | Panic _ => False
    end
  | Panic _ => False
  end.
Proof. vm_compute. repeat split. Qed.

(** the hypothesis is needed and the checker is not trivially true: a save on the same screen,
    a soft reset on it, a hard reset anywhere, ?1049h from it are all rejected; the same
    functions executed while the other screen is shown are accepted *)
Example no_save_reset_on_rejects :
  no_save_reset_on Primary Primary [RF Decsc] = false
  /\ no_save_reset_on Primary Primary [RF Scosc] = false
  /\ no_save_reset_on Primary Primary [RF (Decset [SaveCursor])] = false
  /\ no_save_reset_on Primary Primary [RF (Decset [SaveCursorAltScreenBuffer])] = false
  /\ no_save_reset_on Primary Primary [RF (Decset [AutoWrap; SaveCursor])] = false
  /\ no_save_reset_on Primary Primary [RF Decstr] = false
  /\ no_save_reset_on Primary Primary [RF Ris] = false
  /\ no_save_reset_on Primary Alternate [RF Ris] = false
  /\ no_save_reset_on Primary Primary [RF (Decset [AltScreenBuffer]); RF (Decrst [AltScreenBuffer]); RF Decsc] = false
  /\ no_save_reset_on Primary Primary [RF (Decset [AltScreenBuffer; SaveCursor])] = true
  /\ no_save_reset_on Primary Primary [RF (Decset [AltScreenBuffer]); RF Decsc; RF Decstr;
                                       RF (Decset [SaveCursorAltScreenBuffer])] = true
  /\ no_save_reset_on Alternate Primary [RF Decsc; RF Decstr; RF (Decset [SaveCursorAltScreenBuffer])] = true
  /\ no_save_reset_on Alternate Primary [RF (Decset [SaveCursorAltScreenBuffer; SaveCursor])] = false.
Proof. vm_compute. repeat split. Qed.

(** [C17_roundtrip_current_size_refuted]: saved at column 15 of a 20-column screen, shrunk to 10
    columns and grown back to 20: the restore goes to column 9 ([run_ctx]), not to column 15 =
    the saved column clamped into the current size *)
Definition rs_os : list rop := [RResize 10 5; RResize 20 5].

Example C17_roundtrip_current_size_refuted :
  match feed_str (vt_new 20 5 None) (27%N :: str "[1;16H") with
  | Ok (v, _) =>
    let t := vterm v in
    match execute t Decsc with
    | Ok t1 =>
      match rrun rs_os t1 with
      | Ok t2 =>
        match execute t2 Decrc with
        | Ok t3 =>
          no_save_reset_on (active t) (active t1) rs_os = true /\ forallb rop_ok rs_os = true
          /\ active t2 = active t /\ cols t2 = 20 /\ viscol t = 15
          /\ sc_col (clamp_ctx (spec_saved_now t) (cols t2) (rows t2)) = 15
          /\ cur_col t3 = 9
          /\ sc_col (run_ctx (active t) (active t1) (cols t) (rows t) (spec_saved_now t) rs_os) = 9
        | Panic _ => False
        end
      | Panic _ => False
      end
    | Panic _ => False
    end
  | Panic _ => False
  end.
Proof. vm_compute. repeat split. Qed.

(** [C17_roundtrip_run] / [C17_roundtrip_current_size_partial]: saved at column 15 of row 4 on a
    20x5 screen; shrunk to 15x5, to 10x4 while the alternate screen is shown, back to the
    primary: the restore goes to column 9 of row 3 *)
Definition rp_os : list rop :=
  [RResize 15 5; RF (Decset [AltScreenBuffer]); RResize 10 4; RF (Decrst [AltScreenBuffer])].

Example C17_roundtrip_resized_nonvacuous :
  match feed_str (vt_new 20 5 None) (27%N :: str "[5;16H") with
  | Ok (v, _) =>
    let t := vterm v in
    match execute t Decsc with
    | Ok t1 =>
      match rrun rp_os t1 with
      | Ok t2 =>
        match execute t2 Decrc with
        | Ok t3 =>
          no_save_reset_on (active t) (active t1) rp_os = true /\ forallb rop_ok rp_os = true
          /\ active t2 = active t /\ cols t2 = 10 /\ rows t2 = 4 /\ viscol t = 15 /\ cur_row t = 4
          /\ sizes_ge (cols t2) (rows t2) rp_os = true
          /\ cur_col t3 = 9 /\ cur_row t3 = 3
        | Panic _ => False
        end
      | Panic _ => False
      end
    | Panic _ => False
    end
  | Panic _ => False
  end.
Proof. vm_compute. repeat split. Qed.

(** [C17_roundtrip_1049]: entered at column 2 with a bold pen; on the alternate screen the
    cursor, pen and modes are changed, a context is saved and a soft reset executed; ?1049l
    brings everything back *)
Definition ex_fs : list func :=
  [Cup 3 5; Print 120; Sgr [Reset]; Sgr [SetItalic]; Decsc; Decstr; Decset [Origin]; Decrst [AutoWrap]].

Example C17_roundtrip_1049_nonvacuous :
  match feed_str (vt_new 10 5 None) (str "ab" ++ (27%N :: str "[1m")) with
  | Ok (v, _) =>
    let t := vterm v in
    match execute t (Decset [SaveCursorAltScreenBuffer]) with
    | Ok t1 =>
      match rrun (map RF ex_fs) t1 with
      | Ok t2 =>
        match execute t2 (Decrst [SaveCursorAltScreenBuffer]) with
        | Ok t3 =>
          active t = Primary /\ no_save_reset_on Primary Alternate (map RF ex_fs) = true
          /\ active t2 = Alternate
          /\ (cur_col t2, cur_row t2, intensity (tpen t2), org t2, awm t2) = (0, 0, Normal, true, false)
          /\ (cur_col t3, cur_row t3, intensity (tpen t3), org t3, awm t3) = (2, 0, Bold, false, true)
        | Panic _ => False
        end
      | Panic _ => False
      end
    | Panic _ => False
    end
  | Panic _ => False
  end.
Proof. vm_compute. repeat split. Qed.

(** [C17_restore_unsaved_new]: nothing is ever saved on the primary screen (a save on the
    alternate screen, a soft reset, prints, mode changes); the restore goes to column 0 of row 0
    with auto-wrap on *)
Definition un_os : list rop :=
  [RF (Print 97); RF (Decset [AltScreenBuffer]); RF Decsc; RF (Decrst [AltScreenBuffer]);
   RF (Sgr [SetItalic]); RF Decstr; RF (Decrst [AutoWrap]); RF (Print 98)].

Example C17_restore_unsaved_nonvacuous :
  match rrun un_os (vterm (vt_new 10 5 None)) with
  | Ok t2 =>
    match execute t2 Decrc with
    | Ok t3 =>
      no_save_on Primary Primary un_os = true /\ active t2 = Primary
      /\ cur_col t2 = 2 /\ awm t2 = false /\ cur_col t3 = 0 /\ cur_row t3 = 0 /\ awm t3 = true
    | Panic _ => False
    end
  | Panic _ => False
  end.
Proof. vm_compute. repeat split. Qed.

(** [C17_decstr_resets_saved] from the characters: a fresh 10x5 terminal fed "ab", ESC 7,
    CSI ! p, "c" has the cursor at column 3 and the saved context reset; ESC 8 puts the cursor
    at column 0 of row 0.  Without the soft reset the same input restores column 2. *)
Example C17_decstr_resets_saved_witness :
  match feed_str (vt_new 10 5 None) (str "ab" ++ [27%N; 55%N] ++ (27%N :: str "[!p") ++ str "c") with
  | Ok (v, _) =>
    match feed_str v [27%N; 56%N] with
    | Ok (v', _) =>
      cur_col (vterm v) = 3 /\ cur_row (vterm v) = 0 /\ sctx (vterm v) = default_ctx
      /\ cur_col (vterm v') = 0 /\ cur_row (vterm v') = 0
    | Panic _ => False
    end
  | Panic _ => False
  end
  /\
  match feed_str (vt_new 10 5 None) (str "ab" ++ [27%N; 55%N] ++ str "c") with
  | Ok (v, _) =>
    match feed_str v [27%N; 56%N] with
    | Ok (v', _) => cur_col (vterm v) = 3 /\ cur_col (vterm v') = 2 /\ cur_row (vterm v') = 0
    | Panic _ => False
    end
  | Panic _ => False
  end.
Proof. vm_compute. repeat split. Qed.
